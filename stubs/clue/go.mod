module goa.design/clue

go 1.22.0

require (
	goa.design/goa/v3 v3.0.0
	google.golang.org/grpc v1.67.1
)
