// Package log is a type-level stand-in for goa.design/clue/log (not available offline): just enough
// surface for the output of `goa example` to type-check. Behaviour is irrelevant to the checks.
package log

import (
	"context"
	"fmt"
	"net/http"
	"os"

	goa "goa.design/goa/v3/pkg"
	"google.golang.org/grpc"
)

type (
	KV struct {
		K string
		V any
	}
	Fielder interface{ LogFields() []KV }
	FormatFunc func(e *Entry) []byte
	Entry      struct{}
	LogOption  func(*options)
	options    struct{}
	HTTPLogOption func(*options)
	GRPCLogOption func(*options)
)

func (kv KV) LogFields() []KV { return []KV{kv} }

func Context(ctx context.Context, opts ...LogOption) context.Context { return ctx }
func WithFormat(f FormatFunc) LogOption                              { return func(*options) {} }
func WithDebug() LogOption                                           { return func(*options) {} }
func WithFunc(fn func(string, ...any)) LogOption                      { return func(*options) {} }
func IsTerminal() bool                                               { return false }
func FormatJSON(e *Entry) []byte                                     { return nil }
func FormatTerminal(e *Entry) []byte                                 { return nil }
func FormatText(e *Entry) []byte                                     { return nil }
func Debugf(ctx context.Context, format string, v ...any)            {}
func Debug(ctx context.Context, kvs ...Fielder)                      {}
func Printf(ctx context.Context, format string, v ...any)            {}
func Print(ctx context.Context, kvs ...Fielder)                      {}
func Info(ctx context.Context, kvs ...Fielder)                       {}
func Infof(ctx context.Context, format string, v ...any)             {}
func Error(ctx context.Context, err error, kvs ...Fielder)           {}
func Errorf(ctx context.Context, err error, format string, v ...any) {}
func Fatal(ctx context.Context, err error, kvs ...Fielder)           { os.Exit(1) }
func Fatalf(ctx context.Context, err error, format string, v ...any) { fmt.Println(err); os.Exit(1) }
func With(ctx context.Context, kvs ...Fielder) context.Context       { return ctx }
func HTTP(ctx context.Context, opts ...HTTPLogOption) func(http.Handler) http.Handler {
	return func(h http.Handler) http.Handler { return h }
}
func Endpoint(e goa.Endpoint) goa.Endpoint { return e }
func UnaryServerInterceptor(ctx context.Context, opts ...GRPCLogOption) grpc.UnaryServerInterceptor {
	return func(ctx context.Context, req any, info *grpc.UnaryServerInfo, handler grpc.UnaryHandler) (any, error) {
		return handler(ctx, req)
	}
}
func StreamServerInterceptor(ctx context.Context, opts ...GRPCLogOption) grpc.StreamServerInterceptor {
	return func(srv any, ss grpc.ServerStream, info *grpc.StreamServerInfo, handler grpc.StreamHandler) error {
		return handler(srv, ss)
	}
}
