// Package debug is a type-level stand-in for goa.design/clue/debug (not available offline).
package debug

import (
	"context"
	"net/http"

	goa "goa.design/goa/v3/pkg"
	"google.golang.org/grpc"
)

type (
	Muxer interface {
		http.Handler
		Handle(method, pattern string, handler http.HandlerFunc)
	}
	DebugLogEnablerOption func()
	PprofOption           func()
	LogPayloadsOption     func()
)

func Adapt(m interface {
	Handle(method, pattern string, handler http.HandlerFunc)
	ServeHTTP(http.ResponseWriter, *http.Request)
}) Muxer {
	return m
}
func HTTP() func(http.Handler) http.Handler { return func(h http.Handler) http.Handler { return h } }
func LogPayloads(opts ...LogPayloadsOption) func(goa.Endpoint) goa.Endpoint {
	return func(e goa.Endpoint) goa.Endpoint { return e }
}
func MountDebugLogEnabler(mux Muxer, opts ...DebugLogEnablerOption) {}
func MountPprofHandlers(mux Muxer, opts ...PprofOption)            {}
func UnaryServerInterceptor() grpc.UnaryServerInterceptor {
	return func(ctx context.Context, req any, info *grpc.UnaryServerInfo, handler grpc.UnaryHandler) (any, error) {
		return handler(ctx, req)
	}
}
func StreamServerInterceptor() grpc.StreamServerInterceptor {
	return func(srv any, ss grpc.ServerStream, info *grpc.StreamServerInfo, handler grpc.StreamHandler) error {
		return handler(srv, ss)
	}
}
