#!/bin/bash
# seedsweep.sh "<seeds>" <check ids...>: runs quick tiers with several seeds, prints one line per run
seeds=$1; shift
for s in $seeds; do for c in "$@"; do
  out=$(VERIF_SEED=$s ./check $c --tier quick 2>&1); rc=$?
  echo "seed=$s $c exit=$rc $(echo "$out" | grep -c '^VIOLATION') violations; $(echo "$out" | tail -1 | cut -c1-120)"
done; done
