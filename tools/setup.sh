#!/bin/sh
# Offline setup: parse every specification module and pre-build the harness.
set -e
cd "$(dirname "$0")/.."
export GOFLAGS=-mod=mod GOPROXY=off GOSUMDB=off GOTOOLCHAIN=local
cp /repo/go.sum harness/go.sum
T=$(mktemp -d)
trap 'rm -rf "$T"' EXIT
find spec -name '*.tla' -exec cp {} "$T"/ \;
( cd "$T" && for f in *.tla; do
    JAVA_TOOL_OPTIONS="-Djava.io.tmpdir=$T" java -cp /opt/veriftools/tla/tla2tools.jar:/opt/veriftools/tla/CommunityModules-deps.jar tla2sany.SANY "$f" >"$T/sany.out" 2>&1 || { tail -5 "$T/sany.out"; echo "WARNING: SANY failed on $f"; }
  done )
( cd harness && go build -tags verif ./cmd/... ./rt/... ./design/... ./dslbuild/... ./vio/... && for d in drivers/*/; do go build -tags verif -o /dev/null "./$d" || echo "WARNING: $d does not build (hook or fix not landed yet?)"; done )
echo setup ok
