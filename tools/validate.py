#!/usr/bin/env python3
"""Validates MANIFEST.json and evidence/*.json against the schemas (needs jsonschema: run with python3-vt)."""
import json, glob, sys
import jsonschema
ok = True
def check(path, schema):
    global ok
    try:
        jsonschema.validate(json.load(open(path)), json.load(open(schema)))
        print("valid  ", path)
    except Exception as e:
        ok = False
        print("INVALID", path, str(e)[:300])
check("/verif/MANIFEST.json", "/root/.vp/MANIFEST.schema.json")
for p in sorted(glob.glob("/verif/evidence/*.json")):
    check(p, "/root/.vp/EVIDENCE.schema.json")
sys.exit(0 if ok else 1)
