#!/bin/bash
# seedfile.sh <PROP> <worktree> "<confirmation text>" <check ids...>
# Files a seeded change whose demonstration was confirmed by hand, and records which checks catch it.
P=$1; WT=$2; CONF=$3; shift 3
n=1; while [ -e /verif/seeded/$P-$n ]; do n=$((n+1)); done
OUT=/verif/seeded/$P-$n; mkdir -p $OUT
cp /tmp/seeded/$P/patch.diff /tmp/seeded/$P/DEMO.md $OUT/ 2>/dev/null
for d in seeded_demo seeded_demo_e2e; do [ -d /tmp/seeded/$P/$d ] && rsync -a --exclude gen --exclude '*.sum' /tmp/seeded/$P/$d $OUT/; done
cp /tmp/seeded/$P/*.go $OUT/ 2>/dev/null
RES=""
cd /verif
for c in "$@"; do
  ./check $c --tier quick --repo $WT > /tmp/seeded/$P/check-$c.log 2>&1; rc=$?
  RES="$RES$c:exit=$rc;"; echo "check $c exit=$rc $(grep '^  key=' /tmp/seeded/$P/check-$c.log | head -1 | cut -c1-200)"
done
python3 - "$P" "$OUT" "$RES" "$CONF" <<'PY'
import json,sys,os
p,out,res,conf=sys.argv[1:5]
try: meta=json.load(open('/tmp/seeded/%s/meta.json'%p))
except Exception: meta={"property":p}
meta["confirmed"]=conf; meta["checks_run"]=res
json.dump(meta,open(os.path.join(out,'meta.json'),'w'),indent=1)
PY
