#!/bin/bash
# seedtest.sh <PROP> <worktree> <go test pkg> <TestName> [check ids...]
# Confirms a seeded change (demo fails with it / passes without it / package tests pass with it),
# runs the given checks against the worktree, and files everything under /verif/seeded/<PROP>-<n>/.
set -u
P=$1; WT=$2; PKG=$3; TEST=$4; shift 4; CHECKS=${@:-$P}
export GOFLAGS=-mod=mod GOPROXY=off GOSUMDB=off GOTOOLCHAIN=local
SRC=/tmp/seeded/$P
n=1; while [ -e /verif/seeded/$P-$n ]; do n=$((n+1)); done
OUT=/verif/seeded/$P-$n; mkdir -p $OUT
cd $WT
DEMO=$(git status --porcelain | grep '^??' | awk '{print $2}' | head -5)
echo "demo files: $DEMO"
git diff > $OUT/patch.diff
with=$(go test $PKG -run "$TEST" -count=1 2>&1 | tail -3)
echo "$with" | grep -q "^FAIL\|FAIL" && W=fail || W=pass
git stash -q
without=$(go test $PKG -run "$TEST" -count=1 2>&1 | tail -3)
echo "$without" | grep -q "^ok" && WO=pass || WO=fail
git stash pop -q
# existing tests with the change, demo moved aside
mkdir -p /tmp/seeded/$P/aside; for f in $DEMO; do [ -f "$f" ] && mv "$f" /tmp/seeded/$P/aside/; done
existing=$(go build ./... 2>&1 | tail -2; go test -count=1 $PKG 2>&1 | tail -2)
echo "$existing" | grep -q "^ok" && EX=pass || EX=fail
for f in /tmp/seeded/$P/aside/*; do [ -f "$f" ] && cp "$f" $OUT/; done
cp $SRC/DEMO.md $OUT/ 2>/dev/null
echo "with=$W without=$WO existing=$EX"
RES=""
cd /verif
for c in $CHECKS; do
  ./check $c --tier quick --repo $WT > /tmp/seeded/$P/check-$c.log 2>&1; rc=$?
  k=$(grep "^  key=" /tmp/seeded/$P/check-$c.log | head -3 | cut -c1-200 | tr '\n' '|')
  echo "check $c exit=$rc $k"
  RES="$RES{\"check\":\"$c\",\"exit\":$rc,\"keys\":$(python3 -c "import json,sys; print(json.dumps(sys.argv[1]))" "$k")},"
done
python3 - "$P" "$OUT" "$W" "$WO" "$EX" "[${RES%,}]" "$PKG" "$TEST" <<'PY'
import json,sys,os
p,out,w,wo,ex,res,pkg,test=sys.argv[1:9]
meta={}
try: meta=json.load(open('/tmp/seeded/%s/meta.json'%p))
except Exception as e: meta={"property":p}
meta["confirmed"]={"demo_with_change":w,"demo_without_change":wo,"existing_package_tests_with_change":ex,"demo_command":"go test %s -run %s -count=1"%(pkg,test)}
meta["checks_run"]=json.loads(res)
json.dump(meta,open(os.path.join(out,'meta.json'),'w'),indent=1)
print(json.dumps(meta["checks_run"]))
PY
