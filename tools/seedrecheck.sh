#!/bin/bash
# seedrecheck.sh <seeded dir name, e.g. C07c-1> <worktree> "<note>" <check ids...>
# Re-runs checks against the worktree holding a filed seeded change and appends the results to its meta.json.
S=$1; WT=$2; NOTE=$3; shift 3
cd /verif
for c in "$@"; do
  log=$(mktemp); ./check $c --tier quick --repo $WT > $log 2>&1; rc=$?
  keys=$(grep '^  key=' $log | head -3 | cut -c1-200 | tr '\n' '|')
  echo "check $c exit=$rc $keys"
  python3 - "$S" "$c" "$rc" "$keys" "$NOTE" <<'PY'
import json,sys
s,c,rc,keys,note=sys.argv[1:6]
p='/verif/seeded/%s/meta.json'%s
m=json.load(open(p))
cr=m.get('checks_run')
if not isinstance(cr,list): cr=[{"check":"?","result":cr}] if cr else []
cr.append({"check":c,"exit":int(rc),"keys":keys,"note":note})
m['checks_run']=cr
json.dump(m,open(p,'w'),indent=1)
PY
  rm -f $log
done
