#!/bin/sh
# Runs the Streaming growth module (beyond the list of claimed properties) alone, with a context like ./check makes:
#   tools/streaming.sh [quick|thorough] [--repo DIR] [--seed N] [--keep]
# Evidence only: prints the summary, writes replays/streaming/last.json; exit 0 unless the machinery itself failed (2).
cd "$(dirname "$0")/.." || exit 2
exec python3 - "$@" <<'PY'
import argparse, json, os, sys, traceback
sys.path.insert(0, os.getcwd())
from vlib import core
from checks import streaming
ap = argparse.ArgumentParser()
ap.add_argument("tier", nargs="?", default="quick", choices=["quick", "thorough"])
ap.add_argument("--repo", default=os.environ.get("VERIF_REPO") or "/repo")
ap.add_argument("--seed", type=int, default=int(os.environ.get("VERIF_SEED") or 1))
ap.add_argument("--keep", action="store_true")
a = ap.parse_args()
ctx = core.Ctx("STREAMING", a.tier, abs(a.seed) % (2 ** 31 - 1) or 1, repo=a.repo, keep=a.keep)
ctx.selftest = False
rc = 0
try:
    st = streaming.run_streaming(ctx)
    os.makedirs(os.path.join(core.VERIF, "replays", "streaming"), exist_ok=True)
    json.dump({"tier": a.tier, "seed": ctx.seed, "repo": ctx.repo, "streaming": st, "notes": ctx.notes},
              open(os.path.join(core.VERIF, "replays", "streaming", "last.json"), "w"), indent=1, default=str)
    print(json.dumps({k: v for k, v in st.items() if k != "tlc_runs"}, indent=1, default=str))
    for n in ctx.notes:
        print("NOTE:", n)
except core.Infra as e:
    print("INFRA: %s" % e, file=sys.stderr)
    rc = 2
except Exception:
    traceback.print_exc()
    rc = 2
finally:
    if a.keep:
        print("scratch kept at", ctx.scratch, file=sys.stderr)
    ctx.cleanup()
sys.exit(rc)
PY
