#!/usr/bin/env python3
"""Writes /verif/MANIFEST.json from the table below (single source of truth for what is claimed)."""
import json, os, subprocess
V = os.path.dirname(os.path.dirname(os.path.abspath(__file__)))

BASELINE_OFF = ("cd /repo && GOFLAGS=-mod=mod GOPROXY=off GOSUMDB=off GOTOOLCHAIN=local "
                "go test -json -vet=off -count=1 -timeout 25m ./...")

# id -> dict(text, note, technique, design_ref) for claimed properties
CLAIMED = {}
# id -> reason for properties not (yet) claimed
NOT_APPLICABLE = {}

def claim(pid, text, note, technique, ref):
    CLAIMED[pid] = dict(text=text, note=note, technique=technique, ref=ref)

exec(open(os.path.join(V, "tools", "claims.py")).read())

def hook_commits():
    try:
        out = subprocess.run(["git", "-C", "/repo", "log", "--format=%H %s"], capture_output=True, text=True).stdout
        return [l.split()[0] for l in out.splitlines() if l.split(" ", 1)[1].startswith("verif hook:")]
    except Exception:
        return []

m = {
    "version": 1,
    "setup_cmd": "./tools/setup.sh",
    "hooks": {
        "guard": "verif",
        "enable": "go build -tags verif (the harness module replaces goa.design/goa/v3 with /repo and always builds with -tags verif)",
        "baseline_off_cmd": BASELINE_OFF,
        "source_commits": hook_commits(),
        "add_only": True,
    },
    "engines": [
        {"name": "tlc", "path": "vlib/core.py", "serves_properties": sorted(CLAIMED),
         "kind_free_text": "TLC model checking of spec/*.tla, TLC vector generation (Emit), TLC batch trace validation (Trace_*.tla, high-water mark)"},
        {"name": "drivers", "path": "harness/", "serves_properties": sorted(CLAIMED),
         "kind_free_text": "Go drivers that execute the real goa code (built from /repo with -tags verif) on TLC-generated cases and record observations / traces"},
    ],
    "checks": [],
    "not_applicable": [{"property_id": k, "reason": v} for k, v in sorted(NOT_APPLICABLE.items())],
    "notes": "Every check: ./check <ID> --tier quick|thorough; exit 0 held / 1 VIOLATION / 2 machinery trouble. known_findings.txt lists recorded findings and fixed defects.",
}
for pid in sorted(CLAIMED):
    c = CLAIMED[pid]
    m["checks"].append({
        "property_id": pid,
        "quick_cmd": "./check %s --tier quick" % pid,
        "thorough_cmd": "./check %s --tier thorough" % pid,
        "evidence_file": "/verif/evidence/%s.json" % pid,
        "replay_cmd_template": "./check %s --replay {path}" % pid,
        "engine": "tlc+drivers",
        "level_claimed": {"category": "model_checking", "text": c["text"], "design_ref": c["ref"]},
        "level_note": c["note"],
        "technique": c["technique"],
    })
json.dump(m, open(os.path.join(V, "MANIFEST.json"), "w"), indent=1)
print("MANIFEST.json: %d claimed, %d not_applicable" % (len(CLAIMED), len(NOT_APPLICABLE)))
