#!/bin/bash
# thoroughsweep.sh <check ids...>: runs thorough tiers one after the other, one summary line each
for c in "$@"; do
  s=$(date +%s); out=$(./check $c --tier thorough 2>&1); rc=$?
  echo "$c exit=$rc $(( $(date +%s) - s ))s $(echo "$out" | grep -c '^VIOLATION') violations; $(echo "$out" | grep 'INFRA' | head -1 | cut -c1-200) $(echo "$out" | tail -1 | cut -c1-120)"
done
