# Claims table (exec'd by mkmanifest.py).
ALL = ["C%02d" % i for i in range(1, 21)]

claim("C18",
      "ErrorAlgebra.tla is model-checked exhaustively (all leaf vectors of length <=3 [quick] / <=4 [thorough] x every parenthesisation, all status cases); "
      "every enumerated case is evaluated on the real goa.MergeErrors, ErrorResponse.StatusCode, grpc.EncodeError/DecodeError and compared with the model's "
      "predicted observable; random 5-8-leaf trees evaluated by the real code are validated by TLC as a trace against the same operators.",
      "Trusted: the projection in harness/drivers/errors (message m<i>, field f<i>, errors.Is for causes), Go's errors package, TLC. "
      "The status tables in the spec are transcribed from the doc comments and bodies of StatusCode/EncodeError.",
      "TLC exhaustive model checking + TLC-generated vectors replayed on real code + TLC trace validation", "DESIGN.md 6 (C18)")

for p in ALL:
    if p not in CLAIMED:
        NOT_APPLICABLE[p] = "check not built yet in this revision (planned with the same technique, see DESIGN.md section 6)"
