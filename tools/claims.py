# Claims table (exec'd by mkmanifest.py).
ALL = ["C%02d" % i for i in range(1, 21)]

claim("C18",
      "ErrorAlgebra.tla is model-checked exhaustively (all leaf vectors of length <=3 [quick] / <=4 [thorough] x every parenthesisation, all status cases); "
      "every enumerated case is evaluated on the real goa.MergeErrors, ErrorResponse.StatusCode, grpc.EncodeError/DecodeError and compared with the model's "
      "predicted observable; random 5-8-leaf trees evaluated by the real code are validated by TLC as a trace against the same operators.",
      "Trusted: the projection in harness/drivers/errors (message m<i>, field f<i>, errors.Is for causes), Go's errors package, TLC. "
      "The status tables in the spec are transcribed from the doc comments and bodies of StatusCode/EncodeError.",
      "TLC exhaustive model checking + TLC-generated vectors replayed on real code + TLC trace validation", "DESIGN.md 6 (C18)")


HTTP_NOTE = ("Trusted: genhost (abstract design -> public DSL calls), mkrunner/rt (reflection glue, tap through net/http request serialisation and "
             "re-parsing), the concretisation/projection functions in vlib/httpgen.py, encoding/json, go build. TLC enumerates one-attribute method shapes "
             "exhaustively (quick: a seeded 20-25% sample of the shapes, thorough: all of them plus simulated two-attribute methods); "
             "verdicts come only from the behaviour of the real generated code.")

claim("C01",
      "Toolchain.tla (stage machine dsl->eval->gen->example->typecheck, invariant AcceptedNeverFailsLater) is model-checked; programs are the method shapes TLC "
      "enumerates from the transport envelope (kind x location x nesting x required/optional/default x rule, tagged responses), each packed into a design, "
      "pushed through the real DSL, eval, gen and example generators and compiled with go build; the recorded stage outcomes are validated by TLC as a trace "
      "of Toolchain.tla. Uncompilable methods are re-generated alone to confirm the failure.",
      HTTP_NOTE + " goa.design/clue (imported by example output, absent offline) is a type-level stub (stubs/clue).",
      "TLC-enumerated programs run through the real toolchain + TLC trace validation of stage outcomes", "DESIGN.md 6 (C01)")
claim("C02",
      "HTTPTransport.tla (client encode -> wire -> route -> server decode -> validate -> invoke, oracle AllowedWhere/AllowedDelivered vs mechanism with named "
      "deviations) is model-checked exhaustively for one-attribute methods; every (shape, value class) case is sent through the real generated client, a "
      "socket-faithful tap and the real generated server into a recording stub, and wire location + delivered value are judged against the oracle sets; "
      "mismatches are explained (or not) by re-running the mechanism under each named deviation (Explain_HTTPTransport).",
      HTTP_NOTE, "TLC exhaustive model checking + TLC-generated cases replayed on generated code", "DESIGN.md 6 (C02, C03)")
claim("C03",
      "Result family of HTTPTransport.tla: every (result shape, value class, tagged response) case is returned by the stub behind the real generated server and "
      "read back by the real generated client; status code, response location of each attribute and the returned value are judged against the oracle sets.",
      HTTP_NOTE, "TLC exhaustive model checking + TLC-generated cases replayed on generated code", "DESIGN.md 6 (C02, C03)")
claim("C04",
      "Valid, boundary-invalid and absent values for every rule x kind x nesting x location enumerated by TLC; the model's oracle (Satisfies/Violates, "
      "ViolationNames) decides must-invoke / must-reject, the stub records whether user code ran, status and error name come from the wire; the client side "
      "is exercised by having the stub return results that violate the result constraints.",
      HTTP_NOTE + " Constraints apply to present values (JSON-Schema reading); zero values of defaulted fields are undetermined by design.",
      "TLC exhaustive model checking + TLC-generated cases replayed on generated code", "DESIGN.md 6 (C04)")
claim("C15",
      "Negotiation.tla (ChooseEncoder, SetContentType, Encode, ChooseDecoder, Decode; request side with 415) is model-checked exhaustively over Accept classes x "
      "designed types x pre-set headers x value kinds; every case runs on the real goahttp encoders/decoders with the written body format sniffed by stdlib "
      "decoders; enumerated and random cases are validated by TLC as traces.",
      "Trusted: the 99-entry table of stdlib mime.ParseMediaType facts (re-checked by the driver at run time), stdlib json/xml/gob decoders used to sniff the body, httptest.",
      "TLC exhaustive model checking + vectors replayed on real code + TLC trace validation", "DESIGN.md 6 (C15)")

claim("C19",
      "Middleware.tla (request-id trust/truncate/fresh, trace keep/sample/skip, traced client forwarding, ResponseCapture counters; chains of 1-4 hops) is "
      "model-checked in three slices with 15 deviation guards; every enumerated case runs on the real HTTP middlewares (httptest, WrapDoer chain) and on the "
      "real gRPC unary/stream interceptors (synthetic info/streams, no network) and must be one of the behaviours TLC allows; random cases are validated as traces.",
      "Trusted: the projection of concrete ids to tokens (provenance by prefix), injected TraceIDFunc/SpanIDFunc counters, httptest.ResponseRecorder as the "
      "reference for what was written; fresh request ids assumed 8 characters.",
      "TLC exhaustive model checking + vectors replayed on real code + TLC trace validation", "DESIGN.md 6 (C19)")

for p in ALL:
    if p not in CLAIMED:
        NOT_APPLICABLE[p] = "check not built yet in this revision (planned with the same technique, see DESIGN.md section 6)"
