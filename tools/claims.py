# Claims table (exec'd by mkmanifest.py).
ALL = ["C%02d" % i for i in range(1, 21)]

claim("C18",
      "ErrorAlgebra.tla is model-checked exhaustively (all leaf vectors of length <=3 [quick] / <=4 [thorough] x every parenthesisation, all status cases; every "
      "leaf carries a cause: none, plain, gRPC status by code, wrapped status, GRPCStatus() types, status with its own detail, inner ServiceError); "
      "every enumerated case is evaluated on the real goa.MergeErrors, ErrorResponse.StatusCode, grpc.EncodeError/DecodeError and compared with the model's "
      "predicted observable; random 5-8-leaf trees evaluated by the real code are validated by TLC as a trace against the same operators.",
      "Trusted: the projection in harness/drivers/errors (message m<i>, field f<i>, errors.Is for causes), Go's errors package, TLC. "
      "The status tables in the spec are transcribed from the doc comments and bodies of StatusCode/EncodeError.",
      "TLC exhaustive model checking + TLC-generated vectors replayed on real code + TLC trace validation", "DESIGN.md 6 (C18)")


HTTP_NOTE = ("Trusted: genhost (abstract design -> public DSL calls), mkrunner/rt (reflection glue, tap through net/http request serialisation and "
             "re-parsing; removal of one body member on the wire for the `nofield` values), the concretisation/projection functions in vlib/httpgen.py, "
             "encoding/json, go build. TLC enumerates one-attribute method shapes exhaustively over the envelope of lib/Values.tla (kinds incl. sized "
             "numbers, bytes, any x path/query/header/cookie/body x required/optional/default (declared on the attribute, on the alias type, or on both)/transport-only-required x 15 rules x 21 nestings incl. query "
             "maps, MapParams, whole payloads, defaulted collections, an alias inside a nested type; quick: a seeded stratified sample of the shapes, thorough: all of them) plus seeded "
             "two-attribute methods (same location, twins sharing a type, parameter + cookie, two tagged responses, named payload types) whose oracle and "
             "mechanism TLC recomputes; "
             "verdicts come only from the behaviour of the real generated code.")

claim("C01",
      "Toolchain.tla (stage machine dsl->eval->gen->example->typecheck, invariant AcceptedNeverFailsLater) is model-checked; programs are the method shapes TLC "
      "enumerates from the transport envelope (kind x location x nesting x required/optional/default x rule, tagged responses), each packed into a design, "
      "pushed through the real DSL, eval, gen and example generators and compiled with go build; the recorded stage outcomes are validated by TLC as a trace "
      "of Toolchain.tla. Uncompilable methods are re-generated alone to confirm the failure.",
      HTTP_NOTE + " goa.design/clue (imported by example output, absent offline) is a type-level stub (stubs/clue).",
      "TLC-enumerated programs run through the real toolchain + TLC trace validation of stage outcomes", "DESIGN.md 6 (C01)")
claim("C02",
      "HTTPTransport.tla (client encode -> wire -> route -> server decode -> validate -> invoke, oracle AllowedWhere/AllowedDelivered vs mechanism with named "
      "deviations) is model-checked exhaustively for one-attribute methods; every (shape, value class) case is sent through the real generated client, a "
      "socket-faithful tap and the real generated server into a recording stub, and wire location + delivered value are judged against the oracle sets; "
      "mismatches are explained (or not) by re-running the mechanism under each named deviation (Explain_HTTPTransport).",
      HTTP_NOTE, "TLC exhaustive model checking + TLC-generated cases replayed on generated code", "DESIGN.md 6 (C02, C03)")
claim("C03",
      "Result family of HTTPTransport.tla: every (result shape, value class, tagged response) case is returned by the stub behind the real generated server and "
      "read back by the real generated client; status code, response location of each attribute and the returned value are judged against the oracle sets.",
      HTTP_NOTE, "TLC exhaustive model checking + TLC-generated cases replayed on generated code", "DESIGN.md 6 (C02, C03)")
claim("C04",
      "Valid, boundary-invalid and absent values for every rule x kind x nesting x location enumerated by TLC; the model's oracle (Satisfies/Violates, "
      "ViolationNames) decides must-invoke / must-reject, the stub records whether user code ran, status and error name come from the wire; the client side "
      "is exercised by having the stub return results that violate the result constraints.",
      HTTP_NOTE + " Constraints apply to present values (JSON-Schema reading); zero values of defaulted fields are undetermined by design.",
      "TLC exhaustive model checking + TLC-generated cases replayed on generated code", "DESIGN.md 6 (C04)")
claim("C15",
      "Negotiation.tla (ChooseEncoder, SetContentType, Encode, ChooseDecoder, Decode; request side with 415) is model-checked exhaustively over Accept classes x "
      "designed types x pre-set headers x value kinds; every case runs on the real goahttp encoders/decoders with the written body format sniffed by stdlib "
      "decoders; enumerated and random cases are validated by TLC as traces.",
      "Trusted: the 99-entry table of stdlib mime.ParseMediaType facts (re-checked by the driver at run time), stdlib json/xml/gob decoders used to sniff the body, httptest.",
      "TLC exhaustive model checking + vectors replayed on real code + TLC trace validation", "DESIGN.md 6 (C15)")

claim("C19",
      "Middleware.tla (request-id trust/truncate/fresh, trace keep/sample/skip with a list of 0-3 discard patterns and every subset of matching positions, option "
      "lists in plain / reversed / duplicated layouts, traced client forwarding, ResponseCapture counters; chains of 1-4 hops) is "
      "model-checked in three slices with 15 deviation guards; every enumerated case runs on the real HTTP middlewares (httptest, WrapDoer chain) and on the "
      "real gRPC unary/stream interceptors (synthetic info/streams, no network) and must be one of the behaviours TLC allows; random cases are validated as traces.",
      "Trusted: the projection of concrete ids to tokens (provenance by prefix), injected TraceIDFunc/SpanIDFunc counters, httptest.ResponseRecorder as the "
      "reference for what was written; fresh request ids assumed 8 characters.",
      "TLC exhaustive model checking + vectors replayed on real code + TLC trace validation", "DESIGN.md 6 (C19)")

claim("C05",
      "ErrorMap.tla (tables of 1-3 errors per method, each with declaration levels method/service/API and HTTP response levels method/service/API - the 32 "
      "placements goa accepts, with the resolution order of HTTPServiceExpr/HTTPEndpointExpr.Prepare modelled -, shared or own statuses, ErrorResult and user "
      "types, declared flags, declaration order, and the way the design writes the status: Response(name, code) / with a function / Code() inside the function / "
      "swapped arguments / no status (400) - the expected status is the one written, never read back from goa; service outcomes: every declared error plain and wrapped, undeclared ServiceError x 8 flag combinations, plain "
      "error; four request decode failures) is model-checked (all 7200 ordered pairs; a stratified cut of them and sampled triples go through real code); every case runs through "
      "the real generated server and client and status, goa-error header, body, WriteHeader count and the client's error are compared with the model.",
      HTTP_NOTE + " What the client returns for an undeclared error is not constrained (the statement does not fix it).",
      "TLC exhaustive model checking + TLC-generated cases replayed on generated code", "DESIGN.md 6 (C05)")
claim("C06",
      "Security.tla (requirement lists at API/service/method level, NoSecurity, inheritance, the generated endpoint's nested or-of-ands control flow; and how "
      "credentials travel: location x wire form (bare, Bearer/bearer/other scheme word, extra spaces, empty, absent) x generated client or raw request) is "
      "model-checked exhaustively; every case runs through the real generated client/server with a recording Auther whose verdicts come "
      "from the vector; invoke flag, callbacks made, credentials, declared/required scopes and the denial error are judged against the model.",
      HTTP_NOTE + " The exact order of callbacks is not constrained, only which may be called and that a grant is witnessed by a fully checked requirement.",
      "TLC exhaustive model checking + TLC-generated cases replayed on generated code", "DESIGN.md 6 (C06)")
claim("C08",
      "Views.tla (catalogue of result-type graphs G1-G11: flat, nested with per-attribute view overrides, one type used twice, lookalike types, collections, nested "
      "collections, recursive; each taken under view declaration order first/last/implicit x required-in-view variants x method order x the way a collection is "
      "declared (CollectionOf(T) plain / with an empty or descriptive function / with a view-fixing function); values with at most one invalid validated "
      "attribute; views chosen by the service or fixed in the design; undefined view label) is model-checked exhaustively; every case runs through the real generated server and client; body keys on the wire "
      "(recursively), goa-view header and the fields set on the client's result are compared with the model's projection.",
      HTTP_NOTE + " The recursive graph G4 is set aside while its generated code does not compile (a C01 finding).",
      "TLC exhaustive model checking + TLC-generated cases replayed on generated code", "DESIGN.md 6 (C08)")
claim("C17",
      "Formats.tla gives each of the 14 formats a constructive instance space (field records over boundary sets, RFC validity predicate) plus single-point "
      "corruptions; all instances are rendered and judged by the real goa.ValidateFormat. PatternCache.tla (PlusCal: RWMutex-protected cache, regex semantics in "
      "TLA+) is model-checked for 3-4 goroutines; TLC-chosen interleavings are replayed through blocking verif hooks in ValidatePattern, hook-recorded traces of "
      "1-16 goroutines under -race are validated by TLC, and every verdict is compared with the TLA+ regex semantics.",
      "Trusted: the renderers (purely syntactic), the Go race detector (race reports are an observed fact), the verif hook (add-only, guarded). "
      "Instance classes where RFC and Go's parsers legitimately disagree are not generated (listed in evidence assumptions).",
      "TLC exhaustive model checking + schedule replay through hooks + TLC trace validation", "DESIGN.md 6 (C17)")

claim("C16",
      "Mux.tla (Use/Handle registration as a history - a later Handle replaces an earlier one of the same method and shape - with pending middlewares and the wildcard table, net/url Path/RawPath rule, chi routing context, Vars, ResolvePattern "
      "probed from middlewares before and after next, 404 handling) is model-checked exhaustively in three families (values, dispatch, middleware) with four "
      "deviation guards; every enumerated case is served by the real goahttp.Muxer with requests that went through net/http's own parsing; random cases (up to "
      "6 patterns) are validated by TLC as traces.",
      "Trusted: net/url and net/http request parsing, the projection in harness/drivers/mux. Left open where the statement is silent: which of several overlapping "
      "patterns wins, empty {name} segments, 404 vs 405.",
      "TLC exhaustive model checking + vectors replayed on real code + TLC trace validation", "DESIGN.md 6 (C16)")

claim("C20",
      "Concurrency.tla (K request processes x handler regions pre/decode/service/encode x shared objects with their locks; a request = kind x content-type class x "
      "body kind; NoConflict, Echo - what a handler read and what its caller got come from that request's own payload -, Termination) and Sampler.tla (the adaptive "
      "sampler's adjustment block is a critical section) are model-checked for every interleaving of gate passes (K=2 quick, K=3 thorough), free and serial (one "
      "request held at a gate while another runs start to finish); every schedule TLC emits is replayed on the real generated server (behind the stateful "
      "middlewares: RequestID, Trace with adaptive and fixed samplers, Debug, Log) with K goroutines gated at the decoder factory, the stub service and the "
      "encoder factory and released in the emitted order under the race detector, with raw clients choosing Content-Type and Accept per request; the "
      "replayed schedules are validated by TLC as traces (gates in handler order, race reports = 0, echo); plus 32-64 goroutine load on one mounted server and "
      "direct concurrent use of ErrorEncoder, ResponseEncoder, muxer, ValidatePattern, samplers, MergeErrors.",
      "Trusted: the Go race detector (race reports are an observed fact; gates add no happens-before edge between the released segments), rt scheduler, the "
      "sequential run of each scenario as the echo reference. Interleavings finer than the gates are left to the Go scheduler under load.",
      "TLC exhaustive model checking of interleavings + schedule replay on generated code under -race + TLC trace validation", "DESIGN.md 6 (C20)")

claim("C09",
      "GenHistory.tla (output directory as path -> owner/content class/stamp; Start/Again/Wipe/Render/Finish of gen and example with append-mode and SkipExist "
      "semantics; user edits, strays, deletions; a hidden per-process nonce) is model-checked exhaustively over all histories of length <=4 (quick) / <=6 "
      "(thorough) with 11 deviation guards; TLC-emitted and seeded random histories are replayed with the REAL goa binary built from the repo (goa gen / goa "
      "example in scratch modules), the whole tree is hashed after every step and the resulting trace is validated by TLC; determinism: 10-40 fresh-process "
      "generations per design under varied environment must hash identically, and Generate is repeated inside one process.",
      "Trusted: sha256 snapshots, the projection of files onto content classes, the hand-written DSL designs (smalla, smallb, rich, types); the system clock "
      "cannot be faked (environment variation covers GOMAXPROCS, TZ, locale, USER, cwd depth).",
      "TLC exhaustive model checking of histories + replay with the real goa CLI + TLC trace validation", "DESIGN.md 6 (C09)")

claim("C11",
      "Eval.tla (registered roots, dependency relation, two expression sets per root, behaviours plain/append/appendsame/register-root and errors reported "
      "from the DSL, from Prepare, recorded and/or returned by Validate (incl. empty and typed-nil ValidationErrors), from Finalize, on roots and on "
      "expressions of every interface set; ComputeOrder with any topological order or the cycle error, per-expression Exec/Prepare/Validate/Finalize steps, phase barriers, "
      "late-root pick-up) is model-checked exhaustively for 2 and 3 roots and a late-root family (quick), every digraph x registration order on 4 roots "
      "(thorough), with Termination under fairness; every configuration runs on the real eval.RunDSL with recording Root/Expression/Source/Preparer/Validator/"
      "Finalizer stubs and the callback log plus the returned error are judged by TLC trace validation (the order Roots() used is bound from the trace); "
      "random 5-6-root graphs likewise.",
      "Trusted: the recording stubs in harness/drivers/eval (the engine's observable is the order in which it calls user-implemented interfaces). When late "
      "roots close a cycle and the DSL also reported errors either error is accepted.",
      "TLC exhaustive model checking + TLC trace validation of real callback logs", "DESIGN.md 6 (C11)")

claim("C10",
      "GRPCTransport.tla (proto field table, rpc table, descriptor verdict; ClientEncode -> ServerDecode -> Validate -> Invoke -> ServerEncode -> ClientDecode "
      "with message / metadata / header / trailer locations; lib/Values.tla value classes and rules; nestings compose along a path over alias/elem/mapkey/mapval/"
      "nested/oneof; explicit Message() mappings and raw requests that omit a field; named deviations) is model-checked exhaustively for "
      "the request, result, explicit-message and well-formedness families; every case is generated by the real gRPC generators with a protoc stand-in (harness/cmd/fakeprotoc: "
      "own proto3 parser + protodesc.NewFile as independent well-formedness oracle + stand-in pb.go), compiled, and executed in process through the real "
      "generated client endpoint and server handler against a recording stub; recorded events are judged against the predictions and validated by TLC as traces.",
      "Trusted: fakeprotoc (parser, descriptor construction, stand-in structs: not real protobuf messages, no wire serialisation), protodesc as proto3 oracle, "
      "harness/grpcrt. Stream Send/Recv is not executed (rpc declarations only). Response header/trailer round trips are set aside while goa's generated code "
      "for them does not compile (recorded in evidence as a C01-class finding).",
      "TLC exhaustive model checking + generated code executed in process + TLC trace validation", "DESIGN.md 6 (C10)")

claim("C13",
      "TypeGraph.tla (heap of type nodes with Go-slice-like meta buffers; Build, DoHash with the threaded object memo, DoDup with the user-type memo, 11 mutation "
      "operations incl. in-place writes; equality specified by construction through transformations copy/perm/rev/deco/uname/tag vs ren/add/del/prim/flip and the "
      "sharing-changing unshare/redir/hollow over graphs with DAG sharing, and the documented rule table over the 8 flag combinations) is model-checked exhaustively for graphs with <=3 (quick) / <=4 (thorough) non-primitive nodes with three deviation "
      "guards; every emitted case is built with the public expr constructors and judged on the real expr.Dup/DupAtt/Hash/Equal (20 repetitions, plus a fresh "
      "process digest comparison), the original is snapshotted before and after mutating the copy; random graphs are validated by TLC as traces.",
      "Trusted: the structural walker that projects real expr graphs onto the model heap (harness/drivers/expr). Out of the model: views, bases, references, "
      "defaults, examples; unrolled vs folded recursive types are never compared.",
      "TLC exhaustive model checking + vectors replayed on real code + TLC trace validation", "DESIGN.md 6 (C13)")

claim("C07",
      "OpenAPIOps.tla part 1 (design built step by step: base paths, verbs, 1-2 routes, path/query/header/cookie parameters, body, responses and declared errors, "
      "security at API/service/method level with NoSecurity, file servers; ExpectedOps/ExpectedMounts oracle, v3 and v2 projections, directory fold) is "
      "model-checked per family with 10 deviation guards; every enumerated design is generated by the real generators; the operations the generated server "
      "really serves are observed by recording Handle() calls and by raw HTTP probes on every mounted route (which parameters are read, required flags, body, "
      "statuses, security alternatives); openapi3.json/.yaml and openapi.json/.yaml are parsed and validated with kin-openapi (+ structural rules it does not "
      "enforce, JSON = YAML deep comparison); all tables are judged by TLC trace validation.",
      "Trusted: kin-openapi v0.128.0 (openapi3 loader/validator, openapi2 + openapi2conv) as validity oracle, yaml.v3, the probe-based projection of server behaviour.",
      "TLC exhaustive model checking + real generators and server probes + TLC trace validation", "DESIGN.md 6 (C07)")
claim("C14",
      "OpenAPIOps.tla part 2 (HTTPTransport's exchange plus raw requests no generated client sends: negative unsigned numbers, wrong-type text, JSON null, omitted "
      "required elements; SchemaReqVerdicts/SchemaRespVerdicts = what the published schema accepts) is model-checked with 9 deviation guards; every exchange is "
      "run through the real generated server, the exact wire request/response is validated with kin-openapi openapi3filter against the generated openapi3.json, "
      "and the three verdicts (schema, server, design) are judged by TLC trace validation.",
      "Trusted: kin-openapi openapi3filter with routers/legacy as schema oracle (example validation off, header lines joined, defaults not applied, empty header "
      "values not judged). JSON bodies only. Documents kin-openapi cannot load are reported under C07 and skipped here.",
      "TLC exhaustive model checking + generated server vs schema oracle + TLC trace validation", "DESIGN.md 6 (C14)")

claim("C12",
      "DSLProgram.tla (a DSL program as a tree of calls executed by a pushdown automaton over evaluation contexts; a table of 120 public DSL functions with their "
      "documented contexts and argument shapes that steers generation toward deep contexts and toward misplaced, ill-typed, nil, repeated and dangling calls; "
      "declarative Dangling predicate over 10 kinds of reference incl. security scopes and response mappings of attributes outside the rendered view(s); recursive types through attribute/array/map are part of the program "
      "space) is model-checked with 35 deviation guards; TLC enumerates (depth-bounded) and simulates programs, "
      "harness/cmd/dslhost maps every abstract call to a real call of the dsl package, runs eval.RunDSL in child processes (panic / timeout isolated and re-confirmed "
      "alone) and the outcome (accepted / rejected with located errors / crashed) of every program is validated by TLC as a trace that recomputes Dangling itself; "
      "accepted programs are handed to gen + go build.",
      "Trusted: the (function, shape) -> concrete call table in dslhost; the Dangling predicate deliberately under-reports (a reference counts as declared "
      "generously) so that it cannot raise false alarms. gRPC programs are evaluated but not generated (no protoc).",
      "TLC enumeration/simulation of programs + real DSL evaluation in child processes + TLC trace validation", "DESIGN.md 6 (C12)")

for p in ALL:
    if p not in CLAIMED:
        NOT_APPLICABLE[p] = "check not built yet in this revision (planned with the same technique, see DESIGN.md section 6)"
