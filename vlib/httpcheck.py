"""Shared driver of the HTTPTransport families (C02, C03, C04): TLC vectors -> designs -> generated
code -> runner -> projected observations, plus the judgement helpers."""
import hashlib, json, os
from . import core, httpgen as hg

INVS = "LocationPartition DeliveredIntact InvokedIffValid RejectedIs4xxNamingRule ResultIntact StatusAsDesigned ResponsePartition ClientRejectsInvalidResult"
VALIDATION_NAMES = {"missing_field", "invalid_range", "invalid_length", "invalid_enum_value", "invalid_pattern", "invalid_format", "invalid_field_type"}


_MEMO_LOCK = __import__("threading").Lock()


def gen_vectors(ctx, fam, npa=1, nra=1, deviations="{}", simulate=None, depth=None, label=None):
    if simulate is not None:
        return _gen_vectors(ctx, fam, npa, nra, deviations, simulate, depth, label)
    with _MEMO_LOCK:        # (families of a check run side by side: the second caller waits for the first one's enumeration)
        memo = getattr(ctx, "_gen_vectors_memo", None)
        if memo is None:
            memo = ctx._gen_vectors_memo = {}
        mk = (fam, npa, nra, deviations, simulate, depth)
        if mk not in memo:         # the enumeration is a function of its constants: one TLC run per check run
            memo[mk] = _gen_vectors(ctx, fam, npa, nra, deviations, simulate, depth, label)
        return [dict(v) for v in memo[mk]]


def _gen_vectors(ctx, fam, npa, nra, deviations, simulate, depth, label):
    cfg = "gen/Gen_HTTPTransport.cfg" if deviations == "{}" else "gen/Gen_HTTPTransport_dev.cfg"   # with a deviation the invariants are expected to fail
    r = ctx.gen("mc/MC_HTTPTransport", cfg,
                consts={"Family": '"%s"' % fam, "NPA": npa, "NRA": nra, "Deviations": deviations},
                simulate=simulate, depth=depth, label=label or ("Gen %s %dx%d" % (fam, npa, nra)), timeout=1500)
    out, seen = [], set()
    for v in r.vectors:     # several terminal states per case where the mechanism has a choice
        k = case_key(v)
        if k not in seen:
            seen.add(k)
            out.append(v)
    return out


FIXED_ATTR = {"kind": "int", "loc": "body", "mode": "required", "rule": "none", "nest": "direct"}       # HTTPTransport.tla FixedAttr / FixedVal


def expect_violation_on_case(ctx, case, deviation, fam="res", label=None):
    """vacuity guard on one given case (Cases_HTTPTransport): with the deviation enabled TLC must find a counterexample
    (for what needs more attributes than the exhaustive model enumerates)"""
    c = dict({"pa": [FIXED_ATTR], "pv": [hg.V("int", 3)], "ra": [FIXED_ATTR], "rv": [hg.V("int", 3)], "tagged": False, "tags": 0}, **case)
    return ctx.mc_expect_violation("mc/Cases_HTTPTransport", "mc/Cases_HTTPTransport.cfg",
                                   consts={"NPA": len(c["pa"]), "NRA": len(c["ra"]), "Family": '"%s"' % fam, "Deviations": '{"%s"}' % deviation},
                                   files={"cases.ndjson": json.dumps(c) + "\n"}, label=label or ("MC dev " + deviation), workers=2)


def expect_violations(ctx, runs):
    """the vacuity guards of a check (with a named deviation enabled TLC must find a counterexample), side by side:
    runs = [(consts, label)]"""
    import concurrent.futures as cf
    with cf.ThreadPoolExecutor(max_workers=4) as ex:
        futs = [ex.submit(ctx.mc_expect_violation, "mc/MC_HTTPTransport", consts=c, label=l, workers=4) for c, l in runs]
        for f in futs:
            f.result()          # core.Infra when a guard found nothing
    return True


def combine_cases(ctx, vectors1, n, seed, fam="req", mode="random"):
    """n seeded two-attribute cases assembled from single-attribute vectors; TLC (Cases_HTTPTransport) computes
    oracle and mechanism for them and checks the invariants.  mode: "random" pairs, "sameloc" (both attributes in
    the same non-body location: two cookies, two headers ...), "twin" (the same shape twice: e.g. one alias type
    referenced by two attributes)."""
    import random
    rnd = random.Random(seed)
    cases, seen = [], set()
    key = "pa" if fam == "req" else "ra"
    val = "pv" if fam == "req" else "rv"
    vectors1 = [v for v in vectors1 if v[key][0]["nest"] not in hg.WHOLE]
    byloc = {}
    for v in vectors1:
        byloc.setdefault(v[key][0]["loc"], []).append(v)
    if mode == "twotags":
        # two tagged responses (cfg.tags 2 / 3): two plain string result attributes, each the tag attribute of a response of
        # its own; n method shapes (attribute pair x declaration order), each with the results matching none / the first /
        # the second / both tags
        tagv = [v for v in vectors1 if tag_attr(v[key][0])]
        hit = lambda v: not hg.is_absent(v[val][0]) and v[val][0]["n"] == 3 and v[val][0]["s"] == "plain"
        byshape = {}       # shape -> [values that do not match the tag, values that match, unset]
        for v in tagv:
            byshape.setdefault(core.canon(v[key][0]), [[], [], []])[2 if hg.is_absent(v[val][0]) else 1 if hit(v) else 0].append(v)
        shapes = sorted(k for k, (miss, hits, unset) in byshape.items() if miss and hits)
        pairs = [(x, y, t) for x in shapes for y in shapes for t in (1, 2, 3)]       # (1: one tagged response, a second attribute beside the tag attribute)
        rnd.shuffle(pairs)
        for x, y, t in pairs[:n]:
            for hx in (0, 1, 2):
                for hy in (0, 1, 2):
                    if not byshape[x][hx] or not byshape[y][hy]:
                        continue        # (an attribute that cannot be left unset)
                    a, b = rnd.choice(byshape[x][hx]), rnd.choice(byshape[y][hy])
                    c = {"pa": a["pa"], "ra": a["ra"], "tagged": True, "tags": t, "pv": a["pv"], "rv": a["rv"]}
                    c[key] = a[key] + b[key]
                    c[val] = a[val] + b[val]
                    cases.append(c)
        n = 0
    tries = 0
    while len(cases) < n and tries < 40 * n:
        tries += 1
        a = rnd.choice(vectors1)
        if mode == "withcookie":     # a path / query / header parameter together with a cookie
            if a[key][0]["loc"] not in ("path", "query", "header") or "cookie" not in byloc:
                continue
            b = rnd.choice(byloc["cookie"])
        elif mode == "sameloc":
            loc = a[key][0]["loc"]
            if loc in ("body", "path"):
                continue
            b = rnd.choice(byloc[loc])
        elif mode == "twin":
            if a[key][0]["nest"] == "direct":
                continue
            same = [x for x in byloc[a[key][0]["loc"]] if x[key] == a[key]]
            b = rnd.choice(same)
        else:
            b = rnd.choice(vectors1)
        # MapParams("a1") takes the whole query string: what another query parameter next to it means is not defined
        if any(x[key][0]["nest"] == "mapparams" and y[key][0]["loc"] == "query" for x, y in ((a, b), (b, a))):
            continue
        c = {"pa": a["pa"], "ra": a["ra"], "tagged": False, "tags": 0, "pv": a["pv"], "rv": a["rv"]}
        c[key] = a[key] + b[key]
        c[val] = a[val] + b[val]
        k = core.canon(c)
        if k in seen:
            continue
        seen.add(k)
        cases.append(c)
    r = ctx.gen("mc/Cases_HTTPTransport", "mc/Cases_HTTPTransport.cfg", consts={"NPA": 2 if fam == "req" else 1, "NRA": 1 if fam == "req" else 2, "Family": '"%s"' % fam},
                files={"cases.ndjson": "".join(json.dumps(c) + "\n" for c in cases)}, label="Cases %s x2 %s (%d)" % (fam, mode, len(cases)), timeout=1500)
    out, seen = [], set()
    for v in r.vectors:
        k = case_key(v)
        if k not in seen:       # several terminal states per case when the error name is a choice
            seen.add(k)
            out.append(v)
    return out


def tag_attr(a):
    """TagAttr of HTTPTransport.tla: a plain string attribute can be the tag attribute of a response"""
    return a["kind"] == "string" and a["nest"] == "direct" and a["rule"] == "none"


def sample_shapes(vectors, frac, seed, strata="fine"):
    """Keep every vector of a seeded pseudo-random subset of the method shapes, stratified so that every
    (nesting, rule, body-or-not, mode) combination keeps at least one shape."""
    if frac >= 1.0:
        return vectors
    def h(v):
        return hashlib.sha1((hg.shape_key(v) + str(seed)).encode()).digest()
    def stratum(v):
        a = (v["pa"] if v.get("fam") == "req" else v["ra"])[0]
        if strata == "coarse":      # what matters for code generation: nesting, location, mode, kind
            return (a["nest"], a["loc"], a["mode"], a["kind"])
        if a["kind"] == "bytes" and a["loc"] != "body":      # Bytes as raw parameter text: every location x rule
            return ("bytes", a["loc"], a["rule"])
        return (a["nest"], a["rule"], a["loc"] == "body", a["mode"], bool(v.get("tagged", False)))
    best = {}
    for v in vectors:
        s, d = stratum(v), h(v)
        if s not in best or d < best[s][0]:
            best[s] = (d, hg.shape_key(v))
    forced = {k for _, k in best.values()}
    return [v for v in vectors if h(v)[0] / 256.0 < frac or hg.shape_key(v) in forced]


def is_whole(attrs):
    return len(attrs) == 1 and attrs[0]["nest"] in hg.WHOLE


def scenario_for(v, sid, svc, meth):
    pa, ra = v["pa"], v["ra"]
    payload = {}
    for i, a in enumerate(pa):
        c = hg.concrete(a, v["pv"][i])
        if c is not None:
            payload["a%d" % (i + 1)] = c
    if is_whole(pa):
        payload = hg.concrete(pa[0], v["pv"][0])
    result = {}
    for j, a in enumerate(ra):
        c = hg.concrete(a, v["rv"][j])
        if c is not None:
            result["r%d" % (j + 1)] = c
    if is_whole(ra):
        result = hg.concrete(ra[0], v["rv"][0])
    scn = {"id": sid, "service": svc, "method": meth, "payload": payload, "outcome": {"kind": "result", "value": result}}
    # value shape "nofield": the generated encoder writes a complete object, the member is removed on the wire
    treq = [p for i, a in enumerate(pa) for p in hg.tamper_paths(a, v["pv"][i], "a%d" % (i + 1))]
    tresp = [p for j, a in enumerate(ra) for p in hg.tamper_paths(a, v["rv"][j], "r%d" % (j + 1))]
    if treq or tresp:
        scn["tamper"] = {"req": treq, "resp": tresp}
    return scn


def whole_where(a, wire, name):
    """where a payload / result that is one value travels: its element, or the body as a whole"""
    s = set()
    q = wire.get("query") or {}
    h = {k.lower(): x for k, x in (wire.get("headers") or {}).items()}
    if hg.ELEM["query"](name) in q:
        s.add("query")
    if a["nest"] == "whole_mapval" and a["loc"] == "query" and q:       # MapParams(): every key of the query string is an entry
        s.add("query")
    if hg.ELEM["header"](name).lower() in h:
        s.add("header")
    body = (wire.get("body") or "").strip()
    if body and body != "null" and body not in ("[]", "{}"):
        s.add("body")
    if a["loc"] == "path":
        s.add("path")
    return sorted(s)


def project(v, events):
    """Observables of HTTPTransport.tla from the recorded events of one scenario."""
    pa, ra = v["pa"], v["ra"]
    o = {"invoked": False, "status": 0, "errname": "none", "cerr": "none", "where": None, "delivered": None,
         "rwhere": None, "returned": None, "anomalies": []}
    for bad in ("server_panic", "client_panic", "wire_req_error"):
        if hg.find(events, bad):
            o["anomalies"].append(bad)
    wr = hg.find(events, "wire_req")
    if wr:
        if is_whole(pa):
            o["where"] = [whole_where(pa[0], wr[0], "a1")]
        else:
            o["where"] = hg.observed_where([("a%d" % (i + 1), a["loc"], a) for i, a in enumerate(pa)], wr[0])
        o["uri"] = wr[0].get("uri")
    inv = hg.find(events, "invoke")
    if inv:
        o["invoked"] = True
        o["invocations"] = len(inv)
        dp = inv[0].get("payload")
        if not is_whole(pa) and not isinstance(dp, dict):
            dp = {}
        cls = []
        for i, a in enumerate(pa):
            sent = hg.sent_datum(a, v["pv"][i])
            dflt = hg.concrete(a, hg.default_of(a)) if hg.has_default(a) else None
            cls.append(hg.classify(dp if is_whole(pa) else dp.get("a%d" % (i + 1)), sent, dflt))
        o["delivered"] = cls
        o["delivered_raw"] = dp
    wp = hg.find(events, "wire_resp")
    if wp:
        w = wp[0]
        o["status"] = w.get("status", 0)
        o["writeHeaderCalls"] = w.get("writeHeaderCalls")
        if o["status"] >= 400:
            try:
                o["errname"] = json.loads(w.get("body") or "{}").get("name", "none")
            except Exception:
                o["errname"] = "unparseable"
        elif is_whole(ra):
            o["rwhere"] = [whole_where(ra[0], w, "r1")]
        else:
            # (two tagged responses: each maps headers / cookies under names of its own; the attributes are looked up under
            #  the names of the response the oracle expects to answer)
            sfx = hg.resp_suffix(v["allow"]["status"]) if hg.tags_of(v) >= 2 and "allow" in v else ""
            o["rwhere"] = hg.observed_where([("r%d" % (j + 1), a["loc"]) for j, a in enumerate(ra)], w, suffix=sfx)
    cr = hg.find(events, "client_return")
    if cr:
        c = cr[0]
        if c.get("err") is None:
            o["cerr"] = "result"
            res = c.get("res")
            if not is_whole(ra) and res is None:
                res = {}
            cls = []
            for j, a in enumerate(ra):
                sent = hg.sent_datum(a, v["rv"][j])
                dflt = hg.concrete(a, hg.default_of(a)) if hg.has_default(a) else None
                got = res if is_whole(ra) else (res.get("r%d" % (j + 1)) if isinstance(res, dict) else None)
                cls.append(hg.classify(got, sent, dflt))
            o["returned"] = cls
            o["returned_raw"] = res
        else:
            e = c["err"]
            name = (e.get("service") or {}).get("name") or (e.get("client") or {}).get("name") or e.get("name")
            o["cerr_name"] = name
            o["cerr_msg"] = (e.get("message") or "")[:200]
            if o["status"] >= 400 or o["status"] == 0:
                o["cerr"] = "remote"
            elif name in VALIDATION_NAMES or "validation" in (name or ""):
                o["cerr"] = "validation"
            else:
                o["cerr"] = "clienterror"
    return o


def side_by_side(ctx, jobs):
    """Start independent stretches of a check (TLC enumeration + generate / build / run of one family each) side by side
    and hand back their futures in order: while one family is being judged (TLC: explanations, trace validation) the next
    is still compiling.  The harness tools are built first, once.  Verdicts are filed by the caller, in the main thread."""
    import concurrent.futures as cf
    ctx.gobuild("cmd/genhost")
    ctx.gobuild("cmd/mkrunner")
    pool = cf.ThreadPoolExecutor(max_workers=max(1, len(jobs)))
    futs = [pool.submit(j) for j in jobs]
    pool.shutdown(wait=False)
    return futs


def run_family(ctx, fam, vectors, per_design=40, parallel_args=None, name=None):
    """Drive the vectors through real generated code. Returns (cases, pipeline); a case is
    dict(v=vector, obs=projection, events=events, id=...); designs goa refused or that failed to compile are
    reported through pipeline.failed and their cases are skipped."""
    shapes, index = [], {}
    for v in vectors:
        k = hg.shape_key(v)
        if k not in index:
            index[k] = len(shapes)
            shapes.append({"pa": v["pa"], "ra": v["ra"], "tagged": v.get("tagged", False), "tags": hg.tags_of(v)})
    designs, where = hg.pack_designs(shapes, per_design)
    pl = hg.Pipeline(ctx, name or ("gen-" + fam))
    pl.prepare(designs)
    bins = pl.build_runners(designs)
    ctx.log("%s: %d vectors, %d method shapes, %d designs (%d unusable), %d methods set aside as uncompilable" % (
        fam, len(vectors), len(shapes), len(designs), len(pl.failed), len(pl.bad_methods)))
    scen, meta = {}, {}
    for n, v in enumerate(vectors):
        di, svc, meth = where[index[hg.shape_key(v)]]
        if di in pl.failed or (di, "m" + meth[1:]) in pl.bad_methods:
            continue
        sid = "c%d" % n
        scen.setdefault(di, []).append(scenario_for(v, sid, svc, meth))
        meta[sid] = (v, di, meth)
    events = pl.run_all(bins, scen, parallel_args)
    cases = []
    for sid, (v, di, meth) in meta.items():
        if sid not in events:
            raise core.Infra("runner produced no observation for scenario %s" % sid)
        cases.append({"id": sid, "v": v, "design": di, "method": meth, "events": events[sid], "obs": project(v, events[sid])})
    pl.designs = designs
    return cases, pl


def attr_tag(a):
    return "%s/%s/%s/%s/%s" % (a["loc"], a["kind"], a["nest"], a["mode"], a["rule"])


def val_tag(v):
    return "absent" if hg.is_absent(v) else "%s:%s:%s:%s" % (v["cls"], v["s"], v["n"], v["cn"])


def short_case(c):
    """What goes into a replay file / sample."""
    v = c["v"]
    return {"vector": {k: v.get(k) for k in ("fam", "pa", "ra", "tagged", "tags", "pv", "rv", "allow")}, "observed": {k: c["obs"][k] for k in c["obs"] if k not in ("delivered_raw", "returned_raw")},
            "delivered_raw": c["obs"].get("delivered_raw"), "returned_raw": c["obs"].get("returned_raw"),
            "events": c["events"]}


# ------------------------------------------------------------------ explaining mismatches by named deviations
DEVIATIONS = ["param.empty_string_is_absent", "cookie.value_sanitized", "client.path_not_escaped", "mux.double_unescape",
              "validate.absent_collection_length", "response.header_array_joined", "validate.exclusive_max_unchecked",
              "decode.required_cookie_drops_param_errors", "decode.mapparams_prefix_expected", "validate.map_value_required_unchecked", "response.tagged_header_unguarded"]


def case_key(v):
    return core.canon([v["pa"], v["ra"], hg.tags_of(v), v["pv"], v["rv"]])


CONTAINER_NESTS = ("elem", "mapkey", "mapval", "mapval_elem", "mapparams", "alias_elem", "alias_mapval", "elem_nested", "mapval_nested", "mapkey_alias", "whole_elem", "whole_mapval")


def emptyish(a, x):
    """Emptyish of HTTPTransport.tla: an empty list / map / byte string"""
    return not hg.is_absent(x) and ((a["nest"] in CONTAINER_NESTS and x["cn"] == 0) or (a["kind"] == "bytes" and x["n"] == 0))


def abstract_class(a, sent, x):
    """the class hg.classify gives a concrete value, computed on the abstract one"""
    if (hg.is_absent(x) or emptyish(a, x)) and (hg.is_absent(sent) or emptyish(a, sent)):
        return "absent" if hg.is_absent(sent) else "sent"
    if hg.is_absent(x) or (a["nest"] in CONTAINER_NESTS and x["cn"] == 0):       # (hg.classify: an empty container is "nothing there")
        return "absent"
    if x == sent:
        return "sent"
    d = hg.default_of(a)
    if hg.has_default(a) and d is not None and x == d:
        return "default"
    return "other"


def mech_sig(v):
    m = v["mech"]
    sig = {"invoked": m["invoked"], "status": m["status"], "cerr": m["cerr"]}
    if m["invoked"]:
        sig["delivered"] = [abstract_class(a, v["pv"][i], m["delivered"][i]) for i, a in enumerate(v["pa"])]
    if m["status"] >= 400:
        sig["errname"] = m["errname"]
    if m["cerr"] == "result":
        sig["returned"] = [abstract_class(a, v["rv"][j], m["returned"][j]) for j, a in enumerate(v["ra"])]
    return sig


def obs_sig(v, o):
    sig = {"invoked": o["invoked"], "status": o["status"], "cerr": o["cerr"]}
    if o["invoked"]:
        sig["delivered"] = o["delivered"]
    if o["status"] >= 400:
        sig["errname"] = o["errname"]
    if o["cerr"] == "result":
        sig["returned"] = o["returned"]
    return sig


class Explainer:
    """Tells whether the mechanism of HTTPTransport.tla with named deviations enabled behaves exactly as the
    real code was observed to: one TLC run (Explain_HTTPTransport) over the mismatching cases x candidate
    deviation sets (none, one, two; three only for the cases nothing smaller explains).  A behaviour the
    mechanism shows with no deviation at all (it has choices, e.g. for the zero value of a defaulted
    attribute) needs no explanation and is never attributed to a deviation."""

    def __init__(self, ctx, fam, npa, nra):
        self.ctx, self.fam, self.npa, self.nra = ctx, fam, npa, nra
        self.table = None
        self.devsets = [[]] + [[d] for d in DEVIATIONS] + [[d1, d2] for i, d1 in enumerate(DEVIATIONS) for d2 in DEVIATIONS[i + 1:]]
        self.triples = [[d1, d2, d3] for i, d1 in enumerate(DEVIATIONS) for k, d2 in enumerate(DEVIATIONS[i + 1:], i + 1) for d3 in DEVIATIONS[k + 1:]]
        self.deep = set()

    def _run(self, vs, devsets):
        cases = "".join(json.dumps({"pa": v["pa"], "ra": v["ra"], "tagged": bool(v.get("tagged", False)), "tags": hg.tags_of(v), "pv": v["pv"], "rv": v["rv"]}) + "\n" for v in vs)
        ds = "".join(json.dumps({"devs": d}) + "\n" for d in devsets)
        r = self.ctx.gen("mc/Explain_HTTPTransport", "mc/Explain_HTTPTransport.cfg", consts={"NPA": self.npa, "NRA": self.nra},
                         files={"cases.ndjson": cases, "devsets.ndjson": ds}, label="Explain %s (%d cases x %d deviation sets)" % (self.fam, len(vs), len(devsets)), timeout=1500)
        for v in r.vectors:
            self.table.setdefault((case_key(v), "+".join(sorted(v["devs"]))), []).append(mech_sig(v))

    def prepare(self, vectors):
        """vectors: the cases that need an explanation."""
        if self.table is None:
            self.table, self.done = {}, set()
        uniq = {}
        for v in vectors:
            k = case_key(v)
            if k not in self.done:
                uniq[k] = v
        if not uniq:
            return
        self.done |= set(uniq)
        self._run(list(uniq.values()), self.devsets)

    def explain(self, v, o, focus=None, deep=True):
        """Name of the deviation ('a', 'a+b', 'a+b+c') under which the model does what the code did; None when
        there is none - or when the mechanism does it with no deviation at all."""
        if self.table is None or case_key(v) not in self.done:
            self.prepare([v])
        want = obs_sig(v, o)
        ck = case_key(v)

        def find(devsets):
            # an explanation that reproduces everything observed is preferred to one that reproduces the
            # focused observables only
            for keys in ([list(want.keys())] + ([focus] if focus else [])):
                for ds in devsets:
                    if any(all(sig.get(k) == want.get(k) for k in keys) for sig in self.table.get((ck, "+".join(sorted(ds))), [])):
                        return "+".join(ds) if ds else ""
            return None
        hit = find(self.devsets)
        if hit is None and deep:
            if ck not in self.deep:
                self.deep.add(ck)
                self._run([v], self.triples)
            hit = find(self.triples)
        return hit or None

    def explain_all(self, pairs, focus=None):
        """[(v, o)] -> [explanation or None], the three-deviation sets tried in one batch for the leftovers"""
        self.prepare([v for v, _ in pairs])
        first = [self.explain(v, o, focus, deep=False) for v, o in pairs]
        left = {}
        for (v, o), h in zip(pairs, first):
            ck = case_key(v)
            if h is None and ck not in self.deep and not self.baseline(v, o, focus):
                left[ck] = v
        if left:
            self.deep |= set(left)
            self._run(list(left.values()), self.triples)
        return [h if h is not None or self.baseline(v, o, focus) else self.explain(v, o, focus) for (v, o), h in zip(pairs, first)]

    def baseline(self, v, o, focus=None):
        """the mechanism with no deviation behaves as observed (one of its choices)"""
        if self.table is None or case_key(v) not in self.done:
            self.prepare([v])
        want = obs_sig(v, o)
        keys = focus or want.keys()
        return any(all(s.get(k) == want.get(k) for k in keys) for s in self.table.get((case_key(v), ""), []))


# ------------------------------------------------------------------ trace validation (J) of the executed scenarios
def trace_lines(c):
    """Trace events of one executed case (projection only: nothing is judged here)."""
    v, o = c["v"], c["obs"]
    out = [{"ev": "reset", "pa": v["pa"], "ra": v["ra"], "tagged": bool(v.get("tagged", False)), "tags": hg.tags_of(v), "pv": v["pv"], "rv": v["rv"]}]
    if o["where"] is None:
        return None
    out.append({"ev": "wire", "where": o["where"]})
    if o["invoked"]:
        out.append({"ev": "invoke", "delivered": o["delivered"]})
        out.append({"ev": "resp", "status": o["status"], "errname": o["errname"], "rwhere": o["rwhere"] if o["rwhere"] is not None else [[] for _ in v["ra"]]})
    else:
        out.append({"ev": "resp", "status": o["status"], "errname": o["errname"], "rwhere": []})
    cerr = o["cerr"]
    ev = {"ev": "client", "cerr": cerr, "returned": o["returned"] if o["returned"] is not None else []}
    out.append(ev)
    return out


def odd_cases(cases):
    """the executed cases that did not behave as the mechanism without deviations (in the emitted terminal state)"""
    return [c for c in cases if obs_sig(c["v"], c["obs"]) != mech_sig(c["v"])]


def prepare_explanations(ex, cases, pending):
    """one TLC run (Explain_HTTPTransport) for everything a judge will ask about: the cases it is going to report and the
    cases validate_cases has to tell apart (explained by a deviation / to be validated as a trace)"""
    ex.prepare([c["v"] for c in pending] + [c["v"] for c in odd_cases(cases)])


def explained_ids(ex, cases):
    """ids of the cases whose observed behaviour is exactly the mechanism's under some named deviation
    (they are reported under that deviation's key by the checks and stay out of the trace)."""
    odd = odd_cases(cases)
    hits = ex.explain_all([(c["v"], c["obs"]) for c in odd])
    return {c["id"] for c, h in zip(odd, hits) if h is not None}


def validate_cases(ctx, cases, prop, skip_ids=(), maxfail=5, label="trace", ex=None):
    """Batch TLC trace validation of the executed cases against the property-as-specification. Cases
    attributed to a named deviation are left out. Returns the number of cases validated."""
    import os
    skip_ids = set(skip_ids)
    if ex is not None:
        skip_ids |= explained_ids(ex, cases)
    todo = [c for c in cases if c["id"] not in skip_ids and not c["obs"]["anomalies"]]
    blocks = [(c, trace_lines(c)) for c in todo]
    blocks = [(c, b) for c, b in blocks if b]
    fails = 0
    total = len(blocks)
    while blocks:
        d = ctx.subdir(label)
        p = os.path.join(d, "trace.ndjson")
        owners = []
        with open(p, "w") as f:
            for c, b in blocks:
                for line in b:
                    f.write(json.dumps(line) + "\n")
                    owners.append(c)
        ok, hwm, r = ctx.trace_validate("trace/Trace_HTTPTransport", "trace/Trace_HTTPTransport.cfg", p, label=label, timeout=1500)
        if ok:
            break
        if hwm is None:
            raise core.Infra("Trace_HTTPTransport produced no high-water mark:\n" + r.stdout[-2000:])
        bad = owners[hwm - 1]
        v = bad["v"]
        fam = v.get("fam", "req")
        a = (v["pa"] if fam == "req" else v["ra"])[0]
        ctx.violation("%s/trace/%s/%s" % (prop, attr_tag(a), val_tag((v["pv"] if fam == "req" else v["rv"])[0])),
                      "Trace_HTTPTransport rejects the recorded exchange at its event %d" % hwm, short_case(bad))
        fails += 1
        blocks = [(c, b) for c, b in blocks if c is not bad]
        if fails >= maxfail:
            break
    ctx.cov["traces_validated_against_impl"] += total
    return total


def trace_selftest(ctx, cases):
    """Corrupt one recorded observation of an accepted exchange: TLC must reject exactly there.
    The exchanges are taken from those validate_cases validates: executed cases that behaved as the mechanism without any
    deviation does and that the oracle wants delivered (a case set aside under a named deviation - e.g. an invalid value
    that reached user code under validate.exclusive_max_unchecked - is rightly rejected by the trace specification on its
    own, before the corrupted line).  The uncorrupted trace is validated first: it must be accepted."""
    import os
    good = [c for c in cases if c["obs"]["invoked"] and c["obs"]["delivered"] and c["obs"]["delivered"][0] == "sent" and not c["obs"]["anomalies"]
            and c["v"]["allow"]["mustInvoke"] and obs_sig(c["v"], c["obs"]) == mech_sig(c["v"]) and trace_lines(c)][:20]
    if len(good) < 11:
        return
    clean = [line for c in good for line in trace_lines(c)]
    d = ctx.subdir("selftest-clean")
    p = os.path.join(d, "trace.ndjson")
    open(p, "w").write("".join(json.dumps(x) + "\n" for x in clean))
    ok, hwm, _ = ctx.trace_validate("trace/Trace_HTTPTransport", "trace/Trace_HTTPTransport.cfg", p, label="selftest-clean")
    if not ok:
        raise core.Infra("trace self-test: the uncorrupted trace of %d validated exchanges is rejected at line %s: %s" % (len(good), hwm, json.dumps(clean[hwm - 1] if hwm else None)[:600]))
    lines, tgt = [], None
    for k, c in enumerate(good):
        b = trace_lines(c)
        for line in b:
            if k == 10 and line["ev"] == "invoke" and tgt is None:
                line = dict(line, delivered=["other"] + line["delivered"][1:])
                tgt = len(lines) + 1
            lines.append(line)
    if tgt is None:
        return
    d = ctx.subdir("selftest")
    p = os.path.join(d, "trace.ndjson")
    open(p, "w").write("".join(json.dumps(x) + "\n" for x in lines))
    ok, hwm, _ = ctx.trace_validate("trace/Trace_HTTPTransport", "trace/Trace_HTTPTransport.cfg", p, label="selftest")
    res = {"corrupted_line": tgt, "rejected_at": hwm, "ok": (not ok and hwm == tgt)}
    ctx.cov.setdefault("trace_selftests", []).append(res)
    if not res["ok"]:
        raise core.Infra("trace self-test failed: %s" % res)
