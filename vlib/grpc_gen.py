"""gRPC sibling of httpgen: from TLC's abstract gRPC method shapes to goa designs (Service.GRPC, Field
tags, metadata / header / trailer mappings, OneOf, streaming), the generate / compile / run pipeline
with the protoc stand-in, and the projection of what the runner recorded onto the observables of
GRPCTransport.tla.  No goa logic lives here: designs are lists of DSL facts, values are deterministic
renderings of value classes, projections only look things up by name."""
import json, os, re, shutil, subprocess, concurrent.futures as cf
from . import core, httpgen as hg

LO, HI = hg.LO, hg.HI
BIG = hg.BIG


class Pipeline(hg.Pipeline):
    """httpgen.Pipeline with (a) `protoc` = harness/cmd/fakeprotoc first on the PATH of the genhost child
    process (and only there: a scratch bin directory, never a system location), (b) the gRPC glue
    generator mkgrpcrunner, (c) the proto verdict files collected per design."""

    def __init__(self, ctx, name="grpc"):
        super().__init__(ctx, name)
        fake = ctx.gobuild("cmd/fakeprotoc")
        self.mkgrpcrunner = ctx.gobuild("cmd/mkgrpcrunner")
        self.protobin = os.path.join(self.root, "protoc-bin")
        os.makedirs(self.protobin, exist_ok=True)
        shutil.copy(fake, os.path.join(self.protobin, "protoc"))
        self.verdicts = {}      # design index -> {service: verdict JSON written by fakeprotoc}
        self.first_verdicts = {}
        self.done = {}          # design index -> hash of the design last generated there

    def generate(self, designs, cmds="gen"):
        """Like httpgen.Pipeline.generate, but a design that was already put through the generator in this
        pipeline (same content, same index) is not generated again: the outcome - files or refusal - stands."""
        import hashlib
        todo = []
        for i, d in enumerate(designs):
            h = hashlib.sha1(core.canon(d).encode()).hexdigest()
            if self.done.get(i) == h and (i in self.events):
                continue
            self.done[i] = h
            self.failed.pop(i, None)
            self.events.pop(i, None)
            self.first_verdicts.pop(i, None)
            shutil.rmtree(os.path.join(self.root, "d%d" % i), ignore_errors=True)
            todo.append((i, d))
        with cf.ThreadPoolExecutor(max_workers=16) as ex:
            for i, evs, _ in ex.map(lambda t: self._gen_one(t[0], t[1], cmds), todo):
                self.events[i] = evs
                last = evs[-1] if evs else {"ev": "genhost", "outcome": "nothing"}
                if not evs or last["outcome"] != "ok" or last["ev"] not in cmds.split(","):
                    self.failed[i] = (last["ev"], last.get("outcome"), last.get("detail") or last.get("errors"))
        return self.events

    def _gen_one(self, i, design, cmds):
        d = os.path.join(self.root, "d%d" % i)
        os.makedirs(d, exist_ok=True)
        dj = os.path.join(d, "design.json")
        json.dump(design, open(dj, "w"))
        env = self.ctx.goenv(gen=True)
        env["PATH"] = self.protobin + os.pathsep + env.get("PATH", "")
        try:
            p = subprocess.run([self.genhost, "-design", dj, "-out", d, "-cmds", cmds], cwd=self.root, env=env,
                               stdout=subprocess.PIPE, stderr=subprocess.PIPE, text=True, timeout=120)
        except subprocess.TimeoutExpired:
            return i, [{"ev": "genhost", "outcome": "timeout"}], "timeout"
        evs = [json.loads(l) for l in p.stdout.splitlines() if l.startswith("{")]
        if p.returncode != 0:
            evs.append({"ev": "genhost", "outcome": "crash", "detail": (p.stderr or "")[-3000:], "rc": p.returncode})
        self.verdicts[i] = self._read_verdicts(d)
        self.first_verdicts.setdefault(i, self.verdicts[i])     # the table of methods that are later set aside as uncompilable
        return i, evs, None

    def build_runners(self, designs, race=False):
        """One glue program and one binary for all designs that generated and compiled (linking the gRPC
        libraries once instead of once per design). Returns {design index: binary path}."""
        todo = [i for i in range(len(designs)) if i not in self.failed]
        if not todo:
            return {}
        spec = ",".join("d%d=%s" % (i, "+".join(s["name"] for s in designs[i]["services"])) for i in todo)
        p = subprocess.run([self.mkgrpcrunner, "-root", self.root, "-designs", spec], cwd=self.root, env=self.ctx.goenv(gen=True),
                           stdout=subprocess.PIPE, stderr=subprocess.PIPE, text=True, timeout=900)
        if p.returncode != 0:
            raise core.Infra("mkgrpcrunner failed (%d): %s" % (p.returncode, p.stderr[-3000:]))
        bindir = os.path.join(self.root, "bin")
        os.makedirs(bindir, exist_ok=True)
        out = os.path.join(bindir, "grpcrunner")
        p = subprocess.run(["go", "build"] + (["-race"] if race else []) + ["-o", out, "./runner"], cwd=self.root, env=self.ctx.goenv(gen=True),
                           stdout=subprocess.PIPE, stderr=subprocess.STDOUT, text=True, timeout=1800)
        if p.returncode != 0:
            raise core.Infra("building the gRPC runner failed: %s" % p.stdout[-3000:])
        return {i: out for i in todo}

    @staticmethod
    def _read_verdicts(d):
        out = {}
        base = os.path.join(d, "gen", "grpc")
        if not os.path.isdir(base):
            return out
        for svc in sorted(os.listdir(base)):
            pb = os.path.join(base, svc, "pb")
            if not os.path.isdir(pb):
                continue
            for f in sorted(os.listdir(pb)):
                if f.endswith(".proto.json"):
                    out[svc] = json.load(open(os.path.join(pb, f)))
                    out[svc]["protoText"] = open(os.path.join(pb, f[:-5])).read()
        return out


# ------------------------------------------------------------------ shapes -> design facts
GKIND = {("int", "n"): "int", ("int", "32"): "int32", ("int", "64"): "int64",
         ("uint", "n"): "uint", ("uint", "32"): "uint32", ("uint", "64"): "uint64",
         ("float", "32"): "float32", ("float", "64"): "float64",
         ("bool", "n"): "bool", ("string", "n"): "string", ("bytes", "n"): "bytes"}
TAG0, TAG1, TAGY, TAGV, TAGW, RTAG0, RTAG1 = 3, 7, 9, 2, 5, 4, 6
V, ABSENT, is_absent = hg.V, hg.ABSENT, hg.is_absent


def path_of(a):
    """The nesting of the attribute as a list of steps (GRPCTransport.tla: a.path); shapes of the one-step
    envelope carry it implicitly in a.nest."""
    if "path" in a:
        return list(a["path"])
    return [] if a["nest"] == "direct" else [a["nest"]]


def composed(a):
    return len(path_of(a)) >= 2


def with_path(a):
    """the attribute shape with its path spelled out (vectors recorded before nestings composed have none)"""
    return a if "path" in a else dict(a, path=path_of(a))


FIELD_BEARING = ("nested", "oneof")


def tag_site(path):
    """Index of the innermost step that declares numbered fields (a nested user type, a OneOf); -1: the request /
    response message itself.  That is where tagmode dup / untagged writes its numbers (TagSite of GRPCTransport.tla)."""
    idx = [i for i, s in enumerate(path) if s in FIELD_BEARING]
    return idx[-1] if idx else -1


def composed_design(a, name, mname, types, tag, tagmode="ok"):
    """Design facts for an attribute whose nesting is a path of two or more steps: every step becomes the DSL
    construct it names (alias: Type(name, T); elem: ArrayOf(T); mapkey / mapval: MapOf; nested: a user type with the
    attributes v (the rest of the path) and w; oneof: OneOf with the members <method>x (the rest of the path) and
    <method>y).  The leaf rule sits on the innermost alias type if the path ends with one, else on whatever holds
    the primitive.  A user type that is a OneOf member carries the member's name at the end of its own name (the
    runner finds union alternatives by that suffix)."""
    path = path_of(a)
    prim = {"kind": GKIND[(a["kind"], a["w"])]}
    leafval = hg.rule_val(a) if a["rule"] not in ("cminlen", "cmaxlen") else None
    site = tag_site(path)
    count = [0]

    def tname(kind, member):
        count[0] += 1
        return "%s%sL%d%s%s" % (mname.upper(), name.upper(), count[0], kind, (mname + "x").capitalize() if member else "")

    def value(i, member=False):
        """(type reference, leaf rule still to be attached by the holder) of the value path[i:]"""
        if i == len(path):
            return dict(prim), leafval
        s = path[i]
        if s == "alias":
            base, val = value(i + 1)
            tn = tname("Alias", member)
            t = {"name": tn, "kind": "alias", "base": base}
            if val:
                t["val"] = val
            types.append(t)
            return {"kind": "user", "ref": tn}, None
        if s in ("elem", "mapval", "mapkey"):
            e, val = value(i + 1)
            e = dict(e)
            if val:
                e["val"] = val
            if s == "elem":
                return {"kind": "array", "elem": e}, None
            if s == "mapval":
                return {"kind": "map", "key": {"kind": "string"}, "elem": e}, None
            return {"kind": "map", "key": e, "elem": {"kind": "int32"}}, None
        if s == "nested":
            vnum, wnum = TAGV, TAGW
            if i == site and tagmode == "untagged":
                vnum = 0
            if i == site and tagmode == "dup":
                wnum = TAGV
            v = field(i + 1, "v", vnum, True, TAGW)
            w = {"name": "w", "type": {"kind": "string"}, "tag": wnum}
            tn = tname("Nested", member)
            types.append({"name": tn, "kind": "object", "attrs": [v, w]})
            return {"kind": "user", "ref": tn}, None
        raise ValueError("a OneOf is not a value: %r" % (path,))

    def numbered(i, design, sibling):
        """the number written for the field declared by step i (-1: the attribute itself)"""
        if i != site or design == 0:
            return design
        return {"ok": design, "dup": sibling, "untagged": 0}[tagmode]

    def field(i, fname, number, required, sibling):
        """attribute facts of a field named fname whose value is path[i:]; `number` is what the design gives it,
        `sibling` the number of a fixed neighbour (used by tagmode dup when this is the tag site)"""
        if i < len(path) and path[i] == "oneof":
            t, val = value(i + 1, member=True)
            x = {"name": mname + "x", "type": t, "tag": numbered(i, number, sibling)}
            if val:
                x["val"] = val
            y = {"name": mname + "y", "type": {"kind": "string"}, "tag": TAGY}
            return {"name": fname, "type": {"kind": "union", "alts": [x, y]}, "required": required}
        t, val = value(i)
        att = {"name": fname, "type": t, "required": required, "tag": number}
        if val:
            att["val"] = val
        return att
    top = tag if site != -1 else {"ok": tag, "dup": TAG0, "untagged": 0}[tagmode]
    att = field(0, name, top, a["mode"] == "required", TAG0)
    if a["mode"] == "default":
        att["default"] = hg.concrete_leaf(a, hg.default_of(a))
    return att


def attr_design(a, name, mname, types, tag, tagmode="ok"):
    """Design facts for the attribute under test. `tag` is the number the design gives it when it travels in
    the message (None: not numbered); tagmode in ok | dup | untagged decides how the numbers are actually written."""
    if composed(a):
        return composed_design(a, name, mname, types, tag, tagmode)
    prim = {"kind": GKIND[(a["kind"], a["w"])]}
    leafval = hg.rule_val(a) if a["rule"] not in ("cminlen", "cmaxlen") else None
    contval = {"minLen": LO} if a["rule"] == "cminlen" else ({"maxLen": HI} if a["rule"] == "cmaxlen" else None)
    att = {"name": name, "required": a["mode"] == "required"}
    nest = a["nest"]

    def number(design):
        if tag is None:
            return 0
        return {"ok": design, "dup": TAG0, "untagged": 0}[tagmode]
    if tag is not None:
        att["tag"] = number(tag) if nest != "nested" else tag
    if nest == "direct":
        att["type"] = prim
        if leafval:
            att["val"] = leafval
    elif nest == "alias":
        tn = "%s%sAlias" % (mname.upper(), name.upper())
        t = {"name": tn, "kind": "alias", "base": prim}
        if leafval:
            t["val"] = leafval
        types.append(t)
        att["type"] = {"kind": "user", "ref": tn}
    elif nest == "elem":
        e = dict(prim)
        if leafval:
            e["val"] = leafval
        att["type"] = {"kind": "array", "elem": e}
        if contval:
            att["val"] = contval
    elif nest == "mapkey":
        k = dict(prim)
        if leafval:
            k["val"] = leafval
        att["type"] = {"kind": "map", "key": k, "elem": {"kind": "int32"}}
    elif nest == "mapval":
        e = dict(prim)
        if leafval:
            e["val"] = leafval
        att["type"] = {"kind": "map", "key": {"kind": "string"}, "elem": e}
        if contval:
            att["val"] = contval
    elif nest == "nested":
        tn = "%s%sNested" % (mname.upper(), name.upper())
        inner = {"name": "v", "type": prim, "required": True, "tag": TAGV}
        if leafval:
            inner["val"] = leafval
        w = {"name": "w", "type": {"kind": "string"}, "tag": TAGW}
        if tag is not None and tagmode == "untagged":
            inner["tag"] = 0
        if tag is not None and tagmode == "dup":
            w["tag"] = TAGV
        types.append({"name": tn, "kind": "object", "attrs": [inner, w]})
        att["type"] = {"kind": "user", "ref": tn}
    elif nest == "oneof":
        x = {"name": mname + "x", "type": prim, "tag": number(tag) if tag is not None else 0}
        if leafval:
            x["val"] = leafval
        y = {"name": mname + "y", "type": {"kind": "string"}, "tag": TAGY}
        att["type"] = {"kind": "union", "alts": [x, y]}
        att.pop("tag", None)
    if a["mode"] == "default":
        att["default"] = hg.concrete_leaf(a, hg.default_of(a))
    return att


def method_design(idx, shape, types):
    """One goa method for a (pa, ra, stream, tagmode, withmd) shape."""
    mname = "m%d" % idx
    pa, ra, stream = shape["pa"], shape["ra"], shape.get("stream", "none")
    a0 = {"name": "a0", "type": {"kind": "string"}, "required": True, "tag": TAG0}
    r0 = {"name": "r0", "type": {"kind": "string"}, "required": True, "tag": RTAG0}
    a1 = attr_design(pa, "a1", mname, types, TAG1 if pa["loc"] == "message" else None, shape.get("tagmode", "ok"))
    if shape.get("shared"):
        # the result attribute has the very type of the payload attribute: the same user types serve two messages
        import copy
        r1 = copy.deepcopy(dict(a1, name="r1"))
        if "tag" in r1:
            r1["tag"] = RTAG1
        else:
            r1["type"]["alts"][0]["tag"] = RTAG1        # a OneOf: its first member carries the attribute's number
    else:
        r1 = attr_design(ra, "r1", mname, types, RTAG1 if ra["loc"] == "message" else None)
    pattrs, rattrs = [a0, a1], [r0, r1]
    g = {}
    if pa["loc"] == "metadata":
        g.setdefault("metadata", []).append("a1")
    if shape.get("withmd"):
        pattrs.append({"name": "tok", "type": {"kind": "string"}, "required": True})
        g.setdefault("metadata", []).append("tok")
    if ra["loc"] == "header":
        g["responseHeaders"] = ["r1"]
    if ra["loc"] == "trailer":
        g["trailers"] = ["r1"]
    if shape.get("explicit"):
        # the message attributes listed explicitly: Message(func(){ Attribute("a0"); Attribute("a1") })
        g["message"] = ["a0"] + (["a1"] if pa["loc"] == "message" else [])
        g["responseMessage"] = ["r0"] + (["r1"] if ra["loc"] == "message" else [])
    m = {"name": mname, "grpc": g}
    if stream == "none":
        m["payload"], m["result"] = {"attrs": pattrs}, {"attrs": rattrs}
    elif stream == "server":
        m["payload"], m["streamResult"], m["stream"] = {"attrs": pattrs}, {"attrs": rattrs}, "server"
    elif stream == "client":
        m["streamPayload"], m["result"], m["stream"] = {"attrs": pattrs}, {"attrs": rattrs}, "client"
    else:
        m["streamPayload"], m["streamResult"], m["stream"] = {"attrs": pattrs}, {"attrs": rattrs}, "bidi"
    return m


def shape_of(v):
    return {"pa": with_path(v["pa"]), "ra": with_path(v["ra"]), "stream": v.get("stream", "none"), "tagmode": v.get("tagmode", "ok"), "withmd": v.get("withmd", False),
            "explicit": v.get("explicit", False), "shared": v.get("shared", False)}


def shape_key(v):
    return core.canon(shape_of(v))


def inexpressible(a):
    """proto3 has no repeated / map members in a oneof (InexpressiblePath of GRPCTransport.tla)"""
    p = path_of(a)
    return any(p[i] == "oneof" and p[i + 1] in ("elem", "mapkey", "mapval") for i in range(len(p) - 1))


def alias_of_alias(a):
    p = path_of(a)
    return any(p[i] == "alias" == p[i + 1] for i in range(len(p) - 1))


def generator_stops(a):
    """Shapes for which the generator of the unchanged tree is known to stop (C01-class, recorded in the evidence):
    an alias of an alias; a length rule on a string that is a OneOf member or an alias outside the message."""
    p = path_of(a)
    return alias_of_alias(a) or (a["kind"] == "string" and a["rule"] in ("minlen", "maxlen") and
                                 ("oneof" in p or ("alias" in p and a["loc"] != "message")))


def risky(shape):
    """Shapes whose design is expected to fail as a whole get a design of their own: a refusal concerns the whole design,
    and so does a generator that stops.  This only decides how methods are packed (one failing method would have the
    other 39 of its design generated again one by one); a design that fails unexpectedly is taken apart anyway."""
    return (shape["tagmode"] != "ok" or inexpressible(shape["pa"]) or inexpressible(shape["ra"])
            or generator_stops(shape["pa"]) or generator_stops(shape["ra"]))


def one_design(n, shapes, grp, where):
    types, methods = [], []
    for off, si in enumerate(grp):
        idx = off + 1
        methods.append(method_design(idx, shapes[si], types))
        where[si] = (n, "s1", "M%d" % idx, "m%d" % idx)
    return {"api": {"name": "a%d" % (n + 1)}, "types": types, "services": [{"name": "s1", "noHTTP": True, "grpc": True, "methods": methods}]}


def pack_designs(shapes, per_design=40):
    """Returns (designs, where) with where[shape index] = (design index, service, Go method name, design method name).
    Shapes goa is expected to refuse get a design of their own."""
    designs, where = [], {}
    normal = [i for i, s in enumerate(shapes) if not risky(s)]
    alone = [i for i, s in enumerate(shapes) if risky(s)]
    groups = [normal[k:k + per_design] for k in range(0, len(normal), per_design)] + [[i] for i in alone]
    for grp in groups:
        designs.append(one_design(len(designs), shapes, grp, where))
    return designs, where


def isolate_designs(shapes, designs, where, broken):
    """Give every method of the designs listed in `broken` a design of its own: the first keeps the slot of the
    broken design, the others are appended (the other designs keep their index and content)."""
    for b in sorted(broken):
        grp = sorted(si for si, w in where.items() if w[0] == b)
        designs[b] = one_design(b, shapes, grp[:1], where)
        for si in grp[1:]:
            designs.append(one_design(len(designs), shapes, [si], where))
    return designs, where


# ------------------------------------------------------------------ concretisation
# the precision-sensitive value shapes of GRPCTransport.tla (PrecLeaf), one number each
PREC = {("float", "frac"): 0.1, ("float", "odd24"): 16777217.0, ("float", "over32"): 1e39,
        ("float", "max32"): 3.4028235e38,       # the shortest text that reads back as the largest float32
        ("int", "max32"): 2 ** 31 - 1, ("uint", "max32"): 2 ** 32 - 1, ("int", "b32"): 2 ** 32 + 1, ("uint", "b32"): 2 ** 32 + 1}


def prec(v):
    return (not is_absent(v)) and (v["cls"], v["s"]) in PREC


def leaf_of(a, v):
    return PREC[(v["cls"], v["s"])] if prec(v) else hg.concrete_leaf(a, v)


def concrete_path(a, v, mname):
    """The datum of a composed nesting: the leaf (or, in a container, cn entries of which the last holds the leaf)
    wrapped step by step; a OneOf holds member x (the rest of the path) or - value shape cn = 2 - member y."""
    path = path_of(a)
    leaf = leaf_of(a, v)
    alty = "oneof" in path and v["cn"] == 2
    cn = 1 if "oneof" in path else v["cn"]

    def wrap(i, x):
        if i == len(path):
            return x
        s = path[i]
        if s == "alias":
            return wrap(i + 1, x)
        if s == "nested":
            return {"v": wrap(i + 1, x)}
        if s == "oneof":
            return {"$union": mname + "y", "value": "abc"} if alty else {"$union": mname + "x", "value": wrap(i + 1, x)}
        if s == "elem":
            return [wrap(i + 1, hg.filler(a))] * (cn - 1) + [wrap(i + 1, x)] if cn >= 1 else []
        if s == "mapval":
            m = {"k%d" % (j + 1): wrap(i + 1, hg.filler(a)) for j in range(cn - 1)}
            if cn >= 1:
                m["k%d" % cn] = wrap(i + 1, x)
            return {"$map": m}
        if s == "mapkey":
            return {"$map": {hg.keystr(x): 7}} if cn >= 1 else {"$map": {}}
        raise ValueError(s)
    return wrap(0, leaf)


def concrete(a, v, mname):
    if is_absent(v):
        return None
    if composed(a) or prec(v):
        return concrete_path(a, v, mname)
    if a["nest"] == "oneof":
        if v["cn"] == 2:
            return {"$union": mname + "y", "value": "abc"}
        return {"$union": mname + "x", "value": hg.concrete_leaf(a, v)}
    if a["nest"] == "mapkey":
        leaf = hg.concrete_leaf(a, v)
        return {"$map": {hg.keystr(leaf): 7}} if v["cn"] >= 1 else {"$map": {}}
    return hg.concrete(a, v)


def randomized(datum, a, v, rng):
    """A different concrete member of the same value class (used by the random mode): letters of plain
    strings, the content of byte strings, the other entries of lists / maps and map keys are drawn at random;
    everything a rule or a shape looks at (numbers, lengths, special characters, enum members) is kept."""
    import base64
    if datum is None or rng is None:
        return datum
    def text(s):
        if a["rule"] in ("enum", "format") or a["kind"] != "string":
            return s
        return "".join(rng.choice(hg.LETTERS + "klmnopqrstuvwxyz") if ch in hg.LETTERS else ch for ch in s)

    def leaf(x):
        if isinstance(x, str):
            return text(x)
        if isinstance(x, dict) and "$bytes" in x:
            n = len(base64.b64decode(x["$bytes"]))
            return {"$bytes": base64.b64encode(bytes(rng.randrange(1, 256) for _ in range(n))).decode()}
        return x
    if composed(a):
        path = path_of(a)
        alty = "oneof" in path and v["cn"] == 2

        def walk(i, x):
            """the datum with the leaf (the last entry of a container) replaced by another member of its class"""
            if i == len(path):
                return leaf(x)
            s = path[i]
            if s == "alias":
                return walk(i + 1, x)
            if s == "nested":
                return dict(x, v=walk(i + 1, x["v"]))
            if s == "oneof":
                return x if alty else {"$union": x["$union"], "value": walk(i + 1, x["value"])}
            if s == "elem":
                return x[:-1] + [walk(i + 1, x[-1])] if x else x
            if s == "mapval":
                m = dict(x["$map"])
                last = "k%d" % len(m)
                if last in m:
                    m[last] = walk(i + 1, m[last])
                return {"$map": m}
            if s == "mapkey":
                return {"$map": {(text(k) if a["kind"] == "string" else k): rng.randrange(0, 100) for k in x["$map"]}}
            raise ValueError(s)
        return walk(0, datum)
    nest = a["nest"]
    if nest in ("direct", "alias"):
        return leaf(datum)
    if nest == "nested":
        return {"v": leaf(datum["v"])}
    if nest == "oneof":
        return {"$union": datum["$union"], "value": leaf(datum["value"]) if v["cn"] == 1 else datum["value"]}
    if nest == "elem":
        out = [leaf(x) if i == len(datum) - 1 else x for i, x in enumerate(datum)]
        if a["rule"] not in ("cminlen", "cmaxlen") and out:
            out = [hg.filler(a)] * rng.randrange(0, 3) + out       # more (valid) entries in front
        return out
    if nest == "mapval":
        m = dict(datum["$map"])
        last = "k%d" % len(m)
        if last in m:
            m[last] = leaf(m[last])
        if a["rule"] not in ("cminlen", "cmaxlen") and m:
            for i in range(rng.randrange(0, 3)):
                m["z%d" % i] = hg.filler(a)
        return {"$map": m}
    if nest == "mapkey":
        return {"$map": {(text(k) if a["kind"] == "string" else k): rng.randrange(0, 100) for k in datum["$map"]}}
    return datum


def scenario_for(v, sid, svc, gometh, mname, rng=None):
    """svc is the runner's name of the service: <design dir>/<service name>. Returns (scenario, sent payload datum,
    sent result datum); with rng the data are random members of the value classes."""
    payload = {"a0": "abc"}
    c = randomized(concrete(v["pa"], v["pv"], mname), v["pa"], v["pv"], rng)
    if c is not None:
        payload["a1"] = c
    if v.get("withmd"):
        payload["tok"] = "tkn"
    result = {"r0": "abc"}
    rc = randomized(concrete(v["ra"], v["rv"], mname), v["ra"], v["rv"], rng)
    if rc is not None:
        result["r1"] = rc
    scn = {"id": sid, "service": svc, "method": gometh, "payload": payload, "outcome": {"kind": "result", "value": result}}
    if v.get("raw"):
        # a bare request message: the fields of the stand-in pb struct by name, unset attributes simply missing
        md = {"tok": ["tkn"]} if v.get("withmd") else {}
        msg = {k: x for k, x in payload.items() if k != "tok"}
        pa = v["pa"]
        if pa["mode"] == "required" and pa["nest"] in ("direct", "alias") and msg.get("a1") in (0, "", False):
            del msg["a1"]       # proto3 never puts the zero value of a plain scalar field on the wire
        scn["raw"] = {"msg": msg, "metadata": md}
        del scn["payload"]
    return scn, c, rc


# ------------------------------------------------------------------ projection: proto table
SCALARS = {"double", "float", "int32", "int64", "uint32", "uint64", "sint32", "sint64", "fixed32", "fixed64", "sfixed32", "sfixed64", "bool", "string", "bytes"}


def method_table(verdict, gometh, mname):
    """Field table and rpc declarations of one method, in the vocabulary of GRPCTransport.tla:
    messages are named by role (req, res, or the name of the attribute whose type they are)."""
    if not verdict or not verdict.get("parseOK"):
        return None
    msgs = {m["name"]: m for m in verdict["messages"]}
    rpcs = [r for s in verdict["services"] for r in s["rpcs"] if r["name"] == gometh]
    out = {"rpcs": [{"name": "M", "cs": r["clientStream"], "ss": r["serverStream"]} for r in rpcs], "proto": [], "extra": []}
    if len(rpcs) != 1:
        return out

    def strip(n):
        flat = n.replace("_", "")
        return flat[len(mname):] if flat.startswith(mname) and flat[len(mname):] in ("x", "y") else n

    def fields(msgname, role, depth=0):
        m = msgs.get(msgname)
        if m is None:
            out["extra"].append("message %s not found" % msgname)
            return
        for f in m["fields"]:
            t = f["type"]
            typ = t if t in SCALARS else ("map" if f["label"] == "map" else "message")
            name = strip(f["name"])
            out["proto"].append({"msg": role, "name": name, "number": f["number"], "label": f["label"], "type": typ, "oneof": f["oneof"]})
            # the message a field refers to (for a map: its value type) is listed under the role "<field>" when the
            # field belongs to the request / response message, else "<role of its message>.<field>"; a oneof member
            # counts as a field of its group: "<group>.<member>"  (Role / RoleIn of GRPCTransport.tla)
            sub = t if typ == "message" else (f.get("value") if typ == "map" and f.get("value") not in SCALARS else None)
            if sub and depth < 6:
                def below(r, n):
                    return n if r in ("req", "res") else r + "." + n
                fields(sub, below(role, f["oneof"]) + "." + name if f["oneof"] else below(role, name), depth + 1)
    fields(rpcs[0]["request"], "req")
    fields(rpcs[0]["response"], "res")
    return out


def table_key(t, types=True):
    return sorted(core.canon({k: f[k] for k in f if types or k != "type"}) for f in t)


# ------------------------------------------------------------------ projection: pipeline events
find = hg.find
VALIDATION_NAMES = {"missing_field", "invalid_range", "invalid_length", "invalid_enum_value", "invalid_pattern", "invalid_format", "invalid_field_type"}


def unalt(x, mname):
    """Union dumps carry Go type names: reduce them to the member letter. Unset struct fields (null) are dropped."""
    if isinstance(x, dict) and "$union" not in x and "$map" not in x and "$bytes" not in x:
        x = {k: y for k, y in x.items() if y is not None}
    if isinstance(x, dict):
        if "$union" in x:
            n = x["$union"].lower().replace("_", "")
            alt = "x" if n.endswith(mname + "x") else ("y" if n.endswith(mname + "y") else n)
            val = x.get("value")
            if isinstance(val, dict) and list(val) == [mname + alt]:   # pb oneof wrapper struct: {member: value}
                val = val[mname + alt]
            return {"$union": mname + alt, "value": unalt(val, mname)}
        return {k: unalt(y, mname) for k, y in x.items()}
    if isinstance(x, list):
        return [unalt(y, mname) for y in x]
    return x


def empty(x):
    return hg.empty(x) or x == {"$bytes": ""}


def classify(dv, sent, dflt):
    """Class of a delivered datum relative to what was sent: absent | sent | default | other
    (an unset value and an empty list / map / byte string are the same 'nothing there')."""
    if empty(dv) and (sent is None or empty(sent)):
        return "absent" if sent is None else "sent"
    return hg.classify(dv, sent, dflt)


def emptyish(a, v):
    return (not is_absent(v)) and ((a["nest"] in ("elem", "mapkey", "mapval") and v["cn"] == 0) or (a["kind"] == "bytes" and a["nest"] == "direct" and v["n"] == 0))


def loc_of(where, a, sent):
    """One token for the observed location set; '-' when the value is an empty container (it has no location to speak of)."""
    if emptyish(a, sent):
        return "-"
    return "none" if not where else "+".join(where)


def project(v, events, mname, sent, rsent):
    """sent / rsent: the concrete payload / result datum of the attribute under test that was handed in."""
    pa, ra = v["pa"], v["ra"]
    o = {"invoked": False, "errname": "none", "cerr": "none", "where": None, "delivered": None, "rwhere": None, "returned": None, "anomalies": []}
    for bad in ("server_panic", "client_panic", "stream_unsupported"):
        if find(events, bad):
            o["anomalies"].append(bad)
    ce = find(events, "client_encode")
    if ce:
        msg, md = ce[0].get("msg") or {}, ce[0].get("metadata") or {}
        w = []
        if msg.get("a1") is not None:
            w.append("message")
        if "a1" in md:
            w.append("metadata")
        o["where"] = w
        o["wire_raw"] = {"msg": msg, "metadata": md}
    inv = find(events, "invoke")
    dflt = concrete(pa, hg.default_of(pa), mname) if pa["mode"] == "default" else None
    if inv:
        o["invoked"] = True
        o["invocations"] = len(inv)
        dp = unalt(inv[0].get("payload") or {}, mname)
        o["delivered"] = classify(dp.get("a1"), sent, dflt)
        o["delivered_raw"] = dp
        if dp.get("a0") != "abc" or (v.get("withmd") and dp.get("tok") != "tkn"):
            o["anomalies"].append("companion-attribute-changed")
    sr = find(events, "server_return")
    if sr:
        o["errname"] = (sr[0].get("err") or {}).get("name") or "unnamed"
        o["errmsg"] = ((sr[0].get("err") or {}).get("statusMessage") or "")[:200]
    se = find(events, "server_encode")
    if se:
        msg, h, t = se[0].get("msg") or {}, se[0].get("headers") or {}, se[0].get("trailers") or {}
        w = []
        if msg.get("r1") is not None:
            w.append("message")
        if "r1" in h:
            w.append("header")
        if "r1" in t:
            w.append("trailer")
        o["rwhere"] = w
        o["rwire_raw"] = {"msg": msg, "headers": h, "trailers": t}
    cr = find(events, "client_return")
    if cr:
        c = cr[0]
        if c.get("err") is None:
            o["cerr"] = "result"
            res = unalt(c.get("res") or {}, mname)
            rdflt = concrete(ra, hg.default_of(ra), mname) if ra["mode"] == "default" else None
            o["returned"] = classify(res.get("r1") if isinstance(res, dict) else None, rsent, rdflt)
            o["returned_raw"] = res
        else:
            e = c["err"]
            o["cerr_name"] = e.get("name")
            o["cerr_msg"] = (e.get("message") or "")[:200]
            # the generated client endpoint wraps every error into goa.Fault: a refusal by the client-side decoder is
            # recognised by where it happens (the server had answered successfully), not by its name
            o["cerr"] = "remote" if sr or not se else "validation"
    return o
