"""C12 seed corpus: hand-written abstract DSL programs that are executed and judged exactly like the TLC-generated
ones (TLC reads each through MC_DSLProgram_Classify; the trace specification judges the outcome) and that the
mutator uses as starting points.

Two groups:
  DESIGNS       complete, mostly valid designs that reach the validation and finalisation code a random walk over 120
                functions rarely reaches (views, tagged responses, gRPC mappings, security, file servers, recursion)
  REPRODUCERS   the minimal program of every defect class this check has found so far (a regression corpus): on a
                tree without the corresponding repair each one is a deterministic VIOLATION / KNOWN-FINDING.
  FAMILIES      programs around the regressions seeded into goa that an earlier version of this check missed (a
                requirement with several scopes of which a later one is undefined; user types that reach themselves
                through arrays / maps / each other, used by methods with gRPC and HTTP transports): valid and invalid
                members of each family, labelled with the family.
Notation: N(f, n, t, v, kids); v defaults to "fn" when kids are given, else "plain"."""


def N(f, n="-", t="-", v=None, kids=None):
    if v is None:
        v = "fn" if kids is not None else "plain"
    return (f, n, t, v, kids or [])


def A(n, t="String", kids=None, **kw):
    return N("Attribute", n, t, kids=kids, **kw)


def flat(tops):
    nodes = []

    def walk(x, p):
        nodes.append({"f": x[0], "n": x[1], "t": x[2], "v": x[3], "p": p})
        me = len(nodes)
        for k in x[4]:
            walk(k, me)
    for t in tops:
        walk(t, 0)
    return nodes


def svc(*kids, name="s1"):
    return N("Service", name, kids=list(kids))


def meth(*kids, name="m1"):
    return N("Method", name, kids=list(kids))


DESIGNS = [
    # API with every API-level function, servers, hosts, variables
    [N("API", "api1", kids=[N("Title", "txt"), N("Description", "txt"), N("Version", "txt"), N("TermsOfService", "txt"),
                            N("Contact", kids=[N("Name", "txt"), N("Email", "email"), N("URL", "url")]), N("License", kids=[N("Name", "txt"), N("URL", "url")]),
                            N("Docs", kids=[N("Description", "txt"), N("URL", "url")]),
                            N("Server", "srv1", kids=[N("Description", "txt"), N("Services", "s1"),
                                                      N("Host", "h1", kids=[N("Description", "txt"), N("URI", "https://{v1}.goa.design/{zz}"),
                                                                            N("Variable", "v1", "String", kids=[N("Default", t="s")]),
                                                                            N("Variable", "zz", "String", kids=[N("Enum", t="s"), N("Default", t="s")])])]),
                            N("HTTP", kids=[N("Path", "/x"), N("Consumes", "application/json"), N("Produces", "application/json")]), N("Meta", "k", "v"), N("Randomizer", t="det")]),
     svc(N("Description", "txt"), meth(N("Payload", t="String"), N("Result", t="String"), N("HTTP", kids=[N("GET", "/")])))],
    # security, views, tagged responses, error responses, gRPC mappings
    [N("JWTSecurity", "sc1", kids=[N("Description", "txt"), N("Scope", "api:read", v="desc")]), N("BasicAuthSecurity", "sc2", kids=[]),
     N("Type", "T1", kids=[A("a"), A("b", "Int", kids=[N("Minimum", t="i"), N("Example", t="i")]), N("Required", "a")]),
     N("ResultType", "R1", kids=[N("TypeName", "Renamed"), N("Attributes", kids=[N("Field", "a", "String"), N("Field", "b", "Int")]),
                                 N("View", "default", kids=[A("a", t="-"), A("b", t="-")]), N("View", "tiny", kids=[A("a", t="-")])]),
     svc(N("Security", "sc1", kids=[N("Scope", "api:read")]), N("Error", "e1"),
         meth(N("Payload", kids=[N("TokenField", "a", "String"), N("Field", "b", "Int"), N("Required", "a")]), N("Result", t="R1", v="fn", kids=[N("View", "tiny")]), N("Error", "e2", "ErrorResult"),
              N("HTTP", kids=[N("POST", "/x/{b}"), N("Header", "a:X-A"), N("Response", t="200", kids=[N("Header", "a")]), N("Response", "e1", "404", v="plain"),
                              N("Response", "e2", "400", kids=[N("Description", "txt")])]),
              N("GRPC", kids=[N("Metadata", kids=[A("a", t="-")]), N("Message", kids=[A("b", t="-")]), N("Response", t="0", v="plain"), N("Response", "e1", "5", v="plain")])),
         meth(N("NoSecurity"), N("Payload", t="T1"), N("StreamingResult", t="String"), N("HTTP", kids=[N("GET", "/x/"), N("Param", "a"), N("Param", "b")]), name="m2"),
         N("HTTP", kids=[N("Path", "/x"), N("Response", "e1", "500", v="plain")]), N("Files", "/f", "file.txt", kids=[N("Description", "txt")]))],
    # recursive and mutually recursive types, collections, unions
    [N("Type", "T1", kids=[N("Field", "a", "String"), N("Field", "b", "T2"), N("Field", "zz", "ArrT1")]), N("Type", "T2", kids=[N("Field", "zz", "ArrT1"), N("Field", "b", "T2"), A("a")]),
     N("ResultType", "R1", kids=[N("Attributes", kids=[A("a"), A("b", "R1"), A("zz", "CollR1")]), N("View", "default", kids=[A("a", t="-"), A("b", t="-"), A("zz", t="-")]),
                                 N("View", "tiny", kids=[A("a", t="-")])]),
     N("ResultType", "R2", kids=[N("Reference", t="T1"), N("Attributes", kids=[A("a", t="-"), A("zz", "CollR1"), N("OneOf", "u", kids=[A("a"), A("b", "Int")])]),
                                 N("View", "default", kids=[A("a", t="-")])]),
     svc(meth(N("Payload", t="T1"), N("Result", t="CollR1"), N("HTTP", kids=[N("POST", "/")])),
         meth(N("Payload", t="T2"), N("Result", t="R2"), N("HTTP", kids=[N("PUT", "/x")]), name="m2"), name="s2")],
    # API key / OAuth2, cookies, params, multipart, redirects, parent services
    [N("APIKeySecurity", "sc1", kids=[]), N("OAuth2Security", "sc2", kids=[N("AuthorizationCodeFlow", "url"), N("ImplicitFlow", "url"), N("PasswordFlow", "url"),
                                                                          N("ClientCredentialsFlow", "url"), N("Scope", "api:write", v="desc")]),
     svc(meth(N("Security", "sc1"), N("Security", "vsc2", kids=[N("Scope", "api:write")]),
              N("Payload", kids=[N("APIKey", "a", "String"), N("AccessToken", "b", "String"), A("zz", "MapSS")]),
              N("Result", kids=[A("a"), A("b")]),
              N("HTTP", kids=[N("PUT", "/x"), N("MapParams", "zz"), N("Cookie", "b"), N("Header", "a"),
                              N("Response", t="200", kids=[N("Cookie", "a"), N("CookieMaxAge", "3600"), N("CookieDomain", "txt"), N("CookiePath", "txt"), N("CookieSecure"), N("CookieHTTPOnly"),
                                                          N("CookieSameSite", "lax"), N("Tag", "b"), N("ContentType", "application/json")]),
                              N("Response", t="201", kids=[N("Header", "b")])])),
         N("HTTP", kids=[N("Parent", "s2"), N("Path", "/x")])),
     svc(meth(N("Payload", kids=[A("a")]), N("HTTP", kids=[N("GET", "/x/{a}")])), N("HTTP", kids=[N("CanonicalMethod", "m1")]), name="s2")],
    # validations, defaults, examples, conversions, error types
    [N("Type", "T1", kids=[A("a", "MapSS", kids=[N("Key", kids=[N("MinLength", "1")]), N("Elem", kids=[N("MaxLength", "5"), N("Pattern", "^a+$"), N("Format", "date")])]),
                           A("b", "ArrInt", kids=[N("Elem", kids=[N("Minimum", t="i"), N("ExclusiveMaximum", t="f")])]),
                           N("ConvertTo", t="struct"), N("CreateFrom", t="ptr"), N("Meta", "struct:pkg:path", "types"),
                           A("zz", "String", kids=[N("Default", t="s"), N("Docs", kids=[N("URL", "url")]), N("Example", v="summaryfn", t="s", kids=[N("Value", t="s"), N("Description", "txt")])])]),
     N("Type", "T2", kids=[N("ErrorName", "a", "String"), A("b", "Boolean"), N("Description", "txt"), N("Required", "a")]),
     svc(N("Error", "e1", "T2", kids=[N("Temporary"), N("Timeout"), N("Fault")]),
         meth(N("StreamingPayload", t="T1"), N("Result", t="T1"), N("HTTP", kids=[N("GET", "/"), N("Response", "e1", "500", v="plain")])),
         meth(N("Payload", t="T1"), N("HTTP", kids=[N("POST", "/x"), N("SkipResponseBodyEncodeDecode")]), name="m2"),
         N("Files", "/f/{*p}", "dir/", kids=[N("Redirect", "/r", "301"), N("Meta", "swagger:generate", "false")]))],
]

# ---------------------------------------------------------------------------------------------- families
def F(n, t="-", kids=None, **kw):
    return N("Field", n, t, kids=kids, **kw)


JWT = N("JWTSecurity", "sc1", kids=[N("Scope", "api:read", v="desc"), N("Scope", "api:write", v="desc")])
OAUTH = N("OAuth2Security", "sc2", kids=[N("ClientCredentialsFlow", "url"), N("Scope", "api:read", v="desc")])
TOKEN_PAYLOAD = N("Payload", kids=[N("Token", "a", "String"), N("Required", "a")])


def secured(*reqs, service_reqs=(), payload=TOKEN_PAYLOAD, schemes=(JWT,)):
    return list(schemes) + [svc(*service_reqs, meth(*reqs, payload, N("HTTP", kids=[N("POST", "/x")])))]


def req(scheme, *scopes):
    return N("Security", scheme, kids=[N("Scope", sc) for sc in scopes])


SCOPES = [
    ("scope.defined", secured(req("sc1", "api:read", "api:write"))),
    ("scope.undefined_alone", secured(req("sc1", "nosuch"))),
    ("scope.undefined_first", secured(req("sc1", "nosuch", "api:read"))),
    ("scope.undefined_after_defined", secured(req("sc1", "api:read", "nosuch"))),
    ("scope.undefined_last_of_three", secured(req("vsc1", "api:read", "api:write", "nosuch"))),
    ("scope.second_requirement_undefined", secured(req("sc1", "api:read"), req("sc1", "api:write", "nosuch"))),
    ("scope.service_level_undefined_after_defined", secured(service_reqs=(req("sc1", "api:write", "nosuch"),))),
    ("scope.defined_by_other_scheme_only", secured(req("sc2", "api:read", "api:write"), schemes=(JWT, OAUTH),
                                                   payload=N("Payload", kids=[N("AccessToken", "a", "String"), N("Required", "a")]))),
]


def rec_types(kind):
    """User types that reach themselves: kind = self reference through ... / mutual recursion through ..."""
    return {
        "self_attr": [N("Type", "T1", kids=[F("a"), F("b", "nT1")])],
        "self_array": [N("Type", "T1", kids=[F("a"), F("b", "ArrnT1")])],
        "self_array_value": [N("Type", "T1", kids=[F("a"), F("b", "ArrT1")])],
        "self_map": [N("Type", "T1", kids=[F("a"), F("b", "MapSnT1")])],
        "self_map_value": [N("Type", "T1", kids=[F("a"), F("b", "MapST1")])],
        "mutual_attr": [N("Type", "T1", kids=[F("a"), F("b", "nT2")]), N("Type", "T2", kids=[F("a", "nT1")])],
        "mutual_array": [N("Type", "T1", kids=[F("a"), F("b", "ArrnT2")]), N("Type", "T2", kids=[F("a", "ArrnT1")])],
        "mutual_array_value": [N("Type", "T1", kids=[F("a"), F("b", "ArrT2")]), N("Type", "T2", kids=[F("a", "ArrT1")])],
        "mutual_map": [N("Type", "T1", kids=[F("a"), F("b", "MapSnT2")]), N("Type", "T2", kids=[F("a", "MapSnT1")])],
        "mutual_array_map": [N("Type", "T1", kids=[F("a"), F("b", "ArrnT2")]), N("Type", "T2", kids=[F("a", "MapSnT1"), F("b", "ArrnT2")])],
    }[kind]


def rec_method(where, transport):
    use = {"payload": [N("Payload", t="T1")], "result": [N("Result", t="T1")], "error": [N("Error", "e1", "T1")],
           "streaming_payload": [N("StreamingPayload", t="T1"), N("Result", t="String")],
           "array_payload": [N("Payload", t="ArrnT1")], "payload_and_result": [N("Payload", t="T1"), N("Result", t="ArrT1")]}[where]
    tr = {"grpc": [N("GRPC", kids=[])], "http": [N("HTTP", kids=[N("POST", "/x")])],
          "both": [N("HTTP", kids=[N("POST", "/x")]), N("GRPC", kids=[])],
          # a request message that names an attribute the payload lacks: must be reported, not crash
          "grpc_dangling": [N("GRPC", kids=[N("Message", kids=[A("zz", t="-")])])]}[transport]
    return [svc(meth(*(use + tr)))]


RECURSION = []
for kind in ("self_attr", "self_array", "self_array_value", "self_map", "self_map_value", "mutual_attr", "mutual_array", "mutual_array_value", "mutual_map",
             "mutual_array_map"):
    for where, transport in (("payload", "grpc"), ("result", "grpc"), ("error", "grpc"), ("payload", "http"), ("result", "http")):
        RECURSION.append(("recursion.%s.%s.%s" % (kind, where, transport), rec_types(kind) + rec_method(where, transport)))
for kind in ("self_array", "mutual_array", "mutual_array_map"):
    for where, transport in (("streaming_payload", "grpc"), ("array_payload", "grpc"), ("payload_and_result", "both"), ("payload", "grpc_dangling"),
                             ("error", "http"), ("streaming_payload", "http")):
        RECURSION.append(("recursion.%s.%s.%s" % (kind, where, transport), rec_types(kind) + rec_method(where, transport)))



def hsvc(name, parent=None, path="/x", canon=None, meths=(("show", "/"),), payload=False):
    """A service with an HTTP block (Parent / Path / CanonicalMethod) and methods (name, route); route None = HTTP() without a
    route, "nohttp" = no HTTP expression at all; payload = every method has a payload with attribute a (for {a} in paths)."""
    h = ([N("Parent", parent)] if parent is not None else []) + ([N("Path", path)] if path is not None else []) + \
        ([N("CanonicalMethod", canon)] if canon is not None else [])
    ms = []
    for mn, route in meths:
        pl = [N("Payload", kids=[A("a", t="-")])] if payload else []
        if route is None:
            ms.append(N("Method", mn, kids=pl + [N("HTTP", v="plain")]))
        elif route == "nohttp":
            ms.append(N("Method", mn, kids=pl))
        else:
            ms.append(N("Method", mn, kids=pl + [N("HTTP", kids=[N("GET", route)])]))
    return N("Service", name, kids=([N("HTTP", kids=h)] if h else []) + ms)


CHILD = (("m1", "/"),)
PARENTS = [
    ("parent.ok", [hsvc("s1"), hsvc("s2", parent="s1", meths=CHILD)]),
    ("parent.declared_later", [hsvc("s2", parent="s1", meths=CHILD), hsvc("s1")]),
    ("parent.grandparent", [hsvc("s1"), hsvc("s2", parent="s1"), hsvc("s3", parent="s2", meths=CHILD)]),
    ("parent.grandparent_declared_in_reverse", [hsvc("s3", parent="s2", meths=CHILD), hsvc("s2", parent="s1"), hsvc("s1")]),
    ("parent.missing", [hsvc("s1", parent="nosuch")]),
    ("parent.canonical_named", [hsvc("s1", canon="m1", meths=(("m1", "/x"), ("show", "/"))), hsvc("s2", parent="s1", meths=CHILD)]),
    ("parent.canonical_missing", [hsvc("s1", canon="nosuch"), hsvc("s2", parent="s1", meths=CHILD)]),
    ("parent.no_canonical_method", [hsvc("s1", meths=(("m1", "/"),)), hsvc("s2", parent="s1", meths=CHILD)]),
    ("parent.canonical_without_http", [hsvc("s1", meths=(("show", "nohttp"),)), hsvc("s2", parent="s1", meths=CHILD)]),
    # the canonical endpoint has an HTTP expression but no route: the child's base path cannot be computed (must be reported, not crash)
    ("parent.canonical_without_route", [hsvc("s1", meths=(("show", None),)), hsvc("s2", parent="s1", meths=CHILD)]),
    ("parent.canonical_without_route_child_first", [hsvc("s2", parent="s1", meths=CHILD), hsvc("s1", meths=(("show", None),))]),
    ("parent.named_canonical_without_route", [hsvc("s1", canon="m1", meths=(("m1", None), ("show", "/"))), hsvc("s2", parent="s1", meths=CHILD)]),
    ("parent.canonical_without_route_child_param_path", [hsvc("s1", meths=(("show", None),)), hsvc("s2", parent="s1", path="/x/{a}", meths=(("m1", "/x"),), payload=True)]),
    ("parent.canonical_without_route_grandchild", [hsvc("s1", meths=(("show", None),)), hsvc("s2", parent="s1"), hsvc("s3", parent="s2", meths=CHILD)]),
    ("parent.canonical_without_route_child_without_path", [hsvc("s1", meths=(("show", None),)), hsvc("s2", parent="s1", path=None, meths=CHILD)]),
    ("parent.canonical_without_route_child_absolute_path", [hsvc("s1", meths=(("show", None),)), hsvc("s2", parent="s1", path="//abs/{a}", meths=CHILD, payload=True)]),
    ("parent.canonical_without_route_child_absolute_route", [hsvc("s1", meths=(("show", None),)), hsvc("s2", parent="s1", meths=(("m1", "//abs/{a}"),), payload=True)]),
    ("parent.child_without_path", [hsvc("s1"), hsvc("s2", parent="s1", path=None, meths=CHILD)]),
    ("parent.child_absolute_path", [hsvc("s1"), hsvc("s2", parent="s1", path="//abs/{a}", meths=CHILD, payload=True)]),
    ("parent.child_absolute_route", [hsvc("s1"), hsvc("s2", parent="s1", meths=(("m1", "//abs/{a}"),), payload=True)]),
    ("parent.path_parameters", [hsvc("s1", path="/", meths=(("show", "/x/{a}"),), payload=True), hsvc("s2", parent="s1", meths=CHILD, payload=True)]),
    ("parent.path_parameters_inherited_by_child_payload", [hsvc("s1", path="/", meths=(("show", "/x/{a}"),), payload=True), hsvc("s2", parent="s1", meths=CHILD)]),
    ("parent.same_parameter_twice", [hsvc("s1", path="/x/{a}", meths=(("show", "/x/{a}"),), payload=True), hsvc("s2", parent="s1", path="/x/{a}", meths=(("m1", "/x/{a}"),), payload=True)]),
    ("parent.two_children", [hsvc("s1"), hsvc("s2", parent="s1", meths=CHILD), hsvc("s3", parent="s1", path="/", meths=CHILD)]),
]



def rt_views(views):
    """ResultType R1 with attributes a, b and the given views {name: attribute names}."""
    return N("ResultType", "R1", kids=[N("Attributes", kids=[A("a"), A("b")])] + [N("View", vn, kids=[A(x, t="-") for x in attrs]) for vn, attrs in views])


def rendering(view, mapping):
    """A method whose result is R1 rendered with the named view (None: no view named) and whose response maps `mapping`."""
    m = {"header": N("Header", "b"), "header_renamed": N("Header", "a:X-A"), "cookie": N("Cookie", "b"), "body_name": N("Body", "b"),
         "body_attribute": N("Body", kids=[A("b", t="-")]), "body_attributes_inside": N("Body", kids=[A("a", t="-")]), "header_inside": N("Header", "a")}[mapping]
    res = N("Result", t="R1", v="fn", kids=[N("View", view)]) if view else N("Result", t="R1")
    return svc(meth(res, N("HTTP", kids=[N("GET", "/x"), N("Response", t="200", kids=[m])])))


TWO_VIEWS = (("default", ("a", "b")), ("tiny", ("a",)))
VIEWS = []
for mapping in ("header", "cookie", "body_name", "body_attribute"):
    # b is in default only: refused when tiny is rendered and when no view is named (any view may be rendered), fine with default
    VIEWS.append(("view.tiny_rendered.%s_outside" % mapping, [rt_views(TWO_VIEWS), rendering("tiny", mapping)]))
    VIEWS.append(("view.default_rendered.%s_inside" % mapping, [rt_views(TWO_VIEWS), rendering("default", mapping)]))
    VIEWS.append(("view.any_rendered.%s_missing_from_tiny" % mapping, [rt_views(TWO_VIEWS), rendering(None, mapping)]))
for mapping in ("header_inside", "header_renamed", "body_attributes_inside"):
    VIEWS.append(("view.tiny_rendered.%s" % mapping, [rt_views(TWO_VIEWS), rendering("tiny", mapping)]))
    VIEWS.append(("view.any_rendered.%s" % mapping, [rt_views(TWO_VIEWS), rendering(None, mapping)]))
VIEWS += [
    ("view.any_rendered.header_missing_from_default", [rt_views((("default", ("a",)), ("tiny", ("a", "b")))), rendering(None, "header")]),
    ("view.tiny_rendered.header_missing_from_default_only", [rt_views((("default", ("a",)), ("tiny", ("a", "b")))), rendering("tiny", "header")]),
    ("view.any_rendered.header_implicit_default_view", [rt_views(()), rendering(None, "header")]),
    ("view.any_rendered.header_only_tiny_defined_with_it", [rt_views((("tiny", ("b",)),)), rendering(None, "header")]),
    ("view.any_rendered.header_only_tiny_defined_without_it", [rt_views((("tiny", ("a",)),)), rendering(None, "header")]),
    ("view.missing_view_rendered.header", [rt_views(TWO_VIEWS), rendering("nov", "header")]),
    ("view.tiny_rendered.streaming_result_cookie_outside", [rt_views(TWO_VIEWS), svc(meth(N("StreamingResult", t="R1", v="fn", kids=[N("View", "tiny")]),
                                                            N("HTTP", kids=[N("GET", "/x"), N("Response", t="200", kids=[N("Cookie", "b")])])))]),
]

FAMILIES = SCOPES + RECURSION + PARENTS + VIEWS

# one minimal program per defect class found by this check (the deviation that describes it in DSLProgram.tla)
REPRODUCERS = [
    ("crash.server_outside_api", [svc(N("Server", "srv1"))]),
    ("crash.security_no_args", [svc(N("Security", "-"))]),
    ("crash.extend_reference_nil", [N("Type", "T1", kids=[N("Extend", t="nil")])]),
    ("crash.nil_dsl_in_wrapper", [N("Type", "T1", kids=[N("Field", "a", "String", v="nilfn")])]),
    ("crash.nil_dsl_in_wrapper", [N("Type", "T1", kids=[N("ErrorName", "a", v="nilfn")])]),
    ("crash.service_redefined_nil_dsl", [svc(), N("Service", "s1", v="nilfn")]),
    ("crash.response_attr_not_in_view", [N("ResultType", "R1", kids=[A("a"), A("b"), N("View", "tiny", kids=[A("a", t="-")])]),
                                         svc(meth(N("Result", t="R1", v="fn", kids=[N("View", "tiny")]), N("HTTP", kids=[N("GET", "/"), N("Response", t="200", kids=[N("Body", "b")])])))]),
    ("crash.iscompatible_nil", [N("Type", "T1", kids=[N("Default", t="nil")])]),
    ("crash.base_cycle", [N("Type", "T1", kids=[N("Extend", t="T2")]), N("Type", "T2", kids=[N("Reference", t="T1"), A("a")])]),
    ("crash.base_cycle", [N("ResultType", "R1", kids=[N("Extend", t="R1")])]),
    ("crash.cookie_attribute_without_cookie", [svc(meth(N("HTTP", kids=[N("GET", "/"), N("Response", t="200", kids=[N("CookieMaxAge", "3600")])])))]),
    ("crash.mapped_attribute_empty_dsl", [svc(meth(N("GRPC", kids=[N("Metadata", kids=[])])))]),
    ("crash.unknown_view_on_result_type", [N("ResultType", "R1", kids=[A("a"), N("View", "tiny")])]),
    ("crash.extend_collection", [N("ResultType", "R1", kids=[N("Extend", t="CollR1")])]),
    ("crash.error_response_headers_undeclared_error", [svc(N("HTTP", kids=[N("Response", "zz", "404", kids=[N("Header", "zz")])]))]),
    ("crash.grpc_message_empty_dsl", [svc(meth(N("Payload", t="String"), N("GRPC", kids=[N("Message", kids=[])])))]),
    ("crash.grpc_message_attr_not_in_payload", [svc(meth(N("Payload", kids=[N("Field", "a", "String")]), N("GRPC", kids=[N("Message", kids=[A("a", t="-"), A("zz", t="-")])])))]),
    ("crash.body_empty_dsl", [svc(meth(N("Payload", kids=[A("a")]), N("HTTP", kids=[N("POST", "/"), N("Body", kids=[])])))]),
    ("accept.body_attribute", [svc(meth(N("Payload", kids=[]), N("HTTP", kids=[N("POST", "/"), N("Body", kids=[A("zz", t="-")])])))]),
    ("accept.response_tag", [svc(meth(N("Result", kids=[A("a")]), N("HTTP", kids=[N("GET", "/"), N("Response", t="200", kids=[N("Tag", "zz")]), N("Response", t="201", v="plain")])))]),
    # second round
    ("crash.base_cycle_tag_lookup", [N("Type", "T1", kids=[N("Extend", t="T2"), A("a")]), N("Type", "T2", kids=[N("Extend", t="T1"), A("b")]), svc(meth(N("Payload", t="T1")))]),
    ("crash.base_cycle_tag_lookup", [N("Type", "T1", kids=[N("Extend", t="T1")]), svc(meth(N("Payload", t="T1"), N("HTTP", kids=[N("POST", "/")])))]),
    ("crash.base_cycle_tag_lookup", [N("Type", "T1", kids=[N("Extend", t="T2"), A("a")]), N("Type", "T2", kids=[N("Extend", t="T1"), A("b")]), N("JWTSecurity", "sc1", kids=[]),
                                     svc(meth(N("Security", "sc1"), N("Payload", kids=[N("Extend", t="T1"), N("Token", "zz", "String")]), N("HTTP", kids=[N("GET", "/")])))]),
    ("crash.base_cycle_tag_lookup", [N("Type", "T1", kids=[N("Extend", t="T2"), F("a")]), N("Type", "T2", kids=[N("Extend", t="T1"), F("b")]), N("JWTSecurity", "sc1", kids=[]),
                                     svc(meth(N("Security", "sc1"), N("Payload", kids=[N("Extend", t="T1"), N("TokenField", "zz", "String")]), N("GRPC", kids=[])))]),
    ("crash.extend_cycle_through_attribute", [N("Type", "T2", kids=[A("b", t="-", kids=[N("Extend", t="T2"), A("a")])]), svc(meth(N("Payload", t="T2"), N("HTTP", kids=[N("POST", "/")])))]),
    ("crash.extend_cycle_through_attribute", [N("Type", "T1", kids=[N("Extend", t="T2")]), N("Type", "T2", kids=[F("b", kids=[N("Extend", t="T1"), F("a")])]),
                                              svc(meth(N("Payload", t="T2"), N("GRPC", kids=[])))]),
    ("crash.extend_cycle_through_attribute", [N("Type", "T2", kids=[A("b", t="-", kids=[N("Extend", t="T2"), A("a")])]),
                                              svc(meth(N("Payload", t="MapSnT2"), N("HTTP", kids=[N("POST", "/x")])))]),       # (validation does not look into maps)
    ("crash.meta_without_value", [N("Type", "T1", kids=[N("Meta", "struct:pkg:path", "-"), A("a")]), svc(meth(N("Payload", t="T1")))]),
    ("crash.meta_without_value", [N("Type", "T1", kids=[N("Meta", "struct:type:name", "-"), A("a"), N("Required", "zz")]), svc(meth(N("Payload", t="T1")))]),
    ("crash.api_grpc_error_response", [N("API", "api1", kids=[N("GRPC", kids=[N("Response", "e1", "5", v="plain")])]), svc(meth(N("Error", "e1"), N("GRPC", kids=[])))]),
    ("crash.api_grpc_error_response", [N("API", "api1", kids=[N("Error", "e1"), N("GRPC", kids=[N("Response", "e1", "5", v="plain")])]), svc(meth(N("Error", "e1"), N("GRPC", kids=[])))]),
    ("crash.api_grpc_error_response", [N("API", "api1", kids=[N("Error", "e1"), N("GRPC", kids=[N("Response", "e1", "5", kids=[N("Description", "txt")])])]),
                                       svc(N("Error", "e1"), meth(N("Result", kids=[F("a")]), N("GRPC", kids=[])))]),
    ("accept.error_response", [N("API", "api1", kids=[N("GRPC", kids=[N("Response", "e1", "5", v="plain")])]), svc(meth(N("GRPC", kids=[])))]),
    ("crash.grpc_response_message_empty_dsl", [svc(meth(N("Result", t="String"), N("GRPC", kids=[N("Response", t="0", kids=[N("Message", kids=[])])])))]),
    ("crash.grpc_response_message_empty_dsl", [svc(meth(N("Error", "e1"), N("GRPC", kids=[N("Response", "e1", "5", kids=[N("Message", kids=[])])])))]),
    ("crash.enum_default_uncomparable", [svc(meth(N("Payload", kids=[A("a", "Bytes", kids=[N("Enum", t="bytes"), N("Default", t="bytes")])])))]),
    ("crash.enum_default_uncomparable", [svc(meth(N("Payload", kids=[A("a", "Any", kids=[N("Enum", t="arr"), N("Default", t="arr")])])))]),
    ("crash.enum_default_uncomparable", [N("Type", "T1", kids=[A("a", "Any", kids=[N("Enum", t="mapval"), N("Default", t="mapval")])]), svc(meth(N("Result", t="T1")))]),
    # third round: services that are their own ancestor
    ("crash.parent_cycle", [hsvc("s1", parent="s1")]),
    ("crash.parent_cycle", [hsvc("s1", parent="s2"), hsvc("s2", parent="s1")]),
    ("crash.parent_cycle", [hsvc("s1", parent="s2"), hsvc("s2", parent="s3"), hsvc("s3", parent="s1")]),
    ("crash.parent_cycle", [hsvc("s1", parent="s2", meths=CHILD), hsvc("s2", parent="s3"), hsvc("s3", parent="s2")]),
    ("crash.parent_cycle", [hsvc("s1", parent="s2"), hsvc("s2", parent="s3", path=None), hsvc("s3", parent="s1")]),
    ("crash.parent_cycle", [hsvc("s1", parent="s1", path="/x/{a}", meths=(("show", "/x/{a}"),), payload=True)]),
]


def programs(first_id):
    out = []
    for k, tops in enumerate(DESIGNS):
        out.append({"id": first_id + len(out), "nodes": flat(tops), "seed": "design-%d" % (k + 1)})
    for dev, tops in REPRODUCERS + FAMILIES:
        out.append({"id": first_id + len(out), "nodes": flat(tops), "seed": dev})
    return out
