"""C14: the exchanges of HTTPTransport (plus raw requests a generated client cannot produce) run through the
real generated client / server, and the verdict of kin-openapi on the recorded wire request / response.
Design assembly, scenarios and projections are httpgen / httpcheck's; this module adds the raw requests,
the call of the openapi driver and the evaluation of exchanges by TLC under sets of named deviations."""
import json, os
from . import core, httpgen as hg, httpcheck as hc

RD = ("rd", "rd+omit")      # the attribute is Required AND has a Default (OpenAPIOps.tla xflag)
XDEVS = ["schema.required_with_default_not_required", "schema.empty_value_allowed", "schema.map_key_rule_undocumented", "schema.map_length_undocumented", "schema.uint_minimum_missing",
         "schema.optional_not_nullable", "schema.bytes_length_on_encoded_text", "schema.response_cookie_value_schema", "schema.error_response_media_type"]
TDEVS = ["param.empty_string_is_absent", "validate.absent_collection_length", "client.path_not_escaped", "mux.double_unescape",
         "response.header_array_joined", "cookie.value_sanitized", "validate.exclusive_max_unchecked", "decode.required_cookie_drops_param_errors"]
ALLDEVS = XDEVS + TDEVS
INVS = "SchemaAgreesWithServer SchemaAgreesWithDesign ProducedResponseConforms"


def gen_vectors(ctx, fam, label=None, workers="auto", npa=1, nra=1, simulate=None, shapes=None):
    """Exchanges of one family.  `shapes` (list of attribute shapes) restricts the enumeration to a sample."""
    cfg, files = "gen/Gen_OpenAPIOps_schema.cfg", None
    if shapes is not None:
        cfg = "gen/Gen_OpenAPIOps_schema_sel.cfg"
        files = {"shapes.ndjson": "".join(json.dumps({"a": a}) + "\n" for a in shapes)}
    r = ctx.gen("mc/MC_OpenAPIOps", cfg, consts={"Family": '"%s"' % fam, "NPA": npa, "NRA": nra}, files=files,
                label=label or ("Gen exchanges %s %dx%d%s" % (fam, npa, nra, " (simulate)" if simulate else (" (%d shapes)" % len(shapes) if shapes else ""))),
                timeout=(7200 if simulate else 1500), workers=(1 if simulate else workers), simulate=simulate, depth=(40 if simulate else None))
    # (several TLC workers print the states in the order they happen to reach them: what is drawn from the list with the
    #  seed - the pairs, the packing into designs - must not depend on it)
    return r.vectors if simulate else sorted(r.vectors, key=core.canon)


def gen_xcases(ctx, fam, cases, npa, nra, label=None):
    """Oracle and mechanism (with no deviation) of GIVEN exchanges - e.g. two-attribute methods assembled from enumerated
    single-attribute exchanges - computed, and checked against the invariants, by TLC like every enumerated one."""
    text = "".join(json.dumps({"pa": c["pa"], "ra": c["ra"], "tagged": c.get("tagged", False), "pv": c["pv"], "rv": c["rv"], "flag": c.get("flag", "none")}) + "\n"
                   for c in cases)
    r = ctx.gen("mc/MC_OpenAPIOps", "gen/Gen_OpenAPIOps_xcases.cfg", consts={"Family": '"%s"' % fam, "NPA": npa, "NRA": nra},
                files={"xcases.ndjson": text, "devsets.ndjson": json.dumps({"devs": []}) + "\n", "designs.ndjson": ""},
                label=label or ("Gen given exchanges %s %dx%d (%d)" % (fam, npa, nra, len(cases))), timeout=1500)
    out, seen = [], set()
    for v in sorted(r.vectors, key=core.canon):          # (several terminal states per exchange where the mechanism has a choice)
        k = xkey(v)
        if k not in seen:
            seen.add(k)
            out.append(v)
    return out


def pair_cases(vectors, n, seed, fam="req"):
    """n seeded two-attribute exchanges assembled from single-attribute ones: half of them one body attribute next to one
    attribute outside the body (the body type is then a proper part of the payload type)."""
    import random
    rnd = random.Random(seed)
    key, val = ("pa", "pv") if fam == "req" else ("ra", "rv")
    ok = [v for v in vectors if v.get("flag", "none") == "none" and not v.get("raw") and len(v[key]) == 1 and v[key][0]["nest"] not in hg.WHOLE
          and v[key][0]["nest"] != "mapparams"]
    body = [v for v in ok if v[key][0]["loc"] == "body"]
    other = [v for v in ok if v[key][0]["loc"] != "body"]
    out, seen, tries = [], set(), 0
    while len(out) < n and tries < 50 * n and body and other:
        tries += 1
        if len(out) % 2 == 0:
            a, b = rnd.choice(body), rnd.choice(other)
            if rnd.random() < 0.5:
                a, b = b, a
        else:
            a, b = rnd.choice(ok), rnd.choice(ok)
        if a[key][0]["loc"] == "path" and b[key][0]["loc"] == "path" and False:
            continue
        c = {"pa": a["pa"], "ra": a["ra"], "pv": a["pv"], "rv": a["rv"], "tagged": False}
        c[key] = [a[key][0], b[key][0]]
        c[val] = [a[val][0], b[val][0]]
        k = core.canon(c)
        if k not in seen:
            seen.add(k)
            out.append(c)
    return out


def gen_shapes(ctx, fam):
    r = ctx.gen("mc/MC_OpenAPIOps", "gen/Gen_OpenAPIOps_shapes.cfg", consts={"Family": '"%s"' % fam}, label="Gen shapes " + fam, workers=2, timeout=600)
    return [v["a"] for v in r.vectors]


def sample_shapes(shapes, nshapes, seed):
    """A seeded subset of attribute shapes: a greedy cover of all pairs of features (kind, location, mode, rule, nesting) that
    occur, then random shapes up to nshapes."""
    import random
    keys = sorted(core.canon(a) for a in shapes)
    by = {core.canon(a): a for a in shapes}
    if len(keys) <= nshapes:
        return [by[k] for k in keys]
    rnd = random.Random(seed)
    rnd.shuffle(keys)
    fields = ("kind", "loc", "mode", "rule", "nest")
    pairs = {k: {(f, by[k][f], g, by[k][g]) for i, f in enumerate(fields) for g in fields[i + 1:]} for k in keys}
    for k in keys:      # the shapes raw requests are built for (plain attribute without rule): every kind, every location
        if by[k]["nest"] == "direct" and by[k]["rule"] == "none":
            pairs[k] |= {("raw-kind", by[k]["kind"]), ("raw-loc", by[k]["loc"], by[k]["mode"])}
            if by[k]["mode"] == "required" and by[k]["loc"] != "path" and hg.default_of(by[k]) is not None:
                pairs[k].add(("required+default", by[k]["loc"]))      # every location gets a Required + Default attribute
    todo = set().union(*pairs.values())
    keep = []
    while todo:
        best = max(keys, key=lambda k: len(pairs[k] & todo))
        gain = pairs[best] & todo
        if not gain:
            break
        keep.append(best)
        todo -= gain
    chosen = list(keep)
    for k in keys:
        if len(chosen) >= nshapes:
            break
        if k not in keep:
            chosen.append(k)
    return [by[k] for k in chosen]


# ------------------------------------------------------------------ raw requests (what no generated client sends)
def raw_text(a, v):
    s = v["s"]
    if s == "negu":
        return "-3"
    if s == "frac":
        return "3.5"
    return "abc"


def raw_request(v, meth):
    """The request of method shape v (one payload attribute a1) carrying a malformed value or a JSON null."""
    a, val = v["pa"][0], v["pv"][0]
    idx = meth[1:]
    uri, headers, body = "/m" + idx, {}, ""
    if v["flag"] == "null":
        body = json.dumps({"a1": None})
        headers["Content-Type"] = ["application/json"]
    elif v["flag"] in ("omit", "rd+omit"):
        if a["loc"] == "body":
            body = "{}"
            headers["Content-Type"] = ["application/json"]
    else:
        t = raw_text(a, val)
        if a["loc"] == "path":
            uri += "/" + t
        elif a["loc"] == "query":
            uri += "?" + hg.ELEM["query"]("a1") + "=" + t
        elif a["loc"] == "header":
            headers[hg.ELEM["header"]("a1")] = [t]
        elif a["loc"] == "cookie":
            headers["Cookie"] = ["%s=%s" % (hg.ELEM["cookie"]("a1"), t)]
        else:
            body = '{"a1": %s}' % (json.dumps(t) if val["s"] == "text" else t)
            headers["Content-Type"] = ["application/json"]
    return {"method": "POST", "uri": uri, "headers": headers, "body": body}


def run_exchanges(ctx, groups, per_design=40, name="gen-x"):
    """Like httpcheck.run_family for several groups of vectors at once (each group gets designs of its own), with raw
    scenarios for the vectors marked raw.  groups: [(tag, vectors)].  Returns (cases, pipeline); a case carries its tag."""
    designs, plan = [], []           # plan: (tag, vector, design index, service, Go method)
    for g in groups:
        tag, vectors = g[0], g[1]
        together = len(g) > 2 and g[2].get("together")        # keep the group's methods in one design whatever their bodies
        shapes, index = [], {}
        for v in vectors:
            k = (hg.shape_key(v), v.get("flag") in RD)
            if k not in index:
                index[k] = len(shapes)
                shapes.append({"pa": v["pa"], "ra": v["ra"], "tagged": v.get("tagged", False), "rd": k[1]})
        # (no two methods of a design with structurally equal bodies and different validations: schema.dedup_ignores_validations
        #  would make one stand in for the other; that finding is looked for on purpose, see checks/c14.py)
        ds, where = hg.pack_designs([{x: sh[x] for x in ("pa", "ra", "tagged")} for sh in shapes], per_design, apart=None if together else hg.body_struct_keys)
        base = len(designs)
        for d in ds:
            d["api"]["name"] = "a%d" % (len(designs) + 1)
            designs.append(d)
        for si, sh in enumerate(shapes):      # the fourth mode: Required(...) and Default(...) on payload attribute a1
            if sh["rd"]:
                di, svc, meth = where[si]
                m = [x for x in ds[di]["services"][0]["methods"] if x["name"] == "m" + meth[1:]][0]
                att = [x for x in m["payload"]["attrs"] if x["name"] == "a1"][0]
                att["default"] = hg.concrete_leaf(sh["pa"][0], hg.default_of(sh["pa"][0]))
        for v in vectors:
            di, svc, meth = where[index[(hg.shape_key(v), v.get("flag") in RD)]]
            plan.append((tag, v, base + di, svc, meth))
            if together:
                v["together"] = True          # (marks the exchanges of a design that was packed with colliding bodies on purpose)
    pl = hg.Pipeline(ctx, name)
    pl.prepare(designs)
    bins = pl.build_runners(designs)
    ctx.log("%s: %d exchanges, %d designs (%d unusable), %d methods set aside as uncompilable" % (
        name, len(plan), len(designs), len(pl.failed), len(pl.bad_methods)))
    scen, meta = {}, {}
    for n, (tag, v, di, svc, meth) in enumerate(plan):
        if di in pl.failed or (di, "m" + meth[1:]) in pl.bad_methods:
            continue
        sid = "c%d" % n
        if v.get("raw"):
            s = {"id": sid, "service": svc, "method": meth, "raw": raw_request(v, meth), "outcome": {"kind": "result", "value": {"r1": 3}}}
        else:
            s = hc.scenario_for(v, sid, svc, meth)
        scen.setdefault(di, []).append(s)
        meta[sid] = (tag, v, di, meth)
    events = pl.run_all(bins, scen)
    cases = []
    for sid, (tag, v, di, meth) in meta.items():
        if sid not in events:
            raise core.Infra("runner produced no observation for scenario %s" % sid)
        cases.append({"id": sid, "tag": tag, "v": v, "design": di, "method": meth, "events": events[sid], "obs": hc.project(v, events[sid])})
    pl.designs = designs
    return cases, pl


def verdicts_for(ctx, cases, pl):
    by = {}
    for c in cases:
        x = exchange_of(c["id"], c["events"])
        if x:
            by.setdefault(c["design"], []).append(x)
    return schema_verdicts(ctx, pl.root, by)


def exchange_of(cid, events):
    wr, wp = hg.find(events, "wire_req"), hg.find(events, "wire_resp")
    if not wr:
        return None
    x = {"id": cid, "req": {"method": wr[0]["method"], "uri": wr[0]["uri"], "headers": wr[0].get("headers") or {}, "body": wr[0].get("body") or ""}}
    if wp and not wp[0].get("raw"):
        x["resp"] = {"status": wp[0]["status"], "headers": wp[0].get("headers") or {}, "body": wp[0].get("body") or ""}
    return x


def schema_verdicts(ctx, root, by_design):
    """by_design: {design index: [exchange]}.  Returns {exchange id: verdict}."""
    vecs = [{"mode": "schema", "id": "d%d" % di, "dir": os.path.join(root, "d%d" % di), "exchanges": xs} for di, xs in sorted(by_design.items()) if xs]
    obs, _, _ = ctx.drive("drivers/openapi", vecs)
    out = {}
    for o in obs:
        for v in o["verdicts"]:
            out[v["id"]] = v
    return out


# ------------------------------------------------------------------ TLC evaluation of exchanges under deviation sets
def xkey(v):
    return core.canon([v["pa"], v["ra"], v.get("tagged", False), v["pv"], v["rv"], v.get("flag", "none")])


def xevaluate(ctx, vectors, devsets, label="XEval"):
    uniq = {}
    for v in vectors:
        uniq.setdefault((len(v["pa"]), len(v["ra"])), {})[xkey(v)] = v
    table = {}
    ds = "".join(json.dumps({"devs": sorted(s)}) + "\n" for s in devsets)
    for (npa, nra), group in sorted(uniq.items()):
        cases = "".join(json.dumps({"pa": v["pa"], "ra": v["ra"], "tagged": v.get("tagged", False), "pv": v["pv"], "rv": v["rv"], "flag": v.get("flag", "none")}) + "\n"
                        for v in group.values())
        r = ctx.gen("mc/MC_OpenAPIOps", "gen/Gen_OpenAPIOps_xeval.cfg", files={"xcases.ndjson": cases, "devsets.ndjson": ds, "designs.ndjson": ""},
                    consts={"NPA": npa, "NRA": nra}, label="%s %dx%d (%d exchanges x %d deviation sets)" % (label, npa, nra, len(group), len(devsets)), timeout=1500)
        for v in r.vectors:
            table.setdefault((xkey(v), frozenset(v["devs"])), []).append(v["mech"])
    return table


def trace_lines(v, obs, sv):
    return [{"ev": "xreset", "pa": v["pa"], "ra": v["ra"], "tagged": v.get("tagged", False), "pv": v["pv"], "rv": v["rv"], "flag": v.get("flag", "none")},
            {"ev": "xverdict", "sreq": sv["req"], "invoked": obs["invoked"], "status": obs["status"], "sresp": sv["resp"]}]
