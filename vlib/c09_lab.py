"""C09 laboratory: scratch Go modules in which the REAL `goa` command line (built from the repo under
test) is run over hand-written design packages, directory snapshots (path, sha256, mtime), the numbering
of content classes, replay of operation histories and assembly of Trace_GenHistory traces.
No goa logic lives here: files are hashed, never interpreted; which content is expected where is decided
by spec/GenHistory.tla."""
import hashlib, json, os, random, shutil, subprocess, time
import concurrent.futures as cf
from . import core

DESIGNS_DIR = os.path.join(core.HARNESS, "drivers", "genhistory", "designs")
MODULE = "verifc09"
NOT_OUTPUT = {"go.mod", "go.sum"}          # touched by the go tool itself (`go get` of the temporary main)
STRAYC, EDITBASE, UNKNOWN0 = 99999, 100000, 500000
STRAY_TEXT = b"stray file put here by the user\n"

GOMOD = """module %s

go 1.22.0

require goa.design/goa/v3 v3.0.0

replace goa.design/goa/v3 => %s

replace goa.design/clue => %s
"""
GOMOD_INPROC = """module %s

go 1.22.0

require (
	goa.design/goa/v3 v3.0.0
	verif/harness v0.0.0
)

replace goa.design/goa/v3 => %s

replace verif/harness => %s

replace goa.design/clue => %s
"""
INPROC_MAIN = """package main

import (
	_ "%s/designs/%s"
	"verif/harness/drivers/genhistory/inproc"
)

func main() { inproc.Main() }
"""

# environment that must not matter (the model's hidden nonce): index -> overrides
ENVS = [
    {},
    {"GOMAXPROCS": "1", "TZ": "Asia/Tokyo"},
    {"GOMAXPROCS": "2", "TZ": "America/New_York", "LANG": "de_DE.UTF-8"},
    {"GOMAXPROCS": "16", "TZ": "UTC", "LC_ALL": "C"},
    {"GOMAXPROCS": "3", "TZ": "Pacific/Chatham", "COLUMNS": "40", "USER": "someoneelse"},
]


def segs(path):
    return path.split("/")


def sha(b):
    return hashlib.sha256(b).hexdigest()


class Cids:
    """sha256 -> content class number. Reference contents are numbered from 1 in order of appearance,
    the harness' own texts get the numbers the specification computes (cfg.strayc, cfg.editbase + n),
    anything else a fresh number from UNKNOWN0."""

    def __init__(self):
        self.by = {sha(STRAY_TEXT): STRAYC}
        self.nref = 0
        self.nunk = UNKNOWN0

    def ref(self, h):
        if h not in self.by:
            self.nref += 1
            self.by[h] = self.nref
        return self.by[h]

    def fix(self, h, n):
        self.by.setdefault(h, n)
        return self.by[h]

    def of(self, h):
        if h not in self.by:
            self.nunk += 1
            self.by[h] = self.nunk
        return self.by[h]


class Lab:
    def __init__(self, ctx, name="c09"):
        self.ctx = ctx
        self.root = ctx.subdir(name)
        self.goa = os.path.join(self.root, "bin", "goa")
        os.makedirs(os.path.dirname(self.goa))
        t = time.time()
        p = subprocess.run(["go", "build", "-o", self.goa, "./cmd/goa"], cwd=ctx.repo, env=ctx.goenv(),
                           stdout=subprocess.PIPE, stderr=subprocess.STDOUT, text=True, timeout=900)
        if p.returncode != 0:
            raise core.Infra("cannot build cmd/goa from %s:\n%s" % (ctx.repo, p.stdout[-3000:]))
        ctx.log("built the goa command line from %s in %.1fs" % (ctx.repo, time.time() - t))
        self.gomod = GOMOD % (MODULE, ctx.repo, os.path.join(core.VERIF, "stubs", "clue"))
        self.gosum = open(os.path.join(ctx.repo, "go.sum")).read()
        self.nws = 0
        self.goa_runs = 0
        self.goa_secs = 0.0
        self.abstract = {}        # name -> abstract design JSON (generated through cmd/genhost instead of the goa command line)
        self.genhost = None
        self.genhost_runs = 0

    def add_abstract(self, name, design):
        """Register a design given as harness/design JSON: `gen` for it runs cmd/genhost (DSL calls -> eval.RunDSL ->
        generator.Generate in a fresh process) built from the repo under test."""
        if self.genhost is None:
            self.genhost = self.ctx.gobuild("cmd/genhost")
        self.abstract[name] = design

    # ------------------------------------------------------------ workspaces
    def new_ws(self, designs, name=None, depth=0):
        """A fresh module holding the given design packages; `depth` extra directory levels above it."""
        self.nws += 1
        d = os.path.join(self.root, "ws", *(["deep%d" % i for i in range(depth)]), name or ("w%04d" % self.nws))
        os.makedirs(d)
        open(os.path.join(d, "go.mod"), "w").write(self.gomod)
        open(os.path.join(d, "go.sum"), "w").write(self.gosum)
        for n in designs:
            if n in self.abstract:
                os.makedirs(os.path.join(d, "designs", n))
                json.dump(self.abstract[n], open(os.path.join(d, "designs", n, "design.json"), "w"), sort_keys=True)
            else:
                shutil.copytree(os.path.join(DESIGNS_DIR, n), os.path.join(d, "designs", n))
        return d

    def warm(self, ws):
        """Keep the go.mod/go.sum the go tool completed during a first run as the template (saves work later)."""
        self.gomod = open(os.path.join(ws, "go.mod")).read()
        self.gosum = open(os.path.join(ws, "go.sum")).read()

    def run_goa(self, ws, cmd, design, envi=0, extra_args=()):
        env = dict(self.ctx.goenv(gen=True))
        env.update(ENVS[envi % len(ENVS)])
        t = time.time()
        if design in self.abstract:
            if cmd != "gen":
                raise core.Infra("abstract designs are generated with genhost: gen only")
            try:
                p = subprocess.run([self.genhost, "-design", "designs/%s/design.json" % design, "-out", ".", "-cmds", "gen"], cwd=ws, env=env,
                                   stdout=subprocess.PIPE, stderr=subprocess.PIPE, text=True, timeout=300, errors="replace")
            except subprocess.TimeoutExpired:
                raise core.Infra("genhost %s timed out in %s" % (design, ws))
            self.genhost_runs += 1
            evs = [json.loads(l) for l in p.stdout.splitlines() if l.startswith("{")]
            ok = p.returncode == 0 and evs and evs[-1].get("ev") == "gen" and evs[-1].get("outcome") == "ok"
            detail = "" if ok else (json.dumps(evs[-1])[:1500] if evs else p.stderr[-1500:])
            return (0 if ok else 1), p.stdout, detail
        try:
            p = subprocess.run([self.goa, cmd, "%s/designs/%s" % (MODULE, design)] + list(extra_args), cwd=ws, env=env,
                               stdout=subprocess.PIPE, stderr=subprocess.PIPE, text=True, timeout=300, errors="replace")
        except subprocess.TimeoutExpired:
            raise core.Infra("goa %s %s timed out in %s" % (cmd, design, ws))
        self.goa_runs += 1
        self.goa_secs += time.time() - t
        return p.returncode, p.stdout, p.stderr

    # ------------------------------------------------------------- snapshots
    @staticmethod
    def snapshot(ws):
        """{relative path: (sha256, mtime_ns)} for every file of the module except go.mod/go.sum."""
        out = {}
        for root, dirs, files in os.walk(ws):
            for f in files:
                full = os.path.join(root, f)
                rel = os.path.relpath(full, ws).replace(os.sep, "/")
                if rel in NOT_OUTPUT:
                    continue
                st = os.stat(full)
                out[rel] = (sha(open(full, "rb").read()), st.st_mtime_ns)
        return out

    # ------------------------------------------------------------ references
    def reference(self, design):
        """First generation in a fresh module: defines GenFiles(d) / ExFiles(d) and their content classes.
        Everything else (other processes, other histories, other environments) must agree with it."""
        ws = self.new_ws([design], name="ref-" + design)
        s0 = self.snapshot(ws)
        rc, out, err = self.run_goa(ws, "gen", design)
        if rc != 0:
            raise core.Infra("reference `goa gen %s` failed:\n%s\n%s" % (design, out[-1500:], err[-3000:]))
        s1 = self.snapshot(ws)
        if design in self.abstract:
            gen = {p: s1[p][0] for p in s1 if p not in s0}
            if not gen or [p for p in gen if not (p.startswith("gen/") and p.count("/") >= 2)]:
                raise core.Infra("abstract design %s: unexpected reference output" % design)
            return {"design": design, "gen": gen, "ex": {}, "init": {p: s0[p][0] for p in s0}, "ws": ws}
        rc, out, err = self.run_goa(ws, "example", design)
        if rc != 0:
            raise core.Infra("reference `goa example %s` failed:\n%s\n%s" % (design, out[-1500:], err[-3000:]))
        s2 = self.snapshot(ws)
        gen = {p: s1[p][0] for p in s1 if p not in s0}
        ex = {p: s2[p][0] for p in s2 if p not in s1}
        changed = [p for p in s1 if p in s2 and s1[p] != s2[p]] + [p for p in s0 if s0[p] != s1.get(p)]
        if changed:
            raise core.Infra("reference run of %s modified existing files: %s" % (design, changed[:5]))
        if not gen or not ex:
            raise core.Infra("reference run of %s produced no files" % design)
        bad = [p for p in gen if not (p.startswith("gen/") and p.count("/") >= 2)]
        if bad:
            raise core.Infra("design %s generates files outside the sub-directories of gen/ (%s): outside the model" % (design, bad[:3]))
        bad = [p for p in ex if p.startswith("gen/")]
        if bad:
            raise core.Infra("design %s: example writes under gen/ (%s): outside the model" % (design, bad[:3]))
        return {"design": design, "gen": gen, "ex": ex, "init": {p: s0[p][0] for p in s0}, "ws": ws}

    def references(self, designs):
        refs = {}
        with cf.ThreadPoolExecutor(max_workers=8) as ex:
            for r in ex.map(self.reference, designs):
                refs[r["design"]] = r
        for d in designs:
            if d not in self.abstract:
                self.warm(refs[d]["ws"])
                break
        return refs

    # ------------------------------------------------------------------ cases
    def cfg(self, refs, pair, strays, cids):
        init = {}
        for n in pair:
            init.update(refs[n]["init"])
        return {"designs": [{"gen": [{"p": segs(p), "c": cids.ref(h)} for p, h in sorted(refs[n]["gen"].items())],
                             "ex": [{"p": segs(p), "c": cids.ref(h)} for p, h in sorted(refs[n]["ex"].items())]} for n in pair],
                "strays": [segs(p) for p in strays], "focus": [],
                "init": [{"p": segs(p), "c": cids.ref(h)} for p, h in sorted(init.items())],
                "strayc": STRAYC, "editbase": EDITBASE}

    def replay(self, refs, pair, ops, cids, strays, envs=None, depth=0, tag=None):
        """Perform `ops` on a fresh module with the real command line; returns the trace events of the case
        (reset first) and the raw snapshots.  ops: {"k": gen|example, "d": 1-based index into pair} or
        {"k": edit|stray|delete, "p": "rel/path"}."""
        ws = self.new_ws(list(dict.fromkeys(pair)), depth=depth)
        events = [{"ev": "reset", "cfg": self.cfg(refs, pair, strays, cids), "pair": list(pair), "tag": tag}]
        snap = self.snapshot(ws)
        stamps = {p: 0 for p in snap}
        snaps = [snap]
        edits, emptied = 0, False
        for i, op in enumerate(ops, 1):
            ev = {"ev": op["k"]}
            if op["k"] in ("gen", "example"):
                envi = (envs[i - 1] if envs else 0)
                rc, out, err = self.run_goa(ws, op["k"], pair[op["d"] - 1], envi)
                ev.update({"d": op["d"], "rc": rc, "env": envi, "same": False})
                if rc != 0:
                    ev["stderr"] = err[-1500:]
            else:
                full = os.path.join(ws, op["p"])
                ev["p"] = segs(op["p"])
                if op["k"] in ("edit", "delete") and not os.path.isfile(full):
                    break       # an earlier command did not leave what the plan expected: that event is rejected anyway
                if op["k"] == "edit":
                    edits += 1
                    old = open(full, "rb").read()
                    # what a user edit is: text appended, the file emptied (once per history: two empty files
                    # would be one content for two content numbers), or everything replaced
                    if edits % 3 == 1 and not emptied:
                        new, emptied = b"", True
                    elif edits % 3 == 0:
                        new = ("// replaced by user edit %d\n" % edits).encode()
                    else:
                        new = old + ("\n// user edit %d\n" % edits).encode()
                    with open(full, "wb") as f:
                        f.write(new)
                    cids.fix(sha(new), EDITBASE + edits)
                elif op["k"] == "stray":
                    os.makedirs(os.path.dirname(full), exist_ok=True)
                    with open(full, "wb") as f:
                        f.write(STRAY_TEXT)
                elif op["k"] == "delete":
                    os.remove(full)
                else:
                    raise core.Infra("unknown op %r" % (op,))
            new = self.snapshot(ws)
            for p in new:
                if p not in snap or snap[p] != new[p]:
                    stamps[p] = i
            stamps = {p: stamps[p] for p in new}
            snap = new
            snaps.append(snap)
            ev["tree"] = [{"p": segs(p), "c": cids.of(snap[p][0]), "s": stamps[p]} for p in sorted(snap)]
            events.append(ev)
        if not self.ctx.keep:
            shutil.rmtree(ws, ignore_errors=True)
        return events, snaps

    # ------------------------------------------------------------- in-process
    def inproc(self, refs, design, cids, rounds=2):
        """One process: evaluate the design once, then generator.Generate gen, example, gen, example ... over the
        same directory (the driver removes the sub-directories of gen/ before each gen, as the command line does).
        Returns the case (events + snapshots) in the same form as replay()."""
        ws = os.path.join(self.root, "ws", "inproc-" + design)
        os.makedirs(os.path.join(ws, "cmdinproc"))
        open(os.path.join(ws, "go.mod"), "w").write(GOMOD_INPROC % (MODULE, self.ctx.repo, core.HARNESS, os.path.join(core.VERIF, "stubs", "clue")))
        sums = self.gosum + open(os.path.join(core.HARNESS, "go.sum")).read()
        open(os.path.join(ws, "go.sum"), "w").write(sums)
        shutil.copytree(os.path.join(DESIGNS_DIR, design), os.path.join(ws, "designs", design))
        open(os.path.join(ws, "cmdinproc", "main.go"), "w").write(INPROC_MAIN % (MODULE, design))
        binp = os.path.join(ws, "cmdinproc", "inproc.bin")
        p = subprocess.run(["go", "build", "-o", binp, "./cmdinproc"], cwd=ws, env=self.ctx.goenv(gen=True),
                           stdout=subprocess.PIPE, stderr=subprocess.STDOUT, text=True, timeout=900)
        if p.returncode != 0:
            raise core.Infra("cannot build the in-process driver for %s:\n%s" % (design, p.stdout[-3000:]))
        snap = {q: v for q, v in self.snapshot(ws).items() if not q.startswith("cmdinproc/")}
        p = subprocess.run([binp, "-out", ".", "-rounds", str(rounds), "-cmds", "gen,example",
                            "--cmd=$ goa gen %s/designs/%s" % (MODULE, design)], cwd=ws, env=self.ctx.goenv(),
                           stdout=subprocess.PIPE, stderr=subprocess.PIPE, text=True, timeout=600)
        recs = [json.loads(l) for l in p.stdout.splitlines() if l.startswith("{")]
        events = [{"ev": "reset", "cfg": self.cfg(refs, [design], [], cids), "pair": [design]}]
        stamps = {q: 0 for q in snap}
        snaps = [snap]
        for i, r in enumerate(recs, 1):
            new = {q: (v["sha"], v["mtime"]) for q, v in r["files"].items()}
            for q in new:
                if q not in snap or snap[q] != new[q]:
                    stamps[q] = i
            stamps = {q: stamps[q] for q in new}
            snap = new
            snaps.append(snap)
            events.append({"ev": r["cmd"], "d": 1, "rc": 0, "same": i > 1, "round": r["round"],
                           "tree": [{"p": segs(q), "c": cids.of(snap[q][0]), "s": stamps[q]} for q in sorted(snap)]})
        if p.returncode != 0:
            events.append({"ev": "gen" if len(recs) % 2 == 0 else "example", "d": 1, "rc": p.returncode, "same": True,
                           "stderr": p.stderr[-1500:], "tree": events[-1].get("tree", [])})
            snaps.append(snap)
        return events, snaps


# ---------------------------------------------------------------------- explanation of a rejected event
def family(path):
    """Which generator a path belongs to (for finding keys; from the path only)."""
    if path.startswith("gen/http/openapi"):
        return "openapi"
    if path.startswith("gen/http/cli/"):
        return "http-cli"
    if path.startswith("gen/http/") and "/client/" in path:
        return "http-client"
    if path.startswith("gen/http/") and "/server/" in path:
        return "http-server"
    if path.startswith("gen/grpc/"):
        return "grpc"
    if path.startswith("gen/"):
        return "service" if path.count("/") == 2 else "gen-other"
    if path.startswith("cmd/"):
        return "example-main"
    if path.startswith("designs/"):
        return "user-file"
    return "example-service" if path.endswith(".go") and "/" not in path else "elsewhere"


def explain(refs, pair, prev, cur, ev):
    """Differences between what the reference / the previous snapshot lead one to expect and what is on disk,
    for the description and the key of a finding (the verdict itself is TLC's)."""
    out = []
    k = ev["ev"]
    if k in ("gen", "example") and ev.get("rc", 0) != 0:
        return [("command-failed", "-", "exit %s: %s" % (ev.get("rc"), (ev.get("stderr") or "").strip().splitlines()[-1:]))]
    if k == "gen":
        ref = refs[pair[ev["d"] - 1]]["gen"]
        for p in sorted(set(ref) | {q for q in cur if q.startswith("gen/") and q.count("/") >= 2}):
            if p not in cur:
                out.append(("gen-file-missing", p, ""))
            elif p not in ref:
                out.append(("survives-in-gen-subdir", p, ""))
            elif cur[p][0] != ref[p]:
                out.append(("content-differs", p, ""))
        for p in sorted(set(prev) | set(cur)):
            if p.startswith("gen/") and p.count("/") >= 2:
                continue
            if p not in cur:
                out.append(("gen-removed-outside", p, ""))
            elif p not in prev:
                out.append(("gen-created-outside", p, ""))
            elif prev[p] != cur[p]:
                out.append(("gen-modified-outside", p, ""))
    elif k == "example":
        ref = refs[pair[ev["d"] - 1]]["ex"]
        for p in sorted(set(prev) | set(cur) | set(ref)):
            if p in prev and p not in cur:
                out.append(("example-removed", p, ""))
            elif p in prev and prev[p] != cur[p]:
                out.append(("example-modified-existing", p, "content" if prev[p][0] != cur[p][0] else "mtime only"))
            elif p not in prev and p in cur and p not in ref:
                out.append(("example-created-unexpected", p, ""))
            elif p not in prev and p in ref and p not in cur:
                out.append(("example-file-missing", p, ""))
            elif p not in prev and p in cur and cur[p][0] != ref[p]:
                out.append(("content-differs", p, ""))
    return out


def finding_key(ev, diffs):
    site = ev["ev"] + ("-again-in-process" if ev.get("same") else "")
    if not diffs:
        return "C09/%s/unexplained" % site
    what, path, _ = diffs[0]
    if what == "command-failed":
        return "C09/%s/command-failed" % site
    return "C09/%s/%s/%s" % (site, family(path), what)


# ---------------------------------------------------------------------- random histories beyond TLC's alphabet
def random_history(rng, refs, pair, n):
    """n operations over the REAL path sets: edits/deletes of arbitrary generated or example files, strays in
    arbitrary (nested, new) places; always ends with goa commands so that the effects are judged."""
    present = set()
    for d in pair:
        present |= set(refs[d]["init"])
    ops, strays = [], []
    known_gen = sorted(set().union(*[set(refs[d]["gen"]) for d in pair]))
    dirs = sorted({os.path.dirname(p) for p in known_gen})
    nstray = 0
    for i in range(n):
        last = i >= n - 2
        files = sorted(p for p in present if not p.startswith("designs/"))
        r = rng.random()
        if last or not files or r < 0.45:
            k = "gen" if rng.random() < 0.6 else "example"
            d = rng.randint(1, len(pair))
            ops.append({"k": k, "d": d})
            ref = refs[pair[d - 1]]
            if k == "gen":
                present = {p for p in present if not (p.startswith("gen/") and p.count("/") >= 2)} | set(ref["gen"])
            else:
                present |= set(ref["ex"])
        elif r < 0.65:
            ops.append({"k": "edit", "p": rng.choice(files)})
        elif r < 0.8:
            p = rng.choice(files)
            ops.append({"k": "delete", "p": p})
            present.discard(p)
        else:
            nstray += 1
            where = rng.choice(["sub", "newsub", "root", "else", "deepnew"])
            base = {"sub": rng.choice(dirs), "newsub": "gen/userdir%d" % nstray, "root": "gen", "else": rng.choice([".", "cmd", "notes"]),
                    "deepnew": rng.choice(dirs) + "/extra/deep"}[where]
            p = os.path.normpath(os.path.join(base, "stray%d.txt" % nstray)).replace(os.sep, "/")
            if p in present:
                continue
            strays.append(p)
            present.add(p)
            ops.append({"k": "stray", "p": p})
    return ops, strays


# ---------------------------------------------------------------------- designs assembled from TLC's transport shapes
def transport_designs(req_vectors, res_vectors, rng, ndesigns, nmethods):
    """Abstract designs (harness/design JSON, interpreted by cmd/genhost) whose methods carry three elements of every
    non-body location at once: payload attributes from the request family of HTTPTransport.tla (3 headers, 3 cookies,
    3 query parameters, 1 path parameter, 2 body attributes), result attributes from the response family (3 headers,
    3 cookies, 2 body attributes).  Shapes are TLC's; only their grouping into methods is done here."""
    from . import httpgen as hg

    def uniq(vectors, key):
        seen, out = set(), {}
        for v in vectors:
            a = v[key][0]
            k = core.canon(a)
            if k not in seen:
                seen.add(k)
                out.setdefault(a["loc"], []).append(a)
        return out
    pa, ra = uniq(req_vectors, "pa"), uniq(res_vectors, "ra")
    for d in (pa, ra):
        for loc in d:
            d[loc].sort(key=core.canon)

    def pick(pool, loc, n):
        c = [a for a in pool.get(loc, []) if not (a["nest"] == "alias" and a["mode"] == "default")]   # known C01 finding, irrelevant here
        return [dict(a) for a in rng.sample(c, min(n, len(c)))]
    designs = []
    for di in range(ndesigns):
        types, methods = [], []
        for mi in range(1, nmethods + 1):
            shape = {"pa": pick(pa, "header", 3) + pick(pa, "cookie", 3) + pick(pa, "query", 3) + pick(pa, "path", 1) + pick(pa, "body", 2),
                     "ra": pick(ra, "header", 3) + pick(ra, "cookie", 3) + pick(ra, "body", 2), "tagged": False}
            methods.append(hg.method_design(mi, shape, types))
        designs.append({"api": {"name": "t%d" % (di + 1), "servers": 1}, "types": types, "services": [{"name": "s1", "methods": methods}]})
    return designs
