"""Driver of the GRPCTransport families (C10): TLC vectors -> designs -> goa generation with the protoc
stand-in -> compile -> in-process runner -> projected observations, plus the judgement helpers."""
import hashlib, json, os
from . import core, httpgen as hg, grpc_gen as gg

INVS = "AcceptedOnlyIfNumbered WellFormed NotInMessage LocationPartition DeliveredIntact InvokedIffValid ResultIntact ResponsePartition ClientRejectsInvalidResult"
DEVIATIONS = ["int.narrowed_to_32_bits", "validate.absent_collection_length",
              "tags.oneof_members_unchecked", "tags.unchecked_with_metadata", "tags.nested_types_unchecked",
              "message.explicit_loses_required",      # hypothetical (vacuity guard of the explicit-message family)
              "number.oneof_alias_member_lost"]       # hypothetical (vacuity guard of the composed nestings)
# the family in which each deviation shows (vacuity runs)
DEV_FAMILY = {"int.narrowed_to_32_bits": "req", "validate.absent_collection_length": "res", "tags.oneof_members_unchecked": "wf",
              "tags.unchecked_with_metadata": "wf", "tags.nested_types_unchecked": "wf", "message.explicit_loses_required": "xm",
              "number.oneof_alias_member_lost": "wf"}


def gen_vectors(ctx, fam, deviations="{}", label=None, depth="2"):
    cfg = "gen/Gen_GRPCTransport.cfg" if deviations == "{}" else "gen/Gen_GRPCTransport_dev.cfg"
    r = ctx.gen("mc/MC_GRPCTransport", cfg, consts={"Family": '"%s"' % fam, "Deviations": deviations, "PathDepth": depth},
                label=label or ("Gen %s" % fam), timeout=1500)
    return r.vectors


def sample_shapes(vectors, frac, seed):
    """Keep every vector of a deterministic pseudo-random subset of the method shapes - and, of every composed
    nesting (a path of two or more steps), at least the shape the seed ranks first, so that no nesting TLC
    enumerates goes unexercised in a tier that samples."""
    if frac >= 1.0:
        return vectors

    def rank(v):
        h = hashlib.sha1((gg.shape_key(v) + str(seed)).encode()).digest()
        return (h[0] * 256 + h[1]) / 65536.0
    first = {}
    for v in vectors:
        keys = ["/".join(gg.path_of(a)) for a in (v["pa"], v["ra"]) if gg.composed(a)]
        # likewise the precision-sensitive numbers (PrecLeaf): every numeric kind and width, as a scalar and as a list
        # element, in every location - outside the message numbers travel as text and are parsed back at a bit size
        a = v["ra"] if v.get("fam") == "res" else v["pa"]
        if gg.prec(v["rv"] if v.get("fam") == "res" else v["pv"]) and a["nest"] in ("direct", "elem") and not gg.composed(a):
            keys.append("prec/%s%s/%s/%s" % (a["kind"], a["w"], a["loc"], a["nest"]))
        for k in keys:
            r = (rank(v), gg.shape_key(v))
            if k not in first or r < first[k]:
                first[k] = r
    forced = {r[1] for r in first.values()}
    return [v for v in vectors if rank(v) < frac or gg.shape_key(v) in forced]


class Family:
    """The designs of one family generated, compiled and linked into a runner; `run` drives vectors (whose shapes
    were given to the constructor) through the real generated code."""

    def __init__(self, ctx, fam, vectors, per_design=40, label=None):
        self.ctx, self.fam = ctx, fam
        self.shapes, self.index = [], {}
        for v in vectors:
            k = gg.shape_key(v)
            if k not in self.index:
                self.index[k] = len(self.shapes)
                self.shapes.append(gg.shape_of(v))
        designs, where = gg.pack_designs(self.shapes, per_design)
        pl = gg.Pipeline(ctx, "grpc-" + (label or fam))
        # a design goa refuses or fails to generate takes all its methods down: find those designs first and give
        # each of their methods a design of its own, so that the failure is attributed to one method shape
        pl.generate(designs)
        broken = {i for i in pl.failed if len(designs[i]["services"][0]["methods"]) > 1}
        if broken:
            n = len(designs)
            designs, where = gg.isolate_designs(self.shapes, designs, where, broken)
            ctx.log("%s: %d designs failed in eval/gen, their methods isolated in %d more designs (%s)" % (
                fam, len(broken), len(designs) - n, "; ".join(sorted({str(pl.failed[i][:2]) + " " + str(pl.failed[i][2])[:90].replace("\n", " ") for i in broken}))))
        pl.prepare(designs)
        ctx.log("%s: generated and compiled %d designs" % (fam, len(designs)))
        self.run_needed = fam != "wf"
        self.bins = pl.build_runners(designs) if self.run_needed else {}
        pl.designs = designs
        self.pl, self.designs, self.where = pl, designs, where
        ctx.log("%s: %d vectors, %d method shapes, %d designs (%d unusable), %d methods set aside as uncompilable" % (
            fam, len(vectors), len(self.shapes), len(designs), len(pl.failed), len(pl.bad_methods)))

    def run(self, vectors, rng=None, prefix="c"):
        """Returns the cases: dict(id, v, design, method, accepted, gen, table, descriptorOK, events, obs, ...)."""
        pl = self.pl
        scen, meta, cases = {}, {}, []
        for n, v in enumerate(vectors):
            di, svc, gometh, mname = self.where[self.index[gg.shape_key(v)]]
            evs = pl.events.get(di) or []
            stage = {e["ev"]: e for e in evs}
            accepted = stage.get("eval", {}).get("outcome") == "ok"
            verdict = ((pl.first_verdicts if (di, mname) in pl.bad_methods else pl.verdicts).get(di) or {}).get(svc)
            case = {"id": "%s%d" % (prefix, n), "v": v, "design": di, "method": gometh, "mname": mname, "accepted": accepted,
                    "evalErrors": stage.get("eval", {}).get("errors"), "gen": stage.get("gen", {}).get("outcome"),
                    "genDetail": (stage.get("gen", {}).get("detail") or "")[:400],
                    "descriptorOK": bool(verdict and verdict.get("descriptorOK")), "descriptorError": (verdict or {}).get("descriptorError") or (verdict or {}).get("parseError"),
                    "table": gg.method_table(verdict, gometh, mname), "events": None, "obs": None,
                    "uncompilable": pl.bad_methods.get((di, mname)), "unusable": pl.failed.get(di)}
            cases.append(case)
            if self.run_needed and di in self.bins and (di, mname) not in pl.bad_methods:
                sc, sent, rsent = gg.scenario_for(v, case["id"], "d%d/%s" % (di, svc), gometh, mname, rng)
                scen.setdefault(di, []).append(sc)
                case["sent"], case["rsent"] = sent, rsent
                meta[case["id"]] = case
        if self.run_needed:
            events = pl.run_all(self.bins, scen)
            for sid, case in meta.items():
                if sid not in events:
                    raise core.Infra("runner produced no observation for scenario %s" % sid)
                case["events"] = events[sid]
                case["obs"] = gg.project(case["v"], events[sid], case["mname"], case["sent"], case["rsent"])
        return cases


def run_family(ctx, fam, vectors, per_design=40, rng=None, label=None):
    f = Family(ctx, fam, vectors, per_design, label)
    return f.run(vectors, rng), f.pl


def attr_tag(a):
    nest = ".".join(gg.path_of(a)) if gg.composed(a) else a["nest"]
    return "%s/%s%s/%s/%s/%s" % (a["loc"], a["kind"], "" if a["w"] == "n" else a["w"], nest, a["mode"], a["rule"])


with_path = gg.with_path


def val_tag(v):
    return "absent" if hg.is_absent(v) else "%s:%s:%s:%s" % (v["cls"], v["s"], v["n"], v["cn"])


def short_case(c):
    v = c["v"]
    o = c.get("obs") or {}
    return {"vector": {k: v.get(k) for k in ("fam", "pa", "ra", "stream", "tagmode", "withmd", "explicit", "raw", "shared", "pv", "rv", "allow")},
            "sent": c.get("sent"), "rsent": c.get("rsent"), "accepted": c["accepted"], "evalErrors": c["evalErrors"], "gen": c["gen"], "genDetail": c["genDetail"],
            "descriptorOK": c["descriptorOK"], "descriptorError": c["descriptorError"], "table": c["table"],
            "observed": {k: o[k] for k in o if not k.endswith("_raw")}, "delivered_raw": o.get("delivered_raw"), "returned_raw": o.get("returned_raw"),
            "wire_raw": o.get("wire_raw"), "rwire_raw": o.get("rwire_raw")}


# ------------------------------------------------------------------ oracle judgement of one case
def table_problems(c):
    """WellFormed / NotInMessage judged on the parsed field table of the method."""
    v, t = c["v"], c["table"]
    al = v["allow"]
    probs = []
    if t is None:
        return [("wf/no-table", "fakeprotoc wrote no table: %s" % c["genDetail"])]
    if not c["descriptorOK"]:
        probs.append(("wf/descriptor-refused", "protodesc: %s" % c["descriptorError"]))
    per = {}
    for f in t["proto"]:
        per.setdefault(f["msg"], []).append(f)
    for m, fs in per.items():
        nums, names = [f["number"] for f in fs], [f["name"] for f in fs]
        if len(set(nums)) != len(nums):
            probs.append(("wf/number-twice", "message %s uses a field number twice: %s" % (m, sorted(nums))))
        if len(set(names)) != len(names):
            probs.append(("wf/name-twice", "message %s uses a field name twice: %s" % (m, sorted(names))))
        if any(n < 1 for n in nums):
            probs.append(("wf/number-invalid", "message %s has a field without a valid number: %s" % (m, sorted(nums))))
    if al["accept"]:
        for m, n, k in al["numbers"]:
            got = [f["number"] for f in t["proto"] if f["msg"] == m and f["name"] == n]
            if got != [k]:
                probs.append(("wf/number-not-design", "field %s.%s: design number %d, generated %s" % (m, n, k, got)))
    if len(t["rpcs"]) != 1:
        probs.append(("wf/rpc-count", "%d rpc declarations for the method" % len(t["rpcs"])))
    elif t["rpcs"][0]["cs"] != al["cs"] or t["rpcs"][0]["ss"] != al["ss"]:
        probs.append(("wf/rpc-direction", "designed stream client=%s server=%s, declared %s" % (al["cs"], al["ss"], t["rpcs"][0])))
    for side, a, names in (("req", v["pa"], ("a1", "x", "y")), ("res", v["ra"], ("r1", "x", "y"))):
        if a["loc"] != "message" and any(f["msg"] == side and f["name"] in names for f in t["proto"]):
            probs.append(("wf/%s-attribute-left-in-message" % a["loc"], "attribute mapped to %s is also a field of the %s message" % (a["loc"], side)))
    return probs


def where_ok(obs_where, allowed):
    return (obs_where == [] and "none" in allowed) or (len(obs_where) == 1 and obs_where[0] in allowed)


def abstract_class(a, sent, x):
    if hg.is_absent(x):
        return "absent"
    if x == sent:
        return "sent"
    d = hg.default_of(a)
    if a["mode"] == "default" and d is not None and x == d:
        return "default"
    return "other"


def allowed_classes(a, sent, allowed):
    return {abstract_class(a, sent, x) for x in allowed}


def run_problems(c, fam):
    """RoundTrip / RejectBeforeInvoke judged on the recorded exchange."""
    v, o = c["v"], c["obs"]
    al = v["allow"]
    probs = []
    if o["anomalies"]:
        probs.append(("anomaly:" + ",".join(o["anomalies"]), ""))
    if fam in ("req", "xm"):
        if o["where"] is not None and not where_ok(o["where"], al["where"]):
            probs.append(("where:%s" % "+".join(o["where"] or ["none"]), ""))
        if o["invoked"]:
            if o["delivered"] not in allowed_classes(v["pa"], v["pv"], al["delivered"]):
                probs.append(("delivered:%s" % o["delivered"], "delivered %s" % json.dumps((o.get("delivered_raw") or {}).get("a1"))[:120]))
            if o.get("invocations", 1) != 1:
                probs.append(("invoked-%d-times" % o["invocations"], ""))
            if al["mustReject"]:
                probs.append(("invalid-reached-user-code", ""))
        elif al["mustInvoke"]:
            probs.append(("valid-rejected:%s" % o["errname"], o.get("errmsg", "")))
        if v.get("raw"):
            return probs
    else:
        if not o["invoked"]:
            probs.append(("fixed-request-rejected:%s" % o["errname"], o.get("errmsg", "")))
            return probs
        if o["rwhere"] is not None and not where_ok(o["rwhere"], al["rwhere"]):
            probs.append(("rwhere:%s" % "+".join(o["rwhere"] or ["none"]), ""))
        if o["cerr"] == "result":
            if o["returned"] not in allowed_classes(v["ra"], v["rv"], al["returned"]):
                probs.append(("returned:%s" % o["returned"], "returned %s" % json.dumps((o.get("returned_raw") or {}).get("r1"))[:120]))
            if al["cMustReject"]:
                probs.append(("invalid-result-accepted", ""))
        elif al["cMustAccept"]:
            probs.append(("valid-result-refused:%s/%s" % (o["cerr"], o.get("cerr_name")), o.get("cerr_msg", "")))
    return probs


# ------------------------------------------------------------------ explaining mismatches by named deviations
def case_key(v):
    return core.canon([gg.shape_of(v), v.get("raw", False), v["pv"], v["rv"]])


def obs_class(a, sent, x):
    """ObsClass of Trace_GRPCTransport.tla."""
    if not hg.is_absent(x) and gg.emptyish(a, x) and hg.is_absent(sent):
        return "absent"
    if hg.is_absent(x) and not hg.is_absent(sent) and gg.emptyish(a, sent):
        return "sent"
    return abstract_class(a, sent, x)


def mech_loc(loc, a, sent):
    return "-" if gg.emptyish(a, sent) else loc


def mech_sig(v):
    """What the mechanism of the model did, in the vocabulary of the recorded events."""
    m = v["mech"]
    sig = {"accepted": m["accepted"]}
    if not m["accepted"]:
        return sig
    sig["table"] = gg.table_key(m["proto"], types=False)
    sig["types"] = gg.table_key(m["proto"])
    sig["rpcs"] = m["rpcs"]
    sig["descok"] = m["descok"]
    if v["fam"] == "wf" or not m["descok"]:
        return sig
    sig["where"] = mech_loc(m["where"], v["pa"], v["pv"])
    sig["invoked"] = m["invoked"]
    if m["invoked"]:
        sig["delivered"] = obs_class(v["pa"], v["pv"], m["delivered"])
        if v.get("raw"):
            return sig
        sig["rwhere"] = mech_loc(m["rwhere"], v["ra"], v["rv"])
        sig["cerr"] = m["cerr"]
        if m["cerr"] == "result":
            sig["returned"] = obs_class(v["ra"], v["rv"], m["returned"])
    return sig


def obs_sig(c):
    v, o = c["v"], c["obs"]
    sig = {"accepted": c["accepted"]}
    if not c["accepted"]:
        return sig
    sig["table"] = gg.table_key(c["table"]["proto"], types=False) if c["table"] else None
    sig["types"] = gg.table_key(c["table"]["proto"]) if c["table"] else None
    sig["rpcs"] = c["table"]["rpcs"] if c["table"] else None
    sig["descok"] = c["descriptorOK"]
    if v["fam"] == "wf" or not c["descriptorOK"] or o is None:
        return sig
    sig["where"] = gg.loc_of(o["where"], v["pa"], v["pv"])
    sig["invoked"] = o["invoked"]
    if o["invoked"]:
        sig["delivered"] = o["delivered"]
        if v.get("raw"):
            return sig
        sig["rwhere"] = gg.loc_of(o["rwhere"], v["ra"], v["rv"])
        sig["cerr"] = o["cerr"]
        if o["cerr"] == "result":
            sig["returned"] = o["returned"]
    return sig


def trace_events(c, devs):
    """The case as a sequence of trace events for Trace_GRPCTransport.tla (None: the case has no complete record)."""
    v, o, t = c["v"], c["obs"], c["table"]
    evs = [{"ev": "reset", "pa": with_path(v["pa"]), "ra": with_path(v["ra"]), "stream": v["stream"], "tagmode": v["tagmode"], "withmd": v["withmd"],
            "explicit": v.get("explicit", False), "raw": v.get("raw", False), "shared": v.get("shared", False), "pv": v["pv"], "rv": v["rv"], "devs": devs, "case": c["id"]},
           {"ev": "eval", "accepted": c["accepted"]}]
    if not c["accepted"]:
        return evs
    if t is None:
        return None
    for f in t["proto"]:
        evs.append(dict(f, ev="proto_field"))
    for r in t["rpcs"]:
        evs.append(dict(r, ev="rpc"))
    evs.append({"ev": "descriptor_ok", "ok": c["descriptorOK"]})
    if v["fam"] == "wf" or not c["descriptorOK"]:
        return evs
    if o is None or o["anomalies"] or o["where"] is None:
        return None
    sig = obs_sig(c)
    evs.append({"ev": "client_encode", "where": sig["where"]})
    if not o["invoked"]:
        evs.append({"ev": "server_decode", "kind": "error", "errname": o["errname"]})
        return evs
    evs.append({"ev": "server_decode", "kind": "payload", "class": o["delivered"]})
    evs.append({"ev": "invoke"})
    if v.get("raw"):
        return evs
    evs.append({"ev": "server_encode", "where": sig["rwhere"]})
    evs.append({"ev": "client_decode", "kind": o["cerr"], "class": o.get("returned") or "-"})
    return evs


class Explainer:
    """Does the mechanism of GRPCTransport.tla with one (or two) named deviations enabled behave exactly as
    the real code was observed to?  One TLC run (Explain_GRPCTransport) over the mismatching cases x candidate
    deviation sets."""

    def __init__(self, ctx, fam, depth="2"):
        self.ctx, self.fam, self.depth = ctx, fam, depth
        self.table = None
        self.devsets = [[d] for d in DEVIATIONS] + [[d1, d2] for i, d1 in enumerate(DEVIATIONS) for d2 in DEVIATIONS[i + 1:]]

    def prepare(self, vectors):
        """Adds the cases not asked about before (one TLC run for all of them); what is known stays known."""
        if self.table is None:
            self.table, self.known = {}, set()
        uniq = {}
        for v in vectors:
            if case_key(v) not in self.known:
                uniq[case_key(v)] = v
        if not uniq:
            return
        self.known |= set(uniq)
        cases = "".join(json.dumps({"pa": with_path(v["pa"]), "ra": with_path(v["ra"]), "stream": v["stream"], "tagmode": v["tagmode"], "withmd": v["withmd"],
                                    "explicit": v.get("explicit", False), "raw": v.get("raw", False), "shared": v.get("shared", False),
                                    "pv": v["pv"], "rv": v["rv"]}) + "\n" for v in uniq.values())
        devsets = "".join(json.dumps({"devs": d}) + "\n" for d in self.devsets)
        r = self.ctx.gen("mc/MC_GRPCTransport_Explain", "mc/MC_GRPCTransport_Explain.cfg", consts={"Family": '"%s"' % self.fam, "PathDepth": self.depth},
                         files={"cases.ndjson": cases, "devsets.ndjson": devsets},
                         label="Explain %s (%d cases x %d deviation sets)" % (self.fam, len(uniq), len(self.devsets)), timeout=1500)
        for v in r.vectors:
            v["fam"] = self.fam
            self.table.setdefault((case_key(v), "+".join(sorted(v["devs"]))), []).append(mech_sig(v))

    def explain(self, c, focus=None):
        v = c["v"]
        self.prepare([v])
        want = obs_sig(c)
        ck = case_key(v)

        base = mech_sig(v) if "mech" in v else None

        def match(sig):
            keys = [k for k in (focus or want.keys()) if k in want or k in sig]
            if base is not None and all(sig.get(k) == base.get(k) for k in keys):
                return False        # a deviation that changes nothing here explains nothing
            return all(sig.get(k) == want.get(k) for k in keys)
        for ds in self.devsets:
            if any(match(s) for s in self.table.get((ck, "+".join(sorted(ds))), [])):
                return "+".join(ds)
        return None
