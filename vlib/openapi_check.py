"""Shared machinery of C07 (and the document side of C14): enumerate designs with TLC, evaluate them with
TLC under sets of named deviations, generate + build + probe the real code, read the documents with the
openapi driver, compare, and assemble the trace TLC validates."""
import json, os, concurrent.futures as cf
from . import core, httpgen as hg, openapi_gen as og

DEVIATIONS = ["schema.exclusive_bound_numeric", "v3.trace_route_dropped", "v3.nosecurity_inherits_api_security",
              "v3.fileserver_documents_api_security", "v3.api_security_scheme_undefined", "v3.fileserver_wildcard_kept",
              "v3.fileserver_param_without_schema", "v3.allow_empty_value_not_query", "yaml.leading_newline_dropped",
              "decode.required_cookie_drops_param_errors", "schema.required_with_default_not_required"]
# deviations whose effects show in the same table entry
INTERACT = [("v3.nosecurity_inherits_api_security", "v3.api_security_scheme_undefined"),
            ("v3.fileserver_documents_api_security", "v3.api_security_scheme_undefined")]
INVS = "MountEqualsExpected Doc3EqualsMount Doc2EqualsMount JsonEqualsYaml DocsValid FoldIsExpected"
BASE = {"NPA": 1, "NRA": 1, "Family": '"req"'}
FAMILIES = ["paths", "verbs", "params", "resps", "sec", "files"]


def tla_set(names):
    return "{" + ", ".join('"%s"' % n for n in sorted(names)) + "}"


# ------------------------------------------------------------------ TLC: enumerate / evaluate
def enumerate_designs(ctx, fam, nsvc=1, nmeth=1, simulate=None, depth=None, workers="auto"):
    r = ctx.gen("mc/MC_OpenAPIOps", "gen/Gen_OpenAPIOps.cfg", consts={"OFamily": '"%s"' % fam, "NSvc": nsvc, "NMeth": nmeth},
                simulate=simulate, depth=depth, workers=(1 if simulate else workers), label="Gen designs %s %dx%d%s" % (fam, nsvc, nmeth, " (simulate)" if simulate else ""), timeout=900)
    out, seen = [], set()
    for v in r.vectors:
        k = core.canon(v["design"])
        if k not in seen:
            seen.add(k)
            out.append(v["design"])
    return out


def evaluate(ctx, designs, devsets, label="Eval"):
    """designs: list with an `id` field each.  Returns {(id, frozenset(devs)): vector}."""
    cases = "".join(json.dumps({"design": d}) + "\n" for d in designs)
    ds = "".join(json.dumps({"devs": sorted(s)}) + "\n" for s in devsets)
    r = ctx.gen("mc/MC_OpenAPIOps", "gen/Gen_OpenAPIOps_eval.cfg", files={"designs.ndjson": cases, "devsets.ndjson": ds},
                label="%s (%d designs x %d deviation sets)" % (label, len(designs), len(devsets)), timeout=1500)
    out = {}
    for v in r.vectors:
        out[(v["id"], frozenset(v["devs"]))] = v
    if len(out) != len(designs) * len(devsets):
        raise core.Infra("evaluation returned %d vectors for %d x %d cases" % (len(out), len(designs), len(devsets)))
    return out


def eff_map(d, vec):
    eff = {}
    for i, s in enumerate(d["svcs"]):
        for j, m in enumerate(s["meths"]):
            eff[(s["name"], m["name"])] = vec["eff"][i][j]
    return eff


# ------------------------------------------------------------------ real code
class Run:
    """Everything observed for a list of designs."""

    def __init__(self):
        self.pl = None
        self.unusable = {}     # design index -> reason
        self.mounts = {}       # design index -> [ {service, method, pattern(segs)} ]
        self.srvops = {}       # design index -> [op]
        self.anomalies = {}    # design index -> [(rid, what, detail)]
        self.docs = {}         # design index -> [event]
        self.probe_events = {}


def run_designs(ctx, designs, effs, name="gen-c07"):
    """designs[i] abstract, effs[i] = {(svc, meth): shape}.  Generates, compiles, builds the runner, probes."""
    res = Run()
    goa = [og.to_goa(d, effs[i], name="a%d" % (i + 1)) for i, d in enumerate(designs)]
    pl = hg.Pipeline(ctx, name)
    res.pl = pl
    pl.prepare(goa)
    for (di, m), diag in pl.bad_methods.items():
        res.unusable[di] = ("uncompilable-method", m, diag)
    bins = pl.build_runners(goa)
    for i, f in pl.failed.items():
        res.unusable.setdefault(i, f)
    usable = [i for i in range(len(designs)) if i not in res.unusable and i in bins]

    def first(i):
        scn = og.probes(i, designs[i], effs[i])
        obs, _ = pl.run(i, bins[i], scn, args=["-mounts", "mounts.json"])
        mounts = json.load(open(os.path.join(pl.root, "d%d" % i, "mounts.json")))
        return i, {o["id"]: o["events"] for o in obs}, mounts
    with cf.ThreadPoolExecutor(max_workers=16) as ex:
        for i, obs, mounts in ex.map(first, usable):
            res.probe_events[i] = obs
            res.mounts[i] = [{"service": m["service"], "method": m["method"], "pattern": og.parse_pattern(m["pattern"])} for m in mounts]
    # security rounds: refuse the schemes accepted so far, see which alternative the endpoint tries next
    rounds = {i: [] for i in usable}
    denied = {i: {} for i in usable}
    for i in usable:
        for k, ev in res.probe_events[i].items():
            if k.endswith("#full"):
                sch, _ = og.auth_requirement(ev)
                if sch:
                    denied[i][k[:-5]] = {x["name"] for x in sch}
    for rnd in range(1, 4):
        todo = [i for i in usable if denied[i]]
        if not todo:
            break

        def again(i):
            scn = og.probes(i, designs[i], effs[i], deny={rid: (rnd, sorted(names)) for rid, names in denied[i].items()})
            obs, _ = pl.run(i, bins[i], scn)
            return i, {o["id"].split("#")[0]: o["events"] for o in obs}
        with cf.ThreadPoolExecutor(max_workers=16) as ex:
            for i, obs in ex.map(again, todo):
                rounds[i].append(obs)
                nxt = {}
                for rid, ev in obs.items():
                    sch, _ = og.auth_requirement(ev)
                    new = {x["name"] for x in sch} - denied[i][rid]
                    if new:
                        nxt[rid] = denied[i][rid] | new
                denied[i] = nxt
    for i in usable:
        res.srvops[i], res.anomalies[i] = og.project_srvops(i, designs[i], effs[i], res.probe_events[i], rounds[i])
    # documents
    vecs = [{"mode": "docs", "id": "d%d" % i, "dir": os.path.join(pl.root, "d%d" % i)} for i in usable]
    obs, _, _ = ctx.drive("drivers/openapi", vecs)
    for o in obs:
        res.docs[int(o["id"][1:])] = o["events"]
    return res


# ------------------------------------------------------------------ observed tables / trace
def observed_tables(res, i):
    """Canonical observed tables of design i."""
    t = {"mounts": {og.mount_key(m) for m in res.mounts[i]},
         "srvOps": og.table(res.srvops[i]),
         "doc3": og.table([nodocparam(e) for e in res.docs[i] if e["ev"] == "docop" and e["version"] == 3]),
         "doc2": og.table([nodocparam(e) for e in res.docs[i] if e["ev"] == "docop" and e["version"] == 2]),
         "verdicts": {}}
    for e in res.docs[i]:
        v = e.get("version")
        if e["ev"] == "docvalid":
            t["verdicts"]["valid%d" % v] = e["ok"]
        elif e["ev"] == "json_eq_yaml":
            t["verdicts"]["jy%d" % v] = e["ok"]
        elif e["ev"] == "docfact":
            for k, n in e["facts"].items():
                t["verdicts"]["facts%d.%s" % (v, k)] = n > 0
        elif e["ev"] == "docmissing":
            t["verdicts"]["valid%d" % v] = False
            t["verdicts"]["missing%d" % v] = True
    return t


def nodocparam(e):
    """Documented operations are compared without their Authorization header parameter (OpenAPIOps.tla DocParam)."""
    return dict(e, params=[p for p in e["params"] if not (p["in"] == "header" and p["name"] == "Authorization")])


def predicted_tables(vec, which="mech"):
    m = vec[which]
    t = {"mounts": {og.mount_key(x) for x in m["mounts"]},
         "srvOps": og.table(m["srvOps"] if which == "mech" else m["ops"]),
         "doc3": og.table(m["doc3"]), "doc2": og.table(m["doc2"]), "verdicts": {}}
    if which == "mech":
        vd = m["verdicts"]
        for k in ("valid3", "valid2", "jy3", "jy2"):
            t["verdicts"][k] = vd[k]
        for v in (3, 2):
            for k, n in vd["facts%d" % v].items():
                t["verdicts"]["facts%d.%s" % (v, k)] = n > 0
    return t


def diff_tables(obs, pred):
    """List of item-level differences (table, item key, field, observed, predicted)."""
    out = []
    for m in sorted(obs["mounts"] ^ pred["mounts"]):
        out.append(("mounts", m, "present", m in obs["mounts"], m in pred["mounts"]))
    for tb in ("srvOps", "doc3", "doc2"):
        for k in sorted(set(obs[tb]) | set(pred[tb]), key=str):
            o, p = obs[tb].get(k), pred[tb].get(k)
            if o is None or p is None:
                out.append((tb, k, "present", o is not None, p is not None))
                continue
            for f in ("params", "hasBody", "statuses", "security"):
                if o[f] != p[f]:
                    out.append((tb, k, f, o[f], p[f]))
    for k in sorted(set(obs["verdicts"]) | set(pred["verdicts"])):
        if obs["verdicts"].get(k) != pred["verdicts"].get(k):
            out.append(("verdicts", k, "value", obs["verdicts"].get(k), pred["verdicts"].get(k)))
    return out


def item_of(t, item):
    tb, k, f = item
    if tb == "mounts":
        return k in t["mounts"]
    if tb == "verdicts":
        return t["verdicts"].get(k)
    o = t[tb].get(k)
    if f == "present":
        return o is not None
    return None if o is None else o[f]


def trace_lines(design, res, i):
    lines = [{"ev": "reset", "case": "d%d" % i, "design": design}]
    for m in res.mounts[i]:
        lines.append({"ev": "mount", "method": m["method"], "pattern": m["pattern"], "service": m["service"]})
    lines.append({"ev": "end_mounts"})
    for o in res.srvops[i]:
        lines.append({"ev": "srvop", "method": o["method"], "path": o["path"], "params": o["params"], "hasBody": o["hasBody"],
                      "statuses": o["statuses"], "security": o["security"], "rid": o["rid"]})
    lines.append({"ev": "end_srv"})
    for v in (3, 2):
        for e in res.docs[i]:
            if e["ev"] == "docop" and e["version"] == v:
                lines.append(e)
        lines.append({"ev": "end_doc", "version": v})
    for e in res.docs[i]:
        if e["ev"] in ("docvalid", "docfact", "json_eq_yaml"):
            lines.append({k: e[k] for k in e if k not in ("err", "diff", "stage")})
        elif e["ev"] == "docmissing":
            lines.append({"ev": "docvalid", "version": e["version"], "ok": False})
    lines.append({"ev": "end"})
    return lines


def validate_traces(ctx, cases, known, label="trace"):
    """cases: list of (case id, [lines]).  Returns the list of (case id, line index within the case, line) TLC rejected."""
    rejected = []
    rest = list(cases)
    rounds = 0
    while rest and rounds < 12:
        rounds += 1
        d = ctx.subdir("trace")
        p = os.path.join(d, "trace.ndjson")
        index = []
        with open(p, "w") as f:
            for cid, lines in rest:
                for n, ln in enumerate(lines):
                    try:
                        f.write(json.dumps(ln) + "\n")
                    except TypeError as e:
                        raise core.Infra("trace line of case %s is not JSON: %s: %r" % (cid, e, ln))
                    index.append((cid, n))
        ok, hwm, r = ctx.trace_validate("trace/Trace_OpenAPIOps", "trace/Trace_OpenAPIOps.cfg", p, consts={"Deviations": tla_set(known)},
                                        label="%s-%d" % (label, rounds), timeout=1200)
        if r.violated:
            raise core.Infra("trace validation: accepted behaviour violates %s:\n%s" % (r.violated, r.stdout[-2000:]))
        if ok:
            break
        if hwm is None:
            raise core.Infra("trace validation produced no high-water mark:\n" + r.stdout[-2000:])
        cid, n = index[hwm - 1]
        rejected.append((cid, n, dict(rest)[cid][n]))
        pos = [k for k, (c, _) in enumerate(rest) if c == cid][0]
        rest = rest[pos + 1:]
    return rejected
