"""C12 helpers: abstract DSL programs (flat node lists), the dslhost runner, failure minimisation and
classification keys.  No goa logic: programs are edited structurally, goa (through dslhost) says what
happens."""
import json, os, re, subprocess
from . import core


# ------------------------------------------------------------------ programs
def subtree(nodes, i):
    """0-based indices of node i and its descendants (program order)."""
    inside, out = {i}, [i]
    for j in range(i + 1, len(nodes)):
        p = nodes[j]["p"] - 1
        if p >= 0 and p in inside:
            inside.add(j)
            out.append(j)
    return out


def without(nodes, drop):
    """Program without the nodes in `drop` (a set of 0-based indices closed under descendants)."""
    remap, out = {}, []
    for j, nd in enumerate(nodes):
        if j in drop:
            continue
        c = dict(nd)
        c["p"] = remap[nd["p"] - 1] + 1 if nd["p"] > 0 else 0
        out.append(c)
        remap[j] = len(out) - 1
    return out


def hoist(nodes, i):
    """Program without node i, its children re-attached to its parent."""
    par = nodes[i]["p"]
    tmp = [dict(nd) for nd in nodes]
    for nd in tmp:
        if nd["p"] == i + 1:
            nd["p"] = par
    # parents must stay earlier than children: node i's kids come after i, par before i -> still ordered
    remap, out = {}, []
    for j, nd in enumerate(tmp):
        if j == i:
            continue
        c = dict(nd)
        c["p"] = remap[nd["p"] - 1] + 1 if nd["p"] > 0 else 0
        out.append(c)
        remap[j] = len(out) - 1
    return out


def render(nodes):
    """Go-like text of a program, for descriptions and reports."""
    kids = {}
    for j, nd in enumerate(nodes):
        kids.setdefault(nd["p"], []).append(j)
    lines = []

    def walk(par, ind):
        for j in kids.get(par, []):
            nd = nodes[j]
            args = [a for a in (("%r" % nd["n"]) if nd["n"] != "-" else None, nd["t"] if nd["t"] != "-" else None,
                                nd["v"] if nd["v"] not in ("plain", "fn") else None) if a]
            opens = nd["v"] in ("fn", "descfn", "summaryfn") or (j + 1) in kids
            lines.append("%s%s(%s%s" % ("  " * ind, nd["f"], ", ".join(args), (", func() {" if args else "func() {") if opens else ")"))
            if opens:
                walk(j + 1, ind + 1)
                lines.append("  " * ind + "})")
    walk(0, 0)
    return "\n".join(lines)


def shape_tok(nd):
    parts = []
    if nd["n"] == "":
        parts.append('n=""')
    if nd["t"] != "-":
        parts.append(nd["t"])
    if nd["v"] not in ("plain", "fn"):
        parts.append(nd["v"])
    return nd["f"] + ("[" + ",".join(parts) + "]" if parts else "")


def structure_key(nodes):
    """Canonical one-line rendering of a (minimised) program: f[tokens](children...) in program order.
    Name tokens are left out unless empty: the key names the calls and their argument shapes."""
    kids = {}
    for j, nd in enumerate(nodes):
        kids.setdefault(nd["p"], []).append(j)

    def walk(par):
        out = []
        for j in kids.get(par, []):
            sub = walk(j + 1)
            out.append(shape_tok(nodes[j]) + ("(" + sub + ")" if sub else ""))
        return " ".join(out)
    return walk(0)


# ------------------------------------------------------------------ runner
class Host:
    def __init__(self, ctx):
        self.ctx = ctx
        self.bin = ctx.gobuild("cmd/dslhost")
        p = ctx.run([self.bin, "-table"])
        self.table = json.loads(p.stdout)
        self.runs = 0

    def run(self, programs, random=0, gen_dir=None, limit="20s", maxnodes=60, seed=None, label="dslhost"):
        """Runs programs (list of {"id","nodes"}); returns output lines [{"i","origin","prog","res"}]."""
        d = self.ctx.subdir(label)
        inp, outp = os.path.join(d, "in.ndjson"), os.path.join(d, "out.ndjson")
        with open(inp, "w") as f:
            for p in programs:
                f.write(json.dumps(p, separators=(",", ":")) + "\n")
        cmd = [self.bin, "-in", inp, "-out", outp, "-seed", str(self.ctx.seed if seed is None else seed), "-limit", limit,
               "-workers", "16", "-maxnodes", str(maxnodes)]
        if random:
            cmd += ["-random", str(random)]
        if gen_dir:
            cmd += ["-gen", gen_dir]
        p = subprocess.run(cmd, cwd=gen_dir or d, env=self.ctx.goenv(), stdout=subprocess.PIPE, stderr=subprocess.PIPE, text=True, timeout=3600, errors="replace")
        if p.returncode != 0:
            raise core.Infra("dslhost failed (%d): %s" % (p.returncode, (p.stderr or p.stdout)[-3000:]))
        lines = [json.loads(l) for l in open(outp) if l.strip()]
        self.runs += len(lines)
        return lines

    def check_tokens(self, programs):
        """Every (f, n, t, v) TLC emitted must be one the interpreter knows (else the two tables disagree)."""
        for p in programs:
            for nd in p["nodes"]:
                sp = self.table.get(nd["f"])
                if sp is None or nd["n"] not in sp["n"] or nd["t"] not in sp["t"] or nd["v"] not in sp["v"]:
                    raise core.Infra("function tables disagree: the specification emitted %s which dslhost does not know" % json.dumps(nd))


_FRAME = re.compile(r"goa\.design/goa/v3/([\w/]+\.(?:\(\*?\w+\)\.)?[\w.]+)\(")


def signature(res):
    """What makes two failures 'the same' while minimising (tooling only, never part of a finding key)."""
    if res["outcome"] == "panic":
        frames = [m for m in _FRAME.findall(res.get("stack", "")) if not m.startswith("eval.")]
        top = frames[0] if frames else ""
        if res.get("stage") == "fatal":
            # stack overflow: the top frame is arbitrary, the functions of the runaway recursion are the ones that repeat
            count = {}
            for m in frames:
                count[m] = count.get(m, 0) + 1
            top = "fatal:" + ",".join(sorted(m for m, c in count.items() if c >= 3))
        return ("panic", top)
    if res["outcome"] == "timeout":
        return ("timeout", "")
    if res["outcome"] == "rejected" and (res["nErrs"] < 1 or not res["allNamed"]):
        return ("unnamed", "")
    return (res["outcome"], "")


def minimise(host, nodes, same, simplify=True, max_rounds=60):
    """Greedy structural minimisation: drop sub-trees, splice out single calls, then replace tokens by plain
    ones, as long as `same(result)` holds.  Every candidate is executed on the real code."""
    cur = [dict(n) for n in nodes]
    for _ in range(max_rounds):
        cands = []
        for i in range(len(cur)):
            st = set(subtree(cur, i))
            if len(st) < len(cur):
                cands.append(without(cur, st))
            if any(nd["p"] == i + 1 for nd in cur):
                cands.append(hoist(cur, i))
        if not cands:
            break
        cands.sort(key=len)
        lines = host.run([{"id": k, "nodes": c} for k, c in enumerate(cands)], label="min")
        ok = [cands[l["i"]] for l in lines if same(l["res"])]
        if not ok:
            break
        cur = min(ok, key=len)
    if simplify:
        for _ in range(12):
            cands = []
            for i, nd in enumerate(cur):
                sp = host.table[nd["f"]]
                has_kids = any(o["p"] == i + 1 for o in cur)
                opts = []
                if nd["t"] not in ("-", "String"):
                    opts += [("t", "-"), ("t", "String")]
                if nd["v"] not in ("plain", "fn"):
                    opts += [("v", "fn")] if has_kids else [("v", "plain"), ("v", "fn")]
                elif nd["v"] == "fn" and not has_kids:
                    opts += [("v", "plain")]
                for fld, plain in opts:
                    if plain in sp[fld]:
                        c = [dict(x) for x in cur]
                        c[i][fld] = plain
                        cands.append(c)
            if not cands:
                break
            lines = host.run([{"id": k, "nodes": c} for k, c in enumerate(cands)], label="min-tok")
            nxt = next((cands[l["i"]] for l in lines if same(l["res"])), None)
            if nxt is None:
                break
            cur = nxt
    return cur
