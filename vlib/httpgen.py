"""From TLC's abstract method shapes to goa designs, concrete scenarios, and back:
design assembly, value concretisation, the generate/build/run pipeline on real generated code,
and the projection of what the runner recorded onto the observables of HTTPTransport.tla.
No goa logic lives here: designs are lists of DSL facts, values are deterministic renderings of
value classes, projections only look things up by name."""
import base64, hashlib, json, os, shutil, subprocess, concurrent.futures as cf
from . import core

LO, HI = 2, 5
KIND = {"int": "int", "uint": "uint", "float": "float64", "bool": "bool", "string": "string", "bytes": "bytes",
        "int32": "int32", "int64": "int64", "uint32": "uint32", "uint64": "uint64", "float32": "float32", "any": "any"}
INTS, UINTS, FLOATS = ("int", "int32", "int64"), ("uint", "uint32", "uint64"), ("float", "float32")
LETTERS = "abcdefghij"
DATE = "2001-02-03"
BIG = 9007199254740993  # 2^53 + 1: not representable as a float64


# ------------------------------------------------------------------ rules -> design validations
def rule_val(a):
    r, k = a["rule"], a["kind"]
    if r == "min":
        return {"min": LO}
    if r == "max":
        return {"max": HI}
    if r == "xmin":
        return {"exclMin": LO}
    if r == "xmax":
        return {"exclMax": HI}
    if r == "range":
        return {"min": LO, "max": HI}
    if r == "xrange":
        return {"exclMin": LO, "exclMax": HI}
    if r == "lenrange":
        return {"minLen": LO, "maxLen": HI}
    if r == "minlen":
        return {"minLen": LO}
    if r == "maxlen":
        return {"maxLen": HI}
    if r == "enum":
        return {"enum": [2, 3, 5]} if k == "int" else {"enum": ["ab", "abc", "abcde"]}
    if r == "pattern":
        return {"pattern": "^[a-z]+$"}
    if r == "format":
        return {"format": "date"}
    return None


def attr_design(a, name, tprefix, types):
    """Design facts for one attribute shape. Appends auxiliary user types to `types`."""
    prim = {"kind": KIND[a["kind"]]}
    leafval = rule_val(a) if a["rule"] not in ("cminlen", "cmaxlen") else None
    contval = {"minLen": LO} if a["rule"] == "cminlen" else ({"maxLen": HI} if a["rule"] == "cmaxlen" else None)
    att = {"name": name, "required": a["mode"] == "required"}
    nest = a["nest"]
    if nest == "direct":
        att["type"] = prim
        if leafval:
            att["val"] = leafval
    elif nest == "alias":
        # one alias type per (method, kind, rule): two attributes of the same shape share it
        # (a default declared on the alias type itself - modes tdefault / bdefault - makes it a type of its own)
        tn = "%sAl%s%s%s" % (tprefix.rstrip("0123456789")[:-1], a["kind"].capitalize(), a["rule"].capitalize(), {"tdefault": "Td", "bdefault": "Bd"}.get(a["mode"], ""))
        if not any(t["name"] == tn for t in types):
            t = {"name": tn, "kind": "alias", "base": prim}
            if leafval:
                t["val"] = leafval
            if a["mode"] in ("tdefault", "bdefault"):
                t["default"] = type_default(a)
            types.append(t)
        att["type"] = {"kind": "user", "ref": tn}
    elif nest == "elem":
        e = dict(prim)
        if leafval:
            e["val"] = leafval
        att["type"] = {"kind": "array", "elem": e}
        if contval:
            att["val"] = contval
    elif nest == "mapkey":
        k = dict(prim)
        if leafval:
            k["val"] = leafval
        att["type"] = {"kind": "map", "key": k, "elem": {"kind": "int"}}
    elif nest in ("mapval", "mapparams"):
        e = dict(prim)
        if leafval:
            e["val"] = leafval
        att["type"] = {"kind": "map", "key": {"kind": "string"}, "elem": e}
        if contval:
            att["val"] = contval
    elif nest in ("alias_elem", "alias_mapval"):
        # a NAMED collection: Type("M1A1List", ArrayOf(K)) / Type("M1A1Map", MapOf(String, K)) used as the attribute's type
        e = dict(prim)
        if leafval:
            e["val"] = leafval
        tn = tprefix + ("List" if nest == "alias_elem" else "Map")
        t = {"name": tn, "kind": "array" if nest == "alias_elem" else "map",
             "base": {"kind": "array", "elem": e} if nest == "alias_elem" else {"kind": "map", "key": {"kind": "string"}, "elem": e}}
        if contval:
            t["val"] = contval
        types.append(t)
        att["type"] = {"kind": "user", "ref": tn}
    elif nest == "mapval_elem":
        e = dict(prim)
        if leafval:
            e["val"] = leafval
        att["type"] = {"kind": "map", "key": {"kind": "string"}, "elem": {"kind": "array", "elem": e}}
    elif nest == "nested":
        tn = tprefix + "Nested"
        inner = {"name": "v", "type": prim, "required": True}
        if leafval:
            inner["val"] = leafval
        types.append({"name": tn, "kind": "object", "attrs": [inner]})
        att["type"] = {"kind": "user", "ref": tn}
    elif nest == "nested_alias":
        # a user type holding an optional attribute of alias type; the mode says where its default is declared
        an = tprefix + "Score"
        t = {"name": an, "kind": "alias", "base": prim}
        if leafval:
            t["val"] = leafval
        if a["mode"] in ("tdefault", "bdefault"):
            t["default"] = type_default(a)
        types.append(t)
        inner = {"name": "v", "type": {"kind": "user", "ref": an}}
        if a["mode"] in ("default", "bdefault"):
            inner["default"] = design_default(a)
        types.append({"name": tprefix + "Holder", "kind": "object", "attrs": [inner, {"name": "w", "type": {"kind": "string"}}]})
        att["type"] = {"kind": "user", "ref": tprefix + "Holder"}
        att["required"] = True
    elif nest == "mapkey_alias":
        tn = tprefix + "Key"
        t = {"name": tn, "kind": "alias", "base": prim}
        if leafval:
            t["val"] = leafval
        types.append(t)
        att["type"] = {"kind": "map", "key": {"kind": "user", "ref": tn}, "elem": {"kind": "int"}}
    elif nest in ("nested_mapkey", "nested_elem"):
        tn = tprefix + "Holder"
        if nest == "nested_mapkey":
            k = dict(prim)
            if leafval:
                k["val"] = leafval
            inner = {"name": "m", "type": {"kind": "map", "key": k, "elem": {"kind": "int"}}}
        else:
            e = dict(prim)
            if leafval:
                e["val"] = leafval
            inner = {"name": "l", "type": {"kind": "array", "elem": e}}
        types.append({"name": tn, "kind": "object", "attrs": [inner]})
        att["type"] = {"kind": "user", "ref": tn}
    elif nest in ("elem_nested", "mapval_nested"):
        tn = tprefix + "Item"
        inner = {"name": "v", "type": prim, "required": True}
        if leafval:
            inner["val"] = leafval
        types.append({"name": tn, "kind": "object", "attrs": [inner]})
        ref = {"kind": "user", "ref": tn}
        att["type"] = {"kind": "array", "elem": ref} if nest == "elem_nested" else {"kind": "map", "key": {"kind": "string"}, "elem": ref}
    if a["mode"] in ("default", "bdefault") and nest != "nested_alias":
        att["default"] = design_default(a)
    return att


WHOLE = ("whole", "whole_elem", "whole_mapval")


def whole_tref(a):
    """the data type of a payload / result that IS the value"""
    prim = {"kind": KIND[a["kind"]]}
    leafval = rule_val(a) if a["rule"] not in ("cminlen", "cmaxlen") else None
    contval = {"minLen": LO} if a["rule"] == "cminlen" else ({"maxLen": HI} if a["rule"] == "cmaxlen" else None)
    if a["nest"] == "whole":
        t = dict(prim)
        if leafval:
            t["val"] = leafval
        return t
    e = dict(prim)
    if leafval:
        e["val"] = leafval
    t = {"kind": "array", "elem": e} if a["nest"] == "whole_elem" else {"kind": "map", "key": {"kind": "string"}, "elem": e}
    if contval:
        t["val"] = contval
    return t


def default_of(a):
    """DefaultOf of lib/Values.tla: the kind's default leaf; for a list / map of values two entries, the last one that leaf"""
    k = a["kind"]
    if k in INTS or k in UINTS:
        d = V(k, 3)
    elif k in FLOATS:
        d = V(k, 3, "half")
    else:
        d = {"bool": V("bool", 1), "string": V("string", 3)}.get(k)
    if d is not None and a["nest"] in ("elem", "mapval", "alias_elem", "alias_mapval"):
        d = dict(d, cn=2)
    return d


DEF_MODES = ("default", "tdefault", "bdefault")


def has_default(a):
    """HasDefault of lib/Values.tla: a default is declared for the attribute - on it, on its alias type, or on both"""
    return a["mode"] in DEF_MODES


def type_default(a):
    """the Default(...) declared on the alias TYPE: the promised default (DefaultOf) when the type alone declares one (tdefault),
    another valid value when the attribute declares one too (bdefault: the attribute's wins, this one must never show)"""
    if a["mode"] == "tdefault":
        return design_default(a)
    k = a["kind"]
    other = V(k, 5, "half") if k in FLOATS else (V("bool", 0) if k == "bool" else V(k, 5))
    return concrete_leaf(a, other)


def design_default(a):
    """the Default(...) of the design as plain JSON (a map is a JSON object here, not rt.Fill's {"$map": ..})"""
    if a["nest"] == "nested_alias":         # (the default belongs to the inner attribute of alias type)
        return concrete_leaf(a, default_of(a))
    c = concrete(a, default_of(a))
    return c["$map"] if isinstance(c, dict) and "$map" in c else c


def V(cls, n, s="plain", cn=1):
    return {"cls": cls, "n": n, "s": s, "cn": cn}


ABSENT = {"cls": "absent", "n": 0, "s": "plain", "cn": 0}


def is_absent(v):
    return v["cls"] == "absent"


# ------------------------------------------------------------------ concretisation
def concrete_leaf(a, v):
    k, n, s = a["kind"], v["n"], v["s"]
    if k in INTS:
        return -n if s == "neg" else (BIG if s == "big" else n)
    if k in UINTS:
        return BIG if s == "big" else n
    if k in FLOATS:
        return n + 0.5 if s == "half" else float(n)
    if k == "bool":
        return n == 1
    if k == "any":
        return {"half": 3.5, "big": float(2 ** 53), "plain": "abc", "bool": True}[s]
    if k == "bytes":
        if s == "huge":
            return {"$bytes": base64.b64encode(bytes(i % 251 for i in range(70000))).decode()}
        if a["loc"] == "body" and s == "plain":
            return {"$bytes": base64.b64encode(bytes(range(1, n + 1))).decode()}
        # outside a JSON body the raw bytes are the text of the parameter: n BYTES of text in the string shapes
        if s == "uni":
            base = list(LETTERS[:n - 1])
            base[(n - 1) // 2] = "é"
            text = "".join(base)
        else:
            text = concrete_leaf(dict(a, kind="string", rule="none"), v)
        return {"$bytes": base64.b64encode(text.encode()).decode()}
    # string
    if s == "empty":
        return ""
    if s == "huge":
        return "abcdefghij" * 7000
    if a["rule"] == "format" and s == "plain" and n == 3:
        return DATE
    base = list(LETTERS[:n])
    pos = n // 2
    if s == "slash":
        base[pos] = "/"
    elif s == "space":
        base[pos] = " "
    elif s == "uni":
        base[pos] = "é"
    elif s == "plus":
        base[pos] = "+"
    elif s == "pcthex":
        base[0:3] = list("%41")
    return "".join(base)


def filler(a):
    """A value of the leaf kind that satisfies every rule the envelope can attach."""
    k = a["kind"]
    if k == "string":
        return DATE if a["rule"] == "format" else "abc"
    if k in INTS or k in UINTS:
        return 3
    if k in FLOATS:
        return 3.5
    return {"bool": True, "bytes": {"$bytes": "AQID"}, "any": "abc"}[k]


def concrete(a, v):
    """Concrete JSON datum (rt.Fill conventions) for abstract value v of attribute shape a; None = unset."""
    if is_absent(v):
        return None
    if v["s"] == "nofield":
        # what the generated encoder is given: complete objects; the member is removed on the wire (tamper_paths)
        full = concrete(a, dict(v, s="plain", n=3))
        return full
    leaf = concrete_leaf(a, v)
    nest, cn = a["nest"], v["cn"]
    if nest in ("direct", "alias", "whole"):
        return leaf
    if nest == "whole_elem":
        return [filler(a)] * (cn - 1) + [leaf] if cn >= 1 else []
    if nest == "whole_mapval":
        m = {}
        for i in range(cn - 1):
            m["k%d" % (i + 1)] = filler(a)
        if cn >= 1:
            m["k%d" % cn] = leaf
        return {"$map": m}
    if nest == "nested":
        return {"v": leaf}
    if nest == "nested_alias":
        return {"v": leaf, "w": "k"}
    if nest in ("elem", "alias_elem"):
        return [filler(a)] * (cn - 1) + [leaf] if cn >= 1 else []
    if nest == "mapkey":
        return {"$map": {keystr(leaf): 7}} if cn >= 1 else {"$map": {}}
    if nest in ("mapval", "mapparams", "alias_mapval"):
        m = {}
        for i in range(cn - 1):
            m["k%d" % (i + 1)] = filler(a)
        if cn >= 1:
            m["k%d" % cn] = leaf
        return {"$map": m}
    if nest == "mapval_elem":
        # cn entries, each a list: one unremarkable element, the last list holds a second element, the leaf
        m = {}
        for i in range(cn - 1):
            m["k%d" % (i + 1)] = [filler(a)]
        if cn >= 1:
            m["k%d" % cn] = [filler(a), leaf]
        return {"$map": m}
    if nest == "mapkey_alias":
        return {"$map": {keystr(leaf): 7}}
    if nest == "nested_mapkey":
        return {"m": {"$map": {keystr(leaf): 7}}}
    if nest == "nested_elem":
        return {"l": [filler(a)] * (cn - 1) + [leaf]}
    if nest == "elem_nested":
        return [{"v": filler(a)}] * (cn - 1) + [{"v": leaf}]
    if nest == "mapval_nested":
        m = {}
        for i in range(cn - 1):
            m["k%d" % (i + 1)] = {"v": filler(a)}
        m["k%d" % cn] = {"v": leaf}
        return {"$map": m}
    raise ValueError(nest)


def tamper_paths(a, v, name):
    """JSON paths (in the body on the wire) of the members a peer leaves out for value v of attribute `name`:
    the required inner attribute `v` of the last object (value shape "nofield")."""
    if is_absent(v) or v["s"] != "nofield":
        return []
    if a["nest"] == "nested":
        return [[name, "v"]]
    if a["nest"] == "elem_nested":
        return [[name, str(v["cn"] - 1), "v"]]
    if a["nest"] == "mapval_nested":
        return [[name, "k%d" % v["cn"], "v"]]
    raise ValueError("no member to leave out for nesting " + a["nest"])


def without(datum, path):
    """the concrete datum with the member at `path` (relative to the attribute) removed: what is on the wire"""
    import copy
    d = copy.deepcopy(datum)
    cur = d
    for k in path[:-1]:
        if isinstance(cur, list):
            cur = cur[int(k)]
        elif "$map" in cur:
            cur = cur["$map"][k]
        else:
            cur = cur[k]
    del cur[path[-1]]
    return d


def sent_datum(a, v):
    """what travels for value v: concrete(a, v) minus the members a peer leaves out"""
    c = concrete(a, v)
    for p in tamper_paths(a, v, "x"):
        c = without(c, p[1:])
    return c


def keystr(x):
    if isinstance(x, bool):
        return "true" if x else "false"
    return str(x)


def same(a, b):
    """Equality of two dumped values; nil and empty containers are the same 'nothing there'."""
    if a is None or b is None:
        return empty(a) and empty(b)
    if isinstance(a, bool) or isinstance(b, bool):
        return isinstance(a, bool) and isinstance(b, bool) and a == b
    if isinstance(a, (int, float)) and isinstance(b, (int, float)):
        return a == b
    if type(a) != type(b):
        return False
    if isinstance(a, dict):
        return set(a) == set(b) and all(same(a[k], b[k]) for k in a)
    if isinstance(a, list):
        return len(a) == len(b) and all(same(x, y) for x, y in zip(a, b))
    return a == b


def empty(x):
    return x is None or x == [] or x == {"$map": {}}


# ------------------------------------------------------------------ designs
ELEM = {"query": lambda n: "q" + n, "header": lambda n: "X-H" + n, "cookie": lambda n: "c" + n}


def method_design(idx, shape, types, extra=None):
    """One goa method for a (pa, ra, tagged) shape (extra: list that receives sibling methods)."""
    mname = "m%d" % idx
    pa, ra = shape["pa"], shape["ra"]
    pattrs, rattrs = [], []
    http = {"routes": [{"verb": "POST", "path": "/" + mname}], "params": {}, "headers": {}, "cookies": {}}
    path = "/" + mname
    pwhole = len(pa) == 1 and pa[0]["nest"] in WHOLE
    rwhole = len(ra) == 1 and ra[0]["nest"] in WHOLE
    for i, a in enumerate(pa):
        n = "a%d" % (i + 1)
        if pwhole:
            # the element name IS the mapping of the whole payload
            if a["loc"] == "path":
                path += "/{" + n + "}"
            elif a["loc"] == "query" and a["nest"] == "whole_mapval":
                http["mapParams"] = ""          # MapParams(): the map IS the query string
            elif a["loc"] == "query":
                http["params"][ELEM["query"](n)] = ELEM["query"](n)
            elif a["loc"] == "header":
                http["headers"][ELEM["header"](n)] = ELEM["header"](n)
            continue
        pattrs.append(attr_design(a, n, "M%dA%d" % (idx, i + 1), types))
        if a["loc"] == "path":
            path += "/{" + n + "}"
        elif a["loc"] == "query" and a["nest"] == "mapparams":
            http["mapParams"] = n           # MapParams("a1"): the entries of a1 are the query string
        elif a["loc"] == "query":
            http["params"][n] = ELEM["query"](n)
        elif a["loc"] == "header":
            http["headers"][n] = ELEM["header"](n)
        elif a["loc"] == "cookie":
            http["cookies"][n] = ELEM["cookie"](n)
        if a["mode"] == "treq":         # optional in the payload, Required in the HTTP mapping only
            http.setdefault({"query": "paramsRequired", "header": "headersRequired"}[a["loc"]], []).append(n)
    http["routes"][0]["path"] = path
    resp = {"status": 200, "headers": {}, "cookies": {}}
    for j, a in enumerate(ra):
        n = "r%d" % (j + 1)
        if rwhole:
            continue
        rattrs.append(attr_design(a, n, "M%dR%d" % (idx, j + 1), types))
        if a["loc"] == "header":
            resp["headers"][n] = ELEM["header"](n)
        elif a["loc"] == "cookie":
            resp["cookies"][n] = ELEM["cookie"](n)
        if a["mode"] == "treq":
            resp.setdefault("headersRequired", []).append(n)
    responses = [resp]
    layout = tags_of(shape)
    if layout == 1:
        tagged = json.loads(json.dumps(resp))
        tagged.update({"status": 201, "tagName": "r1", "tagValue": "abc"})
        responses = [tagged, resp]
    elif layout >= 2:
        # two tagged responses (HTTPTransport.tla TaggedResponses), each with header / cookie names of its own, so that
        # the response that answered shows in the locations too
        def tagged_resp(status, attr):
            t = json.loads(json.dumps(resp))
            t.update({"status": status, "tagName": attr, "tagValue": "abc"})
            t["headers"] = {k: x + resp_suffix(status) for k, x in t["headers"].items()}
            t["cookies"] = {k: x + resp_suffix(status) for k, x in t["cookies"].items()}
            return t
        responses = [tagged_resp(201, "r1"), tagged_resp(202, "r2"), resp] if layout == 2 else [resp, tagged_resp(202, "r2"), tagged_resp(201, "r1")]
    http["responses"] = responses
    m = {"name": mname, "http": http}
    # half of the methods with several attributes declare its payload / result as a NAMED user type (Payload(T)) instead
    # of an inline object: the transport then derives its body types from a type that also exists on its own
    # (decided by the shape, not by its position: the same method re-run in a design of its own must be the same method)
    named = hashlib.sha1(shape_key(shape).encode()).digest()[0] % 2 == 0
    if pwhole:
        m["payload"] = {"type": whole_tref(pa[0])}
    elif pattrs and named and len(pattrs) >= 2:
        types.append({"name": "M%dPay" % idx, "kind": "object", "attrs": pattrs})
        m["payload"] = {"type": {"kind": "user", "ref": "M%dPay" % idx}}
    elif pattrs:
        m["payload"] = {"attrs": pattrs}
    if rwhole:
        m["result"] = {"type": whole_tref(ra[0])}
    elif rattrs and named and len(rattrs) >= 2:
        types.append({"name": "M%dRes" % idx, "kind": "object", "attrs": rattrs})
        m["result"] = {"type": {"kind": "user", "ref": "M%dRes" % idx}}
    elif rattrs:
        m["result"] = {"attrs": rattrs}
    # ... and such a type is also used WHOLE as the body of a sibling method (never called): the method's own body types
    # are then a second shape of a type the documents already know
    if extra is not None and any("type" in m.get(k, {}) and m[k]["type"].get("kind") == "user" for k in ("payload", "result")) and not (pwhole or rwhole):
        sib = {"name": mname + "w", "http": {"routes": [{"verb": "POST", "path": "/" + mname + "w"}], "params": {}, "headers": {}, "cookies": {},
                                              "responses": [{"status": 200, "headers": {}, "cookies": {}}]}}
        for k in ("payload", "result"):
            if "type" in m.get(k, {}) and m[k]["type"].get("kind") == "user":
                sib[k] = m[k]
        extra.append(sib)
    return m


def used_types(design):
    """the user types of a design its services reach, directly or through other types (declaration order kept)"""
    types = design.get("types", [])
    text = json.dumps(design["services"])
    keep, grew = set(), True
    while grew:
        grew = False
        for t in types:
            if t["name"] not in keep and '"ref": "%s"' % t["name"] in text:
                keep.add(t["name"])
                text += json.dumps(t)
                grew = True
    return [t for t in types if t["name"] in keep]


def tags_of(v):
    """layout of the tagged responses (HTTPTransport.tla cfg.tags): 0 none, 1 one, 2 / 3 two in either declaration order"""
    t = v.get("tags")
    return t if t is not None else (1 if v.get("tagged") else 0)


def resp_suffix(status):
    """wire-name suffix of the header / cookie mappings of a tagged response in the two-tag layouts"""
    return "-%d" % status if status in (201, 202) else ""


def shape_key(v):
    k = {"pa": v["pa"], "ra": v["ra"], "tagged": bool(v.get("tagged", False))}
    if tags_of(v) >= 2:
        k["tags"] = tags_of(v)
    return core.canon(k)


def struct_sig(a, name):
    """Structure of one attribute as the OpenAPI 3 builder hashes it: primitive type names, arrays, maps, objects with their
    attribute names and required sets; user types are transparent; validations, defaults and type names do not count.
    Computed from the very design attr_design produces."""
    types = []
    att = attr_design(a, name, "S", types)
    tmap = {t["name"]: t for t in types}

    def obj(attrs):
        return "obj{" + ",".join(sorted("%s:%s%s" % (x["name"], sig(x["type"]), "!" if x.get("required") else "") for x in attrs)) + "}"

    def sig(t):
        k = t["kind"]
        if k == "user":
            u = tmap.get(t["ref"])
            if u is None:
                return "user:" + t["ref"]
            if u.get("base") is not None and u["kind"] in ("alias", "array", "map"):
                return sig(u["base"])
            return obj(u.get("attrs") or [])
        if k == "array":
            return "[" + sig(t["elem"]) + "]"
        if k == "map":
            return "{" + sig(t["key"]) + ":" + sig(t["elem"]) + "}"
        if k == "object":
            return obj(t.get("attrs") or [])
        return k
    return sig(att["type"])


def body_struct_keys(sh):
    """[(structure, validations)] of the request and response body types of a method shape, structure as the OpenAPI 3
    builder hashes it (see struct_sig)."""
    out = []
    for attrs, pfx in ((sh["pa"], "a"), (sh["ra"], "r")):
        b = [(i, a) for i, a in enumerate(attrs) if a["loc"] == "body" and a["nest"] not in WHOLE]
        if b:
            out.append((tuple((pfx + str(i + 1), struct_sig(a, pfx + str(i + 1)), a["mode"] == "required") for i, a in b),
                        tuple(core.canon(a) for i, a in b)))
        # the builder also shares the schemas of the object types INSIDE bodies: two attributes (of any two bodies) holding
        # structurally equal objects with different validations collide in the same way
        for i, a in b:
            for o in inner_objects(struct_sig(a, "x")):
                out.append((("inner", o), (a["kind"], a["rule"], a["nest"])))
        # a NAMED payload / result type (method_design: decided by the shape) is also the whole body of the sibling method,
        # with every attribute in it - also the ones the method itself maps to headers, cookies or parameters
        named = hashlib.sha1(shape_key(sh).encode()).digest()[0] % 2 == 0
        if named and len(attrs) >= 2 and not any(a["nest"] in WHOLE for a in attrs):
            out.append((tuple((pfx + str(i + 1), struct_sig(a, pfx + str(i + 1)), a["mode"] == "required") for i, a in enumerate(attrs)),
                        tuple(core.canon(a) for a in attrs)))
    return out


def inner_objects(sg):
    """every object type (at any depth) of a struct_sig: the balanced obj{...} substrings"""
    out, i = set(), sg.find("obj{")
    while i >= 0:
        depth, j = 0, i + 3
        while True:
            if sg[j] == "{":
                depth += 1
            elif sg[j] == "}":
                depth -= 1
                if depth == 0:
                    break
            j += 1
        out.add(sg[i:j + 1])
        i = sg.find("obj{", i + 4)
    return sorted(out)


def pack_designs(shapes, per_design=40, apart=None):
    """shapes: list of shape dicts. Returns (designs, where) with where[shape_index] = (design index, service, GoMethod).
    apart(shape) -> [(structure, validations)]: two shapes with an equal structure and different validations are not put in
    the same design (first fit)."""
    bins = []          # [shape indices, {structure: validations}]
    for si, sh in enumerate(shapes):
        keys = apart(sh) if apart else []
        for b in (bins if apart else bins[-1:]):
            if len(b[0]) < per_design and all(b[1].get(st, vl) == vl for st, vl in keys):
                break
        else:
            b = [[], {}]
            bins.append(b)
        b[0].append(si)
        b[1].update(keys)
    designs, where = [], {}
    for b in bins:
        types, methods = [], []
        for off, si in enumerate(b[0]):
            idx = off + 1
            sibs = []
            m = method_design(idx, shapes[si], types, sibs)
            methods.extend(sibs)       # (before the method itself)
            methods.append(m)
            where[si] = (len(designs), "s1", "M%d" % idx)
        designs.append({"api": {"name": "a%d" % (len(designs) + 1)}, "types": types, "services": [{"name": "s1", "methods": methods}]})
    return designs, where


# ------------------------------------------------------------------ pipeline on real generated code
GOMOD = """module verifgen

go 1.22.0

require (
	goa.design/goa/v3 v3.0.0
	verif/harness v0.0.0
)

replace goa.design/goa/v3 => %s

replace verif/harness => %s

replace goa.design/clue => %s
"""


class Pipeline:
    """Scratch module with one sub-directory per design: genhost -> mkrunner -> go build -> run."""

    def __init__(self, ctx, name="gen"):
        self.ctx = ctx
        self.root = ctx.subdir(name)
        self.genhost = ctx.gobuild("cmd/genhost")
        self.mkrunner = ctx.gobuild("cmd/mkrunner")
        open(os.path.join(self.root, "go.mod"), "w").write(GOMOD % (ctx.repo, core.HARNESS, os.path.join(core.VERIF, "stubs", "clue")))
        sums = open(os.path.join(ctx.repo, "go.sum")).read()
        open(os.path.join(self.root, "go.sum"), "w").write(sums)
        self.events = {}      # design index -> genhost events
        self.failed = {}      # design index -> (stage, detail)
        self._warm_start()

    # The go build cache of generated code lives in the scratch directory (core.goenv(gen=True)) and starts empty: without
    # this, the first wave of parallel `go build`s each compiles the standard library and the goa runtime packages for
    # itself (nothing is shared between processes until an entry is written).  One build of the packages every generated
    # package depends on fills the cache once per check run, while genhost is still generating (which needs no cache).
    WARM = ["verif/harness/rt", "goa.design/goa/v3/http", "goa.design/goa/v3/pkg", "goa.design/goa/v3/security", "goa.design/goa/v3/http/middleware"]

    _WARM_LOCK = __import__("threading").Lock()

    def _warm_start(self):
        with Pipeline._WARM_LOCK:
            if getattr(self.ctx, "_gocache_warm", None) is None:
                pool = cf.ThreadPoolExecutor(max_workers=1)
                self.ctx._gocache_warm = pool.submit(subprocess.run, ["go", "build"] + self.WARM, cwd=self.root, env=self.ctx.goenv(gen=True),
                                                     stdout=subprocess.DEVNULL, stderr=subprocess.DEVNULL, timeout=900)
                pool.shutdown(wait=False)

    def _warm_wait(self):
        try:
            self.ctx._gocache_warm.result()
        except Exception:       # whatever is wrong will show in the builds proper
            pass

    def _gen_one(self, i, design, cmds):
        d = os.path.join(self.root, "d%s" % i)
        os.makedirs(d, exist_ok=True)
        dj = os.path.join(d, "design.json")
        json.dump(design, open(dj, "w"))
        try:
            p = subprocess.run([self.genhost, "-design", dj, "-out", d, "-cmds", cmds], cwd=self.root, env=self.ctx.goenv(),
                               stdout=subprocess.PIPE, stderr=subprocess.PIPE, text=True, timeout=120)
        except subprocess.TimeoutExpired:
            return i, [{"ev": "genhost", "outcome": "timeout"}], "timeout"
        evs = [json.loads(l) for l in p.stdout.splitlines() if l.startswith("{")]
        if p.returncode != 0:
            evs.append({"ev": "genhost", "outcome": "crash", "detail": (p.stderr or "")[-3000:], "rc": p.returncode})
        return i, evs, None

    def generate(self, designs, cmds="gen"):
        with cf.ThreadPoolExecutor(max_workers=16) as ex:
            for i, evs, _ in ex.map(lambda t: self._gen_one(t[0], t[1], cmds), list(enumerate(designs))):
                self.events[i] = evs
                last = evs[-1] if evs else {"ev": "genhost", "outcome": "nothing"}
                if not evs or last["outcome"] != "ok" or last["ev"] not in cmds.split(","):
                    self.failed[i] = (last["ev"], last.get("outcome"), last.get("detail") or last.get("errors"))
        return self.events

    # ---- compile the generated packages; isolate methods whose generated code does not type-check
    def _compile_gen(self, i):
        p = subprocess.run(["go", "build", "-gcflags=-e", "./d%d/gen/..." % i], cwd=self.root, env=self.ctx.goenv(gen=True),
                           stdout=subprocess.PIPE, stderr=subprocess.STDOUT, text=True, timeout=900)
        return i, p.returncode, p.stdout

    def _blame(self, i, output):
        """Map compiler diagnostics to method names (only used to set uncompilable methods aside; the
        diagnostics themselves are C01's business)."""
        import re
        bad, unmapped = {}, []
        for line in output.splitlines():
            m = re.match(r"(d%d/gen/\S+\.go):(\d+):(\d+): (.*)$" % i, line)
            if not m:
                continue
            path, ln, msg = os.path.join(self.root, m.group(1)), int(m.group(2)), m.group(4)
            try:
                src = open(path).read().splitlines()
            except OSError:
                continue
            fn = None
            for k in range(min(ln, len(src)) - 1, -1, -1):
                if src[k].startswith("func "):
                    fn = src[k]
                    break
            mm = re.search(r"M(\d+)w?(?=[A-Z_(]|\b)", fn.split("(", 2)[0] + "(" if fn else "")
            if fn and not mm:
                mm = re.search(r"M(\d+)w?(?=[A-Z_(]|\b)", fn)
            if mm:
                bad.setdefault("m" + mm.group(1), "%s: %s" % (m.group(1).split("/gen/")[1] + ":" + m.group(2), msg))
            else:
                unmapped.append(line)
        return bad, unmapped

    def prepare(self, designs, cmds="gen", rounds=4):
        """generate + compile every design; methods whose generated code does not compile are removed from
        their design (recorded in self.bad_methods) and the design is generated again."""
        self.bad_methods = {}     # (design index, method name) -> first diagnostic
        self.generate(designs, cmds)
        if rounds != 0:       # (whole-design programs are judged as a whole)
            self._isolate_stage_failures(designs, cmds)
        todo = [i for i in range(len(designs)) if i not in self.failed]
        self._warm_wait()
        if rounds == 0:   # whole-design programs: no method isolation, a design that does not compile just fails
            with cf.ThreadPoolExecutor(max_workers=8) as ex:
                for i, rc, out in ex.map(self._compile_gen, todo):
                    if rc != 0:
                        self.failed[i] = ("compile", "error", out[-3000:])
            return self.bad_methods
        for rnd in range(rounds):
            broken = []
            with cf.ThreadPoolExecutor(max_workers=8) as ex:
                for i, rc, out in ex.map(self._compile_gen, todo):
                    if rc != 0:
                        broken.append((i, out))
            if not broken:
                break
            redo = []
            for i, out in broken:
                bad, unmapped = self._blame(i, out)
                if not bad:
                    self.failed[i] = ("compile", "error", out[-3000:])
                    continue
                for mname, diag in bad.items():
                    self.bad_methods[(i, mname)] = diag
                for svc in designs[i]["services"]:
                    svc["methods"] = [m for m in svc["methods"] if m["name"] not in bad and m["name"].rstrip("w") not in bad]    # (with its sibling)
                designs[i]["types"] = used_types(designs[i])
                shutil.rmtree(os.path.join(self.root, "d%d" % i), ignore_errors=True)
                if any(svc["methods"] for svc in designs[i]["services"]):
                    redo.append(i)
                else:
                    self.failed[i] = ("compile", "error", "every method uncompilable")
            for i in redo:
                self.events.pop(i, None)
            with cf.ThreadPoolExecutor(max_workers=16) as ex:
                for i, evs, _ in ex.map(lambda i: self._gen_one(i, designs[i], cmds), redo):
                    self.events[i] = evs
                    last = evs[-1] if evs else {"ev": "genhost", "outcome": "nothing"}
                    if not evs or last["outcome"] != "ok":
                        self.failed[i] = (last["ev"], last.get("outcome"), last.get("detail") or last.get("errors"))
            todo = [i for i in redo if i not in self.failed]
        else:
            for i in todo:
                if i not in self.failed:
                    self.failed[i] = ("compile", "error", "still failing after %d rounds" % rounds)
        return self.bad_methods

    def _isolate_stage_failures(self, designs, cmds):
        """A design that evaluation accepted and a generator then refused (error or panic) would take every method packed
        with the culprit down with it: find the methods responsible by bisection (every trial is a real genhost run on a
        sub-design), set them aside in self.bad_methods like the uncompilable ones and generate the rest again."""
        stages = cmds.split(",")
        cand = [i for i, f in sorted(self.failed.items()) if f[0] in stages and len(designs[i]["services"]) == 1
                and len(designs[i]["services"][0]["methods"]) > 1]
        if not cand:
            return

        def isolate(i):
            d = designs[i]
            methods = d["services"][0]["methods"]
            trial, culprits = [0], {}

            def failure(ms):
                trial[0] += 1
                sub = json.loads(json.dumps(d))
                sub["services"][0]["methods"] = ms
                sub["types"] = used_types(sub)
                tag = "%d_t%d" % (i, trial[0])
                _, evs, _ = self._gen_one(tag, sub, cmds)
                shutil.rmtree(os.path.join(self.root, "d" + tag), ignore_errors=True)
                last = evs[-1] if evs else {"ev": "genhost", "outcome": "nothing"}
                if evs and last["outcome"] == "ok" and last["ev"] in stages:
                    return None
                return "%s %s: %s" % (last["ev"], last.get("outcome"), str(last.get("detail") or last.get("errors"))[:600])

            def rec(ms):
                det = failure(ms)
                if det is None:
                    return
                if len(ms) == 1:
                    culprits[ms[0]["name"]] = det
                    return
                rec(ms[:len(ms) // 2])
                rec(ms[len(ms) // 2:])
            rec(methods[:len(methods) // 2])
            rec(methods[len(methods) // 2:])
            return i, culprits
        with cf.ThreadPoolExecutor(max_workers=8) as ex:
            found = list(ex.map(isolate, cand))
        redo = []
        for i, culprits in found:
            if not culprits:        # the failure needs several methods together: the design stays unusable
                continue
            for mname, det in culprits.items():
                self.bad_methods[(i, mname)] = det
            svc = designs[i]["services"][0]
            svc["methods"] = [m for m in svc["methods"] if m["name"] not in culprits and m["name"].rstrip("w") not in culprits]
            designs[i]["types"] = used_types(designs[i])
            shutil.rmtree(os.path.join(self.root, "d%d" % i), ignore_errors=True)
            del self.failed[i]
            self.events.pop(i, None)
            if svc["methods"]:
                redo.append(i)
            else:
                self.failed[i] = ("compile", "error", "every method refused by a generator")
        with cf.ThreadPoolExecutor(max_workers=16) as ex:
            for i, evs, _ in ex.map(lambda i: self._gen_one(i, designs[i], cmds), redo):
                self.events[i] = evs
                last = evs[-1] if evs else {"ev": "genhost", "outcome": "nothing"}
                if not evs or last["outcome"] != "ok" or last["ev"] not in stages:
                    self.failed[i] = (last["ev"], last.get("outcome"), last.get("detail") or last.get("errors"))

    def _glue_one(self, i, services):
        d = os.path.join(self.root, "d%d" % i)
        p = subprocess.run([self.mkrunner, "-dir", d, "-services", ",".join(services)], cwd=self.root, env=self.ctx.goenv(gen=True),
                           stdout=subprocess.PIPE, stderr=subprocess.PIPE, text=True, timeout=300)
        return i, p.returncode, p.stderr[-3000:]

    def build_runners(self, designs, race=False):
        """mkrunner + go build for all designs that generated and compiled. Returns {design index: binary path}."""
        todo = [i for i in range(len(designs)) if i not in self.failed]
        with cf.ThreadPoolExecutor(max_workers=16) as ex:
            for i, rc, err in ex.map(lambda i: self._glue_one(i, [s["name"] for s in designs[i]["services"]]), todo):
                if rc != 0:
                    self.failed[i] = ("typecheck" if rc == 4 else "mkrunner", "error", err)
        todo = [i for i in todo if i not in self.failed]
        bindir = os.path.join(self.root, "bin")
        os.makedirs(bindir, exist_ok=True)
        bins = {}

        def build_one(i):
            out = os.path.join(bindir, "run%d" % i)
            cmd = ["go", "build"] + (["-race"] if race else []) + ["-o", out, "./d%d/runner" % i]
            p = subprocess.run(cmd, cwd=self.root, env=self.ctx.goenv(gen=True), stdout=subprocess.PIPE, stderr=subprocess.STDOUT, text=True, timeout=1800)
            return i, p.returncode, p.stdout[-3000:], out
        with cf.ThreadPoolExecutor(max_workers=8) as ex:
            for i, rc, out, binp in ex.map(build_one, todo):
                if rc != 0:
                    self.failed[i] = ("compile-runner", "error", out)
                else:
                    bins[i] = binp
        return bins

    def run(self, i, binp, scenarios, args=None, timeout=600):
        d = os.path.join(self.root, "d%d" % i)
        inp, outp = os.path.join(d, "scn.ndjson"), os.path.join(d, "obs.ndjson")
        with open(inp, "w") as f:
            for s in scenarios:
                f.write(json.dumps(s) + "\n")
        p = subprocess.run([binp, "-in", inp, "-out", outp] + list(args or []), cwd=d, env=self.ctx.goenv(),
                           stdout=subprocess.PIPE, stderr=subprocess.PIPE, text=True, timeout=timeout, errors="replace")
        if p.returncode != 0:
            raise core.Infra("runner d%d failed (%d): %s" % (i, p.returncode, p.stderr[-3000:]))
        return [json.loads(l) for l in open(outp) if l.strip()], p

    def run_all(self, bins, scen_by_design, args=None):
        out = {}
        with cf.ThreadPoolExecutor(max_workers=16) as ex:
            futs = {ex.submit(self.run, i, bins[i], scen_by_design[i], args): i for i in bins if scen_by_design.get(i)}
            for f in cf.as_completed(futs):
                obs, _ = f.result()
                for o in obs:
                    out[o["id"]] = o["events"]
        return out


# ------------------------------------------------------------------ projection of recorded events
def find(events, ev):
    return [e for e in events if e.get("ev") == ev]


def body_keys(body):
    try:
        d = json.loads(body) if body and body.strip() else None
    except Exception:
        return None
    return {k for k, x in d.items() if x is not None} if isinstance(d, dict) else set()


def observed_where(names_locs, wire, path_route=None, suffix=""):
    """For each attribute name: the set of wire locations that carry its element.  names_locs: (name, location[, shape]);
    suffix: of the header / cookie names of the response that is expected to answer (resp_suffix)."""
    out = []
    q = wire.get("query") or {}
    h = {k.lower(): v for k, v in (wire.get("headers") or {}).items()}
    c = wire.get("cookies") or {}
    bk = body_keys(wire.get("body"))
    for n, loc, *rest in names_locs:
        s = set()
        if rest and rest[0]["nest"] == "mapparams" and q:     # MapParams("a1"): every key of the query string is an entry of a1
            s.add("query")                                    # (the envelope never puts another query parameter next to it)
        if ELEM["query"](n) in q or any(k.startswith(ELEM["query"](n) + "[") for k in q):     # qa1=.. / qa1[key]=..
            s.add("query")
        if (ELEM["header"](n) + suffix).lower() in h:
            s.add("header")
        if ELEM["cookie"](n) + suffix in c:
            s.add("cookie")
        if bk and n in bk:
            s.add("body")
        if loc == "path":
            s.add("path")  # a path attribute is part of the route: its presence is implied by reaching a handler
        out.append(sorted(s))
    return out


def classify(dv, sent, dflt):
    # Emptyish of HTTPTransport.tla: an empty list / map / byte string (httpcheck.abstract_class computes the same on abstract values)
    eb = lambda x: empty(x) or x == {"$bytes": ""}
    if eb(dv) and (sent is None or eb(sent)):
        return "absent" if sent is None else "sent"
    if empty(dv):       # nil and empty containers are the same "nothing there"
        return "absent"
    if sent is not None and same(dv, sent):
        return "sent"
    if dflt is not None and same(dv, dflt):
        return "default"
    return "other"


def allowed_classes(a, v, allowed):
    """Map the oracle's allowed abstract values to classes relative to the sent value."""
    out = set()
    d = default_of(a)
    for x in allowed:
        if is_absent(x):
            out.add("absent")
        elif x == v:
            out.add("sent")
        elif d is not None and x == d:
            out.add("default")
        else:
            out.add("other?")
    return out
