"""C07: from the abstract designs of spec/OpenAPIOps.tla to real goa designs, the probes that make the
generated server show what it does, and the projection of what was recorded onto the tables of the
specification (mounts, srvOps).  No expectation lives here: designs are assembled from the shape
vocabulary of the specification, probes are plain HTTP requests built from the design's own mapping,
projections look things up by name."""
import base64, json, re
from . import core

# ------------------------------------------------------------------ shape vocabulary (mirrors OpenAPIOps.tla)
SCHEMES = [{"name": "basic", "kind": "basic"}, {"name": "key", "kind": "apikey"},
           {"name": "jwt", "kind": "jwt", "scopes": ["r", "w"]}, {"name": "oa", "kind": "oauth2", "scopes": ["r", "w"]}]
REQS = {
    "basic": [{"schemes": ["basic"]}],
    "apikey": [{"schemes": ["key"]}],
    "jwt": [{"schemes": ["jwt"], "scopes": ["r"]}],
    "oauth2": [{"schemes": ["oa"], "scopes": ["r", "w"]}],
    "jwt+apikey": [{"schemes": ["jwt", "key"], "scopes": ["r"]}],
    "jwt0": [{"schemes": ["jwt"]}],                              # bearer schemes required WITHOUT scopes
    "apikey+oauth20": [{"schemes": ["key", "oa"]}],
    "basic|apikey": [{"schemes": ["basic"]}, {"schemes": ["key"]}],
}
# values the probes send
PATHVAL = {"sid": "sv1", "p1": "pv1"}
QVAL, HVAL, CVAL, BVAL, BINT = 4, "hv1", "cv1", "bv1", 4
ATTR_OF = {"q1": "qa1", "X-H1": "h1", "c1": "ca1", "X-Key": "key"}     # attribute names differ from the wire names everywhere


def path_str(segs):
    out = ""
    for s in segs:
        out += "/" + (s["s"] if s["k"] == "lit" else ("{%s}" % s["s"] if s["k"] == "var" else "{*%s}" % s["s"]))
    return out


def parse_pattern(p):
    """`/a/{b}/{*c}` -> segments; a trailing slash is an empty last literal."""
    if p in ("", "/"):
        return []
    out = []
    for s in p[1:].split("/") if p.startswith("/") else p.split("/"):
        if s.startswith("{*") and s.endswith("}"):
            out.append({"k": "wild", "s": s[2:-1]})
        elif s.startswith("{") and s.endswith("}"):
            out.append({"k": "var", "s": s[1:-1]})
        else:
            out.append({"k": "lit", "s": s})
    return out


# ------------------------------------------------------------------ packing TLC's small designs
_NAME = re.compile(r"^s(\d+)(?:m(\d+))?(.*)$")


def _rename(lit, svc, meth):
    m = _NAME.match(lit)
    if not m:
        return lit
    return svc + (("m%d" % meth) if m.group(2) else "") + m.group(3)


def _rename_segs(segs, svc, meth):
    return [dict(s, s=_rename(s["s"], svc, meth)) if s["k"] == "lit" else s for s in segs]


def pack(designs, meths_per_svc=24, svcs_per_design=5):
    """Merge one-service designs that agree on the API level into larger designs; services that agree on the
    service level share their methods.  Only names are changed."""
    groups = {}
    for d in designs:
        groups.setdefault(core.canon([d["apiPath"], d["apiSec"]]), []).append(d)
    out = []
    for _, ds in sorted(groups.items()):
        svcshapes = {}
        for d in ds:
            for s in d["svcs"]:
                k = core.canon([[x for x in s["path"] if x["k"] != "lit"], len(s["path"]), s["sec"], s["errs"], [f["dir"] for f in s["files"]]])
                svcshapes.setdefault(k, {"proto": s, "meths": []})
                for m in s["meths"]:
                    svcshapes[k]["meths"].append(m)
        svcs = []
        for k, g in sorted(svcshapes.items()):
            uniq, seen = [], set()
            for m in g["meths"]:
                mk = core.canon({x: m[x] for x in m if x != "name"} | {"routes": [[r["verb"], [(s["k"], s["s"] if s["k"] != "lit" else re.sub(r"^s\d+m\d+", "", s["s"])) for s in r["path"]]] for r in m["routes"]]})
                if mk not in seen:
                    seen.add(mk)
                    uniq.append(m)
            chunks = [uniq[i:i + meths_per_svc] for i in range(0, len(uniq), meths_per_svc)] or [[]]
            for ch in chunks:
                svcs.append((g["proto"], ch))
        for i in range(0, len(svcs), svcs_per_design):
            part = svcs[i:i + svcs_per_design]
            nd = {"apiPath": ds[0]["apiPath"], "apiSec": ds[0]["apiSec"], "devs": [], "svcs": []}
            for si, (proto, ms) in enumerate(part):
                name = "s%d" % (si + 1)
                ns = {"name": name, "path": _rename_segs(proto["path"], name, 0), "sec": proto["sec"], "errs": proto["errs"],
                      "files": [dict(f, path=_rename_segs(f["path"], name, 0)) for f in proto["files"]], "meths": []}
                for mi, m in enumerate(ms):
                    nm = dict(m, name="m%d" % (mi + 1), routes=[dict(r, path=_rename_segs(r["path"], name, mi + 1)) for r in m["routes"]])
                    ns["meths"].append(nm)
                nd["svcs"].append(ns)
            out.append(nd)
    return out


# ------------------------------------------------------------------ abstract design -> goa design (harness/design)
def _reqs(shape):
    return json.loads(json.dumps(REQS[shape]))


def _sec(obj, shape):
    if shape == "none":
        obj["noSecurity"] = True
    elif shape != "inherit":
        obj["security"] = _reqs(shape)


def to_goa(d, eff, name="a1"):
    """eff[(service name, method name)] = effective requirement shape as computed by the specification
    (the method's payload must carry the credentials of exactly those schemes)."""
    g = {"api": {"name": name}, "schemes": SCHEMES, "services": []}
    if d["apiPath"]:
        g["api"]["path"] = path_str(d["apiPath"])
    if d["apiSec"] != "none":
        g["api"]["security"] = _reqs(d["apiSec"])
    for s in d["svcs"]:
        gs = {"name": s["name"], "methods": []}
        if s["path"]:
            gs["path"] = path_str(s["path"])
        _sec(gs, s["sec"])
        if s["errs"]:
            gs["errors"] = [{"name": e["name"]} for e in s["errs"]]
            gs["httpErrors"] = [{"name": e["name"], "status": e["code"]} for e in s["errs"]]
        if s["files"]:
            gs["files"] = [{"path": path_str(f["path"]), "file": "a/" + f["path"][0]["s"]} for f in s["files"]]
        for m in s["meths"]:
            gs["methods"].append(_method(d, s, m, eff[(s["name"], m["name"])]))
        g["services"].append(gs)
    return g


def _method(d, s, m, shape):
    attrs, http = [], {"routes": [{"verb": r["verb"], "path": path_str(r["path"])} for r in m["routes"]], "params": {}, "headers": {}, "cookies": {}}
    for seg in s["path"] + m["routes"][0]["path"]:
        if seg["k"] != "lit":
            attrs.append({"name": seg["s"], "type": {"kind": "string"}, "required": True})
    for p in m["params"]:
        an = ATTR_OF[p["name"]]
        a = {"name": an, "type": {"kind": "int" if p["in"] == "query" else "string"}, "required": p["mode"] in ("required", "rd")}
        if p["mode"] in ("default", "rd"):
            a["default"] = 3 if p["in"] == "query" else "abc"
        if p.get("xb"):
            a["val"] = {"exclMin": 2}
        attrs.append(a)
        {"query": http["params"], "header": http["headers"], "cookie": http["cookies"]}[p["in"]][an] = p["name"]
    if m["body"] != "none":
        a = {"name": "b1", "type": {"kind": "int" if m.get("bxb") else "string"}, "required": m["body"] == "req"}
        if m.get("bxb"):
            a["val"] = {"exclMin": 2}
        attrs.append(a)
        if m["body"] == "empty":
            http["body"] = "-"
    alt = shape == "basic|apikey"      # with alternatives no single credential can be required
    if shape in ("basic", "basic|apikey"):
        attrs.append({"name": "user", "type": {"kind": "string"}, "required": not alt, "sec": "username"})
        attrs.append({"name": "pass", "type": {"kind": "string"}, "required": not alt, "sec": "password"})
    if shape in ("apikey", "jwt+apikey", "basic|apikey", "apikey+oauth20"):
        attrs.append({"name": "key", "type": {"kind": "string"}, "required": not alt, "sec": "apikey:key"})
        http["headers"]["key"] = "X-Key"
    if shape in ("jwt", "jwt+apikey", "jwt0"):
        attrs.append({"name": "token", "type": {"kind": "string"}, "required": True, "sec": "token"})
        http["headers"]["token"] = "Authorization"
    if shape in ("oauth2", "apikey+oauth20"):
        attrs.append({"name": "access", "type": {"kind": "string"}, "required": True, "sec": "accesstoken"})
        http["headers"]["access"] = "Authorization"
    gm = {"name": m["name"], "http": http}
    if attrs:
        gm["payload"] = {"attrs": attrs}
    if len(m["resps"]) == 2:
        gm["result"] = {"attrs": [{"name": "r1", "type": {"kind": "string"}}]}
        http["responses"] = [{"status": m["resps"][0], "tagName": "r1", "tagValue": "abc"}, {"status": m["resps"][1]}]
    else:
        http["responses"] = [{"status": m["resps"][0]}]
    if m["errs"]:
        gm["errors"] = [{"name": e["name"]} for e in m["errs"]]
        http["errors"] = [{"name": e["name"], "status": e["code"]} for e in m["errs"]]
    _sec(gm, m["sec"])
    return gm


# ------------------------------------------------------------------ probes
def _url(segs):
    return "".join("/" + (s["s"] if s["k"] == "lit" else PATHVAL.get(s["s"], "xv")) for s in segs) or "/"


def _raw(verb, segs, m, shape, omit=None):
    q, headers, cookies, body = [], {}, [], None
    for p in m["params"]:
        if p["name"] == omit:
            continue
        if p["in"] == "query":
            q.append("%s=%s" % (p["name"], QVAL))
        elif p["in"] == "header":
            headers[p["name"]] = [HVAL]
        else:
            cookies.append("%s=%s" % (p["name"], CVAL))
    if m["body"] in ("req", "opt"):
        body = json.dumps({"b1": BINT if m.get("bxb") else BVAL})
        headers["Content-Type"] = ["application/json"]
    if shape in ("basic", "basic|apikey"):
        headers["Authorization"] = ["Basic " + base64.b64encode(b"u:p").decode()]
    if shape in ("jwt", "jwt+apikey", "oauth2", "jwt0", "apikey+oauth20"):
        headers["Authorization"] = ["Bearer tok"]
    if shape in ("apikey", "jwt+apikey", "basic|apikey", "apikey+oauth20") and omit != "X-Key":
        headers["X-Key"] = ["k1"]
    if cookies:
        headers["Cookie"] = ["; ".join(cookies)]
    return {"method": verb, "uri": _url(segs) + ("?" + "&".join(q) if q else ""), "headers": headers, "body": body or ""}


def sent_values(d, s, m, shape):
    """attribute -> value the `full` probe carries (what the decoder should hand to the service)."""
    out = {}
    for seg in s["path"] + m["routes"][0]["path"]:
        if seg["k"] != "lit":
            out[seg["s"]] = ("path", seg["s"], PATHVAL.get(seg["s"], "xv"))
    for p in m["params"]:
        out[ATTR_OF[p["name"]]] = (p["in"], p["name"], QVAL if p["in"] == "query" else (HVAL if p["in"] == "header" else CVAL))
    if shape in ("apikey", "jwt+apikey", "basic|apikey", "apikey+oauth20"):
        out["key"] = ("header", "X-Key", "k1")
    return out


def probes(di, d, eff, deny=None, only_full=False):
    """Raw-request scenarios for every route of every method of design d (index di).  `deny` maps a route
    id to the scheme names the stub's authorization callbacks must refuse (security rounds)."""
    scn = []
    for s in d["svcs"]:
        for m in s["meths"]:
            shape = eff[(s["name"], m["name"])]
            tagged = len(m["resps"]) == 2
            okval = {"kind": "result", "value": {"r1": "zzz"} if tagged else {}}
            for ri, r in enumerate(m["routes"]):
                full = d["apiPath"] + s["path"] + r["path"]
                rid = "d%d/%s/%s/%d" % (di, s["name"], m["name"], ri)
                base = {"service": s["name"], "method": "M" + m["name"][1:]}
                if deny is not None:
                    if rid in deny:
                        scn.append(dict(base, id=rid + "#deny%d" % deny[rid][0], raw=_raw(r["verb"], full, m, shape), outcome=okval,
                                        auth={n: False for n in deny[rid][1]}))
                    continue
                scn.append(dict(base, id=rid + "#full", raw=_raw(r["verb"], full, m, shape), outcome=okval))
                if only_full:
                    continue
                names = [p["name"] for p in m["params"]] + (["X-Key"] if shape in ("apikey", "jwt+apikey", "basic|apikey", "apikey+oauth20") else [])
                for n in names:
                    scn.append(dict(base, id=rid + "#minus:" + n, raw=_raw(r["verb"], full, m, shape, omit=n), outcome=okval))
                if tagged:
                    scn.append(dict(base, id=rid + "#tag", raw=_raw(r["verb"], full, m, shape), outcome={"kind": "result", "value": {"r1": "abc"}}))
                for e in m["errs"] + s["errs"]:
                    scn.append(dict(base, id=rid + "#err:" + e["name"], raw=_raw(r["verb"], full, m, shape),
                                    outcome={"kind": "error", "errKind": "make", "errName": e["name"]}))
    return scn


def _find(events, ev):
    return [e for e in events if e.get("ev") == ev]


def _status(events):
    w = _find(events, "wire_resp")
    return w[0].get("status", 0) if w else 0


def _errname(events):
    w = _find(events, "wire_resp")
    try:
        return json.loads(w[0].get("body") or "{}").get("name")
    except Exception:
        return None


def _same(a, b):
    return str(a) == str(b)


def auth_requirement(events, accepted_only=True):
    """The requirement the endpoint ran: schemes whose callback was called (and accepted), with the scopes they demanded."""
    schemes, scopes = [], set()
    for e in _find(events, "auth"):
        if accepted_only and not e.get("verdict"):
            continue
        schemes.append({"name": e["scheme"], "kind": e["kind"]})
        scopes |= set(e.get("required") or [])
    return schemes, sorted(scopes)


def project_srvops(di, d, eff, obs, sec_rounds):
    """srvOps table of design di from the recorded probe events.  Returns (ops, anomalies)."""
    ops, anomalies = [], []
    for s in d["svcs"]:
        for m in s["meths"]:
            shape = eff[(s["name"], m["name"])]
            for ri, r in enumerate(m["routes"]):
                rid = "d%d/%s/%s/%d" % (di, s["name"], m["name"], ri)
                full = obs.get(rid + "#full")
                if full is None:
                    raise core.Infra("no observation for probe %s#full" % rid)
                pattern = d["apiPath"] + s["path"] + r["path"]
                op = {"method": r["verb"], "path": [dict(x, k="var") if x["k"] == "wild" else x for x in pattern], "params": [], "hasBody": False,
                      "statuses": set(), "security": [], "rid": rid}
                inv = _find(full, "invoke")
                if _find(full, "server_panic"):
                    anomalies.append((rid, "server-panic", _find(full, "server_panic")[0].get("detail")))
                if not inv:
                    anomalies.append((rid, "route-not-served:%s/%s" % (_status(full), _errname(full)), None))
                    op["statuses"] = []
                    ops.append(op)
                    continue
                payload = inv[0].get("payload") or {}
                for attr, (loc, name, val) in sorted(sent_values(d, s, m, shape).items()):
                    if not _same(payload.get(attr), val):
                        continue                      # the decoder does not read it from there
                    required = True
                    if loc != "path":
                        minus = obs.get(rid + "#minus:" + name)
                        if minus is None:
                            raise core.Infra("no observation for probe %s#minus:%s" % (rid, name))
                        required = not _find(minus, "invoke") and _status(minus) == 400 and _errname(minus) == "missing_field"
                    op["params"].append({"name": name, "in": loc, "required": required})
                if m["body"] in ("req", "opt"):
                    op["hasBody"] = _same(payload.get("b1"), BINT if m.get("bxb") else BVAL)
                op["statuses"].add(_status(full))
                for k, ev in obs.items():
                    if k.startswith(rid + "#tag") or k.startswith(rid + "#err:"):
                        op["statuses"].add(_status(ev))
                reqs = []
                sch, sc = auth_requirement(full)
                if sch:
                    reqs.append({"schemes": sch, "scopes": sc})
                for rnd in sec_rounds:
                    ev = rnd.get(rid)
                    if ev is not None:
                        sch, sc = auth_requirement(ev)
                        if sch:
                            reqs.append({"schemes": sch, "scopes": sc})
                op["security"] = reqs
                op["statuses"] = sorted(op["statuses"])
                ops.append(op)
    return ops, anomalies


# ------------------------------------------------------------------ canonical forms for comparison
def canon_req(r):
    return (tuple(sorted((x["name"], x["kind"]) for x in r["schemes"])), tuple(sorted(r["scopes"])))


def canon_op(o):
    return {"method": o["method"], "path": tuple((s["k"], s["s"]) for s in o["path"]),
            "params": frozenset((p["name"], p["in"], bool(p["required"])) for p in o["params"]),
            "hasBody": bool(o["hasBody"]), "statuses": frozenset(o["statuses"]), "security": frozenset(canon_req(r) for r in o["security"])}


def op_key(o):
    return (o["method"], tuple((s["k"], s["s"]) for s in o["path"]))


def table(ops):
    return {op_key(o): canon_op(o) for o in ops}


def mount_key(m):
    return (m["method"], tuple((s["k"], s["s"]) for s in m["pattern"]))


def show_key(k):
    return "%s %s" % (k[0], "".join("/" + (s if kind == "lit" else ("{%s}" % s if kind == "var" else "{*%s}" % s)) for kind, s in k[1]) or "/")
