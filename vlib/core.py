"""Core of the /verif orchestrator: context, TLC runner, Go harness builder,
known-findings handling, evidence writer.  Standard library only."""
import json, os, re, shutil, subprocess, sys, tempfile, time, hashlib

VERIF = os.path.dirname(os.path.dirname(os.path.abspath(__file__)))
SPEC = os.path.join(VERIF, "spec")
HARNESS = os.path.join(VERIF, "harness")
TLA_CP = "/opt/veriftools/tla/tla2tools.jar:/opt/veriftools/tla/CommunityModules-deps.jar"

EXIT_OK, EXIT_VIOLATION, EXIT_INFRA = 0, 1, 2


class Infra(Exception):
    """Trouble in the machinery itself (TLC error, build failure of the harness,
    timeout).  Never a violation: exit 2."""


class TLCResult:
    def __init__(self):
        self.generated = 0
        self.distinct = 0
        self.depth = 0
        self.violated = None      # name of violated invariant / property, or None
        self.error = None         # other TLC error text
        self.vectors = []         # parsed Emit lines
        self.prints = []          # other PrintT tuples (raw text)
        self.wall = 0.0
        self.stdout = ""
        self.coverage_zero = []   # actions never taken (with -coverage)
        self.hwm = None           # high-water mark printed by trace specs
        self.postcondition_failed = False
        self.cmd = ""


def _unescape_tla_string(s):
    # TLC prints strings with \" and \\ escapes; json.loads handles both
    try:
        return json.loads('"' + s + '"')
    except Exception:
        return s.replace('\\"', '"').replace("\\\\", "\\")


_VEC = re.compile(r'^<<"VEC", "(.*)">>$')
_HWM = re.compile(r'^<<"HWM", (\d+)>>$')


class Ctx:
    def __init__(self, prop, tier, seed, repo="/repo", keep=False):
        self.prop = prop
        self.tier = tier
        self.seed = seed
        self.repo = os.path.abspath(repo)
        self.keep = keep
        self.t0 = time.time()
        base = os.environ.get("VERIF_SCRATCH")
        if base:
            os.makedirs(base, exist_ok=True)
        self.scratch = tempfile.mkdtemp(prefix="verif-%s-" % prop, dir=base)
        self.tmpdir = os.path.join(self.scratch, "jtmp")
        os.makedirs(self.tmpdir)
        self._n = 0
        self.violations = []      # (key, description, replay_path)
        self._violation_keys = set()
        self.known_hits = {}      # key -> description of the witness
        self.cov = {"states": 0, "transitions": 0, "traces_validated_against_impl": 0,
                    "evaluations": 0, "distinct_nontrivial": 0, "samples": [],
                    "tlc_runs": [], "rule": ""}
        self.assumptions = []
        self.notes = []
        self.known = load_known(prop)
        self.known_any = load_known(None)
        self._gobuilt = {}

    # ------------------------------------------------------------------ misc
    def log(self, *a):
        print("[%s %6.1fs]" % (self.prop, time.time() - self.t0), *a, flush=True)

    def subdir(self, name):
        self._n += 1
        d = os.path.join(self.scratch, "%02d-%s" % (self._n, name))
        os.makedirs(d)
        return d

    def cleanup(self):
        if not self.keep:
            shutil.rmtree(self.scratch, ignore_errors=True)

    def quick(self):
        return self.tier == "quick"

    # ------------------------------------------------------------------- TLC
    def tlc(self, module, cfg=None, consts=None, workers="auto", simulate=None, depth=None,
            timeout=600, files=None, coverage=False, expect_violation=False, label=None,
            dfs=False, extra_args=None, xss=None, cfg_text=None, heap=None):
        """Run TLC on spec/<module>.tla (module may contain a sub-directory, e.g. 'mc/MC_X').
        `consts` (dict) rewrites `NAME = value` / `NAME <- value` lines of the cfg for this run.
        `files` maps file names to text or source paths copied next to the module."""
        run = self.subdir("tlc-" + (label or os.path.basename(module)))
        # flat copy of every spec file: modules find each other by name
        for root, _, fs in os.walk(SPEC):
            for f in fs:
                if f.endswith(".tla") or f.endswith(".cfg"):
                    shutil.copy(os.path.join(root, f), os.path.join(run, f))
        mod = os.path.basename(module)
        if cfg_text is not None:
            cfgname = mod + "_run.cfg"
            open(os.path.join(run, cfgname), "w").write(cfg_text)
        else:
            cfgname = os.path.basename(cfg or (mod + ".cfg"))
            if not cfgname.endswith(".cfg"):
                cfgname += ".cfg"
        if consts:
            p = os.path.join(run, cfgname)
            txt = open(p).read()
            for k, v in consts.items():
                txt, n = re.subn(r"(?m)^(\s*%s\s*(?:=|<-)\s*).*$" % re.escape(k), lambda m: m.group(1) + str(v), txt)
                if n == 0:
                    raise Infra("constant %s not found in %s" % (k, cfgname))
            open(p, "w").write(txt)
        for name, src in (files or {}).items():
            dst = os.path.join(run, name)
            if isinstance(src, str) and os.path.exists(src) and "\n" not in src:
                shutil.copy(src, dst)
            else:
                open(dst, "w").write(src)
        jopts = "-Djava.io.tmpdir=%s" % self.tmpdir
        if dfs:
            jopts += " -Dtlc2.tool.queue.IStateQueue=StateDeque"
        java = ["java", "-XX:+UseParallelGC"]
        if xss:
            java.append("-Xss" + xss)
        if heap:
            java.append("-Xmx" + heap)
        cmd = java + ["-cp", TLA_CP, "tlc2.TLC", "-config", cfgname, "-metadir", os.path.join(run, "states"),
                      "-workers", str(workers), "-noGenerateSpecTE"]
        if simulate is not None:
            cmd += ["-simulate", "num=%d" % simulate]
            cmd += ["-depth", str(depth or 100)]
        cmd += ["-seed", str(self.seed)]
        if coverage:
            cmd += ["-coverage", "1"]
        cmd += list(extra_args or [])
        cmd += [mod]
        env = dict(os.environ, JAVA_TOOL_OPTIONS=jopts)
        t = time.time()
        try:
            p = subprocess.run(cmd, cwd=run, env=env, stdout=subprocess.PIPE, stderr=subprocess.STDOUT,
                               timeout=timeout, text=True, errors="replace")
        except subprocess.TimeoutExpired:
            subprocess.run(["pkill", "-f", run], check=False)
            raise Infra("TLC timeout after %ds on %s" % (timeout, mod))
        r = TLCResult()
        r.wall = time.time() - t
        r.cmd = " ".join(cmd[3:])
        out = p.stdout
        r.stdout = out
        for line in out.splitlines():
            m = _VEC.match(line)
            if m:
                try:
                    r.vectors.append(json.loads(_unescape_tla_string(m.group(1))))
                except Exception as e:
                    raise Infra("cannot parse vector line: %s (%s)" % (line[:200], e))
                continue
            m = _HWM.match(line)
            if m:
                r.hwm = int(m.group(1))
                continue
            if line.startswith("<<"):
                r.prints.append(line)
            m = re.search(r"(\d+) states generated, (\d+) distinct states found", line)
            if m:
                r.generated, r.distinct = int(m.group(1)), int(m.group(2))
            m = re.search(r"The depth of the complete state graph search is (\d+)", line)
            if m:
                r.depth = int(m.group(1))
            m = re.search(r"Invariant (\S+) is violated", line)
            if m:
                r.violated = m.group(1)
            m = re.search(r"Action property (\S+) is violated|Temporal properties were violated|Temporal property (\S+) was violated", line)
            if m:
                r.violated = m.group(1) or m.group(2) or "temporal"
            if "The postcondition is violated" in line or "Evaluating assumption PostCondition failed" in line \
                    or "POSTCONDITION" in line and "violated" in line:
                r.postcondition_failed = True
            m = re.search(r"^<(\w+) line .*>: (\d+):(\d+)$", line)
            if m and coverage and m.group(2) == "0" and m.group(3) == "0":
                r.coverage_zero.append(m.group(1))
        if simulate is not None and r.generated == 0:
            # the final count, not a `Progress:` line: those are printed once a minute, so the first of them says how fast
            # the machine is, not how much was explored (the same seed explores the same behaviours everywhere)
            m = re.search(r"The number of states generated: (\d+)", out)
            ms = re.findall(r"(\d+) states checked", out)
            if m:
                r.generated = int(m.group(1))
            elif ms:
                r.generated = int(ms[-1])
        if r.violated is None and not r.postcondition_failed:
            if "Error:" in out or p.returncode not in (0,):
                # deadlock, evaluation error, parse error ...
                idx = out.find("Error:")
                r.error = out[idx: idx + 1500] if idx >= 0 else "tlc exit %d: %s" % (p.returncode, out[-1500:])
        if not self.keep:
            shutil.rmtree(os.path.join(run, "states"), ignore_errors=True)
        rec = {"module": mod, "cfg": cfgname, "label": label or mod, "generated": r.generated, "distinct": r.distinct,
               "depth": r.depth, "wall_s": round(r.wall, 2), "vectors": len(r.vectors),
               "mode": "simulate" if simulate is not None else "exhaustive"}
        if consts:
            rec["consts"] = {k: str(v) for k, v in consts.items()}
        if r.violated:
            rec["violated"] = r.violated
        self.cov["tlc_runs"].append(rec)
        if r.error and not expect_violation:
            raise Infra("TLC error in %s/%s: %s" % (mod, cfgname, r.error))
        return r

    def mc(self, module, cfg=None, invariants_note=None, **kw):
        """Model-check: must pass.  A counterexample on the model alone is machinery trouble (exit 2),
        because verdicts only come from real-code behaviour."""
        r = self.tlc(module, cfg, **kw)
        if r.violated:
            raise Infra("model %s violates %s (model-level counterexample, not a verdict on the code):\n%s"
                        % (module, r.violated, r.stdout[-3000:]))
        self.cov["states"] += r.distinct
        self.cov["transitions"] += r.generated
        self.log("MC %-28s %9d generated %9d distinct  %.1fs" % (kw.get("label") or os.path.basename(module), r.generated, r.distinct, r.wall))
        return r

    def mc_expect_violation(self, module, cfg=None, **kw):
        """Vacuity guard: with a deviation enabled TLC must find a counterexample."""
        r = self.tlc(module, cfg, expect_violation=True, **kw)
        ok = bool(r.violated)
        self.cov.setdefault("deviation_selftests", []).append(
            {"module": os.path.basename(module), "consts": {k: str(v) for k, v in (kw.get("consts") or {}).items()},
             "counterexample_found": ok, "violated": r.violated})
        if not ok:
            raise Infra("self-test failed: %s with %s produced no counterexample (invariant vacuous?)\n%s"
                        % (module, kw.get("consts"), r.stdout[-2000:]))
        return r

    def gen(self, module, cfg=None, **kw):
        """Vector generation: TLC run whose Emit invariant prints one JSON line per case."""
        r = self.tlc(module, cfg, **kw)
        if r.violated:
            raise Infra("generator %s reported %s:\n%s" % (module, r.violated, r.stdout[-2000:]))
        self.cov["states"] += r.distinct
        self.cov["transitions"] += r.generated
        self.log("GEN %-27s %9d vectors  %9d distinct states  %.1fs" % (kw.get("label") or os.path.basename(module), len(r.vectors), r.distinct, r.wall))
        return r

    def trace_validate(self, module, cfg, trace_path, ntraces=None, consts=None, timeout=600, label=None, dfs=True, extra_files=None):
        """Batch trace validation. Returns (accepted, hwm_line, result).  -workers 1 (HWM register)."""
        files = {"trace.ndjson": trace_path}
        files.update(extra_files or {})
        r = self.tlc(module, cfg, consts=consts, workers=1, timeout=timeout, files=files,
                     expect_violation=True, label=label or ("trace-" + os.path.basename(module)), dfs=dfs)
        nlines = sum(1 for _ in open(trace_path))
        if r.error and not r.postcondition_failed and "ostcondition" not in (r.error or ""):
            raise Infra("TLC error during trace validation %s: %s" % (module, r.error))
        accepted = (r.hwm == nlines + 1) and not r.violated
        self.cov["states"] += r.distinct
        self.cov["transitions"] += r.generated
        return accepted, r.hwm, r

    # ----------------------------------------------------------------- Go side
    def goenv(self, gen=False):
        """Environment of go commands.  gen=True: for builds of code generated into the scratch directory - their package
        paths are new on every run, so their build cache entries would pile up in the user's go build cache for ever
        (hundreds of MB per run); they get a cache of their own inside the scratch directory, removed with it."""
        env = dict(os.environ, GOFLAGS="-mod=mod", GOPROXY="off", GOSUMDB="off", GOTOOLCHAIN="local",
                   CGO_ENABLED=os.environ.get("CGO_ENABLED", "1"))
        if gen:
            env["GOCACHE"] = os.path.join(self.scratch, "gocache")
        return env

    def modfile(self):
        """go.mod for the harness pointing at the repo under test (default /repo)."""
        shutil.copy(os.path.join(self.repo, "go.sum"), os.path.join(HARNESS, "go.sum"))
        if self.repo == "/repo":
            return []
        mf = os.path.join(self.scratch, "alt.mod")
        if not os.path.exists(mf):
            txt = open(os.path.join(HARNESS, "go.mod")).read().replace("=> /repo", "=> " + self.repo)
            open(mf, "w").write(txt)
            shutil.copy(os.path.join(self.repo, "go.sum"), os.path.join(self.scratch, "alt.sum"))
        return ["-modfile=" + mf]

    def gobuild(self, pkg, race=False, tags="verif", timeout=900):
        """Build harness/<pkg> from /repo's current working tree; returns the binary path."""
        key = (pkg, race)
        if key in self._gobuilt:
            return self._gobuilt[key]
        out = os.path.join(self.scratch, "bin-" + pkg.replace("/", "_") + ("-race" if race else ""))
        cmd = ["go", "build"] + self.modfile() + ["-tags", tags]
        if race:
            cmd.append("-race")
        cmd += ["-o", out, "./" + pkg]
        t = time.time()
        p = subprocess.run(cmd, cwd=HARNESS, env=self.goenv(), stdout=subprocess.PIPE, stderr=subprocess.STDOUT, text=True, timeout=timeout)
        if p.returncode != 0:
            raise Infra("go build %s failed:\n%s" % (pkg, p.stdout[-4000:]))
        self.log("built %s%s in %.1fs" % (pkg, " (-race)" if race else "", time.time() - t))
        self._gobuilt[key] = out
        return out

    def run(self, cmd, stdin=None, timeout=900, cwd=None, env=None, ok_codes=(0,)):
        p = subprocess.run(cmd, cwd=cwd, env=env or self.goenv(), input=stdin, stdout=subprocess.PIPE, stderr=subprocess.PIPE,
                           text=True, timeout=timeout, errors="replace")
        if p.returncode not in ok_codes:
            raise Infra("command failed (%d): %s\n%s\n%s" % (p.returncode, " ".join(cmd)[:300], p.stdout[-2000:], p.stderr[-4000:]))
        return p

    def drive(self, pkg, vectors, args=None, race=False, timeout=1800):
        """Run a driver binary: vectors (list of JSON objects) in on a file, observations (ndjson) out."""
        binp = self.gobuild(pkg, race=race)
        d = self.subdir("drive-" + pkg.replace("/", "_"))
        inp = os.path.join(d, "in.ndjson")
        outp = os.path.join(d, "out.ndjson")
        with open(inp, "w") as f:
            for v in vectors:
                f.write(json.dumps(v, separators=(",", ":"), sort_keys=True) + "\n")
        cmd = [binp, "-in", inp, "-out", outp, "-seed", str(self.seed)] + list(args or [])
        t = time.time()
        p = subprocess.run(cmd, cwd=d, env=self.goenv(), stdout=subprocess.PIPE, stderr=subprocess.PIPE, text=True, timeout=timeout, errors="replace")
        if p.returncode != 0:
            raise Infra("driver %s failed (%d):\n%s\n%s" % (pkg, p.returncode, p.stdout[-2000:], p.stderr[-4000:]))
        obs = [json.loads(l) for l in open(outp) if l.strip()]
        self.log("drove %s: %d cases in, %d observations out, %.1fs" % (pkg, len(vectors), len(obs), time.time() - t))
        return obs, outp, p

    # -------------------------------------------------------------- verdicts
    def violation(self, key, desc, case):
        """A real-code behaviour the specification rejects."""
        if key in self.known or ("+" in key and any(k in self.known for k in key.split("+"))
                                 and all(k in self.known or k in self.known_any for k in key.split("+"))):
            # a combination of recorded findings (several deviations needed to explain the behaviour) is recorded
            # too: the part that concerns this property must be recorded for it, the rest for some property
            if key not in self.known_hits:
                self.known_hits[key] = desc
            return False
        rdir = os.path.join(VERIF, "replays", self.prop)
        os.makedirs(rdir, exist_ok=True)
        h = hashlib.sha1(json.dumps(case, sort_keys=True, default=str).encode()).hexdigest()[:12]
        path = os.path.join(rdir, "%s-%s.json" % (re.sub(r"[^A-Za-z0-9_.-]+", "_", key)[:60], h))
        # a replay file for the first case of every distinct key (those are the VIOLATION lines printed), and for the first 25 cases
        first = key not in self._violation_keys
        self._violation_keys.add(key)
        if len(self.violations) < 25 or (first and len(self._violation_keys) <= 400):
            with open(path, "w") as f:
                json.dump({"property": self.prop, "key": key, "description": desc, "seed": self.seed, "tier": self.tier, "case": case}, f, indent=1, default=str)
        self.violations.append((key, desc, path))
        return True

    def sample(self, s, limit=6):
        if len(self.cov["samples"]) < limit:
            self.cov["samples"].append(s)

    # ---------------------------------------------------------------- finish
    def finish(self, level="model_checking"):
        wall = time.time() - self.t0
        for key, desc in sorted(self.known_hits.items()):
            print("KNOWN-FINDING: property=%s key=%s %s" % (self.prop, key, desc), flush=True)
        stale = [k for k in self.known if k not in self.known_hits]
        cov = self.cov
        cov["known_findings_seen"] = sorted(self.known_hits)
        if stale:
            cov["known_findings_not_reproduced_this_run"] = stale
        cov["notes"] = self.notes
        ev = {"property_id": self.prop, "tier": self.tier, "seed": self.seed, "level": level,
              "coverage": cov, "assumptions": self.assumptions, "wall_s": round(wall, 2),
              "violations": len(self.violations)}
        # evidence under /verif/evidence describes /repo only; runs against another tree (--repo: seeded changes,
        # builders' worktrees) leave their evidence next to the replays
        evdir = os.path.join(VERIF, "evidence") if self.repo == "/repo" else os.path.join(VERIF, "replays", "evidence-other-trees")
        os.makedirs(evdir, exist_ok=True)
        with open(os.path.join(evdir, self.prop + ".json"), "w") as f:
            json.dump(ev, f, indent=1, default=str)
        seen = set()
        for key, desc, path in self.violations:
            if key in seen:
                continue
            seen.add(key)
            print("VIOLATION property=%s replay=%s" % (self.prop, path), flush=True)
            print("  key=%s %s" % (key, desc), flush=True)
        self.log("done: %d violation(s) [%d distinct key(s)], %d known finding(s), %.1fs" %
                 (len(self.violations), len(seen), len(self.known_hits), wall))
        return EXIT_VIOLATION if self.violations else EXIT_OK


def load_known(prop):
    """known_findings.txt: `known: property=<id> key=<key> <text>` suppresses exactly that key;
    `fixed: ...` lines suppress nothing."""
    res = {}
    p = os.path.join(VERIF, "known_findings.txt")
    if not os.path.exists(p):
        return res
    for line in open(p):
        line = line.strip()
        m = re.match(r"known:\s+property=(\S+)\s+key=(\S+)\s*(.*)$", line)
        if m and (prop is None or m.group(1) == prop):
            res[m.group(2)] = m.group(3)
    return res


def canon(x):
    return json.dumps(x, sort_keys=True, separators=(",", ":"))


def deep_diff(a, b, path=""):
    """First difference between two JSON values, or None."""
    if type(a) != type(b) and not (isinstance(a, (int, float)) and isinstance(b, (int, float)) and not isinstance(a, bool) and not isinstance(b, bool)):
        return "%s: %r != %r" % (path or ".", a, b)
    if isinstance(a, dict):
        for k in sorted(set(a) | set(b)):
            if k not in a:
                return "%s.%s: missing in predicted" % (path, k)
            if k not in b:
                return "%s.%s: missing in observed" % (path, k)
            d = deep_diff(a[k], b[k], path + "." + k)
            if d:
                return d
        return None
    if isinstance(a, list):
        if len(a) != len(b):
            return "%s: length %d != %d (%r vs %r)" % (path or ".", len(a), len(b), a, b)
        for i, (x, y) in enumerate(zip(a, b)):
            d = deep_diff(x, y, "%s[%d]" % (path, i))
            if d:
                return d
        return None
    if a != b:
        return "%s: %r != %r" % (path or ".", a, b)
    return None
