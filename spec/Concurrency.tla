----------------------------- MODULE Concurrency -----------------------------
(* Concurrent requests against one mounted goa server (property C20).

   K request processes each run the steps of a generated handler.  The harness can hold a process at the
   points where the generated code calls something the caller injected: the decoder factory ("decode"), the
   authorization callback / the service method ("invoke"), the encoder factory ("encode").  Passing a gate
   releases the process into the next REGION of the handler; regions of different processes overlap freely.
   Each region touches shared objects:

     pre      client encode, mux lookup                    mux tables: read (written only while mounting)
     decode   body/param decoding, validation               pattern cache: read/write under its RWMutex
     service  user code                                     (the stub: per-request state only)
     encode   response encoder, or ErrorEncoder             ErrorEncoder's captured `formatter` variable: read
                                                            [deviation: also WRITTEN per request when nil]

   A data race is two processes inside regions with conflicting accesses to one variable and no common lock
   (no happens-before machinery needed).  Echo: a response is a function of its own request only. *)
EXTENDS Integers, Sequences, FiniteSets, TLC

CONSTANTS K, Deviations
Procs == 1..K
Kinds == {"ok", "invalid", "declared", "undeclared", "plain"}
Gates(kind) == IF kind = "invalid" THEN <<"decode", "encode">> ELSE <<"decode", "invoke", "encode">>
\* the default error encoder (goahttp.ErrorEncoder) is used for everything but successes and declared errors
UsesDefaultErrorEncoder(kind) == kind \in {"invalid", "undeclared", "plain"}

VARIABLES kind,     \* [Procs -> Kinds]
          pos,      \* [Procs -> number of gates passed]
          hist,     \* the schedule: sequence of <<process, gate>> passes
          lastErr,  \* (only meaningful under the hypothetical deviation handler.shared_error_var)
          resp      \* [Procs -> id of the request the response was computed from, 0 = none yet]
vars == <<kind, pos, hist, lastErr, resp>>

Region(p) == IF pos[p] = 0 THEN "pre" ELSE
             LET g == Gates(kind[p])[pos[p]] IN
             CASE g = "decode" -> "decode" [] g = "invoke" -> "service" [] g = "encode" -> "encode"

Acc(v, m, l) == [var |-> v, mode |-> m, lock |-> l]
Accesses(p) ==
  CASE Region(p) = "pre"     -> {Acc("mux", "r", "none")}
    [] Region(p) = "decode"  -> {Acc("patterns", "r", "patternsLock"), Acc("patterns", "w", "patternsLock")}
    [] Region(p) = "service" -> {}
    [] Region(p) = "encode"  ->
         IF UsesDefaultErrorEncoder(kind[p])
         THEN {Acc("formatter", "r", "none")} \cup
              (IF "errorencoder.formatter_assigned_per_request" \in Deviations THEN {Acc("formatter", "w", "none")} ELSE {})
         ELSE {}
Conflict(a, b) == a.var = b.var /\ (a.mode = "w" \/ b.mode = "w") /\ (a.lock = "none" \/ a.lock # b.lock)

Init == /\ kind \in [Procs -> Kinds] /\ pos = [p \in Procs |-> 0] /\ hist = <<>> /\ lastErr = 0 /\ resp = [p \in Procs |-> 0]
Pass(p) ==
  /\ pos[p] < Len(Gates(kind[p]))
  /\ pos' = [pos EXCEPT ![p] = @ + 1]
  /\ hist' = Append(hist, <<p, Gates(kind[p])[pos[p] + 1]>>)
  /\ lastErr' = IF Gates(kind[p])[pos[p] + 1] = "encode" /\ "handler.shared_error_var" \in Deviations THEN p ELSE lastErr
  /\ UNCHANGED <<kind, resp>>
\* the response leaves (not gated: it happens some time after the encode gate was passed)
Finish(p) ==
  /\ pos[p] = Len(Gates(kind[p])) /\ resp[p] = 0
  /\ resp' = [resp EXCEPT ![p] = IF "handler.shared_error_var" \in Deviations THEN lastErr ELSE p]
  /\ UNCHANGED <<kind, pos, hist, lastErr>>
Next == \E p \in Procs : Pass(p) \/ Finish(p)
Spec == Init /\ [][Next]_vars /\ WF_vars(Next)

AllDone == \A p \in Procs : resp[p] # 0
\* C20
NoConflict == \A p, q \in Procs : p # q => \A a \in Accesses(p), b \in Accesses(q) : ~Conflict(a, b)
Echo == \A p \in Procs : resp[p] \in {0, p}
Termination == <>AllDone
==============================================================================
