----------------------------- MODULE Concurrency -----------------------------
(* Concurrent requests against one mounted goa server (property C20).

   K request processes each run the steps of a generated handler.  The harness can hold a process at the
   points where the generated code calls something the caller injected: the decoder factory ("decode"), the
   authorization callback / the service method ("invoke"), the encoder factory ("encode").  Passing a gate
   releases the process into the next REGION of the handler; a region ends when the process ARRIVES at its
   next gate (or, after the last gate, when the reply has reached the client).  Regions of different processes
   overlap freely in the free mode; in the serial mode the controller passes a gate only when every other
   process sits at a gate or is done, so that whole regions are the grain of the interleaving (hold request A
   after its decode region, run request B from start to finish, let A continue).

   Each region touches shared objects:

     pre      client encode / raw request, the middleware  mux tables: read (written only while mounting)
              chain (request id, trace, debug, log), mux     the trace middleware's sampler: rate adjustment under its mutex
              lookup                                         [deviation sampler.adjust_unlocked: no mutex]
     decode   body/param decoding, validation               pattern cache: read/write under its RWMutex
                                                            the request decoder of the request's content type
     service  user code: reads the decoded payload           (the stub: per-request state only)
     encode   response encoder, or ErrorEncoder; the reply   ErrorEncoder's captured `formatter` variable: read
              is computed from the payload (echo methods)    [deviation: also WRITTEN per request when nil]

   A request is (kind, codec, body): what the handler does with it, the class of its Content-Type
   (application/json, application/xml, application/gob, text/plain|text/html, anything else) and the kind of its
   body (object, string, bytes, list).  The decoders and encoders of the runtime (RequestDecoder, ResponseEncoder,
   ResponseDecoder, RequestEncoder) are created per request and keep no state between requests; the decoded
   payload is memory of its own request.
   [hypothetical deviation "decoder.pooled_buffer_aliased": the text decoder reads every body into ONE buffer
    shared by all requests and a Bytes payload is a slice of that buffer - the next text body overwrites it.]

   A data race is two processes inside regions with conflicting accesses to one variable and no common lock
   (no happens-before machinery needed).  Echo (linearizability-style): the payload delivered to the handler of
   request r is the payload of r, and the reply observed for request r is F(payload(r)) - written here as "was
   computed from request r", request identities standing for the pairwise distinct payloads the harness sends. *)
EXTENDS Integers, Sequences, FiniteSets, TLC

CONSTANTS K, Deviations,
          KindSet, CodecSet, BodySet,   \* the part of the request space explored by one run
          SerialSet                     \* replay modes explored: subset of BOOLEAN
Procs == 1..K
Kinds  == {"ok", "invalid", "declared", "undeclared", "plain"}
Codecs == {"json", "xml", "gob", "text", "unsup"}
Bodies == {"object", "string", "bytes", "list"}
ASSUME KindSet \subseteq Kinds /\ CodecSet \subseteq Codecs /\ BodySet \subseteq Bodies /\ SerialSet \subseteq BOOLEAN
Gates(kind) == IF kind = "invalid" THEN <<"decode", "encode">> ELSE <<"decode", "invoke", "encode">>
\* the default error encoder (goahttp.ErrorEncoder) is used for everything but successes and declared errors
UsesDefaultErrorEncoder(kind) == kind \in {"invalid", "undeclared", "plain"}
\* the text codec carries strings and byte strings only, an unsupported content type is refused: the handler
\* answers with a decode error whatever the request was meant to provoke
DecodeFails(c, b) == c = "unsup" \/ (c = "text" /\ b \in {"object", "list"})
Requests == {x \in [kind : KindSet, codec : CodecSet, body : BodySet] : DecodeFails(x.codec, x.body) => x.kind = "invalid"}

VARIABLES req,      \* [Procs -> Requests]
          serial,   \* replay mode
          pos,      \* [Procs -> number of gates passed]
          at,       \* [Procs -> "run" (inside a region) | "gate" (waiting) | "done"]
          hist,     \* the schedule: sequence of <<process, gate>> passes
          lastErr,  \* (only meaningful under the hypothetical deviation handler.shared_error_var)
          pool,     \* (only under decoder.pooled_buffer_aliased) whose bytes the shared text buffer holds, 0 = none
          ref,      \* [Procs -> where the decoded payload lives: "none" | "own" | "pool"]
          seen,     \* [Procs -> id of the request whose payload the handler read, 0 = not (yet) invoked]
          resp      \* [Procs -> id of the request the reply was computed from, 0 = none yet]
vars == <<req, serial, pos, at, hist, lastErr, pool, ref, seen, resp>>
kind == [p \in Procs |-> req[p].kind]

Region(p) == IF pos[p] = 0 THEN "pre" ELSE
             LET g == Gates(kind[p])[pos[p]] IN
             CASE g = "decode" -> "decode" [] g = "invoke" -> "service" [] g = "encode" -> "encode"

Pooled == "decoder.pooled_buffer_aliased" \in Deviations
SamplerLock == IF "sampler.adjust_unlocked" \in Deviations THEN "none" ELSE "samplerLock"
Acc(v, m, l) == [var |-> v, mode |-> m, lock |-> l]
Accesses(p) ==
  IF at[p] # "run" THEN {} ELSE
  CASE Region(p) = "pre"     -> {Acc("mux", "r", "none"),
                                 \* the middlewares mounted in front of the handlers are created once: the trace middleware's
                                 \* adaptive sampler adjusts its rate (reads and writes `start`) under its mutex (Sampler.tla)
                                 Acc("samplerStart", "r", SamplerLock), Acc("samplerStart", "w", SamplerLock)}
    [] Region(p) = "decode"  -> {Acc("patterns", "r", "patternsLock"), Acc("patterns", "w", "patternsLock")} \cup
                                (IF Pooled /\ req[p].codec = "text" THEN {Acc("textbuf", "w", "none")} ELSE {})
    [] Region(p) = "service" -> IF ref[p] = "pool" THEN {Acc("textbuf", "r", "none")} ELSE {}
    [] Region(p) = "encode"  ->
         (IF UsesDefaultErrorEncoder(kind[p])
          THEN {Acc("formatter", "r", "none")} \cup
               (IF "errorencoder.formatter_assigned_per_request" \in Deviations THEN {Acc("formatter", "w", "none")} ELSE {})
          ELSE {}) \cup
         (IF ref[p] = "pool" /\ kind[p] = "ok" THEN {Acc("textbuf", "r", "none")} ELSE {})
Conflict(a, b) == a.var = b.var /\ (a.mode = "w" \/ b.mode = "w") /\ (a.lock = "none" \/ a.lock # b.lock)

\* what request p's payload reads as right now
View(p) == IF ref[p] = "pool" THEN pool ELSE p

Init == /\ req \in [Procs -> Requests] /\ serial \in SerialSet
        /\ pos = [p \in Procs |-> 0] /\ at = [p \in Procs |-> "run"] /\ hist = <<>> /\ lastErr = 0 /\ pool = 0
        /\ ref = [p \in Procs |-> "none"] /\ seen = [p \in Procs |-> 0] /\ resp = [p \in Procs |-> 0]

\* the controller lets p through the gate it is waiting at
Pass(p) ==
  /\ at[p] = "gate"
  /\ serial => \A q \in Procs : at[q] # "run"
  /\ pos' = [pos EXCEPT ![p] = @ + 1]
  /\ at' = [at EXCEPT ![p] = "run"]
  /\ hist' = Append(hist, <<p, Gates(kind[p])[pos[p] + 1]>>)
  /\ lastErr' = IF Gates(kind[p])[pos[p] + 1] = "encode" /\ "handler.shared_error_var" \in Deviations THEN p ELSE lastErr
  /\ UNCHANGED <<req, serial, pool, ref, seen, resp>>

\* p finishes the region it is in (its effects on the state shared with other requests, and on what p itself
\* observes, are taken at this point) and reaches its next gate; after the last region the reply has left
Arrive(p) ==
  /\ at[p] = "run"
  /\ LET r == Region(p) IN
     /\ IF r = "decode" /\ ~DecodeFails(req[p].codec, req[p].body)
        THEN IF Pooled /\ req[p].codec = "text"
             THEN /\ pool' = p
                  /\ ref' = [ref EXCEPT ![p] = IF req[p].body = "bytes" THEN "pool" ELSE "own"]
             ELSE /\ ref' = [ref EXCEPT ![p] = "own"] /\ UNCHANGED pool
        ELSE UNCHANGED <<pool, ref>>
     /\ seen' = IF r = "service" THEN [seen EXCEPT ![p] = View(p)] ELSE seen
     /\ resp' = IF r = "encode"
                THEN [resp EXCEPT ![p] = CASE kind[p] = "ok" -> View(p)
                                           [] "handler.shared_error_var" \in Deviations -> lastErr
                                           [] OTHER -> p]
                ELSE resp
  /\ at' = [at EXCEPT ![p] = IF pos[p] < Len(Gates(kind[p])) THEN "gate" ELSE "done"]
  /\ UNCHANGED <<req, serial, pos, hist, lastErr>>

Next == \E p \in Procs : Pass(p) \/ Arrive(p)
Spec == Init /\ [][Next]_vars /\ WF_vars(Next)

AllDone == \A p \in Procs : at[p] = "done"
\* C20
NoConflict == \A p, q \in Procs : p # q => \A a \in Accesses(p), b \in Accesses(q) : ~Conflict(a, b)
Echo == \A p \in Procs : resp[p] \in {0, p} /\ seen[p] \in {0, p}
Termination == <>AllDone
==============================================================================
