-------------------------------- MODULE Views --------------------------------
(* Result types with views (property C08).

   A result type has attributes (primitive, or another result type rendered under a per-attribute view) and
   named views; each view lists the attributes it exposes.  A method returns a value together with a view
   name (chosen by the service method, or fixed in the design); the server projects the value on the view,
   announces the view in the goa-view header, and the client validates and rebuilds the result under the
   view named by the header.  Graphs, as a catalogue (TLC cannot take records in a cfg):

     G1  T{a,b}                     default{a,b}  tiny{a}
     G2  T{a,b,c:U}  U{x,y}         T.default{a,b,c/default} T.tiny{a} T.ext{a,c/tiny};  U.default{x,y} U.tiny{x}
     G3  collection of G2's T       (every element projected alike)
     G4  T{a,n:T}  (recursive)      default{a,n/tiny}  tiny{a}
     G5  T{a,o:U,p:U}               two attributes of the same nested result type with different views in one view:
                                    T.default{a,o/tiny,p/default}  T.tiny{a}
     G6  T{a,c:U declared with view tiny}   the view named in a parent view overrides the one on the attribute:
                                    T.default{a,c/default}  T.tiny{a}  T.ext{a,c}  (c under ext: the attribute's own view, tiny)
     G7  collection of T{a,d} with d REQUIRED but absent from view tiny:  default{a,d}  tiny{a}
     G8  T{a,o:U,p:U,q:U,r:U}       four adjacent attributes of one nested result type, all rendered tiny:
                                    T.default{a,o/tiny,p/tiny,q/tiny,r/tiny}  T.tiny{a}
*)
EXTENDS Integers, Sequences, FiniteSets, TLC

CONSTANTS Deviations

Graphs == {"G1", "G2", "G3", "G4", "G5", "G6", "G7", "G8"}
\* view table: <<type, view>> -> set of [attr, sub] where sub = "-" for a primitive attribute, else <<type, view>> of the nested rendering
Prim(a) == [attr |-> a, sub |-> <<"-", "-">>]
Nest(a, t, v) == [attr |-> a, sub |-> <<t, v>>]
ViewTable(g, t, v) ==
  CASE g = "G1" /\ t = "T" /\ v = "default" -> {Prim("a"), Prim("b")}
    [] g = "G1" /\ t = "T" /\ v = "tiny"    -> {Prim("a")}
    [] g \in {"G2", "G3"} /\ t = "T" /\ v = "default" -> {Prim("a"), Prim("b"), Nest("c", "U", "default")}
    [] g \in {"G2", "G3"} /\ t = "T" /\ v = "tiny"    -> {Prim("a")}
    [] g \in {"G2", "G3"} /\ t = "T" /\ v = "ext"     -> {Prim("a"), Nest("c", "U", "tiny")}
    [] g \in {"G2", "G3"} /\ t = "U" /\ v = "default" -> {Prim("x"), Prim("y")}
    [] g \in {"G2", "G3"} /\ t = "U" /\ v = "tiny"    -> {Prim("x")}
    [] g = "G5" /\ t = "T" /\ v = "default" -> {Prim("a"), Nest("o", "U", "tiny"), Nest("p", "U", "default")}
    [] g = "G5" /\ t = "T" /\ v = "tiny"    -> {Prim("a")}
    [] g = "G6" /\ t = "T" /\ v = "default" -> {Prim("a"), Nest("c", "U", "default")}
    [] g = "G6" /\ t = "T" /\ v = "tiny"    -> {Prim("a")}
    [] g = "G6" /\ t = "T" /\ v = "ext"     -> {Prim("a"), Nest("c", "U", "tiny")}
    [] g \in {"G5", "G6"} /\ t = "U" /\ v = "default" -> {Prim("x"), Prim("y")}
    [] g \in {"G5", "G6"} /\ t = "U" /\ v = "tiny"    -> {Prim("x")}
    [] g = "G7" /\ t = "T" /\ v = "default" -> {Prim("a"), Prim("d")}
    [] g = "G7" /\ t = "T" /\ v = "tiny"    -> {Prim("a")}
    [] g = "G8" /\ t = "T" /\ v = "default" -> {Prim("a"), Nest("o", "U", "tiny"), Nest("p", "U", "tiny"), Nest("q", "U", "tiny"), Nest("r", "U", "tiny")}
    [] g = "G8" /\ t = "T" /\ v = "tiny"    -> {Prim("a")}
    [] g = "G8" /\ t = "U" /\ v = "default" -> {Prim("x"), Prim("y")}
    [] g = "G8" /\ t = "U" /\ v = "tiny"    -> {Prim("x")}
    [] g = "G4" /\ t = "T" /\ v = "default" -> {Prim("a"), Nest("n", "T", "tiny")}
    [] g = "G4" /\ t = "T" /\ v = "tiny"    -> {Prim("a")}
    [] OTHER -> {}
ViewsOf(g) == IF g \in {"G2", "G3", "G6"} THEN {"default", "tiny", "ext"} ELSE {"default", "tiny"}

\* which optional attributes the service method set in the value it returns (a, x are required and always set)
ValueSpace(g) ==
  CASE g = "G1" -> {{"a"}, {"a", "b"}}
    [] g \in {"G2", "G3"} -> {{"a"}, {"a", "b"}, {"a", "c", "c.x"}, {"a", "b", "c", "c.x", "c.y"}, {"a", "c", "c.x", "c.y"}}
    [] g = "G4" -> {{"a"}, {"a", "n", "n.a"}, {"a", "n", "n.a", "n.n", "n.n.a"}}
    [] g = "G5" -> {{"a"}, {"a", "o", "o.x", "o.y", "p", "p.x", "p.y"}, {"a", "p", "p.x", "p.y"}, {"a", "o", "o.x", "o.y"}, {"a", "o", "o.x", "p", "p.x"}}
    [] g = "G6" -> {{"a"}, {"a", "c", "c.x"}, {"a", "c", "c.x", "c.y"}}
    [] g = "G7" -> {{"a", "d"}}
    [] g = "G8" -> {{"a", "o", "o.x", "o.y", "p", "p.x", "p.y", "q", "q.x", "q.y", "r", "r.x", "r.y"}, {"a", "p", "p.x", "p.y", "r", "r.x", "r.y"}}

\* projection: the set of attribute paths of `val` that view (t, v) exposes
RECURSIVE Proj(_, _, _, _, _, _)
Proj(g, t, v, val, prefix, depth) ==
  IF depth = 0 THEN {} ELSE
  UNION {
    LET p == IF prefix = "" THEN e.attr ELSE prefix \o "." \o e.attr IN
    IF p \notin val THEN {}
    ELSE IF e.sub[1] = "-" THEN {p}
    ELSE {p} \cup Proj(g, e.sub[1], e.sub[2], val, p, depth - 1)
    : e \in ViewTable(g, t, v)}

VARIABLES cfg,      \* [g: graph, fixed: view name fixed in the design or "-", chosen: view the service method names ("" = default)]
          val,      \* set of attribute paths the service set
          pc, wireKeys, viewHeader, clientKeys, cerr
vars == <<cfg, val, pc, wireKeys, viewHeader, clientKeys, cerr>>

EffView == IF cfg.fixed # "-" THEN cfg.fixed ELSE IF cfg.chosen = "" THEN "default" ELSE cfg.chosen

Init ==
  /\ cfg \in {c \in [g: Graphs, fixed: {"-", "default", "tiny", "ext"}, chosen: {"", "default", "tiny", "ext", "bogus"}] :
                /\ (c.fixed # "-" => c.fixed \in ViewsOf(c.g) /\ c.chosen = "")
                /\ (c.fixed = "-" /\ c.chosen \notin {"", "bogus"} => c.chosen \in ViewsOf(c.g))}
  /\ val \in ValueSpace(cfg.g)
  /\ pc = "server" /\ wireKeys = {} /\ viewHeader = "none" /\ clientKeys = {} /\ cerr = "none"

\* server: project on the effective view; announce it (a view fixed in the design needs no header)
ServerEncode ==
  /\ pc = "server" /\ cfg.chosen # "bogus"
  /\ wireKeys' = IF "views.leak_all_attributes" \in Deviations THEN val ELSE Proj(cfg.g, "T", EffView, val, "", 4)
  /\ viewHeader' = IF cfg.fixed # "-" THEN "none" ELSE EffView
  /\ pc' = "client"
  /\ UNCHANGED <<cfg, val, clientKeys, cerr>>
\* a response labelled with a view the type does not define (sent by something other than the generated server)
ForeignResponse ==
  /\ pc = "server" /\ cfg.chosen = "bogus"
  /\ wireKeys' = Proj(cfg.g, "T", "default", val, "", 4) /\ viewHeader' = "bogus"
  /\ pc' = "client"
  /\ UNCHANGED <<cfg, val, clientKeys, cerr>>
ClientDecode ==
  /\ pc = "client"
  /\ LET view == IF cfg.fixed # "-" THEN cfg.fixed ELSE IF viewHeader \in {"none", ""} THEN "default" ELSE viewHeader IN
     IF view \notin ViewsOf(cfg.g)
     THEN cerr' = "unknown_view" /\ clientKeys' = {}
     ELSE cerr' = "none" /\ clientKeys' = Proj(cfg.g, "T", view, wireKeys, "", 4)
  /\ pc' = "done"
  /\ UNCHANGED <<cfg, val, wireKeys, viewHeader>>
Next == ServerEncode \/ ForeignResponse \/ ClientDecode
Spec == Init /\ [][Next]_vars

---------------------------------------------------------------------------
Expected == Proj(cfg.g, "T", EffView, val, "", 4)
\* C08
ExactlyViewAttributes == pc = "done" /\ cfg.chosen # "bogus" => wireKeys = Expected /\ clientKeys = Expected
ViewHeaderAccompanies == pc \in {"client", "done"} /\ cfg.chosen # "bogus" /\ cfg.fixed = "-" => viewHeader = EffView
ClientRefusesUnknownView == pc = "done" /\ cfg.chosen = "bogus" => cerr = "unknown_view"
NothingOutsideTheView == pc = "done" => wireKeys \subseteq val /\ clientKeys \subseteq wireKeys
=============================================================================
