-------------------------------- MODULE Views --------------------------------
(* Result types with views (property C08).

   A result type has attributes (primitive, another result type, or a collection of a result type, the nested ones
   rendered under a per-attribute view) and named views; each view lists the attributes it exposes.  A method returns
   a value together with a view name (chosen by the service method, or fixed in the design); the server projects the
   value on the view, announces the view in the goa-view header, and the client VALIDATES and rebuilds the result under
   the view named by the header: a response that lacks an attribute the view requires, or carries a value that breaks
   a validation of an attribute of the view, is refused; attributes outside the view play no part.

   Base catalogue (default view written first, a and x always required):

     G1  T{a,b}                     default{a,b}  tiny{a}
     G2  T{a,b,c:U}  U{x,y}         T.default{a,b,c/default} T.tiny{a} T.ext{a,c/tiny};  U.default{x,y} U.tiny{x}
     G3  collection of G2's T       (every element projected alike)
     G4  T{a,n:T}  (recursive)      default{a,n/tiny}  tiny{a}
     G5  T{a,o:U,p:U}               two attributes of the same nested result type with different views in one view:
                                    T.default{a,o/tiny,p/default}  T.tiny{a}
     G6  T{a,c:U declared with view tiny}   the view named in a parent view overrides the one on the attribute:
                                    T.default{a,c/default}  T.tiny{a}  T.ext{a,c}  (c under ext: the attribute's own view, tiny)
     G7  collection of T{a,d} with d REQUIRED but absent from view tiny:  default{a,d}  tiny{a}
     G8  T{a,o:U,p:U,q:U,r:U}       four adjacent attributes of one nested result type, all rendered tiny:
                                    T.default{a,o/tiny,p/tiny,q/tiny,r/tiny}  T.tiny{a}
     G9  T{a,l:collection of U}     a NESTED collection:  T.default{a,l/default} T.tiny{a} T.ext{a,l/tiny};  U as in G2
     G10 G5 with the default view listing p BEFORE o:  T.default{a,p/default,o/tiny}  T.tiny{a}
         (a view lists its attributes in the order written here; the implicit default view in declaration order)
     G11 T{a,o:U,p:W,q:U}  W a LOOKALIKE of U: another result type (own name and identifier) with the same attribute names,
         types, required attributes and validations, whose views list DIFFERENT attributes under the same view names:
         U.tiny{x}  W.tiny{y}  (W.default{x,y} as U);  T.default{a,o/tiny,p/tiny,q/tiny}  T.tiny{a}
         (the dual of G5/G8/G10, where ONE type is used twice: two types must never share a projection)

   Every graph (G4 excepted, whose generated code does not compile: C01's business) is taken in all its VARIANTS,
   enumerated by TLC; a variant k = [g, order, req]:

     order  where the default view of every result type of the graph is declared
              "first"     before the other views
              "last"      after the other views
              "implicit"  not at all: the design language then adds a default view listing EVERY attribute, nested
                          result types under the view declared on the attribute, else under their default view
     req    which attributes are required / validated beyond the base (views differ in what they validate)
              "base"  nothing more
              "sel"   the primitive attributes that default lists and tiny does not (b, y, d) are required and carry
                      a validation (a maximum length): validated by the default view only
              "oth"   every type gets one more attribute (T: e, U: z), required and validated, listed by every
                      NON-default view and not by an explicit default view: required by the other views only
              "nest"  every attribute whose type is (one value of) another result type is required: the service may
                      leave it out, and a response without it is invalid under every view that lists it

   Methods: every variant has the method `any` (the service method names the view); the variants with views fixed in the
   design also have one method per view fixing it - ALL in one service and returning the same result type, so that the view
   disciplines meet: each method must behave as if it were alone.  For G1, G2, G3 in their [first, base] variant the
   declaration order of the three disciplines (dynamic, fixed default, fixed tiny) is a further dimension `mo` (all six
   orders; a fixed ext comes last).  Whatever view name the service code might hand back from a method whose view is
   fixed in the design is ignored (`chosen` of such a case: a decoy).

   Collections: how a collection result type is DECLARED is a dimension `cd` of the graphs that have one (G3, G7, G9; req =
   base, mo = 1), each collection being the first one declared for its element:
              "plain"  CollectionOf(Elem)
              "empty"  CollectionOf(Elem, func() {})                          a DSL that says nothing
              "desc"   CollectionOf(Elem, func() { Description(..) })         a DSL that does not mention views
                       in these three the collection has the views of its element: every view renders every element with
                       exactly that view's attributes and the response is labelled with it
              "vtiny"  CollectionOf(Elem, func() { View("tiny") })            (top-level collections; "vext" likewise where
                       the element has a view ext): the collection is rendered with that view, whatever the service
                       says: it is fixed in the design, by the type instead of the method (the service's own type then
                       only has the attributes of the view: `sval` below)

   Values: which attributes the service set (required primitives always: a Go service cannot leave them out), and
   `bad`: at most one validated attribute carrying a value that breaks its validation.
*)
EXTENDS Integers, Sequences, FiniteSets, TLC

CONSTANTS Deviations,   \* named deviations, see below
          ReqModes,     \* the req modes taken (all of Reqs, unless a run only needs the predictions for some)
          AllFixed      \* TRUE: every variant also has a method for every view fixed in the design; FALSE (quick tier): only the
                        \* [first, base] variants have them (in every variant the service method chooses every view)
(* named deviations (what the code is known or suspected to do instead):
     views.leak_all_attributes                the server renders every attribute whatever the view (vacuity guard)
     client.required_user_type_nil_deref      the client converts the decoded body BEFORE validating it and takes a required
                                              attribute of user type to be there: when it is not on the wire - left out by
                                              the service, or simply outside the rendered view - the client crashes
     views.required_nested_result_unchecked   the view validators never check that a required attribute whose type is a
                                              result type is present *)

Graphs == {"G1", "G2", "G3", "G4", "G5", "G6", "G7", "G8", "G9", "G10", "G11"}
Orders == {"first", "last", "implicit"}
Reqs   == {"base", "sel", "oth", "nest"}
Range(s) == {s[i] : i \in DOMAIN s}

---------------------------------------------------------------------------
\* base catalogue
\* attributes of a type, in declaration order: primitive; result type; result type with a view declared on the attribute; collection
P(a)        == [attr |-> a, typ |-> "-", own |-> "-", coll |-> FALSE]
R(a, t)     == [attr |-> a, typ |-> t,   own |-> "-", coll |-> FALSE]
RV(a, t, v) == [attr |-> a, typ |-> t,   own |-> v,   coll |-> FALSE]
L(a, t)     == [attr |-> a, typ |-> t,   own |-> "-", coll |-> TRUE]
BaseAttrs(g, t) ==
  CASE g = "G1" /\ t = "T"          -> <<P("a"), P("b")>>
    [] g \in {"G2", "G3"} /\ t = "T" -> <<P("a"), P("b"), R("c", "U")>>
    [] g = "G4" /\ t = "T"          -> <<P("a"), R("n", "T")>>
    [] g \in {"G5", "G10"} /\ t = "T" -> <<P("a"), R("o", "U"), R("p", "U")>>
    [] g = "G6" /\ t = "T"          -> <<P("a"), RV("c", "U", "tiny")>>
    [] g = "G7" /\ t = "T"          -> <<P("a"), P("d")>>
    [] g = "G8" /\ t = "T"          -> <<P("a"), R("o", "U"), R("p", "U"), R("q", "U"), R("r", "U")>>
    [] g = "G9" /\ t = "T"          -> <<P("a"), L("l", "U")>>
    [] g = "G11" /\ t = "T"         -> <<P("a"), R("o", "U"), R("p", "W"), R("q", "U")>>
    [] t \in {"U", "W"}             -> <<P("x"), P("y")>>
\* types of a graph, in declaration order; the method result is T, or a collection of T
TypesOf(g) == IF g \in {"G1", "G4", "G7"} THEN <<"T">> ELSE IF g = "G11" THEN <<"U", "W", "T">> ELSE <<"U", "T">>
Like(t) == IF t = "W" THEN "U" ELSE t     \* W is U's lookalike: same attributes, required and validations, other views
TopColl(g) == g \in {"G3", "G7"}

\* a view entry: a primitive attribute; a nested result type under the view the parent view names; a nested result type
\* for which the parent view names no view (the view declared on the attribute applies, else default)
Prim(a)       == [attr |-> a, sub |-> <<"-", "-">>]
Nest(a, t, v) == [attr |-> a, sub |-> <<t, v>>]
Inh(a, t)     == [attr |-> a, sub |-> <<t, "=">>]
V(n, s) == [name |-> n, attrs |-> s]     \* s: the entries in the order the view lists them
UViews == <<V("default", <<Prim("x"), Prim("y")>>), V("tiny", <<Prim("x")>>)>>
BaseViews(g, t) ==
  CASE g = "G1" /\ t = "T" -> <<V("default", <<Prim("a"), Prim("b")>>), V("tiny", <<Prim("a")>>)>>
    [] g \in {"G2", "G3"} /\ t = "T" -> <<V("default", <<Prim("a"), Prim("b"), Nest("c", "U", "default")>>), V("tiny", <<Prim("a")>>),
                                          V("ext", <<Prim("a"), Nest("c", "U", "tiny")>>)>>
    [] g = "G4" /\ t = "T" -> <<V("default", <<Prim("a"), Nest("n", "T", "tiny")>>), V("tiny", <<Prim("a")>>)>>
    [] g = "G5" /\ t = "T" -> <<V("default", <<Prim("a"), Nest("o", "U", "tiny"), Nest("p", "U", "default")>>), V("tiny", <<Prim("a")>>)>>
    [] g = "G10" /\ t = "T" -> <<V("default", <<Prim("a"), Nest("p", "U", "default"), Nest("o", "U", "tiny")>>), V("tiny", <<Prim("a")>>)>>
    [] g = "G6" /\ t = "T" -> <<V("default", <<Prim("a"), Nest("c", "U", "default")>>), V("tiny", <<Prim("a")>>), V("ext", <<Prim("a"), Inh("c", "U")>>)>>
    [] g = "G7" /\ t = "T" -> <<V("default", <<Prim("a"), Prim("d")>>), V("tiny", <<Prim("a")>>)>>
    [] g = "G8" /\ t = "T" -> <<V("default", <<Prim("a"), Nest("o", "U", "tiny"), Nest("p", "U", "tiny"), Nest("q", "U", "tiny"), Nest("r", "U", "tiny")>>),
                                V("tiny", <<Prim("a")>>)>>
    [] g = "G9" /\ t = "T" -> <<V("default", <<Prim("a"), Nest("l", "U", "default")>>), V("tiny", <<Prim("a")>>), V("ext", <<Prim("a"), Nest("l", "U", "tiny")>>)>>
    [] g = "G11" /\ t = "T" -> <<V("default", <<Prim("a"), Nest("o", "U", "tiny"), Nest("p", "W", "tiny"), Nest("q", "U", "tiny")>>), V("tiny", <<Prim("a")>>)>>
    [] t = "U" -> UViews
    [] t = "W" -> <<V("default", <<Prim("x"), Prim("y")>>), V("tiny", <<Prim("y")>>)>>
BaseReq(g, t) == IF t \in {"U", "W"} THEN {"x"} ELSE IF g = "G7" THEN {"a", "d"} ELSE {"a"}

\* which optional attributes the service method set in the value it returns (before the required primitives are added)
ValueBase(g) ==
  CASE g = "G1" -> {{"a"}, {"a", "b"}}
    [] g \in {"G2", "G3"} -> {{"a"}, {"a", "b"}, {"a", "c", "c.x"}, {"a", "b", "c", "c.x", "c.y"}, {"a", "c", "c.x", "c.y"}}
    [] g = "G4" -> {{"a"}, {"a", "n", "n.a"}, {"a", "n", "n.a", "n.n", "n.n.a"}}
    [] g \in {"G5", "G10"} -> {{"a"}, {"a", "o", "o.x", "o.y", "p", "p.x", "p.y"}, {"a", "p", "p.x", "p.y"}, {"a", "o", "o.x", "o.y"}, {"a", "o", "o.x", "p", "p.x"}}
    [] g = "G6" -> {{"a"}, {"a", "c", "c.x"}, {"a", "c", "c.x", "c.y"}}
    [] g = "G7" -> {{"a", "d"}}
    [] g = "G8" -> {{"a", "o", "o.x", "o.y", "p", "p.x", "p.y", "q", "q.x", "q.y", "r", "r.x", "r.y"}, {"a", "p", "p.x", "p.y", "r", "r.x", "r.y"}}
    [] g = "G9" -> {{"a"}, {"a", "l", "l.x"}, {"a", "l", "l.x", "l.y"}}
    [] g = "G11" -> {{"a"}, {"a", "o", "o.x", "o.y", "p", "p.x", "p.y", "q", "q.x", "q.y"}, {"a", "p", "p.x", "p.y"}, {"a", "o", "o.x", "p", "p.x"}, {"a", "p", "p.x", "q", "q.x", "q.y"}}

---------------------------------------------------------------------------
\* variants
ASSUME ReqModes \subseteq Reqs /\ AllFixed \in BOOLEAN
\* declaration orders of the three view disciplines ("-": the service method names the view)
Perms == << <<"-", "default", "tiny">>, <<"-", "tiny", "default">>, <<"default", "-", "tiny">>,
            <<"default", "tiny", "-">>, <<"tiny", "-", "default">>, <<"tiny", "default", "-">> >>
CollDecls == {"plain", "empty", "desc", "vtiny", "vext"}
HasExt(g) == \E i \in DOMAIN BaseViews(g, "T") : BaseViews(g, "T")[i].name = "ext"
Variants == {k \in [g: Graphs, order: Orders, req: ReqModes, mo: DOMAIN Perms, cd: CollDecls] :
               /\ k.g = "G4" => k.order = "first" /\ k.req = "base"
               /\ k.mo # 1 => k.g \in {"G1", "G2", "G3"} /\ k.order = "first" /\ k.req = "base"
               /\ k.cd # "plain" => k.g \in {"G3", "G7", "G9"} /\ k.req = "base" /\ k.mo = 1
               /\ k.cd \in {"vtiny", "vext"} => TopColl(k.g)
               /\ k.cd = "vext" => HasExt(k.g)}
\* the view a collection declaration fixes ("-": none)
CollFixed(k) == CASE k.cd = "vtiny" -> "tiny" [] k.cd = "vext" -> "ext" [] OTHER -> "-"
Extra(t) == IF t = "T" THEN "e" ELSE "z"
Attrs(k, t) == IF k.req = "oth" THEN Append(BaseAttrs(k.g, t), P(Extra(t))) ELSE BaseAttrs(k.g, t)
AttrOf(k, t, a) == CHOOSE x \in Range(Attrs(k, t)) : x.attr = a
\* the views as the design declares them, in declaration order
DeclViews(k, t) ==
  LET bv == BaseViews(k.g, t)
      vs == [i \in DOMAIN bv |-> IF k.req = "oth" /\ bv[i].name # "default" THEN [bv[i] EXCEPT !.attrs = Append(@, Prim(Extra(t)))] ELSE bv[i]]
      nd == SelectSeq(vs, LAMBDA v : v.name # "default")
      df == SelectSeq(vs, LAMBDA v : v.name = "default")
  IN CASE k.order = "first" -> df \o nd [] k.order = "last" -> nd \o df [] OTHER -> nd
ViewsOf(k) == {v.name : v \in Range(DeclViews(k, "T"))} \cup {"default"}
FixedViews(k) == IF CollFixed(k) # "-" THEN {}
                 ELSE IF AllFixed \/ (k.order = "first" /\ k.req = "base") THEN ViewsOf(k) ELSE {}
\* the methods of the variant's service in declaration order, each by the view it fixes ("-": none)
Methods(k) == IF FixedViews(k) = {} THEN <<"-">>
              ELSE SelectSeq(Perms[k.mo], LAMBDA m : m = "-" \/ m \in FixedViews(k)) \o (IF "ext" \in FixedViews(k) THEN <<"ext">> ELSE <<>>)
OwnView(a) == IF a.own = "-" THEN "default" ELSE a.own
\* the entries of view v of type t with every nested rendering resolved to <<type, view>>
ViewTable(k, t, v) ==
  IF v = "default" /\ k.order = "implicit"
  THEN {IF a.typ = "-" THEN Prim(a.attr) ELSE Nest(a.attr, a.typ, OwnView(a)) : a \in Range(Attrs(k, t))}
  ELSE LET m == {w \in Range(DeclViews(k, t)) : w.name = v} IN
       IF m = {} THEN {} ELSE {IF e.sub[2] = "=" THEN Nest(e.attr, e.sub[1], OwnView(AttrOf(k, t, e.attr))) ELSE e : e \in Range((CHOOSE w \in m : TRUE).attrs)}

BaseView(g, t, v) == LET m == {w \in Range(BaseViews(g, t)) : w.name = v} IN IF m = {} THEN {} ELSE Range((CHOOSE w \in m : TRUE).attrs)
SelAttrs(g, t) == {e.attr : e \in {x \in BaseView(g, Like(t), "default") : x.sub[1] = "-" /\ x \notin BaseView(g, Like(t), "tiny")}}
NestedSingles(k, t) == {a.attr : a \in {x \in Range(Attrs(k, t)) : x.typ # "-" /\ ~x.coll}}
Required(k, t) == BaseReq(k.g, t) \cup (CASE k.req = "sel" -> SelAttrs(k.g, t) [] k.req = "oth" -> {Extra(t)} [] k.req = "nest" -> NestedSingles(k, t) [] OTHER -> {})
Validated(k, t) == CASE k.req = "sel" -> SelAttrs(k.g, t) [] k.req = "oth" -> {Extra(t)} [] OTHER -> {}

Path(prefix, a) == IF prefix = "" THEN a ELSE prefix \o "." \o a
\* paths of the primitive attributes that are required (what = "req") / validated (what = "val") and live under the parents present in v
Marked(k, what, t) == IF what = "req" THEN Required(k, t) ELSE Validated(k, t)
RECURSIVE PrimPaths(_, _, _, _, _, _)
PrimPaths(k, what, t, v, prefix, depth) ==
  IF depth = 0 THEN {} ELSE
  UNION {LET p == Path(prefix, a.attr) IN
         IF a.typ = "-" THEN (IF a.attr \in Marked(k, what, t) THEN {p} ELSE {})
         ELSE IF p \in v THEN PrimPaths(k, what, a.typ, v, p, depth - 1) ELSE {}
         : a \in Range(Attrs(k, t))}
ValueSpace(k) == {v \cup PrimPaths(k, "req", "T", v, "", 4) : v \in ValueBase(k.g)}
BadSpace(k, v) == {{}} \cup {{p} : p \in v \cap PrimPaths(k, "val", "T", v, "", 4)}

\* projection: the attribute paths of `val` that view (t, v) exposes
RECURSIVE Proj(_, _, _, _, _, _)
Proj(k, t, v, val, prefix, depth) ==
  IF depth = 0 THEN {} ELSE
  UNION {LET p == Path(prefix, e.attr) IN
         IF p \notin val THEN {}
         ELSE IF e.sub[1] = "-" THEN {p}
         ELSE {p} \cup Proj(k, e.sub[1], e.sub[2], val, p, depth - 1)
         : e \in ViewTable(k, t, v)}

\* validity of the attribute paths `keys` (of which `bd` carry a value breaking the attribute's validation) under view (t, v):
\* only the attributes the view lists count
RECURSIVE Valid(_, _, _, _, _, _, _, _)
Valid(k, t, v, keys, bd, prefix, depth, nestReq) ==
  depth = 0 \/
  \A e \in ViewTable(k, t, v) :
    LET p == Path(prefix, e.attr) IN
    /\ (e.attr \in Required(k, t) /\ (e.sub[1] = "-" \/ nestReq)) => p \in keys
    /\ p \in keys /\ e.sub[1] = "-" /\ e.attr \in Validated(k, t) => p \notin bd
    /\ p \in keys /\ e.sub[1] # "-" => Valid(k, e.sub[1], e.sub[2], keys, bd, p, depth - 1, nestReq)

\* client.required_user_type_nil_deref: the conversion walks the whole TYPE (not the view) through the objects that are there
RECURSIVE Derefs(_, _, _, _, _)
Derefs(k, t, keys, prefix, depth) ==
  depth > 0 /\
  \E a \in Range(Attrs(k, t)) :
    LET p == Path(prefix, a.attr) IN
    /\ a.typ # "-"
    /\ \/ ~a.coll /\ a.attr \in Required(k, t) /\ p \notin keys
       \/ p \in keys /\ Derefs(k, a.typ, keys, p, depth - 1)

---------------------------------------------------------------------------
VARIABLES cfg,      \* [g, order, req, mo, cd: the variant; fixed: view name fixed in the design or "-"; chosen: view the service method names ("" = default)]
          val,      \* set of attribute paths the service set
          bad,      \* subset of val: attributes whose value breaks their validation
          pc, sres, wireKeys, viewHeader, clientKeys, cerr
vars == <<cfg, val, bad, pc, sres, wireKeys, viewHeader, clientKeys, cerr>>

K == [g |-> cfg.g, order |-> cfg.order, req |-> cfg.req, mo |-> cfg.mo, cd |-> cfg.cd]
EffView == IF cfg.fixed # "-" THEN cfg.fixed ELSE IF cfg.chosen = "" THEN "default" ELSE cfg.chosen
Expected == Proj(K, "T", EffView, val, "", 4)
ValidServed == Valid(K, "T", EffView, Expected, bad, "", 4, TRUE)

Init ==
  /\ \E k \in Variants :
       cfg \in {c \in [g: {k.g}, order: {k.order}, req: {k.req}, mo: {k.mo}, cd: {k.cd},
                         fixed: IF CollFixed(k) # "-" THEN {CollFixed(k)} ELSE {"-"} \cup FixedViews(k), chosen: {"", "bogus"} \cup ViewsOf(k)] :
                  c.fixed # "-" => c.chosen \notin {"bogus", c.fixed}}
  /\ val \in ValueSpace(K)
  /\ bad \in BadSpace(K, val)
  /\ cfg.chosen = "bogus" => bad = {}
  /\ pc = "server" /\ sres = "none" /\ wireKeys = {} /\ viewHeader = "none" /\ clientKeys = {} /\ cerr = "none"

\* server: project on the effective view; announce it (a view fixed in the design needs no header)
ServerEncode ==
  /\ pc = "server" /\ cfg.chosen # "bogus"
  /\ wireKeys' = IF "views.leak_all_attributes" \in Deviations THEN val ELSE Expected
  /\ viewHeader' = IF cfg.fixed # "-" THEN "none" ELSE EffView
  /\ sres' = "ok" /\ pc' = "client"
  /\ UNCHANGED <<cfg, val, bad, clientKeys, cerr>>
\* the statement does not say whether a server checks what the service hands it: it may refuse to render a result that is
\* invalid under the view (the client then sees a failure, never a result)
ServerRefuse ==
  /\ pc = "server" /\ cfg.chosen # "bogus" /\ ~ValidServed
  /\ sres' = "error" /\ pc' = "client"
  /\ UNCHANGED <<cfg, val, bad, wireKeys, viewHeader, clientKeys, cerr>>
\* a response labelled with a view the type does not define (sent by something other than the generated server)
ForeignResponse ==
  /\ pc = "server" /\ cfg.chosen = "bogus"
  /\ wireKeys' = Proj(K, "T", "default", val, "", 4) /\ viewHeader' = "bogus"
  /\ sres' = "ok" /\ pc' = "client"
  /\ UNCHANGED <<cfg, val, bad, clientKeys, cerr>>
ClientDecode ==
  /\ pc = "client"
  /\ LET view == IF cfg.fixed # "-" THEN cfg.fixed ELSE IF viewHeader \in {"none", ""} THEN "default" ELSE viewHeader
         nestReq == "views.required_nested_result_unchecked" \notin Deviations IN
     IF sres = "error" THEN cerr' = "server_error" /\ clientKeys' = {}
     ELSE IF "client.required_user_type_nil_deref" \in Deviations /\ Derefs(K, "T", wireKeys, "", 4)
     THEN cerr' = "crash" /\ clientKeys' = {}
     ELSE IF view \notin ViewsOf(K)
     THEN cerr' = "unknown_view" /\ clientKeys' = {}
     ELSE IF ~Valid(K, "T", view, wireKeys, bad \cap wireKeys, "", 4, nestReq)
     THEN cerr' = "invalid" /\ clientKeys' = {}
     ELSE cerr' = "none" /\ clientKeys' = Proj(K, "T", view, wireKeys, "", 4)
  /\ pc' = "done"
  /\ UNCHANGED <<cfg, val, bad, sres, wireKeys, viewHeader>>
Next == ServerEncode \/ ServerRefuse \/ ForeignResponse \/ ClientDecode
Spec == Init /\ [][Next]_vars

---------------------------------------------------------------------------
\* C08
ExactlyViewAttributes == pc = "done" /\ cfg.chosen # "bogus" /\ sres = "ok" => wireKeys = Expected /\ (cerr = "none" => clientKeys = Expected)
ViewHeaderAccompanies == pc \in {"client", "done"} /\ cfg.chosen # "bogus" /\ cfg.fixed = "-" /\ sres = "ok" => viewHeader = EffView
ClientRefusesUnknownView == pc = "done" /\ cfg.chosen = "bogus" => cerr = "unknown_view"
NothingOutsideTheView == pc = "done" => wireKeys \subseteq val /\ clientKeys \subseteq wireKeys
\* validated under the SAME view: what is valid under the rendered view is delivered, what is not never is
ValidIsDelivered == pc = "done" /\ cfg.chosen # "bogus" /\ ValidServed => cerr = "none"
InvalidIsRefused == pc = "done" /\ cfg.chosen # "bogus" /\ ~ValidServed => cerr \in {"invalid", "server_error"}
ClientNeverCrashes == cerr # "crash"
=============================================================================
