----------------------------- MODULE DSLProgram -----------------------------
(* Property C12: any sequence of calls of goa's public DSL evaluates to an accepted design or to a non-empty
   list of errors that name the offending expression; evaluation never panics or hangs; a design whose
   transport mappings, requirements, views or error responses refer to attributes, schemes, views or errors
   that do not exist is not accepted.

   A DSL program is a tree of calls.  Executing it is a pushdown automaton: goa keeps a stack of the
   expressions whose DSL function is running (eval.Context.Stack); a call with a func() argument pushes the
   expression it builds, runs the function (the children), and pops.  What a function means depends on the
   expression on top of the stack (eval.Current()): the *context*.

   The program is the sequence `nodes`; node i = [f, n, t, v, p]:
     f  the DSL function                    n  its name argument (a token; "-" = the function takes none)
     t  its type/value argument (token)     v  the variant of the trailing arguments
                                               (fn = a func() with the children, nilfn = a nil func(),
                                                plain = none, desc/descfn = a description, few/many = wrong arity ...)
     p  the index of the parent call (0 = top level, i.e. package initialisation of the design)
   Children run, in program order, inside the func() of their parent.  The tokens are the ones the interpreter
   harness/cmd/dslhost understands; it performs every call literally.

   The function table FT (which function is documented for which context, what context its function argument
   runs in, which argument tokens exist) is transcribed from the doc comments of dsl/*.go.  It STEERS the
   generator - towards deep, well-placed programs and towards misplaced calls - and it bounds where the
   Dangling predicate looks; it is NOT a verdict oracle: the property lets a misplaced call be either accepted
   or reported, so Evaluate is nondeterministic.

   Named deviations (CONSTANT Deviations):
     crash.*     classes of programs on which the real code panics / overflows its stack; each has a declarative
                 trigger over the program (Triggered).  Enabled -> Evaluate may answer "panic" on a triggering program.
                 Found by this check on the unchanged tree (a repair exists for each, /tmp/fixes/c12-*.patch):
                   crash.server_outside_api, crash.security_no_args, crash.extend_reference_nil, crash.nil_dsl_in_wrapper,
                   crash.service_redefined_nil_dsl, crash.response_attr_not_in_view, crash.iscompatible_nil, crash.base_cycle,
                   crash.cookie_attribute_without_cookie, crash.mapped_attribute_empty_dsl, crash.unknown_view_on_result_type,
                   crash.extend_collection, crash.error_response_headers_undeclared_error, crash.grpc_message_empty_dsl,
                   crash.grpc_message_attr_not_in_payload, crash.body_empty_dsl
                 Found later (second round, reproducers in vlib/c12_seeds.py, repairs /tmp/fixes/c12b-*.patch):
                   crash.base_cycle_tag_lookup, crash.meta_without_value, crash.api_grpc_error_response,
                   crash.grpc_response_message_empty_dsl, crash.enum_default_uncomparable, crash.extend_cycle_through_attribute
                 Third round (parent / child services): crash.parent_cycle (/tmp/fixes/c12b-8-parent-cycle.patch)
     accept.*    kinds of dangling references the real code accepts.  Enabled -> Evaluate may accept them.
                 Found: accept.body_attribute (Body(func) attributes with an empty payload), accept.response_tag (Tag on a
                 result attribute that does not exist), accept.error_response (an API-level gRPC Response for an error nobody
                 declares).  The other kinds (request_mapping, response_mapping, response_view_mapping, grpc_mapping, scheme, scope, view)
                 exist for the vacuity check of the invariant.
     report.unnamed   rejected programs whose errors do not name an expression (not observed).
     handoff.fails    accepted programs for which generation / compilation fails (property C01's business; recorded,
                      not judged here). *)
EXTENDS Integers, Sequences, FiniteSets, TLC

CONSTANTS Deviations,     \* named departures of the code from the design that are switched on
          Fns,            \* the functions the generator may call (a subset of DOMAIN FT)
          Pools,          \* "min" / "tiny" / "small": a few tokens per argument (exhaustive runs); "full": all of them; "doc": documented uses only; "refs": documented uses plus spare names;
                          \* "sec" / "rec" / "par" / "rv": the tokens of the focused walks around security scopes / recursive user types / parent and child
                          \* services / response mappings under the views of a result type
          MaxCalls, MinCalls, MaxDepth, MaxMisplaced,
          MaxTop,         \* at most this many top-level calls (the rest of the budget goes into nesting)
          MinKids,        \* a func() does not return before it made this many calls (while the budget lasts)
          Once,           \* functions the generator calls exactly once per program where documented, before anything else (the spine of a focused walk)
          SpineDeep       \* TRUE: the spine is built depth first - a once-only function that opens a context in which further once-only functions
                          \* are documented goes first, and a func() does not return while once-only functions documented for its context are unused
                          \* (so that a transport block documented for API, Service and Method lands in the Method of the spine)

E(doc, opens, ns, ts, vs) == [doc |-> doc, opens |-> opens, ns |-> ns, ts |-> ts, vs |-> vs]

FT == [
  API                            |-> E({"Top"}, "API",
      {"", "api1"},
      {"-"},
      {"fn", "nilfn"}),
  APIKey                         |-> E({"Attr"}, "Attr",
      {"", "a", "a:X-A", "b", "zz", "zz:X-Z"},
      {"-", "Any", "ArrArrS", "ArrFn", "ArrInt", "ArrNil", "ArrS", "ArrT1", "ArrT2", "ArrnT1", "ArrnT2", "Boolean", "Bytes", "CollBad", "CollCollR1", "CollFn", "CollNil", "CollR1", "CollR2", "CollT1", "CollnR1", "Empty", "ErrorResult", "Float32", "Float64", "Int", "Int32", "Int64", "MapFn", "MapIntS", "MapMapKey", "MapNilV", "MapSArrS", "MapSS", "MapST1", "MapSnT1", "MapSnT2", "MapT1S", "R1", "R2", "String", "T1", "T2", "UInt", "nNoSuch", "nR1", "nT1", "nT2", "nil", "wrongInt", "wrongStruct"},
      {"badscheme", "desc", "descfn", "fn", "many", "nilfn", "plain"}),
  APIKeyField                    |-> E({"Attr"}, "Attr",
      {"", "a", "a:X-A", "b", "zz", "zz:X-Z"},
      {"-", "Any", "ArrArrS", "ArrFn", "ArrInt", "ArrNil", "ArrS", "ArrT1", "ArrT2", "ArrnT1", "ArrnT2", "Boolean", "Bytes", "CollBad", "CollCollR1", "CollFn", "CollNil", "CollR1", "CollR2", "CollT1", "CollnR1", "Empty", "ErrorResult", "Float32", "Float64", "Int", "Int32", "Int64", "MapFn", "MapIntS", "MapMapKey", "MapNilV", "MapSArrS", "MapSS", "MapST1", "MapSnT1", "MapSnT2", "MapT1S", "R1", "R2", "String", "T1", "T2", "UInt", "nNoSuch", "nR1", "nT1", "nT2", "nil", "wrongInt", "wrongStruct"},
      {"badtag", "desc", "descfn", "fn", "many", "nilfn", "niltag", "plain"}),
  APIKeySecurity                 |-> E({"Top"}, "Scheme",
      {"", "sc1", "sc2"},
      {"-"},
      {"fn", "many", "nilfn", "plain"}),
  AccessToken                    |-> E({"Attr"}, "Attr",
      {"", "a", "a:X-A", "b", "zz", "zz:X-Z"},
      {"-", "Any", "ArrArrS", "ArrFn", "ArrInt", "ArrNil", "ArrS", "ArrT1", "ArrT2", "ArrnT1", "ArrnT2", "Boolean", "Bytes", "CollBad", "CollCollR1", "CollFn", "CollNil", "CollR1", "CollR2", "CollT1", "CollnR1", "Empty", "ErrorResult", "Float32", "Float64", "Int", "Int32", "Int64", "MapFn", "MapIntS", "MapMapKey", "MapNilV", "MapSArrS", "MapSS", "MapST1", "MapSnT1", "MapSnT2", "MapT1S", "R1", "R2", "String", "T1", "T2", "UInt", "nNoSuch", "nR1", "nT1", "nT2", "nil", "wrongInt", "wrongStruct"},
      {"desc", "descfn", "fn", "many", "nilfn", "plain"}),
  AccessTokenField               |-> E({"Attr"}, "Attr",
      {"", "a", "a:X-A", "b", "zz", "zz:X-Z"},
      {"-", "Any", "ArrArrS", "ArrFn", "ArrInt", "ArrNil", "ArrS", "ArrT1", "ArrT2", "ArrnT1", "ArrnT2", "Boolean", "Bytes", "CollBad", "CollCollR1", "CollFn", "CollNil", "CollR1", "CollR2", "CollT1", "CollnR1", "Empty", "ErrorResult", "Float32", "Float64", "Int", "Int32", "Int64", "MapFn", "MapIntS", "MapMapKey", "MapNilV", "MapSArrS", "MapSS", "MapST1", "MapSnT1", "MapSnT2", "MapT1S", "R1", "R2", "String", "T1", "T2", "UInt", "nNoSuch", "nR1", "nT1", "nT2", "nil", "wrongInt", "wrongStruct"},
      {"badtag", "desc", "descfn", "fn", "many", "nilfn", "niltag", "plain"}),
  Attribute                      |-> E({"Attr", "RT", "Mapped"}, "Attr",
      {"", "a", "a:X-A", "b", "zz", "zz:X-Z"},
      {"-", "Any", "ArrArrS", "ArrFn", "ArrInt", "ArrNil", "ArrS", "ArrT1", "ArrT2", "ArrnT1", "ArrnT2", "Boolean", "Bytes", "CollBad", "CollCollR1", "CollFn", "CollNil", "CollR1", "CollR2", "CollT1", "CollnR1", "Empty", "ErrorResult", "Float32", "Float64", "Int", "Int32", "Int64", "MapFn", "MapIntS", "MapMapKey", "MapNilV", "MapSArrS", "MapSS", "MapST1", "MapSnT1", "MapSnT2", "MapT1S", "R1", "R2", "String", "T1", "T2", "UInt", "nNoSuch", "nR1", "nT1", "nT2", "nil", "wrongInt", "wrongStruct"},
      {"desc", "descfn", "fn", "many", "nilfn", "plain"}),
  Attributes                     |-> E({"RT"}, "Attr",
      {"-"},
      {"-"},
      {"fn", "nilfn"}),
  AuthorizationCodeFlow          |-> E({"Scheme"}, "",
      {"", "odd", "url"},
      {"-"},
      {"plain"}),
  BasicAuthSecurity              |-> E({"Top"}, "Scheme",
      {"", "sc1", "sc2"},
      {"-"},
      {"fn", "many", "nilfn", "plain"}),
  Body                           |-> E({"MethHTTP", "HTTPResp", "HTTPErrResp"}, "Attr",
      {"", "-", "a", "b", "zz"},
      {"-", "ArrS", "Empty", "R1", "String", "T1", "T2", "nil", "wrongInt"},
      {"few", "fn", "many", "nilfn", "plain"}),
  CONNECT                        |-> E({"MethHTTP"}, "",
      {"", "/", "//abs/{a}", "/x", "/x/", "/x/{*a}", "/x/{a}", "/x/{b}", "/{", "/{*w}", "/{a:A}", "/{a}/{a}", "/{zz}", "x"},
      {"-"},
      {"plain"}),
  CanonicalMethod                |-> E({"SvcHTTP"}, "",
      {"", "m1", "m2", "nosuch", "show"},
      {"-"},
      {"plain"}),
  ClientCredentialsFlow          |-> E({"Scheme"}, "",
      {"", "odd", "url"},
      {"-"},
      {"plain"}),
  Code                           |-> E({"HTTPResp", "HTTPErrResp", "GRPCResp", "GRPCErrResp"}, "",
      {"-1", "0", "16", "200", "201", "204", "404", "5"},
      {"-"},
      {"plain"}),
  Consumes                       |-> E({"APIHTTP"}, "",
      {"", "-", "application/json", "application/xml", "odd"},
      {"-"},
      {"plain"}),
  Contact                        |-> E({"API"}, "Contact",
      {"-"},
      {"-"},
      {"fn", "nilfn"}),
  ContentType                    |-> E({"HTTPResp", "HTTPErrResp", "RT"}, "",
      {"", "application/json", "application/vnd.r1", "odd", "text/html", "text/plain"},
      {"-"},
      {"plain"}),
  ConvertTo                      |-> E({"Attr", "RT"}, "",
      {"-"},
      {"func", "int", "map", "nil", "ptr", "slice", "string", "struct"},
      {"plain"}),
  Cookie                         |-> E({"APIHTTP", "SvcHTTP", "MethHTTP", "HTTPResp", "HTTPErrResp", "Mapped"}, "Attr",
      {"", "a", "a:X-A", "b", "zz", "zz:X-Z"},
      {"-", "Any", "ArrArrS", "ArrFn", "ArrInt", "ArrNil", "ArrS", "ArrT1", "ArrT2", "ArrnT1", "ArrnT2", "Boolean", "Bytes", "CollBad", "CollCollR1", "CollFn", "CollNil", "CollR1", "CollR2", "CollT1", "CollnR1", "Empty", "ErrorResult", "Float32", "Float64", "Int", "Int32", "Int64", "MapFn", "MapIntS", "MapMapKey", "MapNilV", "MapSArrS", "MapSS", "MapST1", "MapSnT1", "MapSnT2", "MapT1S", "R1", "R2", "String", "T1", "T2", "UInt", "nNoSuch", "nR1", "nT1", "nT2", "nil", "wrongInt", "wrongStruct"},
      {"desc", "descfn", "fn", "many", "nilfn", "plain"}),
  CookieDomain                   |-> E({"HTTPResp", "HTTPErrResp"}, "",
      {"", "long", "odd", "txt"},
      {"-"},
      {"plain"}),
  CookieHTTPOnly                 |-> E({"HTTPResp", "HTTPErrResp"}, "",
      {"-"},
      {"-"},
      {"plain"}),
  CookieMaxAge                   |-> E({"HTTPResp", "HTTPErrResp"}, "",
      {"-1", "0", "3600"},
      {"-"},
      {"plain"}),
  CookiePath                     |-> E({"HTTPResp", "HTTPErrResp"}, "",
      {"", "long", "odd", "txt"},
      {"-"},
      {"plain"}),
  CookieSameSite                 |-> E({"HTTPResp", "HTTPErrResp"}, "",
      {"", "default", "lax", "none", "odd", "strict"},
      {"-"},
      {"plain"}),
  CookieSecure                   |-> E({"HTTPResp", "HTTPErrResp"}, "",
      {"-"},
      {"-"},
      {"plain"}),
  CreateFrom                     |-> E({"Attr", "RT"}, "",
      {"-"},
      {"func", "int", "map", "nil", "ptr", "slice", "string", "struct"},
      {"plain"}),
  DELETE                         |-> E({"MethHTTP"}, "",
      {"", "/", "//abs/{a}", "/x", "/x/", "/x/{*a}", "/x/{a}", "/x/{b}", "/{", "/{*w}", "/{a:A}", "/{a}/{a}", "/{zz}", "x"},
      {"-"},
      {"plain"}),
  Default                        |-> E({"Attr"}, "",
      {"-"},
      {"arr", "arrI", "arrval", "b", "bytes", "f", "i", "map", "mapval", "nil", "s", "sbad", "sn", "struct", "u", "val"},
      {"plain"}),
  Deprecated                     |-> E({"MethHTTP"}, "",
      {"-"},
      {"-"},
      {"plain"}),
  Description                    |-> E({"API", "Docs", "Attr", "RT", "Server", "Host", "Service", "Method", "Example", "Scheme", "HTTPResp", "HTTPErrResp", "Files", "GRPCResp", "GRPCErrResp"}, "",
      {"", "long", "odd", "txt"},
      {"-"},
      {"plain"}),
  Docs                           |-> E({"API", "Service", "Method", "Attr", "Files"}, "Docs",
      {"-"},
      {"-"},
      {"fn", "nilfn"}),
  Elem                           |-> E({"Attr"}, "Attr",
      {"-"},
      {"-"},
      {"fn", "nilfn"}),
  Email                          |-> E({"Contact"}, "",
      {"", "email", "odd"},
      {"-"},
      {"plain"}),
  Enum                           |-> E({"Attr"}, "",
      {"-"},
      {"arr", "arrval", "bytes", "dup", "f", "i", "map", "mapval", "mixed", "nil", "none", "s"},
      {"plain"}),
  Error                          |-> E({"API", "Service", "Method"}, "Attr",
      {"", "e1", "e2", "zz"},
      {"-", "Any", "ArrArrS", "ArrFn", "ArrInt", "ArrNil", "ArrS", "ArrT1", "ArrT2", "ArrnT1", "ArrnT2", "Boolean", "Bytes", "CollBad", "CollCollR1", "CollFn", "CollNil", "CollR1", "CollR2", "CollT1", "CollnR1", "Empty", "ErrorResult", "Float32", "Float64", "Int", "Int32", "Int64", "MapFn", "MapIntS", "MapMapKey", "MapNilV", "MapSArrS", "MapSS", "MapST1", "MapSnT1", "MapSnT2", "MapT1S", "R1", "R2", "String", "T1", "T2", "UInt", "nNoSuch", "nR1", "nT1", "nT2", "nil", "wrongInt", "wrongStruct"},
      {"desc", "descfn", "fn", "many", "nilfn", "plain"}),
  ErrorName                      |-> E({"Attr", "RT"}, "Attr",
      {"", "-", "a", "b"},
      {"-", "Int", "String", "T1"},
      {"badpos", "fn", "nilfn", "plain", "pos", "posfew"}),
  Example                        |-> E({"Attr", "Mapped"}, "Example",
      {"-"},
      {"arr", "arrI", "arrval", "b", "bytes", "f", "i", "map", "mapval", "nil", "s", "sbad", "sn", "struct", "u", "val"},
      {"badsummary", "few", "fn", "many", "nilfn", "plain", "summary", "summaryfn"}),
  ExclusiveMaximum               |-> E({"Attr"}, "",
      {"-"},
      {"arr", "arrI", "arrval", "b", "bytes", "f", "i", "map", "mapval", "nil", "s", "sbad", "sn", "struct", "u", "val"},
      {"plain"}),
  ExclusiveMinimum               |-> E({"Attr"}, "",
      {"-"},
      {"arr", "arrI", "arrval", "b", "bytes", "f", "i", "map", "mapval", "nil", "s", "sbad", "sn", "struct", "u", "val"},
      {"plain"}),
  Extend                         |-> E({"Attr", "RT"}, "",
      {"-"},
      {"ArrS", "CollR1", "Empty", "ErrorResult", "MapSS", "R1", "R2", "String", "T1", "T2", "nil"},
      {"plain"}),
  Fault                          |-> E({"Attr"}, "",
      {"-"},
      {"-"},
      {"plain"}),
  Field                          |-> E({"Attr", "RT", "Mapped"}, "Attr",
      {"", "a", "a:X-A", "b", "zz", "zz:X-Z"},
      {"-", "Any", "ArrArrS", "ArrFn", "ArrInt", "ArrNil", "ArrS", "ArrT1", "ArrT2", "ArrnT1", "ArrnT2", "Boolean", "Bytes", "CollBad", "CollCollR1", "CollFn", "CollNil", "CollR1", "CollR2", "CollT1", "CollnR1", "Empty", "ErrorResult", "Float32", "Float64", "Int", "Int32", "Int64", "MapFn", "MapIntS", "MapMapKey", "MapNilV", "MapSArrS", "MapSS", "MapST1", "MapSnT1", "MapSnT2", "MapT1S", "R1", "R2", "String", "T1", "T2", "UInt", "nNoSuch", "nR1", "nT1", "nT2", "nil", "wrongInt", "wrongStruct"},
      {"badtag", "desc", "descfn", "fn", "many", "nilfn", "niltag", "plain"}),
  Files                          |-> E({"Service"}, "Files",
      {"", "/f", "/f/{*p}", "/f/{*p}/x", "/{a}", "f"},
      {"", "dir/", "file.txt"},
      {"fn", "many", "nilfn", "plain"}),
  Format                         |-> E({"Attr"}, "",
      {"", "cidr", "date", "date-time", "email", "hostname", "ip", "ipv4", "ipv6", "json", "mac", "nosuch", "regexp", "rfc1123", "uri", "uuid"},
      {"-"},
      {"plain"}),
  GET                            |-> E({"MethHTTP"}, "",
      {"", "/", "//abs/{a}", "/x", "/x/", "/x/{*a}", "/x/{a}", "/x/{b}", "/{", "/{*w}", "/{a:A}", "/{a}/{a}", "/{zz}", "x"},
      {"-"},
      {"plain"}),
  GRPC                           |-> E({"API", "Service", "Method"}, "GRPC*",
      {"-"},
      {"-"},
      {"fn", "nilfn"}),
  HEAD                           |-> E({"MethHTTP"}, "",
      {"", "/", "//abs/{a}", "/x", "/x/", "/x/{*a}", "/x/{a}", "/x/{b}", "/{", "/{*w}", "/{a:A}", "/{a}/{a}", "/{zz}", "x"},
      {"-"},
      {"plain"}),
  HTTP                           |-> E({"API", "Service", "Method"}, "HTTP*",
      {"-"},
      {"-"},
      {"fn", "many", "nilfn", "plain"}),
  Header                         |-> E({"APIHTTP", "SvcHTTP", "MethHTTP", "HTTPResp", "HTTPErrResp", "Mapped"}, "Attr",
      {"", "a", "a:X-A", "b", "zz", "zz:X-Z"},
      {"-", "Any", "ArrArrS", "ArrFn", "ArrInt", "ArrNil", "ArrS", "ArrT1", "ArrT2", "ArrnT1", "ArrnT2", "Boolean", "Bytes", "CollBad", "CollCollR1", "CollFn", "CollNil", "CollR1", "CollR2", "CollT1", "CollnR1", "Empty", "ErrorResult", "Float32", "Float64", "Int", "Int32", "Int64", "MapFn", "MapIntS", "MapMapKey", "MapNilV", "MapSArrS", "MapSS", "MapST1", "MapSnT1", "MapSnT2", "MapT1S", "R1", "R2", "String", "T1", "T2", "UInt", "nNoSuch", "nR1", "nT1", "nT2", "nil", "wrongInt", "wrongStruct"},
      {"desc", "descfn", "fn", "many", "nilfn", "plain"}),
  Headers                        |-> E({"APIHTTP", "SvcHTTP", "MethHTTP", "HTTPResp", "HTTPErrResp", "GRPCResp", "GRPCErrResp"}, "Mapped",
      {"-"},
      {"-", "nil", "wrongInt"},
      {"fn", "nilfn"}),
  Host                           |-> E({"Server"}, "Host",
      {"", "h1", "h2"},
      {"-"},
      {"fn", "nilfn"}),
  ImplicitFlow                   |-> E({"Scheme"}, "",
      {"", "odd", "url"},
      {"-"},
      {"plain"}),
  JWTSecurity                    |-> E({"Top"}, "Scheme",
      {"", "sc1", "sc2"},
      {"-"},
      {"fn", "many", "nilfn", "plain"}),
  Key                            |-> E({"Attr"}, "Attr",
      {"-"},
      {"-"},
      {"fn", "nilfn"}),
  License                        |-> E({"API"}, "License",
      {"-"},
      {"-"},
      {"fn", "nilfn"}),
  MapParams                      |-> E({"MethHTTP"}, "",
      {"", "-", "a", "b", "wrong", "zz"},
      {"-"},
      {"many", "plain"}),
  MaxLength                      |-> E({"Attr"}, "",
      {"-1", "0", "1", "5"},
      {"-"},
      {"plain"}),
  Maximum                        |-> E({"Attr"}, "",
      {"-"},
      {"arr", "arrI", "arrval", "b", "bytes", "f", "i", "map", "mapval", "nil", "s", "sbad", "sn", "struct", "u", "val"},
      {"plain"}),
  Message                        |-> E({"MethGRPC", "GRPCResp", "GRPCErrResp"}, "Attr",
      {"-"},
      {"-"},
      {"fn", "nilfn"}),
  Meta                           |-> E({"API", "Server", "Host", "Attr", "RT", "Method", "Service", "SvcHTTP", "MethHTTP", "Files", "HTTPResp", "HTTPErrResp", "Mapped"}, "",
      {"", "k", "openapi:example", "openapi:extension:x-api", "openapi:generate", "openapi:json:schema", "openapi:operationId", "openapi:summary", "openapi:tag:x", "openapi:typename", "protoc:include", "rpc:tag", "struct:error:name", "struct:field:external", "struct:field:name", "struct:field:proto", "struct:field:type", "struct:name:proto", "struct:pkg:path", "struct:tag:json", "struct:type:name", "swagger:example", "swagger:extension:x-api", "swagger:generate", "swagger:tag:x", "type:generate:force", "view"},
      {"-", "empty", "false", "int", "json", "two", "types", "v"},
      {"plain"}),
  Metadata                       |-> E({"MethGRPC"}, "Attr",
      {"-"},
      {"-"},
      {"fn", "nilfn"}),
  Method                         |-> E({"Service"}, "Method",
      {"", "m1", "m2", "show"},
      {"-"},
      {"fn", "nilfn"}),
  MinLength                      |-> E({"Attr"}, "",
      {"-1", "0", "1", "5"},
      {"-"},
      {"plain"}),
  Minimum                        |-> E({"Attr"}, "",
      {"-"},
      {"arr", "arrI", "arrval", "b", "bytes", "f", "i", "map", "mapval", "nil", "s", "sbad", "sn", "struct", "u", "val"},
      {"plain"}),
  MultipartRequest               |-> E({"MethHTTP"}, "",
      {"-"},
      {"-"},
      {"plain"}),
  Name                           |-> E({"Contact", "License"}, "",
      {"", "long", "odd", "txt"},
      {"-"},
      {"plain"}),
  NoSecurity                     |-> E({"Method"}, "",
      {"-"},
      {"-"},
      {"plain"}),
  OAuth2Security                 |-> E({"Top"}, "Scheme",
      {"", "sc1", "sc2"},
      {"-"},
      {"fn", "many", "nilfn", "plain"}),
  OPTIONS                        |-> E({"MethHTTP"}, "",
      {"", "/", "//abs/{a}", "/x", "/x/", "/x/{*a}", "/x/{a}", "/x/{b}", "/{", "/{*w}", "/{a:A}", "/{a}/{a}", "/{zz}", "x"},
      {"-"},
      {"plain"}),
  OneOf                          |-> E({"Attr", "RT"}, "Attr",
      {"", "a", "b", "u"},
      {"-"},
      {"baddesc", "desc", "descfn", "few", "fn", "many", "nilfn"}),
  PATCH                          |-> E({"MethHTTP"}, "",
      {"", "/", "//abs/{a}", "/x", "/x/", "/x/{*a}", "/x/{a}", "/x/{b}", "/{", "/{*w}", "/{a:A}", "/{a}/{a}", "/{zz}", "x"},
      {"-"},
      {"plain"}),
  POST                           |-> E({"MethHTTP"}, "",
      {"", "/", "//abs/{a}", "/x", "/x/", "/x/{*a}", "/x/{a}", "/x/{b}", "/{", "/{*w}", "/{a:A}", "/{a}/{a}", "/{zz}", "x"},
      {"-"},
      {"plain"}),
  PUT                            |-> E({"MethHTTP"}, "",
      {"", "/", "//abs/{a}", "/x", "/x/", "/x/{*a}", "/x/{a}", "/x/{b}", "/{", "/{*w}", "/{a:A}", "/{a}/{a}", "/{zz}", "x"},
      {"-"},
      {"plain"}),
  Package                        |-> E({"SvcGRPC"}, "",
      {"", "a.b", "odd", "pkg"},
      {"-"},
      {"plain"}),
  Param                          |-> E({"APIHTTP", "SvcHTTP", "MethHTTP", "Mapped"}, "Attr",
      {"", "a", "a:X-A", "b", "zz", "zz:X-Z"},
      {"-", "Any", "ArrArrS", "ArrFn", "ArrInt", "ArrNil", "ArrS", "ArrT1", "ArrT2", "ArrnT1", "ArrnT2", "Boolean", "Bytes", "CollBad", "CollCollR1", "CollFn", "CollNil", "CollR1", "CollR2", "CollT1", "CollnR1", "Empty", "ErrorResult", "Float32", "Float64", "Int", "Int32", "Int64", "MapFn", "MapIntS", "MapMapKey", "MapNilV", "MapSArrS", "MapSS", "MapST1", "MapSnT1", "MapSnT2", "MapT1S", "R1", "R2", "String", "T1", "T2", "UInt", "nNoSuch", "nR1", "nT1", "nT2", "nil", "wrongInt", "wrongStruct"},
      {"desc", "descfn", "fn", "many", "nilfn", "plain"}),
  Params                         |-> E({"APIHTTP", "SvcHTTP", "MethHTTP"}, "Mapped",
      {"-"},
      {"-", "nil", "wrongInt"},
      {"fn", "nilfn"}),
  Parent                         |-> E({"SvcHTTP"}, "",
      {"", "nosuch", "s1", "s2", "s3"},
      {"-"},
      {"plain"}),
  Password                       |-> E({"Attr"}, "Attr",
      {"", "a", "a:X-A", "b", "zz", "zz:X-Z"},
      {"-", "Any", "ArrArrS", "ArrFn", "ArrInt", "ArrNil", "ArrS", "ArrT1", "ArrT2", "ArrnT1", "ArrnT2", "Boolean", "Bytes", "CollBad", "CollCollR1", "CollFn", "CollNil", "CollR1", "CollR2", "CollT1", "CollnR1", "Empty", "ErrorResult", "Float32", "Float64", "Int", "Int32", "Int64", "MapFn", "MapIntS", "MapMapKey", "MapNilV", "MapSArrS", "MapSS", "MapST1", "MapSnT1", "MapSnT2", "MapT1S", "R1", "R2", "String", "T1", "T2", "UInt", "nNoSuch", "nR1", "nT1", "nT2", "nil", "wrongInt", "wrongStruct"},
      {"desc", "descfn", "fn", "many", "nilfn", "plain"}),
  PasswordField                  |-> E({"Attr"}, "Attr",
      {"", "a", "a:X-A", "b", "zz", "zz:X-Z"},
      {"-", "Any", "ArrArrS", "ArrFn", "ArrInt", "ArrNil", "ArrS", "ArrT1", "ArrT2", "ArrnT1", "ArrnT2", "Boolean", "Bytes", "CollBad", "CollCollR1", "CollFn", "CollNil", "CollR1", "CollR2", "CollT1", "CollnR1", "Empty", "ErrorResult", "Float32", "Float64", "Int", "Int32", "Int64", "MapFn", "MapIntS", "MapMapKey", "MapNilV", "MapSArrS", "MapSS", "MapST1", "MapSnT1", "MapSnT2", "MapT1S", "R1", "R2", "String", "T1", "T2", "UInt", "nNoSuch", "nR1", "nT1", "nT2", "nil", "wrongInt", "wrongStruct"},
      {"badtag", "desc", "descfn", "fn", "many", "nilfn", "niltag", "plain"}),
  PasswordFlow                   |-> E({"Scheme"}, "",
      {"", "odd", "url"},
      {"-"},
      {"plain"}),
  Path                           |-> E({"APIHTTP", "SvcHTTP"}, "",
      {"", "/", "//abs/{a}", "/x", "/x/", "/x/{*a}", "/x/{a}", "/x/{b}", "/{", "/{*w}", "/{a:A}", "/{a}/{a}", "/{zz}", "x"},
      {"-"},
      {"plain"}),
  Pattern                        |-> E({"Attr"}, "",
      {"", "(", "[z-a]", "^a+$", "odd"},
      {"-"},
      {"plain"}),
  Payload                        |-> E({"Method"}, "Attr",
      {"-"},
      {"-", "Any", "ArrArrS", "ArrFn", "ArrInt", "ArrNil", "ArrS", "ArrT1", "ArrT2", "ArrnT1", "ArrnT2", "Boolean", "Bytes", "CollBad", "CollCollR1", "CollFn", "CollNil", "CollR1", "CollR2", "CollT1", "CollnR1", "Empty", "ErrorResult", "Float32", "Float64", "Int", "Int32", "Int64", "MapFn", "MapIntS", "MapMapKey", "MapNilV", "MapSArrS", "MapSS", "MapST1", "MapSnT1", "MapSnT2", "MapT1S", "R1", "R2", "String", "T1", "T2", "UInt", "nNoSuch", "nR1", "nT1", "nT2", "nil", "wrongInt", "wrongStruct"},
      {"desc", "descfn", "fn", "many", "nilfn", "plain"}),
  Produces                       |-> E({"APIHTTP"}, "",
      {"", "-", "application/json", "application/xml", "odd"},
      {"-"},
      {"plain"}),
  Randomizer                     |-> E({"API"}, "",
      {"-"},
      {"det", "faker", "nil"},
      {"plain"}),
  Redirect                       |-> E({"MethHTTP", "Files"}, "",
      {"", "/r", "https://goa.design", "odd"},
      {"-1", "0", "200", "301", "308"},
      {"plain"}),
  Reference                      |-> E({"Attr", "RT"}, "",
      {"-"},
      {"ArrS", "CollR1", "Empty", "ErrorResult", "MapSS", "R1", "R2", "String", "T1", "T2", "nil"},
      {"plain"}),
  Required                       |-> E({"Attr", "RT", "Mapped"}, "",
      {"", "-", "a", "b", "two", "zz"},
      {"-"},
      {"plain"}),
  Response                       |-> E({"APIHTTP", "SvcHTTP", "MethHTTP", "APIGRPC", "SvcGRPC", "MethGRPC"}, "Resp*",
      {"", "-", "e1", "e2", "zz"},
      {"-", "-1", "0", "16", "200", "201", "204", "301", "304", "400", "404", "5", "500", "99999", "wrong"},
      {"few", "fn", "many", "nilfn", "plain"}),
  Result                         |-> E({"Method"}, "Attr",
      {"-"},
      {"-", "Any", "ArrArrS", "ArrFn", "ArrInt", "ArrNil", "ArrS", "ArrT1", "ArrT2", "ArrnT1", "ArrnT2", "Boolean", "Bytes", "CollBad", "CollCollR1", "CollFn", "CollNil", "CollR1", "CollR2", "CollT1", "CollnR1", "Empty", "ErrorResult", "Float32", "Float64", "Int", "Int32", "Int64", "MapFn", "MapIntS", "MapMapKey", "MapNilV", "MapSArrS", "MapSS", "MapST1", "MapSnT1", "MapSnT2", "MapT1S", "R1", "R2", "String", "T1", "T2", "UInt", "nNoSuch", "nR1", "nT1", "nT2", "nil", "wrongInt", "wrongStruct"},
      {"desc", "descfn", "fn", "many", "nilfn", "plain"}),
  ResultType                     |-> E({"Top"}, "RT",
      {"", "R1", "R2", "bad", "plain"},
      {"-", "name", "nil", "wrongInt"},
      {"fn", "many", "nilfn", "plain"}),
  Scope                          |-> E({"SecReq", "Scheme"}, "",
      {"", "api:read", "api:write", "nosuch"},
      {"-"},
      {"desc", "many", "plain"}),
  Security                       |-> E({"API", "Service", "Method"}, "SecReq",
      {"", "-", "nosuch", "sc1", "sc2", "two", "vnil", "vsc1", "vsc2", "wrong"},
      {"-"},
      {"fn", "nilfn", "plain"}),
  Server                         |-> E({"API"}, "Server",
      {"", "s1", "srv1"},
      {"-"},
      {"fn", "many", "nilfn", "plain"}),
  Service                        |-> E({"Top"}, "Service",
      {"", "s1", "s2", "s3"},
      {"-"},
      {"fn", "nilfn"}),
  Services                       |-> E({"Server"}, "",
      {"", "-", "nosuch", "s1", "s2", "two"},
      {"-"},
      {"plain"}),
  SkipRequestBodyEncodeDecode    |-> E({"MethHTTP"}, "",
      {"-"},
      {"-"},
      {"plain"}),
  SkipResponseBodyEncodeDecode   |-> E({"MethHTTP"}, "",
      {"-"},
      {"-"},
      {"plain"}),
  StreamingPayload               |-> E({"Method"}, "Attr",
      {"-"},
      {"-", "Any", "ArrArrS", "ArrFn", "ArrInt", "ArrNil", "ArrS", "ArrT1", "ArrT2", "ArrnT1", "ArrnT2", "Boolean", "Bytes", "CollBad", "CollCollR1", "CollFn", "CollNil", "CollR1", "CollR2", "CollT1", "CollnR1", "Empty", "ErrorResult", "Float32", "Float64", "Int", "Int32", "Int64", "MapFn", "MapIntS", "MapMapKey", "MapNilV", "MapSArrS", "MapSS", "MapST1", "MapSnT1", "MapSnT2", "MapT1S", "R1", "R2", "String", "T1", "T2", "UInt", "nNoSuch", "nR1", "nT1", "nT2", "nil", "wrongInt", "wrongStruct"},
      {"desc", "descfn", "fn", "many", "nilfn", "plain"}),
  StreamingResult                |-> E({"Method"}, "Attr",
      {"-"},
      {"-", "Any", "ArrArrS", "ArrFn", "ArrInt", "ArrNil", "ArrS", "ArrT1", "ArrT2", "ArrnT1", "ArrnT2", "Boolean", "Bytes", "CollBad", "CollCollR1", "CollFn", "CollNil", "CollR1", "CollR2", "CollT1", "CollnR1", "Empty", "ErrorResult", "Float32", "Float64", "Int", "Int32", "Int64", "MapFn", "MapIntS", "MapMapKey", "MapNilV", "MapSArrS", "MapSS", "MapST1", "MapSnT1", "MapSnT2", "MapT1S", "R1", "R2", "String", "T1", "T2", "UInt", "nNoSuch", "nR1", "nT1", "nT2", "nil", "wrongInt", "wrongStruct"},
      {"desc", "descfn", "fn", "many", "nilfn", "plain"}),
  TRACE                          |-> E({"MethHTTP"}, "",
      {"", "/", "//abs/{a}", "/x", "/x/", "/x/{*a}", "/x/{a}", "/x/{b}", "/{", "/{*w}", "/{a:A}", "/{a}/{a}", "/{zz}", "x"},
      {"-"},
      {"plain"}),
  Tag                            |-> E({"HTTPResp"}, "",
      {"", "a", "b", "zz"},
      {"-"},
      {"plain"}),
  Temporary                      |-> E({"Attr"}, "",
      {"-"},
      {"-"},
      {"plain"}),
  TermsOfService                 |-> E({"API"}, "",
      {"", "long", "odd", "txt"},
      {"-"},
      {"plain"}),
  Timeout                        |-> E({"Attr"}, "",
      {"-"},
      {"-"},
      {"plain"}),
  Title                          |-> E({"API"}, "",
      {"", "long", "odd", "txt"},
      {"-"},
      {"plain"}),
  Token                          |-> E({"Attr"}, "Attr",
      {"", "a", "a:X-A", "b", "zz", "zz:X-Z"},
      {"-", "Any", "ArrArrS", "ArrFn", "ArrInt", "ArrNil", "ArrS", "ArrT1", "ArrT2", "ArrnT1", "ArrnT2", "Boolean", "Bytes", "CollBad", "CollCollR1", "CollFn", "CollNil", "CollR1", "CollR2", "CollT1", "CollnR1", "Empty", "ErrorResult", "Float32", "Float64", "Int", "Int32", "Int64", "MapFn", "MapIntS", "MapMapKey", "MapNilV", "MapSArrS", "MapSS", "MapST1", "MapSnT1", "MapSnT2", "MapT1S", "R1", "R2", "String", "T1", "T2", "UInt", "nNoSuch", "nR1", "nT1", "nT2", "nil", "wrongInt", "wrongStruct"},
      {"desc", "descfn", "fn", "many", "nilfn", "plain"}),
  TokenField                     |-> E({"Attr"}, "Attr",
      {"", "a", "a:X-A", "b", "zz", "zz:X-Z"},
      {"-", "Any", "ArrArrS", "ArrFn", "ArrInt", "ArrNil", "ArrS", "ArrT1", "ArrT2", "ArrnT1", "ArrnT2", "Boolean", "Bytes", "CollBad", "CollCollR1", "CollFn", "CollNil", "CollR1", "CollR2", "CollT1", "CollnR1", "Empty", "ErrorResult", "Float32", "Float64", "Int", "Int32", "Int64", "MapFn", "MapIntS", "MapMapKey", "MapNilV", "MapSArrS", "MapSS", "MapST1", "MapSnT1", "MapSnT2", "MapT1S", "R1", "R2", "String", "T1", "T2", "UInt", "nNoSuch", "nR1", "nT1", "nT2", "nil", "wrongInt", "wrongStruct"},
      {"badtag", "desc", "descfn", "fn", "many", "nilfn", "niltag", "plain"}),
  Trailers                       |-> E({"GRPCResp", "GRPCErrResp"}, "Attr",
      {"-"},
      {"-"},
      {"fn", "nilfn"}),
  Type                           |-> E({"Top"}, "Attr",
      {"", "T1", "T2"},
      {"-", "Any", "ArrArrS", "ArrFn", "ArrInt", "ArrNil", "ArrS", "ArrT1", "ArrT2", "ArrnT1", "ArrnT2", "Boolean", "Bytes", "CollBad", "CollCollR1", "CollFn", "CollNil", "CollR1", "CollR2", "CollT1", "CollnR1", "Empty", "ErrorResult", "Float32", "Float64", "Int", "Int32", "Int64", "MapFn", "MapIntS", "MapMapKey", "MapNilV", "MapSArrS", "MapSS", "MapST1", "MapSnT1", "MapSnT2", "MapT1S", "R1", "R2", "String", "T1", "T2", "UInt", "nNoSuch", "nR1", "nT1", "nT2", "nil", "wrongInt", "wrongStruct"},
      {"desc", "fn", "many", "nilfn", "plain"}),
  TypeName                       |-> E({"Attr", "RT"}, "",
      {"", "R1", "Renamed", "T2", "odd"},
      {"-"},
      {"plain"}),
  URI                            |-> E({"Host"}, "",
      {"", "::bad", "ftp://x", "grpc://localhost:8080", "http://localhost:8080", "http://{", "https://{v1}.goa.design/{zz}", "{v1}"},
      {"-"},
      {"plain"}),
  URL                            |-> E({"Contact", "License", "Docs"}, "",
      {"", "odd", "url"},
      {"-"},
      {"plain"}),
  Username                       |-> E({"Attr"}, "Attr",
      {"", "a", "a:X-A", "b", "zz", "zz:X-Z"},
      {"-", "Any", "ArrArrS", "ArrFn", "ArrInt", "ArrNil", "ArrS", "ArrT1", "ArrT2", "ArrnT1", "ArrnT2", "Boolean", "Bytes", "CollBad", "CollCollR1", "CollFn", "CollNil", "CollR1", "CollR2", "CollT1", "CollnR1", "Empty", "ErrorResult", "Float32", "Float64", "Int", "Int32", "Int64", "MapFn", "MapIntS", "MapMapKey", "MapNilV", "MapSArrS", "MapSS", "MapST1", "MapSnT1", "MapSnT2", "MapT1S", "R1", "R2", "String", "T1", "T2", "UInt", "nNoSuch", "nR1", "nT1", "nT2", "nil", "wrongInt", "wrongStruct"},
      {"desc", "descfn", "fn", "many", "nilfn", "plain"}),
  UsernameField                  |-> E({"Attr"}, "Attr",
      {"", "a", "a:X-A", "b", "zz", "zz:X-Z"},
      {"-", "Any", "ArrArrS", "ArrFn", "ArrInt", "ArrNil", "ArrS", "ArrT1", "ArrT2", "ArrnT1", "ArrnT2", "Boolean", "Bytes", "CollBad", "CollCollR1", "CollFn", "CollNil", "CollR1", "CollR2", "CollT1", "CollnR1", "Empty", "ErrorResult", "Float32", "Float64", "Int", "Int32", "Int64", "MapFn", "MapIntS", "MapMapKey", "MapNilV", "MapSArrS", "MapSS", "MapST1", "MapSnT1", "MapSnT2", "MapT1S", "R1", "R2", "String", "T1", "T2", "UInt", "nNoSuch", "nR1", "nT1", "nT2", "nil", "wrongInt", "wrongStruct"},
      {"badtag", "desc", "descfn", "fn", "many", "nilfn", "niltag", "plain"}),
  Value                          |-> E({"Example"}, "",
      {"-"},
      {"arr", "arrI", "arrval", "b", "bytes", "f", "i", "map", "mapval", "nil", "s", "sbad", "sn", "struct", "u", "val"},
      {"plain"}),
  Variable                       |-> E({"Host"}, "Attr",
      {"", "v1", "zz"},
      {"-", "Any", "ArrArrS", "ArrFn", "ArrInt", "ArrNil", "ArrS", "ArrT1", "ArrT2", "ArrnT1", "ArrnT2", "Boolean", "Bytes", "CollBad", "CollCollR1", "CollFn", "CollNil", "CollR1", "CollR2", "CollT1", "CollnR1", "Empty", "ErrorResult", "Float32", "Float64", "Int", "Int32", "Int64", "MapFn", "MapIntS", "MapMapKey", "MapNilV", "MapSArrS", "MapSS", "MapST1", "MapSnT1", "MapSnT2", "MapT1S", "R1", "R2", "String", "T1", "T2", "UInt", "nNoSuch", "nR1", "nT1", "nT2", "nil", "wrongInt", "wrongStruct"},
      {"desc", "descfn", "fn", "many", "nilfn", "plain"}),
  Version                        |-> E({"API"}, "",
      {"", "long", "odd", "txt"},
      {"-"},
      {"plain"}),
  View                           |-> E({"RT", "Attr"}, "Attr",
      {"", "default", "nov", "tiny"},
      {"-"},
      {"fn", "many", "nilfn", "plain"})
]
\* 120 functions

AllFns == DOMAIN FT
Ctxs == {"Top", "API", "Contact", "License", "Docs", "Server", "Host", "APIHTTP", "APIGRPC", "Service", "SvcHTTP", "SvcGRPC",
         "Method", "MethHTTP", "MethGRPC", "Files", "Attr", "RT", "Mapped", "HTTPResp", "HTTPErrResp", "GRPCResp", "GRPCErrResp",
         "Scheme", "SecReq", "Example"}
OpenVars == {"fn", "descfn", "summaryfn"}         \* variants that pass a func() running the children
GRPCCtxs == {"APIGRPC", "SvcGRPC", "MethGRPC"}

\* the context the children of a call run in (what the call pushes on goa's evaluation stack)
OpenCtx(f, n, ctx) ==
  LET o == FT[f].opens IN
  CASE o = "HTTP*" -> (IF ctx = "API" THEN "APIHTTP" ELSE IF ctx = "Service" THEN "SvcHTTP" ELSE "MethHTTP")
    [] o = "GRPC*" -> (IF ctx = "API" THEN "APIGRPC" ELSE IF ctx = "Service" THEN "SvcGRPC" ELSE "MethGRPC")
    [] o = "Resp*" -> (IF n # "-" THEN (IF ctx \in GRPCCtxs THEN "GRPCErrResp" ELSE "HTTPErrResp")
                                  ELSE (IF ctx \in GRPCCtxs THEN "GRPCResp" ELSE "HTTPResp"))
    [] o = "Mapped" /\ ctx \in {"GRPCResp", "GRPCErrResp"} -> "Attr"
    [] OTHER -> o

\* token pools: all tokens (simulation) or a few representative ones (exhaustive enumeration)
SmallTok == {"-", "", "a", "zz", "a:X-A", "s1", "m1", "e1", "sc1", "nosuch", "T1", "R1", "api1", "srv1", "h1", "v1", "txt", "url", "email",
             "String", "nil", "wrongInt", "ArrT1", "CollR1", "plain", "fn", "nilfn", "few", "200", "404", "0", "default", "nov", "tiny",
             "/x/{a}", "/{zz}", "/x", "i", "s", "det", "struct", "k", "v", "file.txt", "/f", "301", "/r", "date", "^a+$", "1", "3600", "strict",
             "pkg", "application/json", "http://localhost:8080", "api:read", "Renamed", "u"}
\* tokens that stand for arguments outside the documented use (nil, wrong type, wrong arity, empty or odd text)
OddTok == {"", "odd", "long", "nil", "wrongInt", "wrongStruct", "wrong", "many", "few", "nilfn", "badtag", "niltag", "baddesc", "badsummary", "badpos",
           "posfew", "badscheme", "vnil", "ArrNil", "MapNilV", "MapMapKey", "MapT1S", "CollNil", "CollBad", "CollT1", "CollCollR1", "nNoSuch",
           "-1", "99999", "0", "bad", "/{", "x", "/{a}/{a}", "::bad", "http://{", "{v1}", "ftp://x", "(", "[z-a]", "sbad", "struct", "mixed", "dup", "func"}
\* tokens for second names (a program that uses them usually refers to something it does not declare)
SpareTok == {"zz", "zz:X-Z", "nov", "/{zz}", "/{*w}", "two", "T2", "R2", "e2", "sc2", "s2", "m2", "h2", "b", "nosuch"}
TinyTok == {"-", "a", "zz", "s1", "m1", "e1", "sc1", "nosuch", "T1", "R1", "api1", "plain", "fn", "200", "404", "tiny", "nov", "/x/{a}", "/{zz}",
            "txt", "url", "i", "s", "v", "k", "1", "date", "det", "struct", "Renamed", "u", "srv1", "h1", "v1", "pkg", "file.txt", "/f", "/r", "301",
            "application/json", "http://localhost:8080", "api:read", "3600", "strict", "^a+$", "email", "struct:pkg:path", "arr"}
MinTok == {"-", "a", "zz", "s1", "m1", "e1", "sc1", "R1", "plain", "fn", "200", "404", "/x", "tiny", "nov", "api1"}
\* security walk: one scheme, its scopes and a scope nobody defines
SecTok == {"-", "a", "s1", "m1", "sc1", "api:read", "api:write", "nosuch", "plain", "fn", "/x"}
\* recursion walk: user types that reach themselves by name or by value, through an attribute, an array or a map, directly or through each other
RecTok == {"-", "a", "b", "s1", "m1", "e1", "T1", "T2", "nT1", "nT2", "ArrT1", "ArrT2", "ArrnT1", "ArrnT2", "MapST1", "MapSnT1", "MapSnT2", "plain", "fn", "/x"}
\* parent walk: up to three services that name each other (or nobody) as parent, canonical methods ("show" is the default one), relative,
\* parameterised and absolute paths
\* response-view walk: a result type with attributes a, b and views default / tiny, a method that renders one of them or any, response mappings
RvTok == {"-", "a", "b", "s1", "m1", "R1", "default", "tiny", "/x", "200", "plain", "fn"}
ParTok == {"-", "a", "s1", "s2", "s3", "m1", "show", "nosuch", "/", "/x", "/x/{a}", "//abs/{a}", "plain", "fn"}
Pool(S) == IF Pools = "full" THEN S
           ELSE IF Pools = "par" THEN (LET I == S \cap ParTok IN IF I = {} THEN {CHOOSE x \in S : TRUE} ELSE I)
           ELSE IF Pools = "rv" THEN (LET I == S \cap RvTok IN IF I = {} THEN {CHOOSE x \in S : TRUE} ELSE I)
           ELSE IF Pools = "sec" THEN (LET I == S \cap SecTok IN IF I = {} THEN {CHOOSE x \in S : TRUE} ELSE I)
           ELSE IF Pools = "rec" THEN (LET I == S \cap RecTok IN IF I = {} THEN {CHOOSE x \in S : TRUE} ELSE I)
           ELSE IF Pools = "min" THEN (LET I == S \cap MinTok IN IF I = {} THEN {CHOOSE x \in S : TRUE} ELSE I)
           ELSE IF Pools = "tiny" THEN (LET I == S \cap TinyTok IN IF I = {} THEN {CHOOSE x \in S : TRUE} ELSE I)
           ELSE IF Pools = "doc" THEN (IF S \ (OddTok \cup SpareTok) = {} THEN S ELSE S \ (OddTok \cup SpareTok))
           ELSE IF Pools = "refs" THEN (IF S \ OddTok = {} THEN S ELSE S \ OddTok)
           ELSE LET I == S \cap SmallTok IN IF I = {} THEN {CHOOSE x \in S : TRUE} ELSE I

---------------------------------------------------------------------------
\* declarative reading of a program (a sequence of nodes): used by the invariants, by Evaluate, by the trace spec
Idx(ns) == 1..Len(ns)
KidsOf(ns, i) == {j \in Idx(ns) : ns[j].p = i}
RECURSIVE CtxAtD(_, _)
\* the context node i runs in: "Top" or what its parent opens
CtxAtD(ns, i) == IF ns[i].p = 0 THEN "Top" ELSE OpenCtx(ns[ns[i].p].f, ns[ns[i].p].n, CtxAtD(ns, ns[i].p))
CtxInD(ns, i) == OpenCtx(ns[i].f, ns[i].n, CtxAtD(ns, i))
RECURSIVE Chain(_, _)
Chain(ns, i) == IF i = 0 THEN {} ELSE {i} \cup Chain(ns, ns[i].p)
Documented(ns, i) == CtxAtD(ns, i) \in FT[ns[i].f].doc
\* node i and all its ancestors are documented uses, and the ancestors really run their children
\* (a second API(...) silently replaces the first, whose function then never runs: calls under a repeated API are not judged)
WellPlaced(ns, i) == \A k \in Chain(ns, i) : /\ Documented(ns, k) /\ (k # i => ns[k].v \in OpenVars)
                                             /\ (ns[k].f = "API" => \A j \in Idx(ns) : ns[j].f = "API" => j = k)
\* a well-formed program (what the trace specification requires of a logged program)
WFProgram(ns) == \A i \in Idx(ns) :
   /\ ns[i].f \in AllFns
   /\ ns[i].n \in FT[ns[i].f].ns /\ ns[i].t \in FT[ns[i].f].ts /\ ns[i].v \in FT[ns[i].f].vs
   /\ ns[i].p \in 0..(i - 1)
   /\ (ns[i].p > 0 => ns[ns[i].p].v \in OpenVars)

---------------------------------------------------------------------------
(* Dangling(program): a transport mapping, a security requirement, a view or an error response names an
   attribute, scheme, view or error that no call of the program declares.

   It is deliberately one-sided.  "Declared" is generous (any call anywhere that could declare the name
   counts), the reference must sit in a documented chain of calls, be the only definition of its kind (a second
   HTTP(...) of a method silently replaces the first), and the type it is resolved against must be fully
   visible in the program (an inline object or a user type whose every definition is an inline object without
   Extend/Reference).  So Dangling(p) => no reading of p in which the name exists. *)
AttrDecl == {"Attribute", "Field", "OneOf", "ErrorName", "Username", "Password", "APIKey", "AccessToken", "Token",
             "UsernameField", "PasswordField", "APIKeyField", "AccessTokenField", "TokenField"}
SchemeFns == {"BasicAuthSecurity", "APIKeySecurity", "OAuth2Security", "JWTSecurity"}
Verbs == {"GET", "HEAD", "POST", "PUT", "DELETE", "OPTIONS", "TRACE", "CONNECT", "PATCH"}
AttrNames == {"a", "b", "zz"}
BaseName(n) == CASE n = "a:X-A" -> "a" [] n = "zz:X-Z" -> "zz" [] OTHER -> n
Wildcards(path) == CASE path \in {"/x/{a}", "/{a}/{a}", "/x/{*a}", "//abs/{a}"} -> {"a"}
                     [] path = "/x/{b}" -> {"b"}
                     [] path = "/{zz}" -> {"zz"}
                     [] path = "/{*w}" -> {"w"}
                     [] OTHER -> {}            \* no wildcard, or one this model does not interpret
UserToks == {"T1", "T2", "R1", "R2"}
DeclNames(ns, i) == {BaseName(ns[j].n) : j \in {k \in KidsOf(ns, i) : ns[k].f \in AttrDecl}}
HasBase(ns, i) == \E j \in KidsOf(ns, i) : ns[j].f \in {"Extend", "Reference"}
TypeNodes(ns, tok) == {i \in Idx(ns) : ns[i].f = "Type" /\ ns[i].n = tok}
RTNodes(ns, tok) == {i \in Idx(ns) : ns[i].f = "ResultType" /\ ns[i].n = tok}
AttrBlocks(ns, i) == {k \in KidsOf(ns, i) : ns[k].f = "Attributes"}
\* every definition of the user type is an inline object, nothing inherited
TypeKnown(ns, tok) ==
  IF tok \in {"T1", "T2"}
  THEN TypeNodes(ns, tok) # {} /\ RTNodes(ns, tok) = {}
       /\ \A i \in TypeNodes(ns, tok) : ns[i].t = "-" /\ ns[i].v \in OpenVars /\ ~HasBase(ns, i)
  ELSE /\ tok \in {"R1", "R2"} /\ RTNodes(ns, tok) # {} /\ TypeNodes(ns, tok) = {}
       /\ \A i \in RTNodes(ns, tok) : ns[i].v \in OpenVars /\ ~HasBase(ns, i) /\ \A j \in AttrBlocks(ns, i) : ~HasBase(ns, j)
TypeAttrs(ns, tok) ==
  IF tok \in {"T1", "T2"} THEN UNION {DeclNames(ns, i) : i \in TypeNodes(ns, tok)}
  ELSE UNION {DeclNames(ns, i) \cup UNION {DeclNames(ns, j) : j \in AttrBlocks(ns, i)} : i \in RTNodes(ns, tok)}

\* the payload / result of method node m, as far as the program shows it
Defs(ns, m, fs) == {j \in KidsOf(ns, m) : ns[j].f \in fs}
AttKnown(ns, m, fs) ==
  \/ Defs(ns, m, fs) = {}                                          \* not defined: Empty
  \/ \E j \in Defs(ns, m, fs) : /\ Defs(ns, m, fs) = {j}
                               /\ \/ ns[j].t = "-" /\ ns[j].v \in OpenVars /\ ~HasBase(ns, j)      \* inline object
                                  \/ ns[j].t \in UserToks /\ TypeKnown(ns, ns[j].t) /\ ns[j].v # "many"
AttAttrs(ns, m, fs) ==
  UNION {DeclNames(ns, j) \cup (IF ns[j].t \in UserToks THEN TypeAttrs(ns, ns[j].t) ELSE {}) : j \in Defs(ns, m, fs)}
PayloadFs == {"Payload"}
ResultFs == {"Result", "StreamingResult"}

OnlyKid(ns, i, f) == Cardinality({j \in KidsOf(ns, ns[i].p) : ns[j].f = f}) = 1       \* i is the only f among its siblings
UniqueNamed(ns, i) == \A k \in Idx(ns) : (ns[k].f = ns[i].f /\ ns[k].n = ns[i].n) => k = i
NoParentSvc(ns) == \A k \in Idx(ns) : ns[k].f # "Parent"
\* h is the single transport block (f = "HTTP" or "GRPC") of a uniquely named method of a uniquely named service
EndpointBlock(ns, h, f) ==
  /\ ns[h].f = f /\ ns[h].p # 0 /\ OnlyKid(ns, h, f)
  /\ LET m == ns[h].p IN /\ ns[m].f = "Method" /\ UniqueNamed(ns, m) /\ ns[m].p # 0
                        /\ ns[ns[m].p].f = "Service" /\ UniqueNamed(ns, ns[m].p)
ServiceBlock(ns, h, f) ==
  /\ ns[h].f = f /\ ns[h].p # 0 /\ OnlyKid(ns, h, f) /\ ns[ns[h].p].f = "Service" /\ UniqueNamed(ns, ns[h].p)

\* names a node refers to in the method payload when it is a direct child of the method's HTTP block
ReqRefNames(ns, i) ==
  LET f == ns[i].f  n == ns[i].n IN
  CASE f \in {"Param", "Header", "Cookie"} -> {BaseName(n)} \cap AttrNames
    [] f = "Body" /\ n \in AttrNames -> {n}
    [] f = "MapParams" /\ n \in AttrNames /\ OnlyKid(ns, i, "MapParams") -> {n}      \* a later MapParams replaces an earlier one
    [] f \in Verbs -> Wildcards(n)
    [] OTHER -> {}
\* names a node refers to in the method result when it is a direct child of a success response
ResRefNames(ns, i) ==
  LET f == ns[i].f  n == ns[i].n IN
  CASE f \in {"Header", "Cookie"} -> {BaseName(n)} \cap AttrNames
    [] f = "Body" /\ n \in AttrNames /\ OnlyKid(ns, i, "Body") -> {n}       \* a later Body replaces an earlier one
    [] OTHER -> {}
\* Body(func() { Attribute("x") }) in the method's HTTP block: the body attributes are payload attributes
\* (a later Body replaces an earlier one: only a single Body is judged)
BodyRefNames(ns, i) == IF ns[i].f = "Body" /\ ns[i].n = "-" /\ ns[i].t = "-" /\ ns[i].v \in OpenVars /\ OnlyKid(ns, i, "Body") THEN DeclNames(ns, i) ELSE {}
\* Tag("x", v) in a success response: x is a result attribute
TagRefNames(ns, i) == IF ns[i].f = "Tag" /\ ns[i].n \in AttrNames /\ OnlyKid(ns, i, "Tag") THEN {ns[i].n} ELSE {}

DanglingRequestMapping(ns) == \E i \in Idx(ns) :
  /\ ns[i].p # 0 /\ EndpointBlock(ns, ns[i].p, "HTTP") /\ WellPlaced(ns, i) /\ NoParentSvc(ns)
  /\ LET m == ns[ns[i].p].p IN AttKnown(ns, m, PayloadFs) /\ ~(ReqRefNames(ns, i) \subseteq AttAttrs(ns, m, PayloadFs))
DanglingBodyAttribute(ns) == \E i \in Idx(ns) :
  /\ ns[i].p # 0 /\ EndpointBlock(ns, ns[i].p, "HTTP") /\ WellPlaced(ns, i) /\ NoParentSvc(ns)
  /\ LET m == ns[ns[i].p].p IN AttKnown(ns, m, PayloadFs) /\ ~(BodyRefNames(ns, i) \subseteq AttAttrs(ns, m, PayloadFs))
InSuccessResponse(ns, i) ==
  /\ ns[i].p # 0 /\ ns[ns[i].p].f = "Response" /\ ns[ns[i].p].n = "-" /\ ns[ns[i].p].p # 0
  /\ EndpointBlock(ns, ns[ns[i].p].p, "HTTP") /\ WellPlaced(ns, i)
DanglingResponseMapping(ns) == \E i \in Idx(ns) :
  /\ InSuccessResponse(ns, i)
  /\ LET m == ns[ns[ns[i].p].p].p IN AttKnown(ns, m, ResultFs) /\ ~(ResRefNames(ns, i) \subseteq AttAttrs(ns, m, ResultFs))
(* A response header / cookie / body that names an attribute of the result type which the rendered view(s) lack.
   The result of the method is a result type the program shows completely (one ResultType call, nothing inherited, every
   view defined by a function); the method renders the view its Result names - Result(R1, func() { View("tiny") }) - or,
   when it names none, any of the views of the result type: the mapped attribute must be in the named view, or in all views.
   "In a view" is generous: an Attribute call with that name in any View(name, func) of the result type. *)
RTShown(ns, tok) == tok \in {"R1", "R2"} /\ TypeKnown(ns, tok) /\ Cardinality(RTNodes(ns, tok)) = 1
RTOf(ns, tok) == CHOOSE r \in RTNodes(ns, tok) : TRUE
ViewKids(ns, r) == {k \in KidsOf(ns, r) : ns[k].f = "View"}
ViewsShown(ns, r) == \A k \in ViewKids(ns, r) : ns[k].v # "plain" /\ ~HasBase(ns, k)      \* (View("x") without a function selects a view for the type itself)
ViewNames(ns, r) == {ns[k].n : k \in {j \in ViewKids(ns, r) : ns[j].v \in OpenVars}}
ViewAttrs(ns, r, vn) == UNION {DeclNames(ns, k) : k \in {j \in ViewKids(ns, r) : ns[j].n = vn}}
\* the views result node j may be rendered with, as far as this model judges it ({} = not judged)
RenderedViews(ns, j) ==
  LET r == RTOf(ns, ns[j].t)
      vk == {k \in KidsOf(ns, j) : ns[k].f = "View"}
  IN IF KidsOf(ns, j) = {} THEN ViewNames(ns, r)
     ELSE IF KidsOf(ns, j) = vk /\ Cardinality(vk) = 1 /\ \A k \in vk : ns[k].v = "plain" /\ ns[k].n \in ViewNames(ns, r)
          THEN {ns[k].n : k \in vk}
     ELSE {}
\* Body(func() { Attribute("x") }) in a response: the body attributes are result attributes (a single Body is judged)
ResBodyRefNames(ns, i) == IF ns[i].f = "Body" /\ ns[i].n = "-" /\ ns[i].t = "-" /\ ns[i].v \in OpenVars /\ OnlyKid(ns, i, "Body") /\ ~HasBase(ns, i)
                          THEN DeclNames(ns, i) \cap AttrNames ELSE {}
DanglingResponseViewMapping(ns) == \E i \in Idx(ns) :
  /\ InSuccessResponse(ns, i)
  /\ LET m == ns[ns[ns[i].p].p].p IN
     \E j \in Defs(ns, m, ResultFs) :
       /\ Defs(ns, m, ResultFs) = {j} /\ ns[j].v # "many" /\ RTShown(ns, ns[j].t)
       /\ ViewsShown(ns, RTOf(ns, ns[j].t))
       /\ \E vn \in RenderedViews(ns, j) : ~((ResRefNames(ns, i) \cup ResBodyRefNames(ns, i)) \subseteq ViewAttrs(ns, RTOf(ns, ns[j].t), vn))
DanglingResponseTag(ns) == \E i \in Idx(ns) :
  /\ InSuccessResponse(ns, i)
  /\ LET m == ns[ns[ns[i].p].p].p IN AttKnown(ns, m, ResultFs) /\ ~(TagRefNames(ns, i) \subseteq AttAttrs(ns, m, ResultFs))
DanglingGRPCMapping(ns) == \E i \in Idx(ns) :
  /\ ns[i].f \in {"Message", "Metadata"} /\ ns[i].v \in OpenVars /\ ns[i].p # 0
  /\ EndpointBlock(ns, ns[i].p, "GRPC") /\ WellPlaced(ns, i)
  /\ LET m == ns[ns[i].p].p IN AttKnown(ns, m, PayloadFs) /\ ~(DeclNames(ns, i) \subseteq AttAttrs(ns, m, PayloadFs))
DanglingScheme(ns) == \E i \in Idx(ns) :
  /\ ns[i].f = "Security" /\ WellPlaced(ns, i)
  /\ LET want == CASE ns[i].n \in {"sc1", "sc2", "nosuch"} -> {ns[i].n} [] ns[i].n = "two" -> {"sc1", "sc2"} [] OTHER -> {}
     IN ~(want \subseteq {ns[k].n : k \in {j \in Idx(ns) : ns[j].f \in SchemeFns}})
ViewsOf(ns, tok) == {"default"} \cup {ns[k].n : k \in UNION {{j \in KidsOf(ns, r) : ns[j].f = "View"} : r \in RTNodes(ns, tok)}}
DanglingView(ns) ==
  \/ \E i \in Idx(ns) :          \* Result(R1, func() { View("nov") })
       /\ ns[i].f = "View" /\ ns[i].v = "plain" /\ ns[i].p # 0 /\ WellPlaced(ns, i) /\ OnlyKid(ns, i, "View")     \* the last View wins
       /\ LET j == ns[i].p IN /\ ns[j].f \in ResultFs /\ ns[j].t \in {"R1", "R2"} /\ ns[j].p # 0
                             /\ Defs(ns, ns[j].p, ResultFs) = {j} /\ ns[ns[j].p].f = "Method"
                             /\ RTNodes(ns, ns[j].t) # {} /\ TypeNodes(ns, ns[j].t) = {}
                             /\ ns[i].n \notin ViewsOf(ns, ns[j].t)
  \/ \E i \in Idx(ns) :          \* ResultType(R1, func() { View("v", func() { Attribute("zz") }) })
       /\ ns[i].f = "View" /\ ns[i].v \in OpenVars /\ ns[i].p # 0 /\ WellPlaced(ns, i)
       /\ LET r == ns[i].p IN /\ ns[r].f = "ResultType" /\ ns[r].n \in {"R1", "R2"} /\ TypeKnown(ns, ns[r].n)
                             /\ ~(DeclNames(ns, i) \subseteq TypeAttrs(ns, ns[r].n))
\* h is the single transport block f of the API, and some method has a transport block f of its own (API-level error
\* responses are validated by the services of that transport)
APIBlock(ns, h, f) ==
  /\ ns[h].f = f /\ ns[h].p # 0 /\ OnlyKid(ns, h, f) /\ ns[ns[h].p].f = "API"
  /\ \E e \in Idx(ns) : EndpointBlock(ns, e, f) /\ WellPlaced(ns, e)
DanglingErrorResponse(ns) == \E i \in Idx(ns) :
  /\ ns[i].f = "Response" /\ ns[i].n \in {"e1", "e2", "zz"} /\ ns[i].p # 0 /\ WellPlaced(ns, i)
  /\ \/ EndpointBlock(ns, ns[i].p, "HTTP") \/ EndpointBlock(ns, ns[i].p, "GRPC") \/ ServiceBlock(ns, ns[i].p, "HTTP")
     \/ APIBlock(ns, ns[i].p, "HTTP") \/ APIBlock(ns, ns[i].p, "GRPC")
  /\ ns[i].n \notin {ns[k].n : k \in {j \in Idx(ns) : ns[j].f = "Error"}}

\* Security(scheme, func() { Scope("x") }) on a method (or on a service one of whose methods has no requirement of its own):
\* no scheme of the program defines scope x ("defined" is generous: a Scope("x") call anywhere below a scheme function)
ScopeNames == {"api:read", "api:write", "nosuch"}
ScopeDefined(ns, n) == \E k \in Idx(ns) : ns[k].f = "Scope" /\ ns[k].n = n /\ \E a \in Chain(ns, k) : ns[a].f \in SchemeFns
NoOwnRequirement(ns, m, fs) == \A k \in KidsOf(ns, m) : ns[k].f \notin fs
ServiceMethod(ns, m) == /\ ns[m].f = "Method" /\ UniqueNamed(ns, m) /\ ns[m].p # 0
                        /\ ns[ns[m].p].f = "Service" /\ UniqueNamed(ns, ns[m].p)
DanglingScope(ns) == \E i \in Idx(ns) :
  /\ ns[i].f = "Scope" /\ ns[i].n \in ScopeNames /\ ns[i].p # 0 /\ WellPlaced(ns, i)
  /\ ns[ns[i].p].f = "Security" /\ ns[ns[i].p].p # 0
  /\ LET o == ns[ns[i].p].p IN
       \/ ServiceMethod(ns, o) /\ NoOwnRequirement(ns, o, {"NoSecurity"})
       \/ /\ ns[o].f = "Service" /\ UniqueNamed(ns, o)
          /\ \E m \in KidsOf(ns, o) : ServiceMethod(ns, m) /\ WellPlaced(ns, m) /\ NoOwnRequirement(ns, m, {"Security", "NoSecurity"})
  /\ ~ScopeDefined(ns, ns[i].n)

DanglingKinds(ns) ==
  (IF DanglingScope(ns) THEN {"scope"} ELSE {}) \cup
  (IF DanglingRequestMapping(ns) THEN {"request_mapping"} ELSE {}) \cup
  (IF DanglingBodyAttribute(ns) THEN {"body_attribute"} ELSE {}) \cup
  (IF DanglingResponseTag(ns) THEN {"response_tag"} ELSE {}) \cup
  (IF DanglingResponseMapping(ns) THEN {"response_mapping"} ELSE {}) \cup
  (IF DanglingResponseViewMapping(ns) THEN {"response_view_mapping"} ELSE {}) \cup
  (IF DanglingGRPCMapping(ns) THEN {"grpc_mapping"} ELSE {}) \cup
  (IF DanglingScheme(ns) THEN {"scheme"} ELSE {}) \cup
  (IF DanglingView(ns) THEN {"view"} ELSE {}) \cup
  (IF DanglingErrorResponse(ns) THEN {"error_response"} ELSE {})
Dangling(ns) == DanglingKinds(ns) # {}

---------------------------------------------------------------------------
(* Named deviations: classes of programs on which the real code was found to crash.  A class is a pattern over
   single calls (function, tokens, context) or a small relation between calls. *)
AnyTok == {}
Pat(fs, ns_, ts, vs, ctxs) == [fs |-> fs, ns |-> ns_, ts |-> ts, vs |-> vs, ctxs |-> ctxs]
Match(ns, i, p) == /\ ns[i].f \in p.fs
                   /\ (p.ns = AnyTok \/ ns[i].n \in p.ns) /\ (p.ts = AnyTok \/ ns[i].t \in p.ts) /\ (p.vs = AnyTok \/ ns[i].v \in p.vs)
                   /\ (p.ctxs = AnyTok \/ CtxAtD(ns, i) \in p.ctxs)
FieldFns == {"Field", "UsernameField", "PasswordField", "APIKeyField", "AccessTokenField", "TokenField"}
WrapperFns == FieldFns \cup {"Username", "Password", "APIKey", "AccessToken", "Token", "ErrorName"}
CookieAttrFns == {"CookieMaxAge", "CookieDomain", "CookiePath", "CookieSecure", "CookieHTTPOnly", "CookieSameSite"}
Defined(ns, tok) == TypeNodes(ns, tok) \cup RTNodes(ns, tok) # {}
UncomparableVals == {"arr", "arrI", "arrval", "bytes", "map", "mapval", "val"}
\* the user types reachable from user type t through Extend calls (directly in the function of Type / ResultType, or in its Attributes block)
ExtendEdges(ns) == {e \in UserToks \X UserToks : \E i \in Idx(ns) :
                      /\ ns[i].f = "Extend" /\ ns[i].t = e[2] /\ ns[i].p # 0
                      /\ LET o == IF ns[ns[i].p].f = "Attributes" /\ ns[ns[i].p].p # 0 THEN ns[ns[i].p].p ELSE ns[i].p
                         IN ns[o].f \in {"Type", "ResultType"} /\ ns[o].n = e[1]}
ExtendStep(ns, S) == S \cup {e[2] : e \in {x \in ExtendEdges(ns) : x[1] \in S}}
ExtendReach(ns, t) == LET S1 == {e[2] : e \in {x \in ExtendEdges(ns) : x[1] = t}}
                      IN ExtendStep(ns, ExtendStep(ns, ExtendStep(ns, S1)))       \* four user type tokens: three more steps close it
\* the services a service reaches through Parent calls (in the HTTP block of Service(name, ...))
SvcToks == {"s1", "s2", "s3"}
ParentEdges(ns) == {e \in SvcToks \X SvcToks : \E i \in Idx(ns) :
                      /\ ns[i].f = "Parent" /\ ns[i].n = e[2] /\ ns[i].p # 0 /\ ns[ns[i].p].f = "HTTP" /\ ns[ns[i].p].p # 0
                      /\ ns[ns[ns[i].p].p].f = "Service" /\ ns[ns[ns[i].p].p].n = e[1]}
ParentStep(ns, S) == S \cup {e[2] : e \in {x \in ParentEdges(ns) : x[1] \in S}}
ParentReach(ns, s) == LET S1 == {e[2] : e \in {x \in ParentEdges(ns) : x[1] = s}}
                      IN ParentStep(ns, ParentStep(ns, S1))       \* three service tokens: two more steps close it
CrashPats ==
  \* dsl.Server reports the misuse and then dereferences the nil API
  ("crash.server_outside_api"  :> Pat({"Server"}, AnyTok, AnyTok, AnyTok, Ctxs \ {"API"})) @@
  \* dsl.Security() indexes args[len(args)-1]
  ("crash.security_no_args"    :> Pat({"Security"}, {"-"}, AnyTok, {"plain"}, AnyTok)) @@
  \* Default(nil) / Enum(nil) on an object, array or map attribute: reflect.TypeOf(nil).Kind()
  ("crash.iscompatible_nil"    :> Pat({"Default", "Enum"}, AnyTok, {"nil", "mixed"}, AnyTok, AnyTok)) @@
  \* Field / Username / Token ... wrap the caller's func() without the nil check eval.Execute has
  ("crash.nil_dsl_in_wrapper"  :> Pat(WrapperFns, AnyTok, AnyTok, {"nilfn"}, AnyTok)) @@
  \* CookieMaxAge & co. dereference the response's cookies, which are nil until Cookie(...) ran
  ("crash.cookie_attribute_without_cookie" :> Pat(CookieAttrFns, AnyTok, AnyTok, AnyTok, AnyTok)) @@
  \* Metadata / Trailers / (gRPC) Headers whose function defines no attribute: NewMappedAttributeExpr panics on the nil type
  ("crash.mapped_attribute_empty_dsl" :> Pat({"Metadata", "Trailers", "Headers"}, AnyTok, AnyTok, AnyTok, AnyTok)) @@
  \* Extend(CollectionOf(RT)): an object when Extend looks, an array when Finalize merges ("cannot merge non object attributes")
  ("crash.extend_collection" :> Pat({"Extend"}, AnyTok, {"CollR1", "CollR2"}, AnyTok, AnyTok)) @@
  \* Meta("struct:pkg:path") / Meta("struct:type:name") without a value: the key exists with no values, validation and
  \* UserTypeExpr.Name index the first one
  ("crash.meta_without_value" :> Pat({"Meta"}, {"struct:pkg:path", "struct:type:name"}, {"-"}, AnyTok, AnyTok))
PatDevs == DOMAIN CrashPats
Triggered(d, ns) ==
  CASE d \in PatDevs -> \E i \in Idx(ns) : Match(ns, i, CrashPats[d])
    \* Extend(nil) / Reference(nil): a type variable that is nil when the call runs (never declared, or used at top level)
    [] d = "crash.extend_reference_nil" ->
         \E i \in Idx(ns) : ns[i].f \in {"Extend", "Reference"} /\ (ns[i].t = "nil" \/ (ns[i].t \in UserToks /\ (~Defined(ns, ns[i].t) \/ ns[i].p = 0)))
    \* Service("s", nil) with the same name twice: the merged DSL calls the nil function
    [] d = "crash.service_redefined_nil_dsl" ->
         \E i, j \in Idx(ns) : i # j /\ ns[i].f = "Service" /\ ns[j].f = "Service" /\ ns[i].n = ns[j].n /\ "nilfn" \in {ns[i].v, ns[j].v}
    \* a response header/cookie/body names a result attribute that the view chosen with Result(RT, View(v)) lacks
    [] d = "crash.response_attr_not_in_view" ->
         \E i, j \in Idx(ns) : /\ ns[i].f = "View" /\ ns[i].p # 0 /\ ns[ns[i].p].f \in ResultFs
                               /\ ns[j].f \in {"Header", "Cookie", "Body"} /\ ns[j].p # 0 /\ ns[ns[j].p].f = "Response"
    \* cyclic Extend / Reference: AttributeExpr.Find recurses without a guard
    \* View("v") directly in a ResultType / CollectionOf function names a view nobody validates: Finalize panics in useExplicitView
    [] d = "crash.unknown_view_on_result_type" ->
         \/ \E i \in Idx(ns) : ns[i].f = "View" /\ ns[i].v = "plain" /\ ns[i].p # 0 /\ ns[ns[i].p].f \in {"ResultType", "Attributes"}
         \/ \E i \in Idx(ns) : ns[i].t = "CollFn"
    \* an error response with headers for an error nobody declared: Validate reports the error, then dereferences it
    [] d = "crash.error_response_headers_undeclared_error" ->
         \E j \in Idx(ns) : ns[j].f \in {"Header", "Cookie", "Headers"} /\ ns[j].p # 0 /\ ns[ns[j].p].f = "Response" /\ ns[ns[j].p].n # "-"
    \* Message(func() {}) (no attribute) on a method whose payload is not an object: validateMessage dereferences the nil object
    [] d = "crash.grpc_message_empty_dsl" ->
         \E i \in Idx(ns) : ns[i].f = "Message" /\ DeclNames(ns, i) = {}
    \* Message(func() { Attribute("a"); Attribute("zz") }): validateMessage stops at the first attribute it finds, Finalize dereferences the missing one
    [] d = "crash.grpc_message_attr_not_in_payload" ->
         \E i \in Idx(ns) : ns[i].f = "Message" /\ Cardinality(KidsOf(ns, i)) >= 2
    \* Body(func() {}) (no attribute): the body attribute has no type, Dup panics on it
    [] d = "crash.body_empty_dsl" ->
         \E i \in Idx(ns) : ns[i].f = "Body" /\ ns[i].v \in OpenVars \cup {"nilfn"} /\ DeclNames(ns, i) = {}
    [] d = "crash.base_cycle" ->
         \E i \in Idx(ns) : ns[i].f \in {"Extend", "Reference"} /\ ns[i].t \in UserToks /\ Defined(ns, ns[i].t)
    \* user types that Extend each other in a cycle, and a method: MethodExpr.Validate looks for the security attributes
    \* of the payload through the bases (hasTag, hasTagPrefix, TaggedAttribute, RemovePkgPath) without a guard
    [] d = "crash.base_cycle_tag_lookup" ->
         /\ \E t \in UserToks : t \in ExtendReach(ns, t)
         /\ \E i \in Idx(ns) : ns[i].f = "Method"
    \* API(func() { GRPC(func() { Response("e", code) }) }): the API-level gRPC error responses are never prepared
    \* (copying one to an endpoint dereferences its nil message) nor validated (the missing error is dereferenced in Finalize)
    [] d = "crash.api_grpc_error_response" ->
         \E i \in Idx(ns) : /\ ns[i].f = "Response" /\ ns[i].n # "-" /\ ns[i].p # 0 /\ ns[ns[i].p].f = "GRPC"
                             /\ ns[ns[i].p].p # 0 /\ ns[ns[ns[i].p].p].f = "API"
    \* Response(code, func() { Message(func() {}) }) (no attribute) in a gRPC block: the response message has no type
    [] d = "crash.grpc_response_message_empty_dsl" ->
         \E i \in Idx(ns) : ns[i].f = "Message" /\ DeclNames(ns, i) = {} /\ ns[i].p # 0 /\ ns[ns[i].p].f = "Response"
    \* Enum(v) and Default(v) on one attribute with values Go cannot compare (slices, maps): validateEnumDefault uses ==
    [] d = "crash.enum_default_uncomparable" ->
         \E i, j \in Idx(ns) : /\ ns[i].f = "Enum" /\ ns[j].f = "Default" /\ ns[i].p = ns[j].p
                                /\ ns[i].t \in UncomparableVals /\ ns[j].t \in UncomparableVals
    \* Extend(T) inside an attribute that a user type defines inline, where T is or extends that user type: Finalize
    \* merges the attribute into itself, copying the (now cyclic) object never ends
    [] d = "crash.extend_cycle_through_attribute" ->
         \E i \in Idx(ns) : /\ ns[i].f = "Extend" /\ ns[i].t \in UserToks /\ ns[i].p # 0 /\ ns[ns[i].p].f \in AttrDecl
    \* services that are their own ancestor (Parent("s1") in s1, or s1 -> s2 -> s3 -> s1) and set a Path: preparing a route asks
    \* the service for its base paths, which asks the parent's canonical route, which asks its service ... (only the two-service
    \* cycle is reported, and only by validation, which runs after the endpoints are prepared)
    [] d = "crash.parent_cycle" -> \E s \in SvcToks : s \in ParentReach(ns, s)
    [] OTHER -> FALSE
CrashDevs == PatDevs \cup {"crash.extend_reference_nil", "crash.service_redefined_nil_dsl", "crash.response_attr_not_in_view", "crash.base_cycle",
                         "crash.unknown_view_on_result_type", "crash.error_response_headers_undeclared_error", "crash.grpc_message_empty_dsl",
                         "crash.grpc_message_attr_not_in_payload", "crash.body_empty_dsl", "crash.base_cycle_tag_lookup",
                         "crash.api_grpc_error_response", "crash.grpc_response_message_empty_dsl", "crash.enum_default_uncomparable",
                         "crash.extend_cycle_through_attribute", "crash.parent_cycle"}
AcceptDevs == {"accept.body_attribute", "accept.response_tag", "accept.request_mapping", "accept.response_mapping", "accept.grpc_mapping", "accept.scheme", "accept.view", "accept.error_response",
               "accept.scope", "accept.response_view_mapping"}
KindOfAccept(d) == CASE d = "accept.body_attribute" -> "body_attribute" [] d = "accept.response_tag" -> "response_tag"
                     [] d = "accept.scope" -> "scope" [] d = "accept.response_view_mapping" -> "response_view_mapping"
                     [] d = "accept.request_mapping" -> "request_mapping" [] d = "accept.response_mapping" -> "response_mapping"
                     [] d = "accept.grpc_mapping" -> "grpc_mapping" [] d = "accept.scheme" -> "scheme"
                     [] d = "accept.view" -> "view" [] d = "accept.error_response" -> "error_response" [] OTHER -> "-"
TriggeredCrashes(ns) == {d \in CrashDevs : Triggered(d, ns)}
HasGRPC(ns) == \E i \in Idx(ns) : ns[i].f \in {"GRPC", "Message", "Metadata", "Trailers", "Package"}

\* what evaluation of program ns may answer; o = [kind, nErrs, allNamed]
Allowed(ns, o) ==
  CASE o.kind = "accepted" -> /\ o.nErrs = 0
                             /\ DanglingKinds(ns) \subseteq {KindOfAccept(d) : d \in Deviations \cap AcceptDevs}
    [] o.kind = "rejected" -> /\ o.nErrs >= 1
                             /\ (o.allNamed \/ "report.unnamed" \in Deviations)
    [] o.kind \in {"panic", "timeout"} -> \E d \in Deviations \cap CrashDevs : Triggered(d, ns)
    [] OTHER -> FALSE

---------------------------------------------------------------------------
\* the machine: build a program call by call (pushdown), evaluate it, hand an accepted design to the generators
VARIABLES nodes,     \* the program so far
          stack,     \* open calls: <<[node, ctx]>>; the last one is what eval.Current() would return
          pc,        \* "mode" | "f" | "n" | "t" | "c" | "v" (a call is chosen argument by argument) | "ready" | "evaluated" | "done"
          mode,      \* the call under construction is documented for the current context ("well") or not ("mis")
          cur,       \* the call under construction
          nmis,      \* misplaced calls so far
          outcome,   \* result of evaluation [kind, nErrs, allNamed]
          later      \* outcome of the stages after acceptance (generation + compilation): "-" | "ok" | "error" | "skipped"
vars == <<nodes, stack, pc, mode, cur, nmis, outcome, later>>

NoOutcome == [kind |-> "none", nErrs |-> 0, allNamed |-> TRUE]
NoCall == [f |-> "?", n |-> "?", t |-> "?", c |-> "?"]
CurCtx == IF stack = <<>> THEN "Top" ELSE stack[Len(stack)].ctx
CurNode == IF stack = <<>> THEN 0 ELSE stack[Len(stack)].node
Usable == {f \in Fns : f \in Once => \A i \in Idx(nodes) : nodes[i].f # f}
\* the spine first: while a once-only function documented for this context is still unused, it is what gets called next
\* (steering of the response-view walk: mappings go into the response, attributes into the Attributes block, a Result names a view,
\* views are named nowhere else,
\* the transport block belongs to the method)
OpenFn == IF stack = <<>> THEN "-" ELSE nodes[stack[Len(stack)].node].f
Elsewhere(ctx) == IF Pools # "rv" THEN {}
                  ELSE IF ctx = "Service" THEN {"HTTP"}
                  ELSE IF ctx = "MethHTTP" THEN {"Header", "Cookie", "Body"}
                  ELSE IF ctx = "RT" THEN AttrDecl
                  ELSE IF ctx = "Attr" /\ OpenFn \in ResultFs THEN AttrDecl
                  ELSE IF ctx = "Attr" THEN {"View"}
                  ELSE {}
SpineContainer(f, ctx) == FT[f].opens # "" /\ \E g \in (Usable \cap Once) \ {f} : OpenCtx(f, "-", ctx) \in FT[g].doc
SpineHere(ctx) == LET S == {f \in Usable \cap Once : ctx \in FT[f].doc} \ Elsewhere(ctx)
                      C == {f \in S : SpineContainer(f, ctx)}
                  IN IF SpineDeep /\ C # {} THEN C ELSE S
WellFns(ctx) == IF SpineHere(ctx) # {} THEN SpineHere(ctx) ELSE {f \in Usable : ctx \in FT[f].doc} \ Elsewhere(ctx)
MisFns(ctx) == {f \in Usable : ctx \notin FT[f].doc}

Init == /\ nodes = <<>> /\ stack = <<>> /\ pc = "mode" /\ mode = "-" /\ cur = NoCall /\ nmis = 0
        /\ outcome = NoOutcome /\ later = "-"

TopCalls == Cardinality({i \in Idx(nodes) : nodes[i].p = 0})
CanBegin == /\ Len(nodes) < MaxCalls /\ (stack = <<>> => TopCalls < MaxTop)
            /\ (WellFns(CurCtx) # {} \/ (nmis < MaxMisplaced /\ MisFns(CurCtx) # {}))
Begin(m) == /\ pc = "mode" /\ Len(nodes) < MaxCalls /\ (stack = <<>> => TopCalls < MaxTop)
            /\ IF m = "well" THEN WellFns(CurCtx) # {} ELSE nmis < MaxMisplaced /\ MisFns(CurCtx) # {}
            /\ mode' = m /\ pc' = "f"
            /\ UNCHANGED <<nodes, stack, cur, nmis, outcome, later>>
ChooseF == /\ pc = "f"
           /\ \E f \in (IF mode = "well" THEN WellFns(CurCtx) ELSE MisFns(CurCtx)) : cur' = [NoCall EXCEPT !.f = f]
           /\ pc' = "n" /\ UNCHANGED <<nodes, stack, mode, nmis, outcome, later>>
\* (steering of the security walk: requirements name the scheme of the walk; the tokens it shares with Scope are left to Scope)
\* (steering of the recursion walk: the user types of a program have different names)
NamePool(f) == IF Pools = "sec" /\ f = "Security" THEN {"sc1", "vsc1"}
               ELSE IF Pools = "rec" /\ f = "Type" /\ Pool(FT[f].ns) \ {nodes[i].n : i \in {j \in Idx(nodes) : nodes[j].f = "Type"}} # {}
                    THEN Pool(FT[f].ns) \ {nodes[i].n : i \in {j \in Idx(nodes) : nodes[j].f = "Type"}}
               \* (steering of the parent walk: the services of a program have different names)
               ELSE IF Pools = "par" /\ f = "Service" /\ Pool(FT[f].ns) \ {nodes[i].n : i \in {j \in Idx(nodes) : nodes[j].f = "Service"}} # {}
                    THEN Pool(FT[f].ns) \ {nodes[i].n : i \in {j \in Idx(nodes) : nodes[j].f = "Service"}}
               \* (steering of the response-view walk: one result type; sibling attributes / views / mappings have different names)
               ELSE IF Pools = "rv" /\ f = "ResultType" THEN {"R1"}
               ELSE IF Pools = "rv" /\ Pool(FT[f].ns) \ {nodes[k].n : k \in {j \in KidsOf(nodes, CurNode) : nodes[j].f = f}} # {}
                    THEN Pool(FT[f].ns) \ {nodes[k].n : k \in {j \in KidsOf(nodes, CurNode) : nodes[j].f = f}}
               ELSE Pool(FT[f].ns)
ChooseN == /\ pc = "n" /\ \E n \in NamePool(cur.f) : cur' = [cur EXCEPT !.n = n]
           /\ pc' = "t" /\ UNCHANGED <<nodes, stack, mode, nmis, outcome, later>>
\* Declare / Refer: the user types a type token refers to, and the ones declared so far.  With the "doc" and "refs" pools
\* a call only refers to types that an earlier top-level call declared (steering only: goa resolves names late).
TokNeeds(t) == CASE t \in {"T1", "nT1", "ArrT1", "ArrnT1", "MapST1", "MapSnT1", "MapT1S", "CollT1"} -> {"T1"}
                 [] t \in {"T2", "nT2", "ArrT2", "ArrnT2", "MapSnT2"} -> {"T2"}
                 [] t \in {"R1", "nR1", "CollR1", "CollnR1", "CollCollR1", "CollFn"} -> {"R1"}
                 [] t \in {"R2", "CollR2"} -> {"R2"}
                 [] OTHER -> {}
DeclaredTypes == {nodes[i].n : i \in {j \in Idx(nodes) : nodes[j].f \in {"Type", "ResultType"} /\ nodes[j].p = 0}}
Referable(f) == LET P == Pool(FT[f].ts) IN
                IF Pools \in {"doc", "refs", "min", "tiny"} /\ f \notin {"Extend", "Reference"}
                THEN (LET Q == {t \in P : TokNeeds(t) \subseteq DeclaredTypes} IN IF Q = {} THEN P ELSE Q)
                ELSE P
\* (steering of the recursion walk: user types are declared with a function, the type tokens are for what refers to them)
TypePool(f) == IF Pools = "rec" /\ f = "Type" THEN {"-"}
               ELSE IF Pools = "rec" /\ f \in {"Payload", "StreamingPayload", "Result", "StreamingResult"} THEN Referable(f) \ {"nT1", "nT2"}     \* (Payload("T1") is rejected: a payload is not named by a string)
               \* (steering of the response-view walk: the result is the result type, attributes are primitive)
               ELSE IF Pools = "rv" THEN (IF f \in {"Result", "StreamingResult"} THEN {"R1"} ELSE IF "-" \in Pool(FT[f].ts) THEN {"-"} ELSE Pool(FT[f].ts))
               ELSE Referable(f)
ChooseT == /\ pc = "t" /\ \E t \in TypePool(cur.f) : cur' = [cur EXCEPT !.t = t]
           /\ pc' = "c" /\ UNCHANGED <<nodes, stack, mode, nmis, outcome, later>>
\* does the call pass a func() that runs children ("open") or not: chosen first, so that half of the calls nest
ClosedTop == Cardinality({i \in Idx(nodes) : nodes[i].p = 0 /\ nodes[i].v \notin OpenVars})
VarClasses(f) == LET canOpen == Pool(FT[f].vs) \cap OpenVars # {} /\ Len(stack) < MaxDepth IN
                 (IF canOpen THEN {"open"} ELSE {})
                 \cup (IF Pool(FT[f].vs) \ OpenVars # {} /\ (stack # <<>> \/ ClosedTop < 1 \/ ~canOpen) THEN {"closed"} ELSE {})
\* (steering of the recursion walk: a type given by a token takes no function, a type / payload / result without a token takes one)
VarClassesHere == LET V == VarClasses(cur.f) IN
                  IF Pools = "rec" /\ cur.t # "-" /\ "closed" \in V THEN {"closed"}
                  ELSE IF Pools \in {"rec", "par"} /\ cur.t = "-" /\ "open" \in V /\ cur.f \in {"Type", "Payload", "StreamingPayload", "Result", "StreamingResult", "Service", "Method"} THEN {"open"}
                  \* (steering of the response-view walk: attributes are leaves, a view is defined in the result type and named elsewhere, blocks run a function)
                  ELSE IF Pools = "rv" /\ cur.f \in AttrDecl /\ "closed" \in V THEN {"closed"}
                  ELSE IF Pools = "rv" /\ cur.f = "View" THEN (IF CurCtx = "RT" /\ "open" \in V THEN {"open"} ELSE V \ {"open"})
                  ELSE IF Pools = "rv" /\ cur.f \in {"ResultType", "Attributes", "Service", "Method", "HTTP", "Response"} /\ "open" \in V THEN {"open"}
                  ELSE V
ChooseC == /\ pc = "c" /\ \E c \in VarClassesHere : cur' = [cur EXCEPT !.c = c]
           /\ pc' = "v" /\ UNCHANGED <<nodes, stack, mode, nmis, outcome, later>>
\* the call happens: the expression it builds is pushed if it runs a func() with children
Call == /\ pc = "v"
        /\ \E v \in (IF cur.c = "open" THEN Pool(FT[cur.f].vs) \cap OpenVars ELSE Pool(FT[cur.f].vs) \ OpenVars) :
             /\ nodes' = Append(nodes, [f |-> cur.f, n |-> cur.n, t |-> cur.t, v |-> v, p |-> CurNode])
             /\ stack' = IF v \in OpenVars THEN Append(stack, [node |-> Len(nodes) + 1, ctx |-> OpenCtx(cur.f, cur.n, CurCtx)]) ELSE stack
        /\ nmis' = IF mode = "mis" THEN nmis + 1 ELSE nmis
        /\ pc' = "mode" /\ cur' = NoCall /\ mode' = "-" /\ UNCHANGED <<outcome, later>>
\* the func() of the innermost open call returns
Return == /\ pc = "mode" /\ stack # <<>>
          /\ (Cardinality(KidsOf(nodes, CurNode)) >= MinKids \/ ~CanBegin)
          /\ (SpineDeep => SpineHere(CurCtx) = {} \/ ~CanBegin)
          /\ stack' = SubSeq(stack, 1, Len(stack) - 1)
          /\ UNCHANGED <<nodes, pc, mode, cur, nmis, outcome, later>>
Finish == /\ pc = "mode" /\ stack = <<>> /\ (Len(nodes) >= MinCalls \/ ~CanBegin) /\ Len(nodes) >= 1 /\ pc' = "ready"
          /\ UNCHANGED <<nodes, stack, mode, cur, nmis, outcome, later>>
OutcomeSpace == {[kind |-> "accepted", nErrs |-> 0, allNamed |-> TRUE]}
                \cup [kind : {"rejected"}, nErrs : {0, 1, 2}, allNamed : BOOLEAN]
                \cup [kind : {"panic", "timeout"}, nErrs : {0}, allNamed : {FALSE}]
\* eval.RunDSL: execute, prepare, validate, finalize; the answer is constrained only as far as the property goes
Evaluate == /\ pc = "ready" /\ \E o \in OutcomeSpace : Allowed(nodes, o) /\ outcome' = o
            /\ pc' = "evaluated" /\ UNCHANGED <<nodes, stack, mode, cur, nmis, later>>
\* property C01 takes over: generator "gen" and the Go compiler on what it wrote (gRPC needs protoc: skipped)
HandOff == /\ pc = "evaluated"
           /\ later' \in (IF outcome.kind # "accepted" THEN {"-"}
                          ELSE IF HasGRPC(nodes) THEN {"skipped"}
                          ELSE IF "handoff.fails" \in Deviations THEN {"ok", "error"} ELSE {"ok"})
           /\ pc' = "done" /\ UNCHANGED <<nodes, stack, mode, cur, nmis, outcome>>
Next == Begin("well") \/ Begin("mis") \/ ChooseF \/ ChooseN \/ ChooseT \/ ChooseC \/ Call \/ Return \/ Finish \/ Evaluate \/ HandOff
Spec == Init /\ [][Next]_vars

---------------------------------------------------------------------------
\* the property
Evaluated == pc \in {"evaluated", "done"}
NeverCrash == Evaluated => outcome.kind \in {"accepted", "rejected"}
RejectedHasErrors == Evaluated /\ outcome.kind = "rejected" => outcome.nErrs >= 1 /\ outcome.allNamed
AcceptedHasNoDangling == Evaluated /\ outcome.kind = "accepted" => ~Dangling(nodes)
AcceptedCompiles == pc = "done" /\ outcome.kind = "accepted" => later \in {"ok", "skipped"}

\* the pushdown discipline (the operational stack agrees with the declarative reading of the program)
StackIsOpenChain ==
  /\ \A k \in 1..Len(stack) : /\ stack[k].node \in Idx(nodes) /\ nodes[stack[k].node].v \in OpenVars
                              /\ nodes[stack[k].node].p = (IF k = 1 THEN 0 ELSE stack[k - 1].node)
                              /\ stack[k].ctx = CtxInD(nodes, stack[k].node)
  /\ Len(stack) <= MaxDepth
ProgramWellFormed == WFProgram(nodes) /\ Len(nodes) <= MaxCalls
MisplacedCounted == pc \in {"mode", "ready", "evaluated", "done"} => nmis = Cardinality({i \in Idx(nodes) : ~Documented(nodes, i)}) /\ nmis <= MaxMisplaced
TypeOK == /\ pc \in {"mode", "f", "n", "t", "c", "v", "ready", "evaluated", "done"}
          /\ mode \in {"-", "well", "mis"} /\ later \in {"-", "ok", "error", "skipped"}
          /\ (pc \in {"ready", "evaluated", "done"} => stack = <<>>)
=============================================================================
