------------------------------- MODULE Mux -------------------------------
(* goahttp.NewMuxer() (http/mux.go) on top of chi: registration (Use, Handle with the
   {*name} -> * rewrite and the wildcard-name table, pending middlewares flushed by the
   first Handle together with the not-found handler), then one request served: net/url
   parsing of the target, the middleware chain, routing, the handler or the 404 responder,
   and what Vars / ResolvePattern answer when asked before routing (a Use-middleware before
   calling next), in the handler, and after routing (the middleware after next returned).
   Property C16.

   Intended design (Deviations = {}):
     - the router matches the target split at its *literal* slashes (an escaped slash belongs
       to the value), a {name} segment is never empty, a trailing {*name} takes the rest;
     - Vars returns each captured text percent-decoded exactly once;
     - ResolvePattern returns the pattern exactly as it was given to Handle, at every probe
       point, and asking never changes later answers;
     - middlewares given to Use before the first Handle wrap every request in Use order;
       Use after the first Handle is refused (chi panics) and changes nothing;
     - registration is a HISTORY of Handle calls: a route is identified by its method and its pattern with the
       wildcard names erased (`Shape`: chi's tree node); a later Handle for the same (method, shape) REPLACES the
       earlier one - its handler runs, Vars uses its names, ResolvePattern reports its pattern.  The same shape
       under another method, or with / without a trailing slash, is a different route and leaves the others alone.
   What the statement leaves open is left open here: which of several matching patterns wins
   (`picked` is any member of the matching set), and whether a path that only matches under
   another method is answered 404 or 405.

   Named deviations = how the code under test departs (each found on the real code):
     mux.double_unescape                  Vars unescapes text taken from the already decoded URL.Path
     mux.probe_pollutes_context           Vars/ResolvePattern before routing run chi's Match on the
                                          request's own routing context, so the later routing appends
                                          the pattern and parameters a second time
     mux.preroute_matches_decoded_path    that early Match uses URL.Path even when chi will route on RawPath
     mux.resolve_trims_trailing_slash     chi's RoutePattern() trims a trailing slash of the registered pattern and
                                          ResolvePattern does not put it back
     mux.rereg_keeps_first_wildcard_name  the catch-all name table keeps the name of the FIRST registration of a
                                          (method, rewritten pattern); not found on the unchanged tree - it is the
                                          vacuity guard of the registration histories (seeded change C16d-1 does this)
   The quirks of chi's RoutePattern() (inner "/*" dropped, trailing "//" and "/" trimmed) are modelled as they
   are, so that each deviation alone predicts exactly what the code with only that defect does. *)
EXTENDS PathStrings, TLC

CONSTANTS Deviations,
          Profile,    \* which family of cases Init enumerates: "values", "dispatch", "mw" (anything else: none)
          MaxLen,     \* longest focus value ("values")
          MaxPats,    \* largest pattern set ("dispatch")
          Shapes      \* indices into Pool used by "values" (those with a wildcard) and "dispatch"

Dev(d) == d \in Deviations

---------------------------------------------------------------------------
\* patterns
L(s) == [k |-> "lit", v |-> s]
V(n) == [k |-> "var", v |-> <<n>>]
W(n) == [k |-> "wild", v |-> <<n>>]
X == <<"x">>
Z == <<"z">>
Pool == <<
  <<L(<<>>)>>,                        \*  1  /
  <<L(X)>>,                           \*  2  /x
  <<L(X), V("id")>>,                  \*  3  /x/{id}
  <<L(X), W("rest")>>,                \*  4  /x/{*rest}
  <<V("id")>>,                        \*  5  /{id}
  <<W("rest")>>,                      \*  6  /{*rest}
  <<L(X), V("id"), W("rest")>>,       \*  7  /x/{id}/{*rest}
  <<L(X), L(Z)>>,                     \*  8  /x/z
  <<L(X), V("id"), L(Z)>>,            \*  9  /x/{id}/z
  <<V("id"), L(Z)>>,                  \* 10  /{id}/z
  <<L(X), V("name")>>,                \* 11  /x/{name}
  <<L(Z), L(<<>>)>>,                  \* 12  /z/
  <<V("id"), V("name")>>,             \* 13  /{id}/{name}
  <<L(X), W("tail")>>,                \* 14  /x/{*tail}   (same route as 4 under another catch-all name)
  <<L(X), V("name"), W("tail")>>,     \* 15  /x/{name}/{*tail}  (same route as 7, every name changed)
  <<L(X), V("id"), W("tail")>>,       \* 16  /x/{id}/{*tail}    (same route as 7, same rewritten pattern, other catch-all name)
  <<L(Z)>>,                           \* 17  /z           (12 without its trailing slash)
  <<L(X), V("id"), L(<<>>)>>,         \* 18  /x/{id}/     (3 with a trailing slash)
  <<L(X), L(<<>>)>>,                  \* 19  /x/          (2 with a trailing slash; the prefix of 4 / 14)
  <<V("name"), V("id")>>,             \* 20  /{name}/{id} (same route as 13 with the two names swapped)
  <<W("tail")>>                       \* 21  /{*tail}     (same route as 6)
>>
VarShapes == {3, 4, 5, 6, 7, 9, 13} \cap Shapes
MethodSet == {"GET", "POST"}

GoaSeg(sg) == IF sg.k = "lit" THEN CatS(sg.v)
              ELSE IF sg.k = "var" THEN "{" \o sg.v[1] \o "}" ELSE "{*" \o sg.v[1] \o "}"
ChiSeg(sg) == IF sg.k = "wild" THEN "*" ELSE GoaSeg(sg)
GoaPat(segs) == [i \in 1..Len(segs) |-> GoaSeg(segs[i])]
ChiPat(segs) == [i \in 1..Len(segs) |-> ChiSeg(segs[i])]
PatString(ss) == CatS([i \in 1..Len(ss) |-> "/" \o ss[i]])      \* the text handed to Handle
VarPos(segs) == SelectSeq(Indices(segs), LAMBDA i : segs[i].k # "lit")
KeysOf(segs) == LET P == VarPos(segs) IN [j \in 1..Len(P) |-> IF segs[P[j]].k = "wild" THEN "*" ELSE segs[P[j]].v[1]]
NamesOf(segs) == LET P == VarPos(segs) IN [j \in 1..Len(P) |-> segs[P[j]].v[1]]
\* the pattern with the wildcard names erased: what identifies a node of chi's routing tree
Shape(segs) == [i \in 1..Len(segs) |-> IF segs[i].k = "lit" THEN GoaSeg(segs[i]) ELSE IF segs[i].k = "var" THEN "{}" ELSE "*"]

\* declarative matching of a token string (split at literal slashes) against a pattern
\* Whether an *empty* segment satisfies {name} is not said by the statement (chi accepts it in the middle of a
\* path and refuses it at the end): `emptyOK` gives the two readings, the router may behave as either.
SegOK(S, sg, i, emptyOK) == IF sg.k = "lit" THEN S[i] = AllLit(sg.v) ELSE (emptyOK \/ S[i] # <<>>)
MatchSegs(S, segs, emptyOK) ==
  LET n == Len(segs)
      wild == segs[n].k = "wild"
      fixed == IF wild THEN n - 1 ELSE n
  IN /\ IF wild THEN Len(S) >= n ELSE Len(S) = n
     /\ \A i \in 1..fixed : SegOK(S, segs[i], i, emptyOK)
Captured(S, segs) ==
  LET P == VarPos(segs) IN
  [j \in 1..Len(P) |-> IF segs[P[j]].k = "var" THEN S[P[j]] ELSE JoinFrom(S, P[j])]

\* client side: substitute escaped values into a pattern
VarIdx(segs, i) == Cardinality({k \in 1..i : segs[k].k # "lit"})
SegWire(segs, a, enc, i) ==
  IF segs[i].k = "lit" THEN AllLit(segs[i].v)
  ELSE Escape(a[VarIdx(segs, i)], IF segs[i].k = "var" /\ enc = "seg" THEN "min" ELSE enc)
RECURSIVE BuildFrom(_, _, _, _)
BuildFrom(segs, a, enc, i) ==
  IF i > Len(segs) THEN <<>> ELSE <<Lit("/")>> \o SegWire(segs, a, enc, i) \o BuildFrom(segs, a, enc, i + 1)
Build(segs, a, enc) == BuildFrom(segs, a, enc, 1)

---------------------------------------------------------------------------
\* configuration spaces (constructive; chosen in Init)
UseOp(id, probe) == [op |-> "use", id |-> id, probe |-> probe, method |-> "-", segs |-> <<>>]
HandleOp(hid, m, segs) == [op |-> "handle", id |-> hid, probe |-> FALSE, method |-> m, segs |-> segs]

MwPrefixes(n) == UNION {{[i \in 1..k |-> UseOp(i, pr[i])] : pr \in [1..k -> BOOLEAN]} : k \in 0..n}

Entries == [s : Shapes \cap (1..Len(Pool)), m : MethodSet]
EntryOrd(e) == 2 * e.s + (IF e.m = "GET" THEN 0 ELSE 1)
\* ascending sequences of entries: pattern SETS (registered in both orders).  One method getting the same rewritten
\* pattern twice is a matter of registration order, not of the set: see the "history" family below.
AscSeqs(k) == {q \in [1..k -> Entries] : \A i \in 1..k : \A j \in 1..k : i < j =>
                 /\ EntryOrd(q[i]) < EntryOrd(q[j])
                 /\ ~(q[i].m = q[j].m /\ ChiPat(Pool[q[i].s]) = ChiPat(Pool[q[j].s]))}
Rev(q) == [i \in 1..Len(q) |-> q[Len(q) + 1 - i]]
HandleSeq(q) == [i \in 1..Len(q) |-> HandleOp(i, q[i].m, Pool[q[i].s])]

\* registration HISTORIES: two or three Handle calls over a cluster of related patterns - the same route under other
\* wildcard names ({id}/{name}, {*rest}/{*tail}, both, names swapped), with and without a trailing slash - and both
\* methods, in every order and with repetitions: a later call may repeat an earlier one exactly, rename its
\* wildcards, move it to the other method, or differ by the trailing slash only.  The first call is a GET (the
\* two methods are interchangeable).  `Shapes` selects the clusters (those it contains).
Clusters == {{3, 11, 18}, {4, 14, 19}, {7, 15, 16}, {13, 20}, {12, 17, 1}, {6, 21, 1}}
HistEntries(c) == [s : c, m : MethodSet]
HistSeqs(c) == UNION {{q \in [1..k -> HistEntries(c)] : q[1].m = "GET"} : k \in 2..3}

Plans ==
  IF Profile = "values" THEN
    {mw \o <<HandleOp(1, "GET", Pool[s])>> : mw \in {<<>>, <<UseOp(1, TRUE)>>}, s \in VarShapes}
  ELSE IF Profile = "dispatch" THEN
    LET sets == UNION {AscSeqs(k) : k \in 1..MaxPats} IN
    {<<UseOp(1, TRUE)>> \o HandleSeq(q) : q \in sets \cup {Rev(s) : s \in sets}}
  ELSE IF Profile = "history" THEN
    {<<UseOp(1, TRUE)>> \o HandleSeq(q) : q \in UNION {HistSeqs(c) : c \in {d \in Clusters : d \subseteq Shapes}}}
  ELSE \* "mw": registration order of Use and Handle, several middlewares, late Use
    LET pairs == {<<3, 4>>, <<1, 12>>, <<7, 8>>, <<6, 2>>} IN
    {mw \o <<HandleOp(1, "GET", Pool[p[1]])>> \o l1 \o <<HandleOp(2, "GET", Pool[p[2]])>> \o l2 :
        mw \in MwPrefixes(2), p \in pairs, l1 \in {<<>>, <<UseOp(8, TRUE)>>}, l2 \in {<<>>, <<UseOp(9, FALSE)>>}}

Small0 == {<<>>, Z, X, <<"x", "/", "z">>, <<"%", "4", "1">>, <<"U", "+">>}
HandlesOf(p) == SelectSeq(p, LAMBDA o : o.op = "handle")
\* assignments: one value per wildcard position; a {name} value is never empty (the generator avoids it)
NonEmptyAt(segs, a) == \A j \in 1..Len(a) : segs[VarPos(segs)[j]].k = "var" => a[j] # <<>>
FocusAssign(segs) ==
  LET nv == Len(VarPos(segs)) IN
  {a \in UNION {{[j \in 1..nv |-> IF j = f THEN v ELSE <<"%", "4", "1">>] : v \in Values(MaxLen)} : f \in 1..nv} :
      NonEmptyAt(segs, a)}
SmallAssign(segs) ==
  LET nv == Len(VarPos(segs)) IN {a \in [1..nv -> Small0] : NonEmptyAt(segs, a)}

HasWild(segs) == segs[Len(segs)].k = "wild"
\* histories: few values (the registration order is the subject), different values at different positions so that
\* a value returned under the name of another position shows
HistVals == {Z, <<"x", "/", "z">>, <<"%", "4", "1">>}
HistAssign(segs) ==
  LET nv == Len(VarPos(segs)) IN
  IF nv = 0 THEN {<<>>}
  ELSE IF nv = 1 THEN {<<v>> : v \in HistVals \cup (IF HasWild(segs) THEN {<<>>} ELSE {})}
  ELSE {<<Z, <<"%", "4", "1">>>>, <<<<"x", "/", "z">>, Z>>} \cup (IF HasWild(segs) THEN {<<X, <<>>>>} ELSE {})
EncsFor(segs, all) == {"min"} \cup (IF all THEN {"all"} ELSE {}) \cup (IF HasWild(segs) THEN {"seg"} ELSE {})
Req(m, w, acc, hid, a, enc) == [method |-> m, wire |-> w, accept |-> acc, src |-> [hid |-> hid, vals |-> a, enc |-> enc]]
Stray == {<<Lit("/"), Lit("4")>>, <<Lit("/"), Lit("x"), Lit("/")>>,
          <<Lit("/"), Lit("z"), Lit("/"), Lit("z"), Lit("/"), Lit("z"), Lit("/"), Lit("z")>>, <<Lit("/"), Lit("z")>>}
Accepts == {"", "application/json", "application/xml", "image/png"}

Requests(p) ==
  LET hs == HandlesOf(p) IN
  IF Profile = "values" THEN
    {Req("GET", Build(hs[1].segs, a, enc), "", 1, a, enc) : a \in FocusAssign(hs[1].segs), enc \in EncsFor(hs[1].segs, TRUE)}
  ELSE IF Profile = "dispatch" THEN
    UNION {{Req(m, Build(hs[i].segs, a, enc), "", hs[i].id, a, enc) : a \in SmallAssign(hs[i].segs), enc \in EncsFor(hs[i].segs, FALSE), m \in MethodSet}
           : i \in 1..Len(hs)}
    \cup {Req("GET", w, "", 0, <<>>, "-") : w \in Stray}
  ELSE IF Profile = "history" THEN
    \* every call of the history - also one that a later call replaced - is asked for under its own method
    UNION {{Req(hs[i].method, Build(hs[i].segs, a, "min"), "", hs[i].id, a, "min") : a \in HistAssign(hs[i].segs)} : i \in 1..Len(hs)}
    \cup {Req(m, w, "", 0, <<>>, "-") : w \in Stray, m \in MethodSet}
  ELSE
    UNION {{Req("GET", Build(hs[i].segs, a, "min"), "", hs[i].id, a, "min") : a \in SmallAssign(hs[i].segs)} : i \in 1..Len(hs)}
    \cup {Req(m, w, acc, 0, <<>>, "-") : w \in Stray, acc \in Accepts, m \in MethodSet}

---------------------------------------------------------------------------
VARIABLES plan, req,         \* the case: registration script and the request
          pc, ip,
          pending, flushed,  \* mux.middlewares (nil after the first Handle)
          chain,             \* middlewares installed on the chi router, outermost first
          routes,            \* registered routes
          wildtab,           \* mux.wildcards: (method, rewritten pattern) -> catch-all name
          useres,            \* outcome of every Use call
          url,               \* what net/http derived from the target
          picked,            \* the router's choice for this request (0 = none)
          prepicked,         \* what a lookup before routing finds (the same, by design)
          rctx,              \* chi routing context of the request
          depth,             \* number of middlewares entered
          obs                \* everything observable
vars == <<plan, req, pc, ip, pending, flushed, chain, routes, wildtab, useres, url, picked, prepicked, rctx, depth, obs>>
mvars == <<pc, ip, pending, flushed, chain, routes, wildtab, useres, url, picked, prepicked, rctx, depth, obs>>

EmptyCtx == [pats |-> <<>>, keys |-> <<>>, vals |-> <<>>]
EmptyObs == [order |-> <<>>, probes |-> <<>>, reached |-> 0, status |-> 0, ct |-> "-", wf |-> FALSE]
NoURL == [path |-> <<>>, rawkept |-> FALSE]

MachineInit ==
  /\ pc = "setup" /\ ip = 1 /\ pending = <<>> /\ flushed = FALSE /\ chain = <<>> /\ routes = <<>>
  /\ wildtab = {} /\ useres = <<>> /\ url = NoURL /\ picked = 0 /\ prepicked = 0 /\ rctx = EmptyCtx /\ depth = 0 /\ obs = EmptyObs

Init == /\ plan \in Plans /\ req \in Requests(plan) /\ MachineInit
\* a fresh muxer (used by the trace specification between cases)
MachineReset ==
  /\ pc' = "setup" /\ ip' = 1 /\ pending' = <<>> /\ flushed' = FALSE /\ chain' = <<>> /\ routes' = <<>>
  /\ wildtab' = {} /\ useres' = <<>> /\ url' = NoURL /\ picked' = 0 /\ prepicked' = 0 /\ rctx' = EmptyCtx
  /\ depth' = 0 /\ obs' = EmptyObs

\* ---- registration ----
DoUse(o) ==
  /\ pc = "setup" /\ o.op = "use"
  /\ IF ~flushed
     THEN pending' = Append(pending, o) /\ useres' = Append(useres, "ok")
     ELSE pending' = pending /\ useres' = Append(useres, "panic")   \* chi: middlewares must be defined before routes
  /\ ip' = ip + 1
  /\ UNCHANGED <<pc, flushed, chain, routes, wildtab, url, picked, prepicked, rctx, depth, obs>>

DoHandle(o) ==
  /\ pc = "setup" /\ o.op = "handle"
  /\ IF ~flushed THEN chain' = chain \o pending /\ pending' = <<>> /\ flushed' = TRUE   \* + NotFound handler installed
                 ELSE UNCHANGED <<chain, pending, flushed>>
  /\ LET chi == ChiPat(o.segs)
         sh == Shape(o.segs)
         \* chi: the endpoint (handler, pattern, parameter keys) of this method on the tree node of the pattern is
         \* set - replaced when the node already has one for the method
         others == SelectSeq(routes, LAMBDA r : ~(r.method = o.method /\ r.shape = sh)) IN
     /\ routes' = Append(others, [method |-> o.method, hid |-> o.id, segs |-> o.segs, chi |-> chi, shape |-> sh, keys |-> KeysOf(o.segs)])
     \* mux.wildcards[method + "::" + rewritten pattern] = name (overwritten by a later registration)
     /\ wildtab' = IF o.segs[Len(o.segs)].k = "wild"
                   THEN IF Dev("mux.rereg_keeps_first_wildcard_name") /\ \E w \in wildtab : w.method = o.method /\ w.chi = chi
                        THEN wildtab
                        ELSE {w \in wildtab : ~(w.method = o.method /\ w.chi = chi)}
                             \cup {[method |-> o.method, chi |-> chi, name |-> o.segs[Len(o.segs)].v[1]]}
                   ELSE wildtab
  /\ ip' = ip + 1
  /\ UNCHANGED <<pc, useres, url, picked, prepicked, rctx, depth, obs>>

\* ---- serving ----
RouteStr(r) == IF RawKept(r.wire) THEN r.wire ELSE AllLit(Decode(r.wire))    \* chi routes on RawPath when set
May(ts, m) == {i \in 1..Len(routes) : routes[i].method = m /\ MatchSegs(Split(ts), routes[i].segs, TRUE)}
Must(ts, m) == {i \in 1..Len(routes) : routes[i].method = m /\ MatchSegs(Split(ts), routes[i].segs, FALSE)}
Choices(ts, m) == May(ts, m) \cup (IF Must(ts, m) = {} THEN {0} ELSE {})
AnyMethodMatch(ts) == \E i \in 1..Len(routes) : MatchSegs(Split(ts), routes[i].segs, TRUE)

Parse(r) ==
  /\ pc = "parse"
  /\ url' = [path |-> Decode(r.wire), rawkept |-> RawKept(r.wire)]
  /\ picked' \in Choices(RouteStr(r), r.method)
  /\ prepicked' \in IF Dev("mux.preroute_matches_decoded_path") /\ RawKept(r.wire)
                    THEN Choices(AllLit(Decode(r.wire)), r.method) ELSE {picked'}
  /\ pc' = "chain" /\ depth' = 0 /\ rctx' = EmptyCtx
  /\ UNCHANGED <<ip, pending, flushed, chain, routes, wildtab, useres, obs>>

\* chi: append the matched pattern and parameters to a routing context
FindRoute(ctx, rt, ts, raw) ==
  LET cap == Captured(Split(ts), rt.segs) IN
  [pats |-> Append(ctx.pats, rt.chi), keys |-> ctx.keys \o rt.keys,
   vals |-> ctx.vals \o [j \in 1..Len(cap) |-> [t |-> cap[j], raw |-> raw]]]

\* chi Context.RoutePattern(): join, drop inner "/*", trim a trailing "//" then "/" (unless the result is "/").
\* A pattern text is the sequence of its segment texts: "/" = <<"">>, "" = <<>>.
RECURSIVE Flat(_)
Flat(pp) == IF pp = <<>> THEN <<>> ELSE Head(pp) \o Flat(Tail(pp))
DropInnerStars(s) == LET I == SelectSeq(Indices(s), LAMBDA i : ~(s[i] = "*" /\ i < Len(s))) IN [j \in 1..Len(I) |-> s[I[j]]]
ChiTrim(s) ==
  IF s = <<"">> THEN s ELSE
  LET a == IF Len(s) >= 2 /\ s[Len(s)] = "" /\ s[Len(s) - 1] = "" THEN SubSeq(s, 1, Len(s) - 2) ELSE s
      b == IF Len(a) >= 1 /\ a[Len(a)] = "" THEN SubSeq(a, 1, Len(a) - 1) ELSE a
  IN b
RoutePattern(ctx) == ChiTrim(DropInnerStars(Flat(ctx.pats)))
\* ResolvePattern puts the trailing slash of the registered pattern back
Registered(ctx) ==
  LET rp == RoutePattern(ctx) IN
  IF ~Dev("mux.resolve_trims_trailing_slash") /\ ctx.pats # <<>> /\ rp # <<"">>
     /\ ctx.pats[Len(ctx.pats)][Len(ctx.pats[Len(ctx.pats)])] = ""
  THEN Append(rp, "") ELSE rp

\* mux.ensureContext as called from Vars / ResolvePattern
PreStr(r) == IF Dev("mux.preroute_matches_decoded_path") THEN AllLit(url.path) ELSE RouteStr(r)
PreRaw == IF Dev("mux.preroute_matches_decoded_path") THEN FALSE ELSE url.rawkept
Ensure(r, ctx) ==
  IF RoutePattern(ctx) # <<>> THEN [ok |-> TRUE, ctx |-> ctx, after |-> ctx]
  ELSE LET c == prepicked IN
       IF c = 0 THEN [ok |-> FALSE, ctx |-> ctx, after |-> ctx]
       ELSE IF Dev("mux.probe_pollutes_context")
            THEN LET f == FindRoute(ctx, routes[c], PreStr(r), PreRaw) IN [ok |-> TRUE, ctx |-> f, after |-> f]
            ELSE [ok |-> TRUE, ctx |-> FindRoute(EmptyCtx, routes[c], PreStr(r), PreRaw), after |-> ctx]

WildEntry(m, rp) == {w \in wildtab : w.method = m /\ w.chi = rp}
Resolve(r, e) ==
  IF ~e.ok THEN <<>>
  ELSE LET rp == Registered(e.ctx)
           we == WildEntry(r.method, rp) IN
       IF we = {} THEN rp ELSE SubSeq(rp, 1, Len(rp) - 1) \o <<"{*" \o (CHOOSE w \in we : TRUE).name \o "}">>
VarsDecode(v) ==
  IF v.raw THEN Decode(v.t)
  ELSE IF Dev("mux.double_unescape") \/ url.rawkept THEN GoaUnescape(Decode(v.t)) ELSE Decode(v.t)
NoVars == [n \in {"#"} |-> <<>>]          \* the map always carries the dummy key "#" (JSON objects are never empty)
VarsOf(r, e) ==
  IF ~e.ok \/ e.ctx.keys = <<>> THEN NoVars
  ELSE LET c == e.ctx
           we == WildEntry(r.method, RoutePattern(c))
           nm(i) == IF c.keys[i] = "*" THEN (IF we = {} THEN "" ELSE (CHOOSE w \in we : TRUE).name) ELSE c.keys[i]
           names == {nm(i) : i \in 1..Len(c.keys)}
           last(n) == CHOOSE i \in 1..Len(c.keys) : nm(i) = n /\ \A j \in 1..Len(c.keys) : nm(j) = n => j <= i
       IN [n \in names \cup {"#"} |-> IF n = "#" THEN <<>> ELSE VarsDecode(c.vals[last(n)])]

ProbeRec(r, at, e) == [at |-> at, res |-> Resolve(r, e), vars |-> VarsOf(r, e)]

MwEnter(r) ==
  /\ pc = "chain" /\ depth < Len(chain)
  /\ LET mw == chain[depth + 1]
         e == Ensure(r, rctx) IN
     IF mw.probe
     THEN /\ obs' = [obs EXCEPT !.order = Append(@, <<"in", mw.id>>), !.probes = Append(@, ProbeRec(r, <<"pre", mw.id>>, e))]
          /\ rctx' = e.after
     ELSE /\ obs' = [obs EXCEPT !.order = Append(@, <<"in", mw.id>>)]
          /\ rctx' = rctx
  /\ depth' = depth + 1
  /\ UNCHANGED <<pc, ip, pending, flushed, chain, routes, wildtab, useres, url, picked, prepicked>>

Route(r) ==
  /\ pc = "chain" /\ depth = Len(chain)
  /\ IF picked # 0
     THEN /\ rctx' = FindRoute(rctx, routes[picked], RouteStr(r), url.rawkept)
          /\ pc' = "handler"
     ELSE /\ rctx' = rctx
          /\ \/ pc' = "notfound"
             \/ AnyMethodMatch(RouteStr(r)) /\ pc' = "notallowed"      \* chi answers 405; the statement does not say
  /\ UNCHANGED <<ip, pending, flushed, chain, routes, wildtab, useres, url, picked, prepicked, depth, obs>>

Handler(r) ==
  /\ pc = "handler"
  /\ LET hid == routes[picked].hid
         e == Ensure(r, rctx) IN
     /\ obs' = [obs EXCEPT !.order = Append(@, <<"h", hid>>), !.probes = Append(@, ProbeRec(r, <<"h", hid>>, e)),
                           !.reached = hid, !.status = 200]
     /\ rctx' = e.after
  /\ pc' = "unwind"
  /\ UNCHANGED <<ip, pending, flushed, chain, routes, wildtab, useres, url, picked, prepicked, depth>>

ContentType(acc) == IF acc = "application/xml" THEN "xml" ELSE "json"
NotFound(r) ==
  /\ pc = "notfound"
  /\ obs' = [obs EXCEPT !.order = Append(@, <<"nf", 0>>), !.status = 404, !.ct = ContentType(r.accept), !.wf = TRUE]
  /\ pc' = "unwind"
  /\ UNCHANGED <<ip, pending, flushed, chain, routes, wildtab, useres, url, picked, prepicked, rctx, depth>>
NotAllowed(r) ==
  /\ pc = "notallowed"
  /\ obs' = [obs EXCEPT !.order = Append(@, <<"na", 0>>), !.status = 405]
  /\ pc' = "unwind"
  /\ UNCHANGED <<ip, pending, flushed, chain, routes, wildtab, useres, url, picked, prepicked, rctx, depth>>

MwExit(r) ==
  /\ pc = "unwind" /\ depth > 0
  /\ LET mw == chain[depth]
         e == Ensure(r, rctx) IN
     IF mw.probe
     THEN /\ obs' = [obs EXCEPT !.order = Append(@, <<"out", mw.id>>), !.probes = Append(@, ProbeRec(r, <<"post", mw.id>>, e))]
          /\ rctx' = e.after
     ELSE /\ obs' = [obs EXCEPT !.order = Append(@, <<"out", mw.id>>)]
          /\ rctx' = rctx
  /\ depth' = depth - 1
  /\ UNCHANGED <<pc, ip, pending, flushed, chain, routes, wildtab, useres, url, picked, prepicked>>

Finish ==
  /\ pc = "unwind" /\ depth = 0 /\ pc' = "done"
  /\ UNCHANGED <<ip, pending, flushed, chain, routes, wildtab, useres, url, picked, prepicked, rctx, depth, obs>>

SetupDone ==
  /\ pc = "setup" /\ ip > Len(plan) /\ pc' = "parse"
  /\ UNCHANGED <<ip, pending, flushed, chain, routes, wildtab, useres, url, picked, prepicked, rctx, depth, obs>>

Next == /\ \/ (pc = "setup" /\ ip <= Len(plan) /\ (DoUse(plan[ip]) \/ DoHandle(plan[ip])))
           \/ SetupDone \/ Parse(req) \/ MwEnter(req) \/ Route(req) \/ Handler(req)
           \/ NotFound(req) \/ NotAllowed(req) \/ MwExit(req) \/ Finish
        /\ UNCHANGED <<plan, req>>
Spec == Init /\ [][Next]_vars

---------------------------------------------------------------------------
\* properties (stated on the case and the observables only)
Done == pc = "done"
Handles == HandlesOf(plan)
HandleById(h) == CHOOSE o \in {Handles[i] : i \in 1..Len(Handles)} : o.id = h
\* the registration history read by the rule "the last Handle of a (method, route) wins": the call that stands for
\* Handle call i once the whole script has run, and the calls still standing
SameRoute(a, b) == a.method = b.method /\ Shape(a.segs) = Shape(b.segs)
LastIdx(i) == CHOOSE j \in i..Len(Handles) : SameRoute(Handles[j], Handles[i]) /\ \A k \in (j + 1)..Len(Handles) : ~SameRoute(Handles[k], Handles[i])
Live == {Handles[i] : i \in {k \in 1..Len(Handles) : LastIdx(k) = k}}
Standing(h) == LET i == CHOOSE k \in 1..Len(Handles) : Handles[k].id = h IN Handles[LastIdx(i)]
\* the declarative matching set, computed on the wire form (not on what the URL parser kept)
DeclMay(m) == {o \in Live : o.method = m /\ MatchSegs(Split(req.wire), o.segs, TRUE)}
DeclMust(m) == {o \in Live : o.method = m /\ MatchSegs(Split(req.wire), o.segs, FALSE)}
DeclAny == \E i \in 1..Len(Handles) : MatchSegs(Split(req.wire), Handles[i].segs, TRUE)
AsMap(segs, a) == LET N == NamesOf(segs) IN
  [n \in {N[j] : j \in 1..Len(N)} \cup {"#"} |-> IF n = "#" THEN <<>> ELSE a[CHOOSE j \in 1..Len(N) : N[j] = n]]
Probes == {obs.probes[i] : i \in 1..Len(obs.probes)}

DispatchToMatch == Done =>
  /\ (DeclMust(req.method) # {} => obs.reached # 0)
  /\ (obs.reached # 0 => obs.reached \in {o.id : o \in DeclMay(req.method)})
\* a URL built by substituting escaped values into a pattern is routed to that pattern - to the Handle call that
\* stands for it at the end of the registration history - (when it is the only candidate) and every probe yields
\* the original values under the names of the standing call
CaptureInverse == Done /\ req.src.hid # 0 /\ req.method = HandleById(req.src.hid).method =>
  LET st == Standing(req.src.hid) IN
  /\ st \in DeclMust(req.method)
  /\ (DeclMay(req.method) = {st} =>
        /\ obs.reached = st.id
        /\ \A p \in Probes : p.vars = AsMap(st.segs, req.src.vals))
\* whatever was reached, the variables are those of its pattern (the pattern of that very Handle call, not of an
\* earlier call for the same route), decoded once from the wire
VarsConsistent == Done /\ obs.reached # 0 =>
  LET o == HandleById(obs.reached) IN
  \A p \in Probes : p.vars = AsMap(o.segs, [j \in 1..Len(VarPos(o.segs)) |-> Decode(Captured(Split(req.wire), o.segs)[j])])
NotFound404WellFormed == Done /\ DeclMay(req.method) = {} =>
  /\ obs.reached = 0
  /\ (~DeclAny => obs.status = 404)
  /\ obs.status \in {404, 405}
  /\ (obs.status = 404 => obs.wf /\ obs.ct = ContentType(req.accept))
  /\ \A p \in Probes : p.res = <<>> /\ p.vars = NoVars
ResolvedPatternEqualsRegistered == Done /\ obs.reached # 0 =>
  \A p \in Probes : p.res = GoaPat(HandleById(obs.reached).segs)
\* middlewares given to Use before the first Handle wrap the request in Use order; later ones are refused
FirstHandleIdx == CHOOSE i \in 1..Len(plan) : plan[i].op = "handle" /\ \A j \in 1..(i - 1) : plan[j].op = "use"
EarlyUses == SelectSeq(SubSeq(plan, 1, FirstHandleIdx - 1), LAMBDA o : o.op = "use")
AllUses == SelectSeq(plan, LAMBDA o : o.op = "use")
MiddlewareOrder == Done =>
  LET k == Len(EarlyUses)
      mid == IF obs.reached # 0 THEN <<"h", obs.reached>> ELSE IF obs.status = 404 THEN <<"nf", 0>> ELSE <<"na", 0>> IN
  /\ obs.order = [i \in 1..k |-> <<"in", EarlyUses[i].id>>] \o <<mid>> \o [i \in 1..k |-> <<"out", EarlyUses[k + 1 - i].id>>]
  /\ useres = [i \in 1..Len(AllUses) |-> IF i <= k THEN "ok" ELSE "panic"]
  /\ Len(obs.probes) = 2 * Cardinality({i \in 1..k : EarlyUses[i].probe}) + (IF obs.reached # 0 THEN 1 ELSE 0)
TypeOK == /\ pc \in {"setup", "parse", "chain", "handler", "notfound", "notallowed", "unwind", "done"}
          /\ depth \in 0..Len(chain)
          /\ (flushed => pending = <<>>)
          /\ (~flushed => chain = <<>> /\ routes = <<>>)
===========================================================================
