------------------------------ MODULE Canceler ------------------------------
(* Growth module next to C19 (no listed property covers it): the graceful-stop
   interceptor grpc/middleware/canceler.go, StreamCanceler.

     go func() { <-ctx.Done(); canceling = 1; cancels.Range(cancel each) }()
     interceptor:  if canceling == 1 { return Unavailable }
                   cctx, cancel := WithCancel(ss.Context())
                   cancels.Store(&cancel)
                   err := handler(srv, wrapped(cctx))     // obeys cctx
                   cancels.Delete(&cancel); cancel()

   Documented promise: once the context given to StreamCanceler is cancelled,
   (1) further streams are refused with Unavailable and (2) the context of every
   running stream is cancelled.

   Found by reading, reproduced here: a stream that passes the `canceling` check
   just before the stop signal and stores its cancel function just after the
   canceler's Range has finished is neither refused nor ever cancelled (lost
   cancellation; there is no data race, the race detector stays silent).  The
   code's behaviour is the named deviation "canceler.no_recheck_after_store";
   the design (Deviations = {}) re-reads `canceling` after the Store and cancels
   its own context, which closes the window.

   sync.Map.Range is not a snapshot: a key stored while Range runs may or may not
   be visited.  Handlers are the worst case the documentation allows: they return
   only when their context is cancelled (Patient) or, for the others, possibly on
   their own. *)
EXTENDS Integers, FiniteSets, TLC
CONSTANTS Streams,      \* stream identifiers
          Patient,      \* streams whose handler returns only when its context is cancelled
          Deviations

(* --algorithm Canceler
variables
  stopped = FALSE,            \* the context given to StreamCanceler is done
  canceling = 0,              \* atomic flag
  cancels = {},               \* keys of the sync.Map
  cancelled = {},             \* streams whose cctx has been cancelled
  outcome = [s \in Streams |-> "none"],   \* "refused" | "returned"
  rangeDone = FALSE,
  visited = {};

define
  Recheck == ~("canceler.no_recheck_after_store" \in Deviations)
  InHandler(s) == pc[s] = "Handle"
  \* safety form of promise (2): after Range is over no stream is left running uncancelled
  NoLostCancel == rangeDone => \A s \in Streams : InHandler(s) => s \in cancelled
  \* promise (1), as far as it can be promised: a stream that starts after the flag is set is refused
  RefusedOnlyWhenStopping == \A s \in Streams : outcome[s] = "refused" => stopped
  \* liveness form: once stopped, every stream eventually ends (refused or returned)
  AllSettled == \A s \in Streams : outcome[s] # "none"
  GracefulStop == stopped ~> AllSettled
end define;

fair process env = "env"
begin
  Stop: stopped := TRUE;          \* cancelFunc()
end process;

fair process canceler = "canceler"
begin
  Wait:  await stopped;                       \* <-ctx.Done()
  Flag:  canceling := 1;                      \* atomic.StoreUint32(&canceling, 1)
  Range: while (cancels \ visited) # {} do    \* cancels.Range(...)
           with key \in cancels \ visited do
             cancelled := cancelled \cup {key};
             visited := visited \cup {key};
           end with;
         end while;
         rangeDone := TRUE;
end process;

fair process stream \in Streams
begin
  Check:  if canceling = 1 then                \* atomic.LoadUint32(&canceling) == 1
            outcome[self] := "refused";
            goto Fin;
          end if;
  Store:  cancels := cancels \cup {self};      \* WithCancel + cancels.Store(&cancel, ...)
  Again:  if Recheck /\ canceling = 1 then     \* design only: look at the flag again
            cancelled := cancelled \cup {self};
          end if;
  Handle: if self \in Patient then
            await self \in cancelled;          \* handler obeys the cancellation of its context
          else
            either await self \in cancelled;
            or skip;                           \* ... or finishes on its own
            end either;
          end if;
  Delete: cancels := cancels \ {self};         \* cancels.Delete(&cancel); cancel()
          cancelled := cancelled \cup {self};
          outcome[self] := "returned";
  Fin:    skip;
end process;
end algorithm; *)
\* BEGIN TRANSLATION (chksum(pcal) = "358baafc" /\ chksum(tla) = "bd9be18f")
VARIABLES pc, stopped, canceling, cancels, cancelled, outcome, rangeDone, 
          visited

(* define statement *)
Recheck == ~("canceler.no_recheck_after_store" \in Deviations)
InHandler(s) == pc[s] = "Handle"

NoLostCancel == rangeDone => \A s \in Streams : InHandler(s) => s \in cancelled

RefusedOnlyWhenStopping == \A s \in Streams : outcome[s] = "refused" => stopped

AllSettled == \A s \in Streams : outcome[s] # "none"
GracefulStop == stopped ~> AllSettled


vars == << pc, stopped, canceling, cancels, cancelled, outcome, rangeDone, 
           visited >>

ProcSet == {"env"} \cup {"canceler"} \cup (Streams)

Init == (* Global variables *)
        /\ stopped = FALSE
        /\ canceling = 0
        /\ cancels = {}
        /\ cancelled = {}
        /\ outcome = [s \in Streams |-> "none"]
        /\ rangeDone = FALSE
        /\ visited = {}
        /\ pc = [self \in ProcSet |-> CASE self = "env" -> "Stop"
                                        [] self = "canceler" -> "Wait"
                                        [] self \in Streams -> "Check"]

Stop == /\ pc["env"] = "Stop"
        /\ stopped' = TRUE
        /\ pc' = [pc EXCEPT !["env"] = "Done"]
        /\ UNCHANGED << canceling, cancels, cancelled, outcome, rangeDone, 
                        visited >>

env == Stop

Wait == /\ pc["canceler"] = "Wait"
        /\ stopped
        /\ pc' = [pc EXCEPT !["canceler"] = "Flag"]
        /\ UNCHANGED << stopped, canceling, cancels, cancelled, outcome, 
                        rangeDone, visited >>

Flag == /\ pc["canceler"] = "Flag"
        /\ canceling' = 1
        /\ pc' = [pc EXCEPT !["canceler"] = "Range"]
        /\ UNCHANGED << stopped, cancels, cancelled, outcome, rangeDone, 
                        visited >>

Range == /\ pc["canceler"] = "Range"
         /\ IF (cancels \ visited) # {}
               THEN /\ \E key \in cancels \ visited:
                         /\ cancelled' = (cancelled \cup {key})
                         /\ visited' = (visited \cup {key})
                    /\ pc' = [pc EXCEPT !["canceler"] = "Range"]
                    /\ UNCHANGED rangeDone
               ELSE /\ rangeDone' = TRUE
                    /\ pc' = [pc EXCEPT !["canceler"] = "Done"]
                    /\ UNCHANGED << cancelled, visited >>
         /\ UNCHANGED << stopped, canceling, cancels, outcome >>

canceler == Wait \/ Flag \/ Range

Check(self) == /\ pc[self] = "Check"
               /\ IF canceling = 1
                     THEN /\ outcome' = [outcome EXCEPT ![self] = "refused"]
                          /\ pc' = [pc EXCEPT ![self] = "Fin"]
                     ELSE /\ pc' = [pc EXCEPT ![self] = "Store"]
                          /\ UNCHANGED outcome
               /\ UNCHANGED << stopped, canceling, cancels, cancelled, 
                               rangeDone, visited >>

Store(self) == /\ pc[self] = "Store"
               /\ cancels' = (cancels \cup {self})
               /\ pc' = [pc EXCEPT ![self] = "Again"]
               /\ UNCHANGED << stopped, canceling, cancelled, outcome, 
                               rangeDone, visited >>

Again(self) == /\ pc[self] = "Again"
               /\ IF Recheck /\ canceling = 1
                     THEN /\ cancelled' = (cancelled \cup {self})
                     ELSE /\ TRUE
                          /\ UNCHANGED cancelled
               /\ pc' = [pc EXCEPT ![self] = "Handle"]
               /\ UNCHANGED << stopped, canceling, cancels, outcome, rangeDone, 
                               visited >>

Handle(self) == /\ pc[self] = "Handle"
                /\ IF self \in Patient
                      THEN /\ self \in cancelled
                      ELSE /\ \/ /\ self \in cancelled
                              \/ /\ TRUE
                /\ pc' = [pc EXCEPT ![self] = "Delete"]
                /\ UNCHANGED << stopped, canceling, cancels, cancelled, 
                                outcome, rangeDone, visited >>

Delete(self) == /\ pc[self] = "Delete"
                /\ cancels' = cancels \ {self}
                /\ cancelled' = (cancelled \cup {self})
                /\ outcome' = [outcome EXCEPT ![self] = "returned"]
                /\ pc' = [pc EXCEPT ![self] = "Fin"]
                /\ UNCHANGED << stopped, canceling, rangeDone, visited >>

Fin(self) == /\ pc[self] = "Fin"
             /\ TRUE
             /\ pc' = [pc EXCEPT ![self] = "Done"]
             /\ UNCHANGED << stopped, canceling, cancels, cancelled, outcome, 
                             rangeDone, visited >>

stream(self) == Check(self) \/ Store(self) \/ Again(self) \/ Handle(self)
                   \/ Delete(self) \/ Fin(self)

(* Allow infinite stuttering to prevent deadlock on termination. *)
Terminating == /\ \A self \in ProcSet: pc[self] = "Done"
               /\ UNCHANGED vars

Next == env \/ canceler
           \/ (\E self \in Streams: stream(self))
           \/ Terminating

Spec == /\ Init /\ [][Next]_vars
        /\ WF_vars(env)
        /\ WF_vars(canceler)
        /\ \A self \in Streams : WF_vars(stream(self))

Termination == <>(\A self \in ProcSet: pc[self] = "Done")

\* END TRANSLATION 
=============================================================================
