---------------------------- MODULE Negotiation ----------------------------
(* Content negotiation of goa's HTTP transport (property C15): which encoder
   http.ResponseEncoder picks for a response, which Content-Type header
   http.SetContentType leaves on the response, what http.ResponseDecoder makes
   of that header, and the request side (http.RequestEncoder /
   http.RequestDecoder / unsupported media type -> 415).

   One action per step of the code:

     response:  ChooseEncoder -> SetContentType -> Encode -> ChooseDecoder -> Decode
     request :  SendRequest   -> ChooseRequestDecoder -> DecodeRequest -> EncodeError

   Media type strings are real strings ("application/vnd.x+xml; charset=utf-8").
   TLA+ cannot look inside a string, so everything the code learns about a
   string from the Go standard library is an *environment fact* held in `facts`:

     [s    |-> the string,
      ok   |-> mime.ParseMediaType(s) returned no error,
      mt   |-> the media type mime.ParseMediaType(s) returned (also set when
               only a parameter is malformed),
      eff  |-> what goa's decoders look at: mt if ok, else s itself,
      suf  |-> the part of eff from its last "+" on ("" when there is none),
      plus |-> s contains a "+" somewhere]

   `facts` maps a string to its record.  In model checking it is a hard-coded
   table (MC_Negotiation.tla) that the driver re-checks against the standard
   library at run time; in trace validation the facts of the strings of each case
   are logged by the driver (computed with the standard library only, never with
   goa).

   Formats are "json", "xml", "gob", "text"; an encoder may also be "nil" (a
   departure, see Deviations) and a request decoder "unsupported".

   Design decisions where the property statement is silent are taken from the
   documentation comments of http/encoding.go:
   - an Accept value is *recognised* when it is, possibly after
     mime.ParseMediaType normalisation, one of the five supported types; lists,
     wildcards and suffixed types are not recognised and fall back to JSON;
   - a designed content type selects by exact type or structured suffix (+json,
     +xml, +gob, +html, +txt), everything else is JSON;
   - a Content-Type header already present on the response is kept whenever the
     result still announces the format of the body. *)
EXTENDS Integers, Sequences, FiniteSets, TLC

CONSTANTS Deviations,
          Tolerated     \* deviations that may or may not show (trace validation of code with known findings)
(* Named departures of the code from the design:
   "encoder.nil_on_unparseable_designed_type"  ResponseEncoder returns a nil encoder when the designed
                                               content type does not parse (design: JSON)
   "setct.preset_suffix_kept"                  SetContentType keeps any pre-set header containing "+"
                                               even when it announces another format than the body
   "setct.suffix_appended_after_parameters"    SetContentType appends "+json"/"+xml" to the raw pre-set
                                               header, i.e. behind its parameters, where no decoder sees it
   "reqdec.unsupported_defaults_to_json"       RequestDecoder decodes unsupported media types as JSON (what
                                               its documentation comment says; the statement demands 415) *)
AllDeviations == {"encoder.nil_on_unparseable_designed_type", "setct.preset_suffix_kept",
                  "setct.suffix_appended_after_parameters", "reqdec.unsupported_defaults_to_json"}
\* the ways a deviation may show in a step: it does (listed in Deviations), it does not, or either (Tolerated)
On(d) == IF d \in Deviations THEN {TRUE} ELSE IF d \in Tolerated THEN {TRUE, FALSE} ELSE {FALSE}

JSON  == "application/json"
XML   == "application/xml"
GOB   == "application/gob"
HTML  == "text/html"
PLAIN == "text/plain"
Supported == {JSON, XML, GOB, HTML, PLAIN}
Formats == {"json", "xml", "gob", "text"}
Kinds == {"struct", "string", "bytes", "strptr", "errresp"}
FormatOfType(t) == IF t = JSON THEN "json" ELSE IF t = XML THEN "xml" ELSE IF t = GOB THEN "gob" ELSE "text"

VARIABLES
  mode,     \* "response" | "request"
  facts,    \* environment: what the standard library says about the strings of this case
  accP,     \* response: the context carries an AcceptTypeKey value
  acc,      \*           the Accept value ("" = header missing)
  des,      \*           content type fixed in the design ("" = none, no ContentTypeKey)
  pre,      \*           Content-Type already on the ResponseWriter ("" = none)
  kind,     \* kind of value encoded
  rct,      \* request : Content-Type header of the request before encoding ("" = none)
  sender,   \*           "goa" = body written by http.RequestEncoder, "std" = by some other client
  sfmt,     \*           the format that other client writes ("json" for goa's encoder)
  pc,
  enc,      \* format of the chosen response encoder, or "nil"
  mt,       \* MIME type handed to SetContentType
  header,   \* Content-Type header on the wire (response, or request after encoding)
  body,     \* format of the bytes actually written, "none" when nothing was encoded
  dec,      \* format of the decoder chosen from the header, or "unsupported"
  rt,       \* "equal" | "not_equal" | "error" | "none": decoded value against the original
  status    \* status of the error response (0 = no error response)
cfgvars == <<mode, facts, accP, acc, des, pre, kind, rct, sender, sfmt>>
vars == <<cfgvars, pc, enc, mt, header, body, dec, rt, status>>

---------------------------------------------------------------------------
\* environment facts
HasFact(s) == s \in DOMAIN facts
F(s) == IF HasFact(s) THEN facts[s] ELSE Assert(FALSE, <<"no environment fact for string", s>>)
\* a set of fact records as the function string -> record held in `facts`
FactFunction(S) == [s \in {f.s : f \in S} |-> CHOOSE f \in S : f.s = s]

\* the selection rule shared by ResponseEncoder (designed type) and ResponseDecoder
BySuffix(t, suf) ==
  IF t = JSON \/ suf = "+json" THEN "json"
  ELSE IF t = XML \/ suf = "+xml" THEN "xml"
  ELSE IF t = GOB \/ suf = "+gob" THEN "gob"
  ELSE IF t \in {HTML, PLAIN} \/ suf \in {"+html", "+txt"} THEN "text"
  ELSE "json"
\* the format the library's response decoder reads under a Content-Type header
DecFormat(h) == IF h = "" THEN "json" ELSE BySuffix(F(h).eff, F(h).suf)

\* stdlib/goa encoders: what can be written at all
CanEncode(f, k) == /\ ~(f = "text" /\ k \in {"struct", "errresp"})     \* goa's text encoder: strings and bytes only
                   /\ ~(f = "xml" /\ k = "bytes")                       \* encoding/xml: unsupported type []uint8

---------------------------------------------------------------------------
\* response side
Negotiate(a) ==
  IF a = "" \/ a = JSON THEN <<"json", JSON>>
  ELSE IF a = XML THEN <<"xml", XML>>
  ELSE IF a = GOB THEN <<"gob", GOB>>
  ELSE IF a \in {HTML, PLAIN} THEN <<"text", a>>
  ELSE <<"nil", "">>

ChooseEncoder ==
  /\ pc = "start" /\ mode = "response"
  /\ IF des # ""
     THEN \* content type fixed in the design: Accept is ignored
          LET f == F(des) IN
          IF f.ok THEN enc' = BySuffix(f.mt, f.suf) /\ mt' = f.mt
          ELSE \E nilenc \in On("encoder.nil_on_unparseable_designed_type") :
                 IF nilenc THEN enc' = "nil" /\ mt' = f.mt
                           ELSE enc' = "json" /\ mt' = JSON
     ELSE LET a  == IF accP THEN acc ELSE ""
              n1 == Negotiate(a)
              n2 == IF n1[1] = "nil" /\ F(a).ok THEN Negotiate(F(a).mt) ELSE n1     \* "attempt to normalize"
              n3 == IF n2[1] = "nil" THEN Negotiate("") ELSE n2                      \* default to JSON
          IN enc' = n3[1] /\ mt' = n3[2]
  /\ pc' = "chosen"
  /\ UNCHANGED <<cfgvars, header, body, dec, rt, status>>

\* http.SetContentType(w, ct) with header h already on w; keep / behind: whether the two departures show
SetCT(h, ct, keep, behind) ==
  IF h = "" THEN ct
  ELSE IF ct \notin {JSON, XML} THEN ct
  ELSE LET sfx == IF ct = XML THEN "+xml" ELSE "+json"
           fmt == FormatOfType(ct)
       IN IF F(h).plus
          THEN IF keep \/ DecFormat(h) = fmt THEN h ELSE ct
          ELSE IF behind \/ DecFormat(h \o sfx) = fmt
               THEN h \o sfx ELSE ct

SetContentType ==
  /\ pc = "chosen"
  /\ \E keep \in On("setct.preset_suffix_kept"), behind \in On("setct.suffix_appended_after_parameters") :
        header' = SetCT(pre, mt, keep, behind)
  /\ pc' = "header"
  /\ UNCHANGED <<cfgvars, enc, mt, body, dec, rt, status>>

WillEncode == enc # "nil" /\ CanEncode(enc, kind)
Encode ==
  /\ pc = "header"
  /\ body' = IF WillEncode THEN enc ELSE "none"
  /\ pc' = "encoded"
  /\ UNCHANGED <<cfgvars, enc, mt, header, dec, rt, status>>

ChooseDecoder ==
  /\ pc = "encoded"
  /\ dec' = DecFormat(header)
  /\ pc' = "decided"
  /\ UNCHANGED <<cfgvars, enc, mt, header, body, rt, status>>

Decode ==
  /\ pc = "decided"
  /\ rt' = IF body = "none" THEN "none" ELSE IF dec = body THEN "equal" ELSE "not_equal"
  /\ pc' = "done"
  /\ UNCHANGED <<cfgvars, enc, mt, header, body, dec, status>>

---------------------------------------------------------------------------
\* request side
\* an honest client writes what its Content-Type header announces (JSON when it announces nothing known)
SenderFormat(h) == DecFormat(h)

SendRequest ==
  /\ pc = "start" /\ mode = "request"
  /\ IF sender = "goa"
     THEN header' = (IF rct = "" THEN JSON ELSE rct) /\ body' = "json"      \* http.RequestEncoder: always JSON
     ELSE header' = rct /\ body' = sfmt
  /\ pc' = "sent"
  /\ UNCHANGED <<cfgvars, enc, mt, dec, rt, status>>

ReqType(h) == IF h = "" THEN JSON ELSE F(h).eff
HasKnownSuffix(h) == h # "" /\ F(h).ok /\ F(h).suf \in {"+json", "+xml", "+gob", "+html", "+txt"}
ReqSupported(h) == ReqType(h) \in Supported

ChooseRequestDecoder ==
  /\ pc = "sent"
  /\ \/ ReqSupported(header) /\ dec' = FormatOfType(ReqType(header))
     \/ /\ ~ReqSupported(header)
        /\ \E asjson \in On("reqdec.unsupported_defaults_to_json") : dec' = (IF asjson THEN "json" ELSE "unsupported")
        \* the statement does not say whether a structured suffix makes a type "supported" for requests
        \* (it does for responses): both answers are allowed, decoding as anything else is not
     \/ ~ReqSupported(header) /\ HasKnownSuffix(header) /\ dec' = BySuffix(F(header).eff, F(header).suf)
  /\ pc' = "reqdec"
  /\ UNCHANGED <<cfgvars, enc, mt, header, body, rt, status>>

DecodeRequest ==
  /\ pc = "reqdec"
  /\ IF dec = "unsupported" THEN rt' = "error"
     ELSE IF dec = body THEN rt' = "equal"
     ELSE rt' \in {"error", "not_equal"}       \* a decoder fed another format fails or yields another value
  /\ pc' = "decoded"
  /\ UNCHANGED <<cfgvars, enc, mt, header, body, dec, status>>

\* http.ErrorEncoder(ResponseEncoder, nil) on the error returned by Decode
EncodeError ==
  /\ pc = "decoded"
  /\ status' = IF rt # "error" THEN 0 ELSE IF dec = "unsupported" THEN 415 ELSE 500
  /\ pc' = "done"
  /\ UNCHANGED <<cfgvars, enc, mt, header, body, dec, rt>>

Next == ChooseEncoder \/ SetContentType \/ Encode \/ ChooseDecoder \/ Decode
        \/ SendRequest \/ ChooseRequestDecoder \/ DecodeRequest \/ EncodeError

\* idle values of the computed variables
Idle == /\ pc = "start" /\ enc = "none" /\ mt = "" /\ header = "" /\ body = "none"
        /\ dec = "none" /\ rt = "none" /\ status = 0

\* the envelope of request cases: the sender can produce its format at all.  goa's own request encoder
\* writes JSON under whatever Content-Type the request already carries (it is JSON-only by its
\* documentation); under a header announcing another format it is one more client that mislabels its
\* body, about which the property claims nothing (see Honest).
RequestEnvelope == IF sender = "goa" THEN sfmt = "json" ELSE CanEncode(sfmt, kind)
Honest == mode = "request" /\ pc # "start" /\ body = SenderFormat(header)

---------------------------------------------------------------------------
\* what a test can observe at the end of a case (which decoder the header selects matters only when
\* a body was written)
Obs == IF mode = "response"
       THEN [encnil |-> enc = "nil", body |-> body, dec |-> IF body = "none" THEN "none" ELSE dec, rt |-> rt]
       ELSE [body |-> body, rt |-> rt, status |-> status]

---------------------------------------------------------------------------
\* properties
TypeOK ==
  /\ mode \in {"response", "request"} /\ kind \in Kinds
  /\ enc \in Formats \cup {"nil", "none"} /\ body \in Formats \cup {"none"}
  /\ dec \in Formats \cup {"unsupported", "none"}
  /\ rt \in {"equal", "not_equal", "error", "none"} /\ status \in {0, 415, 500}
  /\ sender \in {"goa", "std", ""} /\ sfmt \in Formats \cup {""}

Chosen == mode = "response" /\ pc # "start"
Decided == mode = "response" /\ pc \in {"decided", "done"}

\* ResponseEncoder always returns an encoder
EncoderNeverNil == Chosen => enc \in Formats

\* the bytes written are in the format the Content-Type header announces (as the library's own
\* response decoder reads that header); for requests: a decoder that decodes reads the format sent
FormatAgrees ==
  /\ Decided /\ body # "none" => dec = body
  /\ Honest /\ pc \in {"reqdec", "decoded", "done"} /\ dec # "unsupported" => dec = body

\* the decoder recovers the original value
RoundTrip ==
  /\ mode = "response" /\ pc = "done" /\ body # "none" => rt = "equal"
  /\ Honest /\ pc = "done" /\ dec # "unsupported" => rt = "equal"

\* missing or unrecognised preferences fall back to JSON
AcceptRecognised == accP /\ acc # "" /\ (acc \in Supported \/ (F(acc).ok /\ F(acc).mt \in Supported))
DesignedRecognised == des # "" /\ F(des).ok
                      /\ (F(des).mt \in Supported \/ F(des).suf \in {"+json", "+xml", "+gob", "+html", "+txt"})
FallbackJSON ==
  /\ Chosen /\ des = "" /\ ~AcceptRecognised => enc = "json" /\ mt = JSON
  /\ Chosen /\ des # "" /\ ~DesignedRecognised => enc = "json"
  /\ Chosen /\ des = "" /\ AcceptRecognised => enc = FormatOfType(IF acc \in Supported THEN acc ELSE F(acc).mt)
  /\ Decided /\ ~(IF des = "" THEN AcceptRecognised ELSE DesignedRecognised) /\ body # "none" => body = "json" /\ dec = "json"

\* a request whose media type is not supported is answered with 415, never decoded as something else
Unsupported415 ==
  mode = "request" /\ pc = "done" =>
    /\ (~ReqSupported(header) /\ ~HasKnownSuffix(header)) => (dec = "unsupported" /\ rt = "error" /\ status = 415)
    /\ (~ReqSupported(header) /\ HasKnownSuffix(header)) => dec \in {"unsupported", BySuffix(F(header).eff, F(header).suf)}
    /\ dec = "unsupported" => (rt = "error" /\ status = 415)
    /\ status = 415 => dec = "unsupported"
    /\ (ReqSupported(header) /\ Honest) => (rt = "equal" /\ status = 0)
===========================================================================
