---------------------------- MODULE HTTPTransport ----------------------------
(* The HTTP request/response pipeline of goa-generated code for ONE method:

     caller -> [generated client: build path, encode query/header/cookie/body]
            -> wire request
            -> [generated server: route, decode body, decode params, validate]
            -> service method  (user code)
            -> [generated server: select response, encode headers/cookies/body]
            -> wire response
            -> [generated client: switch on status, decode, validate] -> caller

   cfg.pa / cfg.ra are the payload / result attribute shapes (lib/Values.tla); pv / rv the abstract
   values the caller / the service method supplied.  Each side has a *mechanism* (what the generated
   code does, with named deviations for what the real code is known to do differently) and an
   *oracle* (what the design promises, lib/Values.tla).  Properties C02 C03 C04 relate the two. *)
EXTENDS Values, TLC

CONSTANTS Deviations,
          NPA,          \* number of payload attributes
          NRA,          \* number of result attributes
          Family        \* which part of the envelope Init enumerates

PIdx == 1..NPA
PIdxOf(q) == 1..Len(q)
RIdx == 1..NRA

VARIABLES cfg,        \* [pa: Seq(Attr), ra: Seq(Attr), tagged: BOOLEAN, devs: SUBSET STRING]
          pv,         \* payload values as the caller set them
          rv,         \* result values as the service method returns them
          pc,
          wire,       \* request on the wire: per payload attribute [loc, v]
          delivered,  \* payload as received by the service method
          invoked,
          status,     \* HTTP status class: 0 (none yet), 200, 201 (tagged response), 400, 404, 500 (the decoder crashed: only under a deviation)
          errname,    \* error name in a 4xx answer
          rwire,      \* response on the wire: per result attribute [loc, v]
          returned,   \* result as seen by the client caller
          cerr        \* client-side outcome: "none" | "result" | "validation" | "remote"
vars == <<cfg, pv, rv, pc, wire, delivered, invoked, status, errname, rwire, returned, cerr>>

---------------------------------------------------------------------------
\* the oracle: what the design promises
\* nil and empty lists / maps / byte strings are the same "nothing there" (a query string or a header cannot
\* even express the difference)
ContainerNests == {"elem", "mapkey", "mapval", "mapval_elem", "mapparams", "alias_elem", "alias_mapval", "elem_nested", "mapval_nested", "mapkey_alias", "whole_elem", "whole_mapval"}
Emptyish(a, v) == v # Absent /\ ((a.nest \in ContainerNests /\ v.cn = 0) \/ (a.kind = "bytes" /\ v.n = 0))
\* (for a required list the generated client sends [] when the caller left it nil: either reading is allowed;
\* an optional list that is left unset is simply not there, and constraints apply to present values only)
\* the zero value of a defaulted (non-pointer) field is indistinguishable from "unset" for the caller: either
\* reading is allowed
IsContainer(a) == a.nest \in ContainerNests \/ a.kind = "bytes"
EmptyOf(a) == IF a.kind = "bytes" THEN V("bytes", 0, "plain", 1) ELSE V(a.kind, 3, "plain", 0)
\* A Default on a list / map attribute (bodies): an attribute the caller left unset (nil) arrives as the default, like any other
\* defaulted attribute.  A collection the caller set to EMPTY on purpose is something else: the property statement only knows
\* "unset", and nil / empty are the same "nothing there" (above), so it may arrive empty or nil - but not as the non-empty
\* default: that is a value the caller did not send ("none is ... retyped or swapped"), and a JSON body can carry the
\* difference between [] and nothing (so the empty collection must be ON the wire: if it is left out, the receiver cannot but
\* inject the default).  The same holds for results.  Whether an explicitly empty collection counts as present for the
\* validations (MinLength) is not said: both readings (empty -> checked, nil -> nothing to check) are allowed, as for every
\* other empty collection.  The zero-value-or-default latitude of scalars does not apply: [0] is not the zero value of a list.
\* Outside a body (a list in a query string or a header, with a Default) the empty list cannot be written at all: it is not on the
\* wire, the receiver sees "unset" and may fill the default in - all three readings (empty, nil, default) are allowed there.
\* The zero value of a defaulted scalar (a non-pointer field: zero IS "the caller left it unset") in a BODY arrives as the
\* default: the statement promises the default for what was left unset, and the body encoders of the generated code know which
\* attributes carry one - wherever it is declared (attribute, alias type, both).  Outside bodies the generated encoders send the
\* zero as it is for every kind; there the older latitude (zero or default) stays.
ZeroScalar(a, v) == IsZero(v) /\ ~IsContainer(a)
AllowedDelivered(a, v) ==
  IF v = Absent THEN (IF HasDefault(a) THEN {DefaultOf(a)} ELSE IF IsContainer(a) /\ a.mode = "required" THEN {Absent, EmptyOf(a)} ELSE {Absent})
  ELSE IF Emptyish(a, v) THEN {v, Absent} \cup (IF HasDefault(a) /\ a.loc # "body" THEN {DefaultOf(a)} ELSE {})
  ELSE IF HasDefault(a) /\ ZeroScalar(a, v) THEN (IF a.loc = "body" THEN {DefaultOf(a)} ELSE {v, DefaultOf(a)})
  ELSE {v}
\* where the attribute may be seen on the wire
AllowedWhere(a, v) ==
  IF v = Absent THEN (IF HasDefault(a) \/ IsContainer(a) THEN {a.loc, "none"} ELSE {"none"})
  ELSE IF Emptyish(a, v) THEN (IF HasDefault(a) /\ a.loc = "body" THEN {a.loc} ELSE {a.loc, "none"})
  ELSE IF HasDefault(a) /\ ZeroScalar(a, v) THEN {a.loc, "none"}
  ELSE {a.loc}
\* a payload surely satisfies the design when every allowed reading of every attribute is valid
Satisfies(as, vs) == \A i \in DOMAIN as : \A d \in AllowedDelivered(as[i], vs[i]) : ValidAttr(as[i], d)
\* and it certainly violates it when every allowed reading of some attribute is invalid
Violates(as, vs) == \E i \in DOMAIN as : \A d \in AllowedDelivered(as[i], vs[i]) : ~ValidAttr(as[i], d)
\* names a rejection may carry: the violation of any attribute under any of its allowed readings
ViolationNames(as, vs) == UNION {{ViolationOf(as[i], d) : d \in {e \in AllowedDelivered(as[i], vs[i]) : ~ValidAttr(as[i], e)}} : i \in DOMAIN as}

---------------------------------------------------------------------------
\* the mechanism: what the generated code does.  Named deviations = what the real code is known to do
\* differently from the design (each one is a recorded finding, see known_findings.txt):
\*   param.empty_string_is_absent   an empty string in a query / header / cookie is read as "not there"
\*   cookie.value_sanitized         cookie values are not encoded: net/http drops bytes outside the cookie-octet set
\*   client.path_not_escaped        the client does not escape path values: '/' splits the segment
\*   mux.double_unescape            the muxer unescapes an already decoded path: "%41" arrives as "A"
\*   validate.absent_collection_length   MinLength of an optional list / map is applied to the unset (nil) value
\*   response.header_array_joined   the server writes a list-valued response header as one "a, b" line, the
\*                                  client reads one value per line: lists of two or more elements do not survive
\*   decode.mapparams_prefix_expected   MapParams() with a map payload: the client writes key=value, the server decoder only
\*                                  reads keys of the form query[key]: the map arrives empty
\*   validate.map_value_required_unchecked   a map whose values are a user type with nothing but Required(..) on primitive
\*                                  attributes: the values are not validated; an entry lacking the attribute is dereferenced
\*                                  when the transport type is converted (the decoder crashes instead of answering 400)
Dev(d) == d \in cfg.devs       \* the enabled deviations travel with the case (Explain_HTTPTransport varies them per case)

\* what the client puts on the wire for one attribute
ClientWire(a, v) ==
  IF v = Absent THEN [loc |-> "none", v |-> Absent]
  ELSE [loc |-> a.loc, v |-> v]

\* the zero value of a defaulted attribute is not told from "unset" by the encoders: it travels as it is, is
\* replaced by the default (bodies) or is left out (the decoder then fills the default in) - the code does one
\* or the other depending on the location and the type; all three are within the oracle
\* a required list / map / byte string left unset is sent empty by some encoders (bodies), not at all by others
WireChoices(a, v) ==
  IF v # Absent /\ HasDefault(a) /\ ZeroScalar(a, v)
  THEN (IF a.loc = "body" THEN {} ELSE {ClientWire(a, v)}) \cup {ClientWire(a, DefaultOf(a)), [loc |-> "none", v |-> Absent]}
  \* a defaulted list / map left unset: the encoder writes the default into the body (request: client body init, response:
  \* server body init), or leaves it out and the decoder fills it in; set to empty it travels as it is ([] / {})
  ELSE IF v = Absent /\ HasDefault(a) /\ IsContainer(a)
  THEN {ClientWire(a, DefaultOf(a)), [loc |-> "none", v |-> Absent]}
  ELSE IF v = Absent /\ a.mode = "required" /\ IsContainer(a)
  THEN {ClientWire(a, v), [loc |-> a.loc, v |-> EmptyOf(a)]}
  ELSE {ClientWire(a, v)}
WiresOf(as, vs) == {w \in [DOMAIN as -> UNION {WireChoices(as[i], vs[i]) : i \in DOMAIN as}] : \A i \in DOMAIN as : w[i] \in WireChoices(as[i], vs[i])}

\* what travels: a cookie value loses the bytes HTTP cookies cannot carry
Carried(a, v) ==
  IF a.loc = "cookie" /\ a.kind = "string" /\ v.s = "uni" /\ Dev("cookie.value_sanitized")
  THEN (IF v.n = 1 THEN V("string", 0, "empty", v.cn) ELSE [v EXCEPT !.s = "plain", !.n = v.n - 1])
  ELSE IF a.loc = "cookie" /\ a.kind = "bytes" /\ v.s = "uni" /\ Dev("cookie.value_sanitized")        \* (Bytes: n counts bytes, two are dropped)
  THEN [v EXCEPT !.s = "plain", !.n = v.n - 2]
  ELSE v

\* what the server reads back for one attribute from its location
\* (side: who reads - the generated server takes the value of a REQUIRED plain (or alias-typed) string request cookie as it is, empty or not:
\*  `c, err = r.Cookie(..); if err == http.ErrNoCookie {missing} else {v = c.Value}`; every other reader tests the text against "")
ReadBackAt(a, w, side) ==
  LET dflt == IF HasDefault(a) THEN DefaultOf(a) ELSE Absent
      c == IF w.loc = "none" THEN Absent ELSE Carried(a, w.v) IN
  IF w.loc = "none" THEN dflt
  ELSE IF HasDefault(a) /\ a.loc # "body" /\ a.nest \in ContainerNests /\ c.cn = 0 THEN dflt      \* (an empty list parameter is no parameter)
  ELSE IF a.nest = "whole_mapval" /\ a.loc = "query" /\ Dev("decode.mapparams_prefix_expected") THEN EmptyOf(a)
  ELSE IF a.loc = "body" THEN c
  ELSE IF a.kind = "string" /\ a.nest \in {"direct", "alias", "whole"} /\ c.s = "empty" /\ Dev("param.empty_string_is_absent")
          /\ ~(side = "server" /\ a.loc = "cookie" /\ a.mode = "required" /\ a.nest \in {"direct", "alias"}) THEN dflt
  ELSE IF a.kind = "bytes" /\ c.n = 0 /\ Dev("param.empty_string_is_absent") THEN dflt           \* (the same test on the raw text)
  ELSE IF a.loc = "path" /\ a.kind \in {"string", "bytes"} /\ c.s = "pcthex" /\ Dev("mux.double_unescape")
       THEN [c EXCEPT !.s = "plain", !.n = c.n - 2]
  ELSE c
ReadBack(a, w) == ReadBackAt(a, w, "client")

Routed == \A i \in PIdx : ~(cfg.pa[i].loc = "path" /\ cfg.pa[i].kind \in {"string", "bytes"} /\ wire[i].v # Absent
                            /\ wire[i].v.s = "slash" /\ Dev("client.path_not_escaped"))

\* validation as the server performs it
\*   validate.exclusive_max_unchecked   with both ExclusiveMinimum and ExclusiveMaximum only the minimum is checked
RequiredUnchecked(a, d) == d # Absent /\ d.s = "nofield" /\ a.nest = "mapval_nested" /\ a.rule = "none" /\ Dev("validate.map_value_required_unchecked")
\* (validate.absent_collection_length: MinLength of an optional nil-able value - a list, a map, or Bytes carried as the raw
\*  text of a parameter / header / cookie - is applied to the unset value)
NilLengthChecked(a) == a.mode = "optional" /\ (a.rule = "cminlen" \/ (a.kind = "bytes" /\ a.loc # "body" /\ a.rule \in {"minlen", "lenrange"}))
ServerValid(a, d) ==
  IF d = Absent /\ NilLengthChecked(a) /\ Dev("validate.absent_collection_length") THEN FALSE
  ELSE IF RequiredUnchecked(a, d) THEN TRUE
  ELSE IF d # Absent /\ a.rule = "xrange" /\ Dev("validate.exclusive_max_unchecked") THEN Num2(d) > 2 * Lo
  ELSE ValidAttr(a, d)
\*   decode.required_cookie_drops_param_errors   decoding a required cookie overwrites the error accumulated while
\*                                  decoding and validating path / query / header parameters
CookieDropsErrorsOf(i) ==
  /\ Dev("decode.required_cookie_drops_param_errors")
  /\ \E j \in PIdxOf(cfg.pa) : /\ cfg.pa[j].loc = "cookie" /\ cfg.pa[j].mode = "required" /\ wire[j].loc # "none"
                               /\ (cfg.pa[i].loc \in {"path", "query", "header"} \/ (cfg.pa[i].loc = "cookie" /\ j > i))   \* decoded after i
ServerViolation(a, d) ==
  IF d = Absent /\ NilLengthChecked(a) THEN "invalid_length" ELSE ViolationOf(a, d)

---------------------------------------------------------------------------
\* The case (attribute shapes and values) is picked one attribute at a time, so that simulation can
\* sample multi-attribute methods without enumerating the whole product as initial states.
FixedAttr == Attr("int", "body", "required", "none", "direct")
FixedVal == V("int", 3, "plain", 1)
ResAttrOK(a) == a.loc \in {"header", "cookie", "body"} /\ (a.nest \in Whole => a.loc = "body")     \* result attributes travel in header, cookie or body only
Init ==
  /\ cfg = [pa |-> <<>>, ra |-> <<>>, tagged |-> FALSE, tags |-> 0, devs |-> Deviations] /\ pv = <<>> /\ rv = <<>>
  /\ pc = "pick" /\ wire = <<>> /\ delivered = <<>> /\ invoked = FALSE /\ status = 0 /\ errname = "none"
  /\ rwire = <<>> /\ returned = <<>> /\ cerr = "none"
PickP ==
  /\ pc = "pick" /\ Len(cfg.pa) < NPA
  /\ IF Family = "req"
     THEN \E a \in AttrSpace : \E v \in PayloadVals(a) \cup NoFieldVals(a) :
            /\ cfg' = [cfg EXCEPT !.pa = Append(@, a)] /\ pv' = Append(pv, v)
     ELSE cfg' = [cfg EXCEPT !.pa = Append(@, FixedAttr)] /\ pv' = Append(pv, FixedVal)
  /\ UNCHANGED <<rv, pc, wire, delivered, invoked, status, errname, rwire, returned, cerr>>
PickR ==
  /\ pc = "pick" /\ Len(cfg.pa) = NPA /\ Len(cfg.ra) < NRA
  /\ IF Family = "res"
     THEN \E a \in {x \in AttrSpace : ResAttrOK(x)} : \E v \in PayloadVals(a) \cup NoFieldVals(a) :
            /\ (v = Absent => a.mode # "required")
            /\ cfg' = [cfg EXCEPT !.ra = Append(@, a)] /\ rv' = Append(rv, v)
     ELSE cfg' = [cfg EXCEPT !.ra = Append(@, FixedAttr)] /\ rv' = Append(rv, FixedVal)
  /\ UNCHANGED <<pv, pc, wire, delivered, invoked, status, errname, rwire, returned, cerr>>
\* tagged responses: one (201 selected by the first result attribute, a plain string, being "abc"), or - with two such
\* attributes - two (201 on r1, 202 on r2) in either declaration order (TaggedResponses below)
TagAttr(a) == a.kind = "string" /\ a.nest = "direct" /\ a.rule = "none"
PickDone ==
  /\ pc = "pick" /\ Len(cfg.pa) = NPA /\ Len(cfg.ra) = NRA
  /\ \E t \in {0} \cup (IF Family = "res" /\ NRA >= 1 /\ TagAttr(cfg.ra[1]) THEN {1} ELSE {})
                    \cup (IF Family = "res" /\ NRA >= 2 /\ TagAttr(cfg.ra[1]) /\ TagAttr(cfg.ra[2]) THEN {2, 3} ELSE {}) :
        cfg' = [cfg EXCEPT !.tagged = (t >= 1), !.tags = t]
  /\ pc' = "encode"
  /\ UNCHANGED <<pv, rv, wire, delivered, invoked, status, errname, rwire, returned, cerr>>

\* ---- request half
ClientEncode ==
  /\ pc = "encode"
  /\ wire' \in WiresOf(cfg.pa, pv)
  /\ pc' = "route"
  /\ UNCHANGED <<cfg, pv, rv, delivered, invoked, status, errname, rwire, returned, cerr>>
Route ==
  /\ pc = "route"
  /\ IF Routed THEN pc' = "decode" /\ UNCHANGED <<status, errname>>
     ELSE pc' = "cswitch" /\ status' = 404 /\ errname' = "fault"
  /\ UNCHANGED <<cfg, pv, rv, wire, delivered, invoked, rwire, returned, cerr>>
ServerDecode ==
  /\ pc = "decode"
  /\ delivered' = [i \in PIdx |-> ReadBackAt(cfg.pa[i], wire[i], "server")]
  /\ pc' = "validate"
  /\ UNCHANGED <<cfg, pv, rv, wire, invoked, status, errname, rwire, returned, cerr>>
ServerValidate ==
  /\ pc = "validate"
  /\ IF \A i \in PIdxOf(cfg.pa) : ServerValid(cfg.pa[i], delivered[i]) \/ CookieDropsErrorsOf(i)
     THEN IF \E i \in PIdxOf(cfg.pa) : RequiredUnchecked(cfg.pa[i], delivered[i])
          THEN pc' = "cswitch" /\ status' = 500 /\ errname' = "none"          \* nil dereference while building the payload
          ELSE pc' = "invoke" /\ UNCHANGED <<status, errname>>
     ELSE /\ pc' = "cswitch" /\ status' = 400
          /\ errname' \in {ServerViolation(cfg.pa[i], delivered[i]) : i \in {j \in PIdxOf(cfg.pa) : ~ServerValid(cfg.pa[j], delivered[j]) /\ ~CookieDropsErrorsOf(j)}}
  /\ UNCHANGED <<cfg, pv, rv, wire, delivered, invoked, rwire, returned, cerr>>
Invoke ==
  /\ pc = "invoke" /\ invoked' = TRUE /\ pc' = "respond"
  /\ UNCHANGED <<cfg, pv, rv, wire, delivered, status, errname, rwire, returned, cerr>>

\* ---- response half
\* Tagged responses.  dsl.Tag: "The algorithm that encodes the result into the HTTP response iterates through the responses
\* and uses the first response that has a matching tag (that is for which the result field with the tag name matches the tag
\* value).  There must be one and only one response with no Tag expression, this response is used when no other tag matches."
\* So: of the tagged responses IN DECLARATION ORDER the first whose tag attribute equals the tag value decides the status
\* and the mapping (which header / cookie names carry the attributes); the tagless response answers when none matches,
\* wherever it is declared.
\* cfg.tags (records built by modules that only know the boolean cfg.tagged have no such field): 0 no tagged response,
\* 1: 201 [r1 = "abc"], 200;   2: 201 [r1 = "abc"], 202 [r2 = "abc"], 200;   3: 200, 202 [r2 = "abc"], 201 [r1 = "abc"]
TagLayout == IF "tags" \in DOMAIN cfg THEN cfg.tags ELSE IF cfg.tagged THEN 1 ELSE 0
TagMatch(j) == j <= Len(rv) /\ rv[j] # Absent /\ rv[j].cls = "string" /\ rv[j].n = 3 /\ rv[j].s = "plain"
TaggedResponses == CASE TagLayout = 0 -> <<>>
                     [] TagLayout = 1 -> << <<201, 1>> >>
                     [] TagLayout = 2 -> << <<201, 1>>, <<202, 2>> >>
                     [] OTHER -> << <<202, 2>>, <<201, 1>> >>
DesignedStatus == LET hits == {k \in DOMAIN TaggedResponses : TagMatch(TaggedResponses[k][2])} IN
                  IF hits = {} THEN 200 ELSE TaggedResponses[CHOOSE k \in hits : \A m \in hits : k <= m][1]
TagHit == DesignedStatus # 200
\*   response.tagged_header_unguarded   inside a TAGGED response the encoder writes every header without its nil check (and
\*                                  without the default initialisation): when that response is the one selected, a result
\*                                  attribute mapped to a header that is a pointer field (a primitive, directly or through an
\*                                  alias, optional in the result type: modes optional / treq) and that the service left unset
\*                                  is dereferenced - the server crashes before WriteHeader (500, nothing returned).  Lists and
\*                                  Bytes (nil-able, not pointers), defaulted and required attributes (not pointers), cookies
\*                                  (their partial keeps its checks) and the tagless response are not affected.
UnguardedHeader(j) == /\ cfg.ra[j].loc = "header" /\ cfg.ra[j].nest \in {"direct", "alias"} /\ cfg.ra[j].kind \notin {"bytes", "any"}
                      /\ cfg.ra[j].mode \in {"optional", "treq"} /\ rv[j] = Absent
TaggedHeaderCrash == Dev("response.tagged_header_unguarded") /\ TagHit /\ \E j \in RIdx : UnguardedHeader(j)
ServerEncode ==
  /\ pc = "respond"
  /\ IF TaggedHeaderCrash
     THEN status' = 500 /\ rwire' = [j \in RIdx |-> [loc |-> "none", v |-> Absent]]
     ELSE status' = DesignedStatus /\ rwire' \in WiresOf(cfg.ra, rv)
  /\ pc' = "cswitch"
  /\ UNCHANGED <<cfg, pv, rv, wire, delivered, invoked, errname, returned, cerr>>
ClientSwitch ==
  /\ pc = "cswitch"
  /\ IF status \in {200, 201, 202} THEN pc' = "cdecode" /\ UNCHANGED cerr
     ELSE pc' = "done" /\ cerr' = "remote"
  /\ UNCHANGED <<cfg, pv, rv, wire, delivered, invoked, status, errname, rwire, returned>>
\* list-valued response header of >= 2 elements, read back as a single joined element (and an empty list,
\* written as an empty header line, read back as one empty element)
Joined(j) == cfg.ra[j].loc = "header" /\ cfg.ra[j].nest \in {"elem", "alias_elem"} /\ rwire[j].loc # "none" /\ rwire[j].v.cn # 1 /\ Dev("response.header_array_joined")
ClientDecode ==
  /\ pc = "cdecode"
  /\ IF \E j \in RIdx : Joined(j) /\ cfg.ra[j].kind # "string"
     THEN /\ cerr' = "validation" /\ pc' = "done" /\ UNCHANGED returned       \* "3, 3" is not a number
     ELSE /\ \E m \in {3, 9}, sh \in {"plain", "space"} :      \* the odd element may or may not pass the element rule
               returned' = [j \in RIdx |-> IF Joined(j) THEN (IF rwire[j].v.cn = 0 THEN V("string", 0, "empty", 1) ELSE V("string", m, sh, 1))     \* (the empty line: one empty element)
                                            ELSE ReadBack(cfg.ra[j], rwire[j])]
          /\ pc' = "cvalidate" /\ UNCHANGED cerr
  /\ UNCHANGED <<cfg, pv, rv, wire, delivered, invoked, status, errname, rwire>>
ClientValidate ==
  /\ pc = "cvalidate"
  /\ cerr' = IF \E j \in RIdx : RequiredUnchecked(cfg.ra[j], returned[j]) THEN "none"        \* the client crashes building the result
             ELSE IF \A j \in RIdx : ServerValid(cfg.ra[j], returned[j]) THEN "result" ELSE "validation"
     \* (a joined string list is one odd element: whether it passes the element rule depends on the rule)
  /\ pc' = "done"
  /\ UNCHANGED <<cfg, pv, rv, wire, delivered, invoked, status, errname, rwire, returned>>

Next == PickP \/ PickR \/ PickDone \/ ClientEncode \/ Route \/ ServerDecode \/ ServerValidate \/ Invoke \/ ServerEncode \/ ClientSwitch \/ ClientDecode \/ ClientValidate
Spec == Init /\ [][Next]_vars

---------------------------------------------------------------------------
\* C02
LocationPartition == wire # <<>> => \A i \in PIdx : wire[i].loc \in AllowedWhere(cfg.pa[i], pv[i])
DeliveredIntact == invoked => \A i \in PIdx : delivered[i] \in AllowedDelivered(cfg.pa[i], pv[i])
\* C04
InvokedIffValid == pc = "done" => /\ (Satisfies(cfg.pa, pv) => invoked)
                                  /\ (Violates(cfg.pa, pv) => ~invoked)
RejectedIs4xxNamingRule == pc = "done" /\ ~invoked => status \in 400..499 /\ (Violates(cfg.pa, pv) => errname \in ViolationNames(cfg.pa, pv))
\* C03
ResultIntact == cerr = "result" => \A j \in RIdx : returned[j] \in AllowedDelivered(cfg.ra[j], rv[j])
StatusAsDesigned == pc = "done" /\ invoked => status = DesignedStatus
ResponsePartition == rwire # <<>> => \A j \in RIdx : rwire[j].loc \in AllowedWhere(cfg.ra[j], rv[j])
\* C04, client side: a result violating its constraints is refused
ClientRejectsInvalidResult == pc = "done" /\ invoked =>
    /\ (Violates(cfg.ra, rv) => cerr = "validation")
    /\ (Satisfies(cfg.ra, rv) => cerr = "result")
=============================================================================
