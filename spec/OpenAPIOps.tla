----------------------------- MODULE OpenAPIOps -----------------------------
(* What goa publishes about a design with HTTP endpoints, next to what the generated server does.

   Part 1 (C07).  For ONE design (API, 1..n services, methods, file servers) four tables are produced:

        design --+--> [server generator]   mounts   (method, pattern) handed to Muxer.Handle by Mount
                 |                         srvOps   per mounted route: parameters the decoder reads with their
                 |                                  required flag, whether a body is read, the statuses the
                 |                                  encoders write, the schemes the endpoint asks the Auther about
                 +--> [openapi/v3 builder] doc3     operations of openapi3.json
                 +--> [openapi/v2 builder] doc2     operations of openapi.json
                 +--> [writers]            verdicts validity of the documents, JSON = YAML

   ExpectedOps / ExpectedMounts are the oracle (what the design says); MountsOf, SrvOpsOf, V3Ops, V2Ops,
   VerdictsOf are the mechanisms, structured like http/codegen/server.go (+ templates),
   http/codegen/openapi/v3/builder.go and v2/builder.go, with one named deviation per way the real code is
   known to depart from the design.

   Part 2 (C14).  For ONE exchange of HTTPTransport (extended below with requests a generated client cannot
   produce) the verdict of the published schema on the wire request / response, next to the server's.

   The module extends HTTPTransport: the exchange, its wire and the server's decision are that module's. *)
EXTENDS HTTPTransport

CONSTANTS OFamily,     \* which design dimensions the exhaustive enumeration varies
          NSvc,        \* services per design
          NMeth        \* methods per service

VARIABLES design,      \* the abstract design (see PickAPI / PickSvc / Pick* for its shape)
          opc,
          mounts,      \* set of [method, pattern]
          srvOps,      \* set of Op
          doc3, doc2,  \* sets of Op
          verdicts,    \* [valid3, valid2, jy3, jy2, facts3, facts2]
          xflag        \* part 2: "none" | "null" (the body carries an explicit null for attribute 1) | "omit" (a raw request
                       \* that leaves attribute 1 out although it is required) | "rd" (attribute 1 is Required AND has a Default
                       \* in the design - a fourth mode; cfg.pa keeps mode "required", which is what the design says about
                       \* omission) | "rd+omit" (such an attribute, left out by a raw request)
ovars == <<design, opc, mounts, srvOps, doc3, doc2, verdicts>>
hvars == <<vars, xflag>>     \* the exchange (HTTPTransport's variables and xflag)

RangeQ(q) == {q[i] : i \in DOMAIN q}
ODev(d) == d \in design.devs

ODeviations == {
  "schema.exclusive_bound_numeric",          \* exclusiveMinimum/Maximum written as numbers (3.0.x and 2.0 want booleans): documents do not load
  "v3.trace_route_dropped",                  \* the v3 builder's method switch has no TRACE case
  "v3.nosecurity_inherits_api_security",     \* an operation without requirement omits `security`, so the top-level requirement applies
  "v3.fileserver_documents_api_security",    \* file-server operations carry the API requirement; the server mounts a plain file handler
  "v3.api_security_scheme_undefined",        \* the top-level requirement names a scheme key absent from components.securitySchemes
  "v3.fileserver_wildcard_kept",             \* v3 file-server path keys keep `{*name}`
  "v3.fileserver_param_without_schema",      \* v3 file-server path parameter has neither schema nor content
  "v3.allow_empty_value_not_query",          \* allowEmptyValue is written for header and cookie parameters
  "yaml.leading_newline_dropped",            \* a description starting with a newline loses it in the YAML rendering
  "schema.required_with_default_not_required",   \* 3.0: a header / cookie parameter that is Required AND has a Default is documented `required: false`
  "decode.required_cookie_drops_param_errors" }   \* the decoder assigns the result of r.Cookie() of a required cookie to the error it accumulates:
                                             \* what query and header decoding found (missing required parameter, invalid value) is forgotten

---------------------------------------------------------------------------
\* vocabulary
Lit(x)  == [k |-> "lit", s |-> x]
Var(x)  == [k |-> "var", s |-> x]
Wild(x) == [k |-> "wild", s |-> x]
P(n, i, r) == [name |-> n, in |-> i, required |-> r]
Sch(n, k) == [name |-> n, kind |-> k]
RQ(ss, sc) == [schemes |-> ss, scopes |-> sc]
Op(me, pa, ps, b, st, se) == [method |-> me, path |-> pa, params |-> ps, hasBody |-> b, statuses |-> st, security |-> se]

Verbs == {"GET", "POST", "PUT", "DELETE", "PATCH", "HEAD", "OPTIONS", "TRACE", "CONNECT"}

\* security requirement shapes (the concrete schemes are declared by the design assembler, vlib/openapi_gen.py):
\* a shape is a set of alternative requirements; a requirement is a set of schemes that must all pass + scopes
SecShapes == {"basic", "apikey", "jwt", "oauth2", "jwt+apikey", "basic|apikey", "jwt0", "apikey+oauth20"}
ReqsOf(shape) ==
  CASE shape = "basic"        -> {RQ({Sch("basic", "basic")}, {})}
    [] shape = "apikey"       -> {RQ({Sch("key", "apikey")}, {})}
    [] shape = "jwt"          -> {RQ({Sch("jwt", "jwt")}, {"r"})}
    [] shape = "oauth2"       -> {RQ({Sch("oa", "oauth2")}, {"r", "w"})}
    [] shape = "jwt+apikey"   -> {RQ({Sch("jwt", "jwt"), Sch("key", "apikey")}, {"r"})}
    [] shape = "basic|apikey" -> {RQ({Sch("basic", "basic")}, {}), RQ({Sch("key", "apikey")}, {})}
    [] shape = "jwt0"         -> {RQ({Sch("jwt", "jwt")}, {})}                          \* bearer schemes required without scopes
    [] shape = "apikey+oauth20" -> {RQ({Sch("key", "apikey"), Sch("oa", "oauth2")}, {})}
    [] OTHER                  -> {}                     \* "none"
\* where the credentials travel: user/password and bearer tokens in the Authorization header (which OpenAPI
\* describes through the security scheme, never as a parameter); the API key in the X-Key header, which the
\* decoder reads like any other header (required unless another alternative exists)
CredParams(shape) ==
  CASE shape \in {"apikey", "jwt+apikey", "apikey+oauth20"} -> {P("X-Key", "header", TRUE)}
    [] shape = "basic|apikey"            -> {P("X-Key", "header", FALSE)}
    [] OTHER                             -> {}
\* (the 2.0 document describes the scopes of a JWT scheme in text - in the operation when the requirement names scopes, and
\*  in the securityDefinitions entry of the scheme whenever the scheme is used at all; both texts start with a newline)
UsesJWTScopes(shape) == shape \in {"jwt", "jwt+apikey", "jwt0"}

\* the DSL's inheritance: Security at a level replaces what the level above says, NoSecurity clears it
EffSec(d, s, m) == IF m.sec # "inherit" THEN m.sec ELSE IF s.sec # "inherit" THEN s.sec ELSE d.apiSec

---------------------------------------------------------------------------
\* the oracle
FullPath(d, s, p) == d.apiPath \o s.path \o p
DocSeg(x) == IF x.k = "wild" THEN Var(x.s) ELSE x                   \* `{*w}` is documented as `{w}`
DocPath(p) == [i \in DOMAIN p |-> DocSeg(p[i])]
PathParams(p) == {P(p[i].s, "path", TRUE) : i \in {j \in DOMAIN p : p[j].k # "lit"}}
\* (mode "rd": the attribute is Required and has a Default - the server insists on it all the same)
DeclParams(m) == {P(x.name, x.in, x.mode \in {"required", "rd"}) : x \in RangeQ(m.params)}
IsRD(m, nm) == \E x \in RangeQ(m.params) : x.name = nm /\ x.mode = "rd"
Statuses(s, m) == RangeQ(m.resps) \cup {e.code : e \in RangeQ(m.errs)} \cup {e.code : e \in RangeQ(s.errs)}

ExpectedOp(d, s, m, r) ==
  LET full == FullPath(d, s, r.path) IN
  Op(r.verb, DocPath(full), PathParams(full) \cup DeclParams(m) \cup CredParams(EffSec(d, s, m)),
     m.body \in {"req", "opt"}, Statuses(s, m), ReqsOf(EffSec(d, s, m)))
ExpectedOps(d) == UNION {UNION {{ExpectedOp(d, s, m, r) : r \in RangeQ(m.routes)} : m \in RangeQ(s.meths)} : s \in RangeQ(d.svcs)}

\* a file is one GET operation; a directory is one GET operation with the wildcard as path parameter, served
\* without any authorization callback
ExpectedFileOp(d, s, f) ==
  LET full == FullPath(d, s, f.path) IN
  Op("GET", DocPath(full), PathParams(full), FALSE, IF f.dir THEN {200, 404} ELSE {200}, {})
ExpectedFileOps(d) == UNION {{ExpectedFileOp(d, s, f) : f \in RangeQ(s.files)} : s \in RangeQ(d.svcs)}

Mnt(v, p) == [method |-> v, pattern |-> p]
\* a directory is mounted twice: the directory itself (`/p/`, written here with an empty last segment) and
\* everything below it
DirMounts(full) == {Mnt("GET", SubSeq(full, 1, Len(full) - 1) \o <<Lit("")>>), Mnt("GET", full)}
ExpectedMounts(d) ==
  UNION {UNION {{Mnt(r.verb, FullPath(d, s, r.path)) : r \in RangeQ(m.routes)} : m \in RangeQ(s.meths)} : s \in RangeQ(d.svcs)}
  \cup UNION {UNION {IF f.dir THEN DirMounts(FullPath(d, s, f.path)) ELSE {Mnt("GET", FullPath(d, s, f.path))} : f \in RangeQ(s.files)} : s \in RangeQ(d.svcs)}

\* what each OpenAPI version can say at all
Expressible3(o) == o.method # "CONNECT"                             \* 3.0.x Path Item: get put post delete options head patch trace
Expressible2(o) == o.method \notin {"CONNECT", "TRACE"}
DocParam(p) == ~(p.in = "header" /\ p.name = "Authorization")       \* described by the security scheme, ignored as a parameter
Proj3(o) == [o EXCEPT !.params = {p \in @ : DocParam(p)}]
Proj2Req(r) == RQ({Sch(x.name, IF x.kind = "jwt" THEN "apikey" ELSE x.kind) : x \in r.schemes},     \* 2.0 has no bearer scheme
                  IF \E x \in r.schemes : x.kind = "oauth2" THEN r.scopes ELSE {})                   \* scopes exist for oauth2 only
Proj2(o) == [o EXCEPT !.params = {p \in @ : DocParam(p) /\ p.in # "cookie"},                          \* 2.0 has no cookie parameters
                      !.security = {Proj2Req(r) : r \in @}]

\* fold the mounted file-server patterns into the operation they stand for (documented folding): a pattern
\* ending in a wildcard is the directory operation, its twin with the empty last segment disappears
IsDirTwin(m, ms) == Len(m.pattern) >= 1 /\ m.pattern[Len(m.pattern)] = Lit("")
                    /\ \E o \in ms : /\ Len(o.pattern) = Len(m.pattern) /\ o.pattern[Len(o.pattern)].k = "wild"
                                     /\ SubSeq(o.pattern, 1, Len(o.pattern) - 1) = SubSeq(m.pattern, 1, Len(m.pattern) - 1)
FoldFileMount(m) ==
  LET dir == Len(m.pattern) >= 1 /\ m.pattern[Len(m.pattern)].k = "wild" IN
  Op(m.method, DocPath(m.pattern), PathParams(m.pattern), FALSE, IF dir THEN {200, 404} ELSE {200}, {})
\* the operations the server offers: the probed routes, and the folded mounts no route answers for
ServedOps(ms, ops) ==
  ops \cup {FoldFileMount(m) : m \in {x \in ms : ~IsDirTwin(x, ms) /\ ~\E o \in ops : o.method = x.method /\ o.path = DocPath(x.pattern)}}

---------------------------------------------------------------------------
\* the mechanisms
\* http/codegen/server.go + server_mount / server_handler / file_server templates: one Handle per route and
\* service base path; the handler decodes the mapped attributes, the endpoint runs the requirements
MountsOf(d) == ExpectedMounts(d)
\* request_elements.go.tpl: path, query, header, then cookie elements are read in this order into one `err`
SrvParam(m, p) ==
  IF p.in \in {"query", "header"} /\ p.required /\ ODev("decode.required_cookie_drops_param_errors")
     /\ \E c \in RangeQ(m.params) : c.in = "cookie" /\ c.mode \in {"required", "rd"}
  THEN [p EXCEPT !.required = FALSE] ELSE p
SrvOp(d, s, m, r) == LET e == ExpectedOp(d, s, m, r) IN [e EXCEPT !.params = {SrvParam(m, p) : p \in @}]
SrvOpsOf(d) == UNION {UNION {{SrvOp(d, s, m, r) : r \in RangeQ(m.routes)} : m \in RangeQ(s.meths)} : s \in RangeQ(d.svcs)}

\* openapi/v3/builder.go buildPaths: services -> endpoints -> routes -> full paths; `switch r.Method`
V3Switch(v) == v \in {"GET", "PUT", "POST", "DELETE", "OPTIONS", "HEAD", "PATCH"} \/ (v = "TRACE" /\ ~ODev("v3.trace_route_dropped"))
\* the top-level `security` (API requirements) applies to every operation that carries no `security` of its own
GlobalReqs(d) == {RQ({Sch(x.name, IF ODev("v3.api_security_scheme_undefined") THEN "undefined" ELSE x.kind) : x \in r.schemes}, r.scopes)
                  : r \in ReqsOf(d.apiSec)}
V3Security(d, eff) == IF ReqsOf(eff) = {} /\ ODev("v3.nosecurity_inherits_api_security") THEN GlobalReqs(d) ELSE ReqsOf(eff)
\* v3/parameters.go paramsFromHeadersAndCookies asks IsRequiredNoDefault
V3Param(m, p) == IF p.in \in {"header", "cookie"} /\ IsRD(m, p.name) /\ ODev("schema.required_with_default_not_required")
                 THEN [p EXCEPT !.required = FALSE] ELSE p
V3Op(d, s, m, r) ==
  LET e == ExpectedOp(d, s, m, r) IN Proj3([e EXCEPT !.security = V3Security(d, EffSec(d, s, m)), !.params = {V3Param(m, p) : p \in @}])
V3FileOp(d, s, f) ==
  LET full == FullPath(d, s, f.path)
      e == ExpectedFileOp(d, s, f) IN
  [e EXCEPT !.path = IF ODev("v3.fileserver_wildcard_kept") THEN full ELSE @,
            !.security = IF ODev("v3.fileserver_documents_api_security") THEN GlobalReqs(d) ELSE @]
V3Ops(d) ==
  UNION {UNION {{V3Op(d, s, m, r) : r \in {x \in RangeQ(m.routes) : V3Switch(x.verb)}} : m \in RangeQ(s.meths)} : s \in RangeQ(d.svcs)}
  \cup UNION {{V3FileOp(d, s, f) : f \in RangeQ(s.files)} : s \in RangeQ(d.svcs)}

\* openapi/v2/builder.go buildPathFromExpr / buildPathFromFileServer
V2Switch(v) == v \in {"GET", "PUT", "POST", "DELETE", "OPTIONS", "HEAD", "PATCH"}
V2Ops(d) ==
  UNION {UNION {{Proj2([ExpectedOp(d, s, m, r) EXCEPT !.params = {V3Param(m, p) : p \in @}])            \* (v2 headers ask IsRequiredNoDefault too)
                 : r \in {x \in RangeQ(m.routes) : V2Switch(x.verb)}} : m \in RangeQ(s.meths)} : s \in RangeQ(d.svcs)}
  \cup UNION {{Proj2(ExpectedFileOp(d, s, f)) : f \in RangeQ(s.files)} : s \in RangeQ(d.svcs)}

\* features of the design the writers / validators are sensitive to
AllMeths(d) == UNION {{<<s, m>> : m \in RangeQ(s.meths)} : s \in RangeQ(d.svcs)}
\* (parameter objects exist only inside the operations the builder emits: a method whose every route is dropped
\* from the 3.0 document contributes none; body schemas are collected per endpoint whatever its routes)
HasParamXB(d) == \E sm \in AllMeths(d) : (\E r \in RangeQ(sm[2].routes) : V3Switch(r.verb)) /\ \E x \in RangeQ(sm[2].params) : x.xb
HasBodyXB(d) == \E sm \in AllMeths(d) : sm[2].bxb /\ sm[2].body \in {"req", "opt"}
HasDir(d) == \E s \in RangeQ(d.svcs) : \E f \in RangeQ(s.files) : f.dir
HasFiles(d) == \E s \in RangeQ(d.svcs) : s.files # <<>>
HasHdrCookieParam(d) == \E sm \in AllMeths(d) : \E p \in Proj3(ExpectedOp(d, sm[1], sm[2], sm[2].routes[1])).params : p.in \in {"header", "cookie"}
HasJWTScopes(d) == \E sm \in AllMeths(d) : UsesJWTScopes(EffSec(d, sm[1], sm[2]))
HasV3Ops(d) == V3Ops(d) # {}
N(b) == IF b THEN 1 ELSE 0       \* facts are reported as "some / none"
VerdictsOf(d) ==
  LET xb3 == ODev("schema.exclusive_bound_numeric") /\ (HasParamXB(d) \/ HasBodyXB(d))
      xb2 == ODev("schema.exclusive_bound_numeric") /\ HasBodyXB(d)                        \* 2.0 parameters carry the boolean form
      fsp == ODev("v3.fileserver_param_without_schema") /\ HasDir(d)
      fsw == ODev("v3.fileserver_wildcard_kept") /\ HasDir(d)
      und == ODev("v3.api_security_scheme_undefined") /\ ReqsOf(d.apiSec) # {}
  IN [ valid3 |-> ~xb3 /\ ~fsp /\ ~fsw,
       valid2 |-> ~xb2,
       jy3 |-> TRUE,
       jy2 |-> ~(ODev("yaml.leading_newline_dropped") /\ HasJWTScopes(d)),
       facts3 |-> [xbound_not_boolean |-> N(xb3), param_untyped |-> N(fsp), path_params_differ |-> N(fsw),
                   security_undefined |-> N(und),
                   allow_empty_value_not_query |-> N(ODev("v3.allow_empty_value_not_query") /\ HasHdrCookieParam(d)),
                   operation_id_duplicate |-> 0, method_not_in_spec |-> 0],
       facts2 |-> [xbound_not_boolean |-> N(xb2), param_untyped |-> 0, path_params_differ |-> 0, security_undefined |-> 0,
                   allow_empty_value_not_query |-> 0, operation_id_duplicate |-> 0, method_not_in_spec |-> 0] ]
NoVerdicts == [valid3 |-> TRUE, valid2 |-> TRUE, jy3 |-> TRUE, jy2 |-> TRUE, facts3 |-> <<>>, facts2 |-> <<>>]

---------------------------------------------------------------------------
\* design enumeration: the API, then each service (base path, security, errors, file servers), then each of its
\* methods in stages (routes, parameters, body, responses, security).  OFamily says which stages vary; the
\* others take their plain value.  "mix" varies everything (simulation).
SvcNames == <<"s1", "s2", "s3", "s4">>
MethNames == <<"m1", "m2", "m3", "m4">>
Varies(f) == OFamily \in {f, "mix"}

ApiPaths == IF Varies("paths") \/ Varies("files") THEN {<<>>, <<Lit("api")>>} ELSE {<<>>}
ApiSecs == IF Varies("sec") THEN {"none", "basic", "jwt", "apikey", "basic|apikey"}
           ELSE IF Varies("files") THEN {"none", "basic"} ELSE {"none"}
SvcPathKinds == IF Varies("paths") THEN {"root", "lit", "var"} ELSE IF Varies("files") THEN {"root", "lit"} ELSE {"lit"}
SvcPath(i, kind) == CASE kind = "root" -> <<>> [] kind = "lit" -> <<Lit(SvcNames[i])>> [] OTHER -> <<Lit(SvcNames[i]), Var("sid")>>
SvcSecs == IF Varies("sec") THEN {"inherit", "oauth2", "apikey", "basic"} ELSE {"inherit"}      \* (NoSecurity is a method-level function)
SvcErrs == IF Varies("resps") THEN {<<>>, <<[name |-> "se1", code |-> 409]>>} ELSE {<<>>}
FileKinds == IF Varies("files") THEN {"file", "dir", "both"} ELSE IF OFamily = "mix" THEN {"none", "file", "dir"} ELSE {"none"}
FilesOf(i, kind) ==
  LET file == [path |-> <<Lit(SvcNames[i] \o "f.json")>>, dir |-> FALSE]
      dir == [path |-> <<Lit(SvcNames[i] \o "st"), Wild("filepath")>>, dir |-> TRUE] IN
  CASE kind = "file" -> <<file>> [] kind = "dir" -> <<dir>> [] kind = "both" -> <<file, dir>> [] OTHER -> <<>>

Verb1s == IF Varies("verbs") THEN Verbs ELSE {"POST"}
Verb2s(v1) == IF Varies("verbs") THEN {"none"} \cup (Verbs \ {v1}) ELSE IF Varies("paths") THEN {"none", "PUT"} ELSE {"none"}
PathParamKinds == IF Varies("paths") THEN {"none", "var", "wild"} ELSE {"none"}
RoutePath(lit, pk) == CASE pk = "var" -> <<Lit(lit), Var("p1")>> [] pk = "wild" -> <<Lit(lit), Wild("p1")>> [] OTHER -> <<Lit(lit)>>
ParamModes == IF Varies("params") THEN {"absent", "required", "optional", "default", "rd"} ELSE {"absent"}
XBs == IF Varies("params") THEN {"none", "param", "body"} ELSE {"none"}
Bodies == IF Varies("params") THEN {"none", "req", "opt", "empty"} ELSE {"none"}
Status1s == IF Varies("resps") THEN {200, 201, 204} ELSE {200}
Tagged == IF Varies("resps") THEN BOOLEAN ELSE {FALSE}
MethErrs == IF Varies("resps") THEN {<<>>, <<[name |-> "e1", code |-> 404]>>, <<[name |-> "e1", code |-> 404], [name |-> "e2", code |-> 410]>>} ELSE {<<>>}
MethSecs == IF Varies("sec") THEN {"inherit", "none"} \cup SecShapes ELSE {"inherit"}

ParamSeq(q, h, c, xb) ==
  (IF q = "absent" THEN <<>> ELSE <<[name |-> "q1", in |-> "query", mode |-> q, xb |-> xb = "param"]>>)
  \o (IF h = "absent" THEN <<>> ELSE <<[name |-> "X-H1", in |-> "header", mode |-> h, xb |-> FALSE]>>)
  \o (IF c = "absent" THEN <<>> ELSE <<[name |-> "c1", in |-> "cookie", mode |-> c, xb |-> FALSE]>>)

OInit ==
  /\ design = [apiPath |-> <<>>, apiSec |-> "none", svcs |-> <<>>, devs |-> Deviations] /\ opc = "api"
  /\ mounts = {} /\ srvOps = {} /\ doc3 = {} /\ doc2 = {} /\ verdicts = NoVerdicts

NS == Len(design.svcs)
CurSvc == design.svcs[NS]
NM == Len(CurSvc.meths)
SetMeth(f(_)) == design' = [design EXCEPT !.svcs[NS].meths[NM] = f(@)]

PickAPI ==
  /\ opc = "api"
  /\ \E ap \in ApiPaths, as \in ApiSecs : design' = [design EXCEPT !.apiPath = ap, !.apiSec = as]
  /\ opc' = "svc" /\ UNCHANGED <<mounts, srvOps, doc3, doc2, verdicts>>
PickSvc ==
  /\ opc = "svc" /\ NS < NSvc
  /\ \E pk \in SvcPathKinds, ss \in SvcSecs, se \in SvcErrs, fk \in FileKinds :
       /\ (fk # "none" => pk # "var")        \* file servers below a base path with parameters are outside the envelope
       /\ design' = [design EXCEPT !.svcs = Append(@, [name |-> SvcNames[NS + 1], path |-> SvcPath(NS + 1, pk), sec |-> ss, errs |-> se,
                                                         files |-> FilesOf(NS + 1, fk), meths |-> <<>>])]
  /\ opc' = "routes" /\ UNCHANGED <<mounts, srvOps, doc3, doc2, verdicts>>
PickRoutes ==
  /\ opc = "routes" /\ NM < NMeth
  \* (the second route of an endpoint has its own path, or the path of the first under another verb)
  /\ \E v1 \in Verb1s, pk \in PathParamKinds : \E v2 \in Verb2s(v1) : \E samepath \in (IF v2 = "none" THEN {FALSE} ELSE BOOLEAN) :
       LET lit == CurSvc.name \o MethNames[NM + 1]
           r1 == [verb |-> v1, path |-> RoutePath(lit, pk)]
           r2 == [verb |-> v2, path |-> RoutePath(IF samepath THEN lit ELSE lit \o "b", pk)] IN
       design' = [design EXCEPT !.svcs[NS].meths = Append(@, [name |-> MethNames[NM + 1], routes |-> IF v2 = "none" THEN <<r1>> ELSE <<r1, r2>>,
                                                                params |-> <<>>, body |-> "none", bxb |-> FALSE, resps |-> <<200>>, errs |-> <<>>, sec |-> "inherit"])]
  /\ opc' = "params" /\ UNCHANGED <<mounts, srvOps, doc3, doc2, verdicts>>
PickParams ==
  /\ opc = "params"
  /\ \E q \in ParamModes, h \in ParamModes, c \in ParamModes, xb \in XBs, b \in Bodies :
       /\ (xb = "param" => q # "absent") /\ (xb = "body" => b \in {"req", "opt"})
       /\ SetMeth(LAMBDA m : [m EXCEPT !.params = ParamSeq(q, h, c, xb), !.body = b, !.bxb = (xb = "body")])
  /\ opc' = "resps" /\ UNCHANGED <<mounts, srvOps, doc3, doc2, verdicts>>
PickResps ==
  /\ opc = "resps"
  /\ \E st \in Status1s, tg \in Tagged, me \in MethErrs :
       \* a second, tagged response needs a result body: goa refuses one for 204 and for HEAD routes
       /\ (tg => st # 204 /\ \A r \in RangeQ(CurSvc.meths[NM].routes) : r.verb # "HEAD")
       /\ SetMeth(LAMBDA m : [m EXCEPT !.resps = IF tg THEN <<(IF st = 201 THEN 202 ELSE 201), st>> ELSE <<st>>, !.errs = me])
  /\ opc' = "sec" /\ UNCHANGED <<mounts, srvOps, doc3, doc2, verdicts>>
PickSec ==
  /\ opc = "sec"
  /\ \E sc \in MethSecs : SetMeth(LAMBDA m : [m EXCEPT !.sec = sc])
  /\ opc' = IF NM < NMeth THEN "routes" ELSE IF NS < NSvc THEN "svc" ELSE "server"
  /\ UNCHANGED <<mounts, srvOps, doc3, doc2, verdicts>>
\* a service may consist of file servers only
CloseFilesOnly ==
  /\ opc = "routes" /\ NM = 0 /\ CurSvc.files # <<>> /\ Varies("files")
  /\ opc' = IF NS < NSvc THEN "svc" ELSE "server"
  /\ UNCHANGED <<design, mounts, srvOps, doc3, doc2, verdicts>>

GenServer == /\ opc = "server" /\ mounts' = MountsOf(design) /\ srvOps' = SrvOpsOf(design) /\ opc' = "doc3"
             /\ UNCHANGED <<design, doc3, doc2, verdicts>>
BuildV3 ==   /\ opc = "doc3" /\ doc3' = V3Ops(design) /\ opc' = "doc2" /\ UNCHANGED <<design, mounts, srvOps, doc2, verdicts>>
BuildV2 ==   /\ opc = "doc2" /\ doc2' = V2Ops(design) /\ opc' = "write" /\ UNCHANGED <<design, mounts, srvOps, doc3, verdicts>>
WriteDocs == /\ opc = "write" /\ verdicts' = VerdictsOf(design) /\ opc' = "done" /\ UNCHANGED <<design, mounts, srvOps, doc3, doc2>>

ONext == (PickAPI \/ PickSvc \/ PickRoutes \/ PickParams \/ PickResps \/ PickSec \/ CloseFilesOnly \/ GenServer \/ BuildV3 \/ BuildV2 \/ WriteDocs)
         /\ UNCHANGED hvars
OSpec == OInit /\ Init /\ xflag = "none" /\ [][ONext]_<<ovars, hvars>>

---------------------------------------------------------------------------
\* C07
MountEqualsExpected == opc \in {"doc3", "doc2", "write", "done"} => mounts = ExpectedMounts(design) /\ srvOps = ExpectedOps(design)
Doc3EqualsMount == opc \in {"doc2", "write", "done"} => doc3 = {Proj3(o) : o \in {x \in ServedOps(mounts, srvOps) : Expressible3(x)}}
Doc2EqualsMount == opc \in {"write", "done"} => doc2 = {Proj2(o) : o \in {x \in ServedOps(mounts, srvOps) : Expressible2(x)}}
JsonEqualsYaml == opc = "done" => verdicts.jy3 /\ verdicts.jy2
FactsClean(f) == \A k \in DOMAIN f : f[k] = 0
DocsValid == opc = "done" => verdicts.valid3 /\ verdicts.valid2 /\ FactsClean(verdicts.facts3) /\ FactsClean(verdicts.facts2)
\* the fold of the mounted file-server patterns is the documented file operation
FoldIsExpected == opc \in {"doc3", "doc2", "write", "done"} => ServedOps(mounts, srvOps) = ExpectedOps(design) \cup ExpectedFileOps(design)

---------------------------------------------------------------------------
(* Part 2 (C14).  One exchange of HTTPTransport: cfg.pa / cfg.ra, pv / rv, the wire, the server's decision
   (invoked, status) are that module's.  Added here:
     - requests a generated client cannot produce (raw requests): a JSON null for a body attribute (xflag) and
       text that is not of the attribute's type (value shapes negu, frac, text), which the server's decoder refuses
       before validation (XTypeReject);
     - SchemaReqOK / SchemaRespOK: what the published OpenAPI 3 schema says about the wire request / response.
   At design level the schema documents exactly the design's rules for what is on the wire, so it agrees with the
   server (SchemaAgreesWithServer) and with the design (SchemaAgreesWithDesign).  Named deviations: *)
XDeviations == {
  "schema.empty_value_allowed",            \* allowEmptyValue: true on every query/header/cookie parameter: an empty value passes the schema unvalidated
  "schema.map_key_rule_undocumented",      \* validations of map keys are not in the schema
  "schema.map_length_undocumented",        \* MinLength/MaxLength of a map are not in the schema (no minProperties/maxProperties)
  "schema.uint_minimum_missing",           \* unsigned integers are documented as plain integers: negative numbers pass
  "schema.optional_not_nullable",          \* the server reads null as "not set"; the schema refuses null
  "schema.bytes_length_on_encoded_text",   \* length bounds of Bytes are applied to the base64 text
  "schema.response_cookie_value_schema",   \* a response cookie is documented as a Set-Cookie header with the schema of the cookie VALUE
  "schema.error_response_media_type",      \* declared errors are documented as application/vnd.goa.error, sent as application/json
  "schema.required_with_default_not_required",   \* a header / cookie parameter that is Required and has a Default is documented as
                                           \* not required (IsRequiredNoDefault); the server answers 400 missing_field when it is left out
  "schema.dedup_ignores_validations" }     \* components.schemas: a body type is replaced by a structurally equal type of another method,
                                           \* whatever the validations of the two (a defect of the whole design: seen from one exchange the
                                           \* rules applied to a body are then somebody else's)
\* (plus the transport deviations of HTTPTransport: param.empty_string_is_absent, validate.absent_collection_length,
\*  client.path_not_escaped, mux.double_unescape, response.header_array_joined, cookie.value_sanitized,
\*  validate.exclusive_max_unchecked, decode.required_cookie_drops_param_errors)

MalShapes == {"negu", "frac", "text"}
Malformed(v) == v # Absent /\ v.s \in MalShapes
UIntKinds == {"uint", "uint32", "uint64"}
IntKinds == {"int", "int32", "int64"} \cup UIntKinds
MalVals(a) ==
  IF a.nest # "direct" \/ a.rule # "none" THEN {}
  ELSE (IF a.kind \in UIntKinds THEN {V(a.kind, 3, "negu", 1)} ELSE {})
       \cup (IF a.kind \in IntKinds THEN {V(a.kind, 3, "frac", 1)} ELSE {})
       \cup (IF a.kind \in IntKinds \cup {"float", "float32", "bool"} THEN {V(a.kind, 3, "text", 1)} ELSE {})

\* what the schema validator sees for attribute a: the value as it travels
Seen(a, w) == Carried(a, w.v)
EmptyParam(a, c) == a.loc \in {"query", "header", "cookie"} /\ ((a.kind = "string" /\ c.s = "empty") \/ (a.kind = "bytes" /\ c.n = 0))
B64(n) == 4 * ((n + 2) \div 3)
SchemaTypeOK(a, c) == CASE c.s = "negu" -> Dev("schema.uint_minimum_missing")
                        [] c.s \in {"frac", "text"} -> FALSE
                        [] OTHER -> TRUE
\* the nestings this part knows (lib/Values.tla may grow others: they are not enumerated here until they are listed)
XNests == {"direct", "alias", "nested", "elem", "mapkey", "mapval", "nested_mapkey", "nested_elem", "elem_nested", "mapval_nested", "mapkey_alias"}
KeyNests == {"mapkey", "nested_mapkey", "mapkey_alias"}
RuleDocumented(a) == /\ ~(a.nest \in KeyNests /\ Dev("schema.map_key_rule_undocumented"))
                     /\ ~(a.nest = "mapval" /\ a.rule \in {"cminlen", "cmaxlen"} /\ Dev("schema.map_length_undocumented"))
\* deviations under which the verdict of the schema on a present value is not determined by the design's rule
Blurred(a, c) == \/ a.kind = "bytes" /\ a.rule # "none" /\ Dev("schema.bytes_length_on_encoded_text")
                 \/ a.loc = "body" /\ Dev("schema.dedup_ignores_validations")
SchemaValueOK(a, c) ==
  IF EmptyParam(a, c) /\ Dev("schema.empty_value_allowed") THEN {TRUE}
  ELSE IF Blurred(a, c) THEN BOOLEAN
  ELSE {SchemaTypeOK(a, c) /\ (LeafChecked(a, c) /\ RuleDocumented(a) /\ ~Malformed(c) => RuleOK(a, c))}
RDFlags == {"rd", "rd+omit"}
OmitFlags == {"omit", "rd+omit"}
RDLocs == {"header", "cookie"}           \* where the documents use IsRequiredNoDefault
SchemaAttrOK(a, w, flag) ==
  IF flag = "null" THEN {a.mode # "required" /\ ~Dev("schema.optional_not_nullable")}
  ELSE IF w.loc = "none" THEN {a.mode # "required" \/ (flag \in RDFlags /\ a.loc \in RDLocs /\ Dev("schema.required_with_default_not_required"))}
  ELSE SchemaValueOK(a, Seen(a, w))
\* the set of verdicts the schema may give on the request (a singleton unless a blurring deviation applies)
SchemaReqVerdicts ==
  IF ~Routed THEN BOOLEAN                                  \* the path is not the one of the operation: a router may or may not match it
  ELSE {\A i \in PIdx : f[i] : f \in {g \in [PIdx -> BOOLEAN] : \A i \in PIdx : g[i] \in SchemaAttrOK(cfg.pa[i], wire[i], IF i = 1 THEN xflag ELSE "none")}}

RespBlurred(a, w) ==
  \/ a.loc = "cookie" /\ Dev("schema.response_cookie_value_schema")
  \/ a.loc = "header" /\ a.nest = "elem" /\ w.v.cn >= 2 /\ Dev("response.header_array_joined")
  \/ Blurred(a, w.v)
SchemaRespAttrOK(a, w) ==
  IF w.loc = "none" THEN {a.mode # "required" \/ a.loc = "cookie"}      \* (OpenAPI cannot require a cookie)
  ELSE IF RespBlurred(a, w) THEN BOOLEAN
  ELSE {LeafChecked(a, w.v) => RuleOK(a, w.v)}
SchemaRespVerdicts ==
  {\A j \in RIdx : f[j] : f \in {g \in [RIdx -> BOOLEAN] : \A j \in RIdx : g[j] \in SchemaRespAttrOK(cfg.ra[j], rwire[j])}}

\* the server's decoder refuses text that is not of the attribute's type, before any validation
XTypeReject ==
  /\ pc = "route" /\ \E i \in PIdx : wire[i].loc # "none" /\ Malformed(wire[i].v)
  /\ pc' = "cswitch" /\ status' = 400 /\ errname' = "invalid_field_type"
  /\ UNCHANGED <<cfg, pv, rv, wire, delivered, invoked, rwire, returned, cerr>>
\* the method shapes of the exchanges (an MC module may replace XAttrs by a sample of XAttrsAll)
\* parts of the transport envelope (lib/Values.tla) this part does not cover yet: attributes Required in the HTTP mapping only
\* (mode "treq"), optional / defaulted payload attributes behind a path parameter, map-valued query parameters, MapParams(),
\* and the messages no generated encoder writes (value shape "nofield")
XBeyond(x) == (x.mode = "default" /\ x.nest \notin {"direct", "alias"})         \* a Default on a list / map attribute
              \/ x.mode \notin Modes \/ (x.loc = "path" /\ x.mode # "required") \/ (x.nest \in QueryMapNests /\ x.loc = "query")
XAttrsAll == {x \in AttrSpace : x.nest \in XNests /\ ~XBeyond(x)}
XAttrs == XAttrsAll
Idle == /\ pc = "encode" /\ wire = <<>> /\ delivered = <<>> /\ invoked = FALSE /\ status = 0 /\ errname = "none"
        /\ rwire = <<>> /\ returned = <<>> /\ cerr = "none"
XInit ==
  /\ \E a \in XAttrs : \E v \in PayloadVals(a) \cup MalVals(a) \cup {Absent}, fl \in {"none", "null", "omit", "rd", "rd+omit"} :
       /\ (fl = "none" => v \in PayloadVals(a) \cup MalVals(a))
       /\ (fl = "null" => v = Absent /\ a.loc = "body" /\ a.nest = "direct" /\ CanBeAbsent(a))
       /\ (fl = "omit" => v = Absent /\ a.mode = "required" /\ a.loc # "path" /\ a.nest \in {"direct", "alias", "nested"} /\ a.rule = "none")
       \* Required + Default: a plain attribute that can carry a default, outside the path
       /\ (fl \in RDFlags => a.mode = "required" /\ a.loc # "path" /\ a.nest = "direct" /\ a.rule = "none" /\ DefaultOf(a) # Absent)
       /\ (fl = "rd" => v \in PayloadVals(a) /\ v # Absent /\ ~IsZero(v)) /\ (fl = "rd+omit" => v = Absent)
       /\ cfg = [pa |-> <<a>>, ra |-> <<FixedAttr>>, tagged |-> FALSE, devs |-> Deviations] /\ pv = <<v>> /\ xflag = fl
  /\ rv = <<FixedVal>> /\ Idle
\* response family: one result attribute (as HTTPTransport's PickR / PickDone choose it)
XInitRes ==
  /\ \E a \in {x \in XAttrs : ResAttrOK(x)} : \E v \in PayloadVals(a) :
       \E t \in (IF a.kind = "string" /\ a.nest = "direct" /\ a.rule = "none" THEN BOOLEAN ELSE {FALSE}) :
         /\ (v = Absent => a.mode # "required")
         /\ cfg = [pa |-> <<FixedAttr>>, ra |-> <<a>>, tagged |-> t, devs |-> Deviations] /\ rv = <<v>>
  /\ pv = <<FixedVal>> /\ xflag = "none" /\ Idle
\* (a raw request is what it is: the choices a generated client has when it encodes - HTTPTransport's WireChoices - do not exist)
XNext == /\ (IF pc = "route" /\ \E i \in PIdx : wire[i].loc # "none" /\ Malformed(wire[i].v) THEN XTypeReject ELSE Next) /\ UNCHANGED xflag
         /\ (pc = "pick" => /\ \A i \in DOMAIN cfg'.pa : ~XBeyond(cfg'.pa[i]) /\ (pv'[i] # Absent => pv'[i].s # "nofield")
                             /\ \A j \in DOMAIN cfg'.ra : ~XBeyond(cfg'.ra[j]) /\ (rv'[j] # Absent => rv'[j].s # "nofield"))
         /\ (pc = "encode" /\ xflag \in {"null", "omit", "rd+omit"} => wire' = [i \in PIdx |-> ClientWire(cfg.pa[i], pv[i])])
\* with several attributes per method (simulation) the exchange is drawn attribute by attribute by HTTPTransport's Init / Pick*
XSpec == (IF NPA = 1 /\ NRA = 1 THEN (IF Family = "req" THEN XInit ELSE XInitRes) ELSE Init /\ xflag = "none")
         /\ OInit /\ [][XNext /\ UNCHANGED ovars]_<<hvars, ovars>>

\* C14
Answered == pc \in {"cswitch", "cdecode", "cvalidate", "done"}          \* the server has answered
SchemaAgreesWithServer == Answered /\ wire # <<>> => \A so \in SchemaReqVerdicts : so = invoked
SchemaAgreesWithDesign == Answered /\ wire # <<>> /\ xflag \in {"none", "rd"} /\ (\A i \in PIdx : ~Malformed(pv[i])) =>
                            \A so \in SchemaReqVerdicts : (Satisfies(cfg.pa, pv) => so) /\ (Violates(cfg.pa, pv) => ~so)
ProducedResponseConforms == Answered /\ invoked /\ status \in {200, 201} /\ Satisfies(cfg.ra, rv) => \A sr \in SchemaRespVerdicts : sr

=============================================================================
