---------------------------- MODULE GRPCTransport ----------------------------
(* The gRPC side of goa-generated code for ONE method:

     design --[eval: accept / refuse]--> [codegen: .proto field table + rpc declaration] --[protoc]-->
     caller -> [generated client: payload -> request message + metadata]            (ClientEncode)
            -> [generated server: message + metadata -> payload, validate]          (ServerDecode, ServerValidate)
            -> service method (user code)                                           (Invoke)
            -> [generated server: result -> response message + headers + trailers]  (ServerEncode)
            -> [generated client: message + headers + trailers -> result, validate] (ClientDecode, ClientValidate)

   cfg.pa / cfg.ra are the payload / result attribute under test (shapes of lib/Values.tla extended with a
   width and the gRPC locations), next to fixed companion attributes (a0 / r0 in the message, "tok" in the
   request metadata when cfg.withmd).  The field numbers of the design are fixed and deliberately not
   contiguous: a0 = 3, a1 = 7 (OneOf members x = 7, y = 9), nested type v = 2, w = 5, r0 = 4, r1 = 6.
   cfg.tagmode says how the design numbers the attribute under test: "ok", "dup" (same number as a sibling)
   or "untagged" (Attribute instead of Field).  cfg.explicit: the design lists the attributes of the request and
   response messages explicitly (GRPC(func(){ Message(func(){ Attribute("a0"); Attribute("a1") }) })) instead of
   leaving them to be derived.  cfg.raw: the request does not come from the generated client but is a bare
   protocol buffer message (as any other gRPC client could send it) in which the field of an unset attribute is
   simply missing - also for attributes the generated client cannot leave unset.

   As in HTTPTransport there is a *mechanism* (what the generator and the generated code do; named
   deviations = what the real code is known to do differently) and an *oracle* (what the design
   promises).  Property C10 relates the two. *)
EXTENDS Values, TLC

CONSTANTS Deviations,
          Family        \* "req" | "res" | "wf" | "xm": which part of the envelope Init enumerates

VARIABLES cfg,        \* [pa, ra, stream, tagmode, withmd, explicit, raw, devs]
          pv, rv,     \* payload value given by the caller / result value returned by the service method
          pc,
          accepted,   \* did eval accept the design
          proto,      \* generated field table: sequence of [msg, name, number, label, type, oneof]
          rpcs,       \* generated rpc declarations: sequence of [name, cs, ss]
          descok,     \* verdict of the descriptor check on the generated file
          wire,       \* request as handed to the transport: [loc, v]   (loc: where the attribute travels, or "none")
          delivered,  \* payload attribute as received by the service method
          invoked,
          errname,    \* name of the error a refused request is answered with
          rwire,      \* response as handed to the transport: [loc, v]
          returned,   \* result attribute as seen by the client caller
          cerr        \* client-side outcome: "none" | "result" | "validation" | "remote"
vars == <<cfg, pv, rv, pc, accepted, proto, rpcs, descok, wire, delivered, invoked, errname, rwire, returned, cerr>>

Dev(d) == d \in cfg.devs

---------------------------------------------------------------------------
\* attribute shapes
GNests == {"direct", "alias", "elem", "mapkey", "mapval", "nested", "oneof"}
ReqLocs == {"message", "metadata"}
ResLocs == {"message", "header", "trailer"}
Widths(k) == CASE k \in {"int", "uint"} -> {"n", "32", "64"} [] k = "float" -> {"32", "64"} [] OTHER -> {"n"}
GAttr(k, w, l, m, r, ns) == [kind |-> k, w |-> w, loc |-> l, mode |-> m, rule |-> r, nest |-> ns]

GWF(a) ==
  /\ a.w \in Widths(a.kind)
  /\ (a.loc # "message" => a.nest \in {"direct", "alias", "elem"} /\ a.kind # "bytes")  \* metadata carries primitives and lists of primitives
  /\ (a.nest = "mapkey" => a.kind \in {"string", "int"})
  /\ (a.kind = "bytes" => a.nest = "direct" /\ a.rule \in {"none", "minlen", "maxlen"})
  /\ (a.kind = "bool" => a.rule = "none")
  /\ (a.rule \in {"min", "max", "xmin", "xmax"} => a.kind \in NumKinds)
  /\ (a.rule \in {"minlen", "maxlen"} => a.kind \in {"string", "bytes"})
  /\ (a.rule \in {"pattern", "format"} => a.kind = "string")
  /\ (a.rule = "enum" => a.kind \in {"int", "string"})
  /\ (a.rule \in {"cminlen", "cmaxlen"} => a.nest \in {"elem", "mapval"})
  /\ (a.mode = "default" => a.nest \in {"direct", "alias"} /\ a.kind # "bytes")
  \* the explicit widths only change what the numbers can hold: explored with the range rules
  /\ (a.w \in {"32", "64"} => a.rule \in {"none", "min", "max"})
\* the gRPC envelope keeps to single rules (the two-rule attributes of lib/Values.tla are exercised over HTTP)
GRules == Rules \ {"range", "xrange", "lenrange"}
GAttrSpace(locs) == {a \in [kind: Kinds, w: {"n", "32", "64"}, loc: locs, mode: Modes, rule: GRules, nest: GNests] : GWF(a)}

\* values: those of lib/Values.tla; a 32 bit attribute cannot even be given the "big" value; a OneOf attribute
\* holds member x (the leaf under test, cn = 1) or member y (a plain string, cn = 2)
AltY == V("string", 3, "plain", 2)
GVals(a) ==
  LET fits(v) == ~(a.w = "32" /\ v.s = "big") IN
  IF a.nest = "oneof" THEN {v \in LeafVals(a.kind) : ShapeFits(v) /\ fits(v)} \cup {AltY}
  ELSE {v \in ValsOf(a) : fits(v)}
GCanBeAbsent(a) == a.mode = "optional" \/ (a.mode = "required" /\ (a.nest \in {"elem", "mapkey", "mapval", "nested", "oneof"} \/ a.kind = "bytes"))
GPayloadVals(a) == GVals(a) \cup (IF GCanBeAbsent(a) THEN {Absent} ELSE {})
IsAltY(a, v) == a.nest = "oneof" /\ v # Absent /\ v.cn = 2
GValid(a, v) == IF IsAltY(a, v) THEN TRUE ELSE ValidAttr(a, v)

---------------------------------------------------------------------------
\* the oracle: what the design promises (same reading of "nothing there" as HTTPTransport)
IsContainer(a) == a.nest \in {"elem", "mapkey", "mapval"} \/ a.kind = "bytes"
Emptyish(a, v) == v # Absent /\ ((a.nest \in {"elem", "mapkey", "mapval"} /\ v.cn = 0) \/ (a.kind = "bytes" /\ a.nest = "direct" /\ v.n = 0))
EmptyOf(a) == IF a.kind = "bytes" THEN V("bytes", 0, "plain", 1) ELSE V(a.kind, 3, "plain", 0)
AllowedDelivered(a, v) ==
  IF v = Absent THEN (IF a.mode = "default" THEN {DefaultOf(a)} ELSE IF IsContainer(a) /\ a.mode = "required" THEN {Absent, EmptyOf(a)} ELSE {Absent})
  ELSE IF Emptyish(a, v) THEN {v, Absent}
  ELSE IF a.mode = "default" /\ IsZero(v) THEN {v, DefaultOf(a)}
  ELSE {v}
AllowedWhere(a, v) ==
  IF v = Absent THEN (IF a.mode = "default" \/ IsContainer(a) THEN {a.loc, "none"} ELSE {"none"})
  ELSE IF Emptyish(a, v) THEN {a.loc, "none"}
  ELSE IF a.mode = "default" /\ IsZero(v) THEN {a.loc, "none"}
  ELSE {a.loc}
Satisfies(a, v) == \A d \in AllowedDelivered(a, v) : GValid(a, d)
Violates(a, v) == \A d \in AllowedDelivered(a, v) : ~GValid(a, d)

\* the field numbers the design chose
Tag0 == 3    Tag1 == 7    TagY == 9    TagV == 2    TagW == 5    RTag0 == 4    RTag1 == 6
\* a design is acceptable when every message attribute has a number and no number is used twice in a message
DesignOK == cfg.tagmode = "ok"
StreamCS == cfg.stream \in {"client", "bidi"}
StreamSS == cfg.stream \in {"server", "bidi"}

---------------------------------------------------------------------------
\* the mechanism.  Named deviations (each one a recorded finding):
\*   int.narrowed_to_32_bits         Int / UInt attributes become sint32 / uint32 fields: a 64 bit value sent in the message is truncated
\*   tags.oneof_members_unchecked    the numbers of OneOf members are not checked against their siblings (nor required to exist)
\*   tags.unchecked_with_metadata    when request metadata is mapped, the numbers of the remaining message attributes are not checked
\*   tags.nested_types_unchecked     the numbers inside a user type used as attribute are not checked
\*   validate.absent_collection_length  (see SideValid)
\*   message.explicit_loses_required  (hypothetical, a vacuity guard: no such behaviour is known) an attribute listed in an
\*                                   explicit request Message mapping is no longer required in the request message
ScalarRequired(a) == a.mode = "required" /\ a.nest \in {"direct", "alias"}
ZeroOf(a) == IF a.kind = "string" THEN V("string", 0, "empty", 1) ELSE V(a.kind, 0, "plain", 1)
LosesRequired == Dev("message.explicit_loses_required") /\ cfg.explicit /\ cfg.pa.mode = "required" /\ cfg.pa.loc = "message"

\* --- eval
Accept ==
  \/ DesignOK
  \/ cfg.pa.nest = "oneof" /\ Dev("tags.oneof_members_unchecked")
  \/ cfg.pa.nest = "nested" /\ Dev("tags.nested_types_unchecked")
  \/ cfg.withmd /\ Dev("tags.unchecked_with_metadata")

\* --- codegen: the .proto field table
PType(a) ==
  CASE a.kind = "int" -> (IF a.w = "64" THEN "sint64" ELSE IF a.w = "32" THEN "sint32" ELSE IF Dev("int.narrowed_to_32_bits") THEN "sint32" ELSE "sint64")
    [] a.kind = "uint" -> (IF a.w = "64" THEN "uint64" ELSE IF a.w = "32" THEN "uint32" ELSE IF Dev("int.narrowed_to_32_bits") THEN "uint32" ELSE "uint64")
    [] a.kind = "float" -> (IF a.w = "32" THEN "float" ELSE "double")
    [] a.kind = "bool" -> "bool"
    [] a.kind = "string" -> "string"
    [] OTHER -> "bytes"
Fld(m, n, k, lb, t, o) == [msg |-> m, name |-> n, number |-> k, label |-> lb, type |-> t, oneof |-> o]
Num(design) == IF cfg.tagmode = "untagged" THEN 0 ELSE IF cfg.tagmode = "dup" THEN Tag0 ELSE design
\* fields generated for the attribute under test `a` named `n` with number `k` in message `m`
AttrFields(m, n, k, a, tagged) ==
  LET lb == IF a.mode # "required" \/ (tagged /\ LosesRequired) THEN "optional" ELSE "singular" IN
  CASE a.nest \in {"direct", "alias"} -> <<Fld(m, n, k, lb, PType(a), "")>>
    [] a.nest = "elem" -> <<Fld(m, n, k, "repeated", PType(a), "")>>
    [] a.nest = "mapkey" -> <<Fld(m, n, k, "map", "map", "")>>
    [] a.nest = "mapval" -> <<Fld(m, n, k, "map", "map", "")>>
    [] a.nest = "nested" -> <<Fld(m, n, (IF tagged THEN Tag1 ELSE k), "singular", "message", ""),
                              Fld(n, "v", (IF ~tagged THEN TagV ELSE IF cfg.tagmode = "untagged" THEN 0 ELSE TagV), "singular", PType(a), ""),
                              Fld(n, "w", (IF ~tagged THEN TagW ELSE IF cfg.tagmode = "dup" THEN TagV ELSE TagW), "optional", "string", "")>>
    [] OTHER -> <<Fld(m, "x", k, "oneof", PType(a), n), Fld(m, "y", TagY, "oneof", "string", n)>>
ReqTable ==
  <<Fld("req", "a0", Tag0, "singular", "string", "")>>
  \o (IF cfg.pa.loc = "message" THEN AttrFields("req", "a1", Num(Tag1), cfg.pa, TRUE) ELSE <<>>)
ResTable ==
  <<Fld("res", "r0", RTag0, "singular", "string", "")>>
  \o (IF cfg.ra.loc = "message" THEN AttrFields("res", "r1", RTag1, cfg.ra, FALSE) ELSE <<>>)
NumbersUnique(t) == \A i, j \in DOMAIN t : i # j /\ t[i].msg = t[j].msg => t[i].number # t[j].number
NamesUnique(t) == \A i, j \in DOMAIN t : i # j /\ t[i].msg = t[j].msg => t[i].name # t[j].name
NumbersValid(t) == \A i \in DOMAIN t : t[i].number >= 1

\* --- generated conversions
\* what the client hands to the transport
Narrow(a, v) ==
  IF v # Absent /\ a.loc = "message" /\ a.kind \in {"int", "uint"} /\ a.w = "n" /\ v.s = "big" /\ ~IsAltY(a, v) /\ Dev("int.narrowed_to_32_bits")
  THEN [v EXCEPT !.s = "plain", !.n = 1]      \* 2^53 + 1 modulo 2^32
  ELSE v
\* (metadata, headers and trailers carry one entry per list element: an empty list leaves nothing to carry)
ClientWire(a, v) == IF v = Absent \/ (a.loc # "message" /\ a.nest = "elem" /\ v.cn = 0) THEN [loc |-> "none", v |-> Absent]
                    ELSE [loc |-> a.loc, v |-> Narrow(a, v)]
\* what the other side reads back
ReadBack(a, w) == IF w.loc = "none" THEN (IF a.mode = "default" THEN DefaultOf(a) ELSE Absent) ELSE w.v
\* validation as the generated code performs it
\*   validate.absent_collection_length  MinLength of an optional list / map is applied to the unset (nil) value (same defect as in the HTTP transport)
SideValid(a, d) ==
  IF d = Absent /\ a.mode = "optional" /\ a.rule = "cminlen" /\ Dev("validate.absent_collection_length") THEN FALSE
  ELSE GValid(a, d)
\* (with the field turned optional, a raw message without it skips the rules: also the left-out zero of a scalar)
ReqValid(d) == IF LosesRequired /\ (d = Absent \/ (cfg.raw /\ ScalarRequired(cfg.pa) /\ d = ZeroOf(cfg.pa))) THEN TRUE ELSE SideValid(cfg.pa, d)
SideViolation(a, d) == IF d = Absent /\ a.mode = "optional" /\ a.rule = "cminlen" THEN "invalid_length" ELSE ViolationOf(a, d)

---------------------------------------------------------------------------
FixedP == GAttr("int", "64", "message", "required", "none", "direct")
FixedR == GAttr("int", "64", "message", "required", "none", "direct")
FixedVal == V("int", 3, "plain", 1)
WFShapes == {GAttr("int", "n", "message", "required", "none", ns) : ns \in {"direct", "elem", "mapval", "nested", "oneof"}}
         \cup {GAttr("string", "n", "message", "optional", "none", ns) : ns \in {"direct", "nested", "oneof"}}
Cfg(pa, ra, st, tm, md) == [pa |-> pa, ra |-> ra, stream |-> st, tagmode |-> tm, withmd |-> md, explicit |-> FALSE, raw |-> FALSE, devs |-> Deviations]
\* the explicit-message family: message attributes of a few kinds, every mode; a valid, an invalid and (raw or where the
\* client can) no value
XMShapes == {a \in [kind: {"int", "string"}, w: {"n", "64"}, loc: {"message"}, mode: Modes, rule: {"min", "none"}, nest: {"direct", "alias", "nested", "elem"}] :
               GWF(a) /\ (a.kind = "int" <=> a.w = "64") /\ (a.kind = "int" <=> a.rule = "min")}
\* (proto3 has no presence for a plain scalar field: leaving a required scalar out of a raw message IS sending its zero
\* value - the wire format never carries zero scalars - so that case appears as the zero value, which the harness omits)
XMVals(a, raw) == {V(a.kind, 3, "plain", 1)} \cup (IF a.rule = "min" THEN {V(a.kind, 1, "plain", 1)} ELSE {})
                  \cup (IF raw /\ ScalarRequired(a) THEN {ZeroOf(a)} ELSE IF raw \/ GCanBeAbsent(a) THEN {Absent} ELSE {})

Init ==
  /\ \/ /\ Family = "req"
        /\ \E a \in GAttrSpace(ReqLocs) : \E v \in GPayloadVals(a) :
             cfg = Cfg(a, FixedR, "none", "ok", FALSE) /\ pv = v /\ rv = FixedVal
     \/ /\ Family = "res"
        /\ \E a \in GAttrSpace(ResLocs) : \E v \in GPayloadVals(a) :
             /\ (v = Absent => a.mode # "required")
             /\ cfg = Cfg(FixedP, a, "none", "ok", FALSE) /\ pv = FixedVal /\ rv = v
     \/ /\ Family = "wf"
        /\ \E a \in WFShapes : \E st \in {"none", "client", "server", "bidi"} : \E tm \in {"ok", "dup", "untagged"} : \E md \in BOOLEAN :
             /\ (st # "none" => a.nest = "direct" /\ tm = "ok" /\ ~md)
             /\ cfg = Cfg(a, FixedR, st, tm, md)
             /\ pv = (IF a.kind = "int" THEN V("int", 3, "plain", 1) ELSE V("string", 3, "plain", 1)) /\ rv = FixedVal
     \/ /\ Family = "xm"
        /\ \E a \in XMShapes : \E ex \in BOOLEAN : \E md \in BOOLEAN : \E rw \in BOOLEAN : \E v \in XMVals(a, rw) :
             /\ cfg = [Cfg(a, FixedR, "none", "ok", md) EXCEPT !.explicit = ex, !.raw = rw] /\ pv = v /\ rv = FixedVal
  /\ pc = "eval" /\ accepted = FALSE /\ proto = <<>> /\ rpcs = <<>> /\ descok = FALSE
  /\ wire = [loc |-> "none", v |-> Absent] /\ delivered = Absent /\ invoked = FALSE /\ errname = "none"
  /\ rwire = [loc |-> "none", v |-> Absent] /\ returned = Absent /\ cerr = "none"

Eval ==
  /\ pc = "eval"
  /\ accepted' = Accept
  /\ pc' = IF Accept THEN "codegen" ELSE "done"
  /\ UNCHANGED <<cfg, pv, rv, proto, rpcs, descok, wire, delivered, invoked, errname, rwire, returned, cerr>>
Codegen ==
  /\ pc = "codegen"
  /\ proto' = ReqTable \o ResTable
  /\ rpcs' = <<[name |-> "M", cs |-> StreamCS, ss |-> StreamSS]>>
  /\ descok' = (NumbersUnique(proto') /\ NamesUnique(proto') /\ NumbersValid(proto'))      \* what a protobuf compiler accepts
  /\ pc' = IF Family = "wf" \/ ~descok' THEN "done" ELSE "encode"
  /\ UNCHANGED <<cfg, pv, rv, accepted, wire, delivered, invoked, errname, rwire, returned, cerr>>
ClientEncode ==
  /\ pc = "encode"
  /\ wire' = ClientWire(cfg.pa, pv)
  /\ pc' = "decode"
  /\ UNCHANGED <<cfg, pv, rv, accepted, proto, rpcs, descok, delivered, invoked, errname, rwire, returned, cerr>>
ServerDecode ==
  /\ pc = "decode"
  /\ delivered' = ReadBack(cfg.pa, wire)
  /\ pc' = "validate"
  /\ UNCHANGED <<cfg, pv, rv, accepted, proto, rpcs, descok, wire, invoked, errname, rwire, returned, cerr>>
ServerValidate ==
  /\ pc = "validate"
  /\ IF ReqValid(delivered)
     THEN pc' = "invoke" /\ UNCHANGED <<errname, cerr>>
     ELSE pc' = "done" /\ errname' = SideViolation(cfg.pa, delivered) /\ cerr' = "remote"
  /\ UNCHANGED <<cfg, pv, rv, accepted, proto, rpcs, descok, wire, delivered, invoked, rwire, returned>>
Invoke ==
  /\ pc = "invoke" /\ invoked' = TRUE /\ pc' = (IF cfg.raw THEN "done" ELSE "respond")      \* a raw request is followed up to user code
  /\ UNCHANGED <<cfg, pv, rv, accepted, proto, rpcs, descok, wire, delivered, errname, rwire, returned, cerr>>
ServerEncode ==
  /\ pc = "respond"
  /\ rwire' = ClientWire(cfg.ra, rv)
  /\ pc' = "cdecode"
  /\ UNCHANGED <<cfg, pv, rv, accepted, proto, rpcs, descok, wire, delivered, invoked, errname, returned, cerr>>
ClientDecode ==
  /\ pc = "cdecode"
  /\ returned' = ReadBack(cfg.ra, rwire)
  /\ pc' = "cvalidate"
  /\ UNCHANGED <<cfg, pv, rv, accepted, proto, rpcs, descok, wire, delivered, invoked, errname, rwire, cerr>>
ClientValidate ==
  /\ pc = "cvalidate"
  /\ cerr' = IF SideValid(cfg.ra, returned) THEN "result" ELSE "validation"
  /\ pc' = "done"
  /\ UNCHANGED <<cfg, pv, rv, accepted, proto, rpcs, descok, wire, delivered, invoked, errname, rwire, returned>>

Next == Eval \/ Codegen \/ ClientEncode \/ ServerDecode \/ ServerValidate \/ Invoke \/ ServerEncode \/ ClientDecode \/ ClientValidate
Spec == Init /\ [][Next]_vars

---------------------------------------------------------------------------
\* C10, first half: definitions are well formed
\* the numbers the design chose for the message attributes: (message, field name) -> number
DesignNumbers ==
  LET one(m, n, k, a) == CASE a.loc # "message" -> {}
                           [] a.nest = "oneof" -> {<<m, "x", k>>, <<m, "y", TagY>>}
                           [] OTHER -> {<<m, n, k>>} IN
  {<<"req", "a0", Tag0>>, <<"res", "r0", RTag0>>} \cup one("req", "a1", Tag1, cfg.pa) \cup one("res", "r1", RTag1, cfg.ra)
HasField(t, m, n, k) == \E i \in DOMAIN t : t[i].msg = m /\ t[i].name = n /\ t[i].number = k
AcceptedOnlyIfNumbered == accepted => DesignOK
WellFormed == proto # <<>> =>
  /\ descok
  /\ NumbersUnique(proto) /\ NamesUnique(proto) /\ NumbersValid(proto)
  /\ (DesignOK => \A d \in DesignNumbers : HasField(proto, d[1], d[2], d[3]))
  /\ Len(rpcs) = 1 /\ rpcs[1].cs = StreamCS /\ rpcs[1].ss = StreamSS
\* an attribute mapped to metadata / headers / trailers is not also a field of the message
NotInMessage == proto # <<>> =>
  /\ (cfg.pa.loc # "message" => \A i \in DOMAIN proto : ~(proto[i].msg = "req" /\ proto[i].name \in {"a1", "x", "y"}))
  /\ (cfg.ra.loc # "message" => \A i \in DOMAIN proto : ~(proto[i].msg = "res" /\ proto[i].name \in {"r1", "x", "y"}))
\* C10, second half: round trip and rejection
LocationPartition == pc \in {"decode", "validate", "invoke", "respond", "cdecode", "cvalidate"} \/ (pc = "done" /\ wire.loc # "none") => wire.loc \in AllowedWhere(cfg.pa, pv)
DeliveredIntact == invoked => delivered \in AllowedDelivered(cfg.pa, pv)
InvokedIffValid == pc = "done" /\ accepted /\ descok /\ Family # "wf" =>
    /\ (Satisfies(cfg.pa, pv) => invoked)
    /\ (Violates(cfg.pa, pv) => ~invoked)
ResultIntact == cerr = "result" => returned \in AllowedDelivered(cfg.ra, rv)
ResponsePartition == pc \in {"cdecode", "cvalidate"} => rwire.loc \in AllowedWhere(cfg.ra, rv)
ClientRejectsInvalidResult == pc = "done" /\ invoked /\ ~cfg.raw =>
    /\ (Violates(cfg.ra, rv) => cerr = "validation")
    /\ (Satisfies(cfg.ra, rv) => cerr = "result")
=============================================================================
