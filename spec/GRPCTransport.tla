---------------------------- MODULE GRPCTransport ----------------------------
(* The gRPC side of goa-generated code for ONE method:

     design --[eval: accept / refuse]--> [codegen: .proto field table + rpc declaration] --[protoc]-->
     caller -> [generated client: payload -> request message + metadata]            (ClientEncode)
            -> [generated server: message + metadata -> payload, validate]          (ServerDecode, ServerValidate)
            -> service method (user code)                                           (Invoke)
            -> [generated server: result -> response message + headers + trailers]  (ServerEncode)
            -> [generated client: message + headers + trailers -> result, validate] (ClientDecode, ClientValidate)

   cfg.pa / cfg.ra are the payload / result attribute under test (shapes of lib/Values.tla extended with a
   width and the gRPC locations), next to fixed companion attributes (a0 / r0 in the message, "tok" in the
   request metadata when cfg.withmd).  The field numbers of the design are fixed and deliberately not
   contiguous: a0 = 3, a1 = 7 (OneOf members x = 7, y = 9), nested type v = 2, w = 5, r0 = 4, r1 = 6.
   cfg.tagmode says how the design numbers the attribute under test: "ok", "dup" (same number as a sibling)
   or "untagged" (Attribute instead of Field).  cfg.explicit: the design lists the attributes of the request and
   response messages explicitly (GRPC(func(){ Message(func(){ Attribute("a0"); Attribute("a1") }) })) instead of
   leaving them to be derived.  cfg.raw: the request does not come from the generated client but is a bare
   protocol buffer message (as any other gRPC client could send it) in which the field of an unset attribute is
   simply missing - also for attributes the generated client cannot leave unset.

   Nestings compose: every attribute shape carries a.path, the sequence of constructors between the attribute and
   its primitive leaf (alias: Type("T", X); elem: ArrayOf(X); mapkey / mapval: MapOf(X, Int32) / MapOf(String, X);
   nested: a user type with the attributes v = X (number 2) and w (a string, number 5); oneof: OneOf with the
   members x = X and y (a string, number 9)).  The one-step shapes of the original envelope are the paths of length
   0 and 1; TLC enumerates the longer ones (Paths): OneOf members of alias / message / list / map type, aliases
   of aliases, lists and maps of aliases and of messages, messages holding lists, maps, messages and OneOfs ...
   a.nest stays what the value classes of lib/Values.tla look at (BaseNest: where the value can be missing, which
   container its size cn counts).  cfg.shared: the result attribute r1 has the very type of the payload
   attribute a1 (one user type serving two messages).

   As in HTTPTransport there is a *mechanism* (what the generator and the generated code do; named
   deviations = what the real code is known to do differently) and an *oracle* (what the design
   promises).  Property C10 relates the two. *)
EXTENDS Values, TLC

CONSTANTS Deviations,
          Family,       \* "req" | "res" | "wf" | "xm": which part of the envelope Init enumerates
          PathDepth     \* longest composed nesting the well-formedness family enumerates (round trips: 2)

VARIABLES cfg,        \* [pa, ra, stream, tagmode, withmd, explicit, raw, shared, devs]
          pv, rv,     \* payload value given by the caller / result value returned by the service method
          pc,
          accepted,   \* did eval accept the design
          proto,      \* generated field table: sequence of [msg, name, number, label, type, oneof]
          rpcs,       \* generated rpc declarations: sequence of [name, cs, ss]
          descok,     \* verdict of the descriptor check on the generated file
          wire,       \* request as handed to the transport: [loc, v]   (loc: where the attribute travels, or "none")
          delivered,  \* payload attribute as received by the service method
          invoked,
          errname,    \* name of the error a refused request is answered with
          rwire,      \* response as handed to the transport: [loc, v]
          returned,   \* result attribute as seen by the client caller
          cerr        \* client-side outcome: "none" | "result" | "validation" | "remote"
vars == <<cfg, pv, rv, pc, accepted, proto, rpcs, descok, wire, delivered, invoked, errname, rwire, returned, cerr>>

Dev(d) == d \in cfg.devs

---------------------------------------------------------------------------
\* attribute shapes
GNests == {"direct", "alias", "elem", "mapkey", "mapval", "nested", "oneof"}
ReqLocs == {"message", "metadata"}
ResLocs == {"message", "header", "trailer"}
Widths(k) == CASE k \in {"int", "uint"} -> {"n", "32", "64"} [] k = "float" -> {"32", "64"} [] OTHER -> {"n"}
\* --- composed nestings
Steps == {"alias", "elem", "mapkey", "mapval", "nested", "oneof"}
Containers == {"elem", "mapkey", "mapval"}
FieldBearing == {"nested", "oneof"}       \* the steps that declare numbered fields of their own
StepsOf(p) == {p[i] : i \in DOMAIN p}
AllAlias(p) == \A i \in DOMAIN p : p[i] = "alias"
From(p, i) == SubSeq(p, i, Len(p))
\* what the DSL can say: an alias renames a primitive or another alias (at most two in a row); map keys are primitives
\* or aliases; a OneOf is an attribute of a message (the payload / result or a user type); below a OneOf member that
\* is a list or a map - which proto3 cannot express - nothing more is explored
PathOK(p) ==
  /\ \A i \in DOMAIN p :
        LET rest == From(p, i + 1) IN
        /\ (p[i] = "alias" => AllAlias(rest))
        /\ (p[i] = "mapkey" => AllAlias(rest) /\ Len(rest) <= 1)
        /\ (p[i] = "oneof" => (i = 1 \/ p[i - 1] = "nested") /\ (rest # <<>> /\ rest[1] \in Containers => Len(rest) = 1))
  /\ Cardinality({i \in DOMAIN p : p[i] = "alias"}) <= 2
Paths(d) == {p \in UNION {[1..n -> Steps] : n \in 0..d} : PathOK(p)}
\* proto3 has no repeated / map fields inside a oneof: such a design cannot be given a protocol buffer file
Inexpressible(p) == \E i \in 1..(Len(p) - 1) : p[i] = "oneof" /\ p[i + 1] \in Containers
\* the nesting the value classes see: a OneOf anywhere makes the value "member x or member y"; else the (first)
\* container decides what cn counts; else a message on the way makes the attribute a pointer; else it is a scalar
BaseNest(p) ==
  IF p = <<>> THEN "direct"
  ELSE IF "oneof" \in StepsOf(p) THEN "oneof"
  ELSE IF \E i \in DOMAIN p : p[i] \in Containers
       THEN p[CHOOSE i \in DOMAIN p : p[i] \in Containers /\ \A j \in 1..(i - 1) : p[j] \notin Containers]
  ELSE IF "nested" \in StepsOf(p) THEN "nested"
  ELSE "alias"
\* round trips are run for the composed nestings whose values lib/Values.tla can describe: at most one container
\* (cn is its size) and none next to a OneOf (cn = 2 there marks member y)
Runnable(p) == /\ Cardinality({i \in DOMAIN p : p[i] \in Containers}) <= 1
               /\ ("oneof" \in StepsOf(p) => \A i \in DOMAIN p : p[i] \notin Containers)
PathOfNest(ns) == IF ns = "direct" THEN <<>> ELSE <<ns>>
GAttr(k, w, l, m, r, ns) == [kind |-> k, w |-> w, loc |-> l, mode |-> m, rule |-> r, nest |-> ns, path |-> PathOfNest(ns)]
GAttrP(k, m, r, p) == [kind |-> k, w |-> "n", loc |-> "message", mode |-> m, rule |-> r, nest |-> BaseNest(p), path |-> p]

GWF(a) ==
  /\ a.w \in Widths(a.kind)
  /\ (a.loc # "message" => a.nest \in {"direct", "alias", "elem"} /\ a.kind # "bytes")  \* metadata carries primitives and lists of primitives
  /\ (a.nest = "mapkey" => a.kind \in {"string", "int"})
  /\ (a.kind = "bytes" => a.nest = "direct" /\ a.rule \in {"none", "minlen", "maxlen"})
  /\ (a.kind = "bool" => a.rule = "none")
  /\ (a.rule \in {"min", "max", "xmin", "xmax"} => a.kind \in NumKinds)
  /\ (a.rule \in {"minlen", "maxlen"} => a.kind \in {"string", "bytes"})
  /\ (a.rule \in {"pattern", "format"} => a.kind = "string")
  /\ (a.rule = "enum" => a.kind \in {"int", "string"})
  /\ (a.rule \in {"cminlen", "cmaxlen"} => a.nest \in {"elem", "mapval"})
  /\ (a.mode = "default" => a.nest \in {"direct", "alias"} /\ a.kind # "bytes")
  \* the explicit widths only change what the numbers can hold: explored with the range rules
  /\ (a.w \in {"32", "64"} => a.rule \in {"none", "min", "max"})
\* the gRPC envelope keeps to single rules (the two-rule attributes of lib/Values.tla are exercised over HTTP)
GRules == Rules \ {"range", "xrange", "lenrange"}
GAttrSpace(locs) == {GAttr(a.kind, a.w, a.loc, a.mode, a.rule, a.nest) :
                       a \in {b \in [kind: Kinds, w: {"n", "32", "64"}, loc: locs, mode: Modes, rule: GRules, nest: GNests] : GWF(b)}}
\* the composed nestings travel in the message, in natural width, with a rule on the leaf (three leaf kinds: the
\* numbers with their bounds, the strings with their shapes and rules, and a kind whose zero value means something)
GCAttrSpace == {a \in {GAttrP(k, m, r, p) : k \in {"int", "string", "bool"}, m \in Modes, r \in GRules \ {"cminlen", "cmaxlen"},
                                             p \in {q \in Paths(2) : Len(q) = 2 /\ Runnable(q)}} : GWF(a)}

\* values: those of lib/Values.tla; a 32 bit attribute cannot even be given the "big" value; a OneOf attribute
\* holds member x (the leaf under test, cn = 1) or member y (a plain string, cn = 2)
AltY == V("string", 3, "plain", 2)
\* precision-sensitive representatives per numeric kind and width - this specification's own value shapes (the numbers
\* of lib/Values.tla are small integers and halves: every one of them survives a conversion at the wrong width, and in
\* metadata / headers / trailers numbers travel as text and are parsed back at a stated bit size).  For an unvalidated
\* attribute (the rules of lib/Values.tla have no reading of these shapes):
\*   frac    0.1: no float32 holds it exactly (a Float32 attribute is given the float32 nearest to it)
\*   odd24   2^24 + 1: an integer no float32 holds           over32  1e39: beyond the largest float32
\*   max32   the largest value of the 32 bit type (float32 / int32 / uint32): every width holds it unchanged
\*   b32     2^32 + 1: beyond 32 bits, unlike "big" (2^53 + 1) exactly representable as a float64
PrecLeaf(a) ==
  CASE a.kind = "float" /\ a.w = "64" -> {V("float", 0, "frac", 1), V("float", 9, "odd24", 1), V("float", 9, "over32", 1)}
    [] a.kind = "float" -> {V("float", 0, "frac", 1), V("float", 9, "max32", 1)}
    [] a.kind \in {"int", "uint"} -> {V(a.kind, 9, "max32", 1)} \cup (IF a.w = "32" THEN {} ELSE {V(a.kind, 9, "b32", 1)})
    [] OTHER -> {}
PrecVals(a) == IF a.rule # "none" THEN {}
               ELSE {[v EXCEPT !.cn = c] : v \in PrecLeaf(a), c \in (IF a.nest \in {"elem", "mapval"} THEN {1, 2} ELSE {1})}
GVals(a) ==
  LET fits(v) == ~(a.w = "32" /\ v.s = "big") IN
  IF a.nest = "oneof" THEN {v \in LeafVals(a.kind) : ShapeFits(v) /\ fits(v)} \cup {AltY} \cup PrecVals(a)
  ELSE {v \in ValsOf(a) : fits(v)} \cup PrecVals(a)
GCanBeAbsent(a) == a.mode = "optional" \/ (a.mode = "required" /\ (a.nest \in {"elem", "mapkey", "mapval", "nested", "oneof"} \/ a.kind = "bytes"))
GPayloadVals(a) == GVals(a) \cup (IF GCanBeAbsent(a) THEN {Absent} ELSE {})
IsAltY(a, v) == a.nest = "oneof" /\ v # Absent /\ v.cn = 2
GValid(a, v) == IF IsAltY(a, v) THEN TRUE ELSE ValidAttr(a, v)

---------------------------------------------------------------------------
\* the oracle: what the design promises (same reading of "nothing there" as HTTPTransport)
IsContainer(a) == a.nest \in {"elem", "mapkey", "mapval"} \/ a.kind = "bytes"
Emptyish(a, v) == v # Absent /\ ((a.nest \in {"elem", "mapkey", "mapval"} /\ v.cn = 0) \/ (a.kind = "bytes" /\ a.nest = "direct" /\ v.n = 0))
EmptyOf(a) == IF a.kind = "bytes" THEN V("bytes", 0, "plain", 1) ELSE V(a.kind, 3, "plain", 0)
AllowedDelivered(a, v) ==
  IF v = Absent THEN (IF a.mode = "default" THEN {DefaultOf(a)} ELSE IF IsContainer(a) /\ a.mode = "required" THEN {Absent, EmptyOf(a)} ELSE {Absent})
  ELSE IF Emptyish(a, v) THEN {v, Absent}
  ELSE IF a.mode = "default" /\ IsZero(v) THEN {v, DefaultOf(a)}
  ELSE {v}
AllowedWhere(a, v) ==
  IF v = Absent THEN (IF a.mode = "default" \/ IsContainer(a) THEN {a.loc, "none"} ELSE {"none"})
  ELSE IF Emptyish(a, v) THEN {a.loc, "none"}
  ELSE IF a.mode = "default" /\ IsZero(v) THEN {a.loc, "none"}
  ELSE {a.loc}
Satisfies(a, v) == \A d \in AllowedDelivered(a, v) : GValid(a, d)
Violates(a, v) == \A d \in AllowedDelivered(a, v) : ~GValid(a, d)

\* the field numbers the design chose
Tag0 == 3    Tag1 == 7    TagY == 9    TagV == 2    TagW == 5    RTag0 == 4    RTag1 == 6
\* a design is acceptable when every message attribute has a number, no number is used twice in a message and
\* protocol buffers can express it
Expressible == ~Inexpressible(cfg.pa.path) /\ ~Inexpressible(cfg.ra.path)
DesignOK == cfg.tagmode = "ok" /\ Expressible
StreamCS == cfg.stream \in {"client", "bidi"}
StreamSS == cfg.stream \in {"server", "bidi"}

---------------------------------------------------------------------------
\* the mechanism.  Named deviations (each one a recorded finding):
\*   int.narrowed_to_32_bits         Int / UInt attributes become sint32 / uint32 fields: a 64 bit value sent in the message is truncated
\*   tags.oneof_members_unchecked    the numbers of OneOf members are not checked against their siblings (nor required to exist)
\*   tags.unchecked_with_metadata    when request metadata is mapped, the numbers of the remaining message attributes are not checked
\*   tags.nested_types_unchecked     the numbers inside a user type used as attribute are not checked
\*   validate.absent_collection_length  (see SideValid)
\*   message.explicit_loses_required  (hypothetical, a vacuity guard: no such behaviour is known) an attribute listed in an
\*                                   explicit request Message mapping is no longer required in the request message
\*   number.oneof_alias_member_lost  (hypothetical, a vacuity guard of the composed nestings: no such behaviour is known on the
\*                                   unchanged tree) a OneOf member whose type is an alias is written without its field number
ScalarRequired(a) == a.mode = "required" /\ a.nest \in {"direct", "alias"}
ZeroOf(a) == IF a.kind = "string" THEN V("string", 0, "empty", 1) ELSE V(a.kind, 0, "plain", 1)
LosesRequired == Dev("message.explicit_loses_required") /\ cfg.explicit /\ cfg.pa.mode = "required" /\ cfg.pa.loc = "message"

\* --- eval
\* (tagmode dup / untagged spoils the numbers at the innermost field-bearing step of the path - TagSite - so that a
\*  OneOf / a nested type on the path means the spoilt numbers sit at or below it)
Accept ==
  /\ Expressible
  /\ \/ cfg.tagmode = "ok"
     \/ "oneof" \in StepsOf(cfg.pa.path) /\ Dev("tags.oneof_members_unchecked")
     \/ "nested" \in StepsOf(cfg.pa.path) /\ Dev("tags.nested_types_unchecked")
     \/ cfg.withmd /\ Dev("tags.unchecked_with_metadata")

\* --- codegen: the .proto field table
PType(a) ==
  CASE a.kind = "int" -> (IF a.w = "64" THEN "sint64" ELSE IF a.w = "32" THEN "sint32" ELSE IF Dev("int.narrowed_to_32_bits") THEN "sint32" ELSE "sint64")
    [] a.kind = "uint" -> (IF a.w = "64" THEN "uint64" ELSE IF a.w = "32" THEN "uint32" ELSE IF Dev("int.narrowed_to_32_bits") THEN "uint32" ELSE "uint64")
    [] a.kind = "float" -> (IF a.w = "32" THEN "float" ELSE "double")
    [] a.kind = "bool" -> "bool"
    [] a.kind = "string" -> "string"
    [] OTHER -> "bytes"
Fld(m, n, k, lb, t, o) == [msg |-> m, name |-> n, number |-> k, label |-> lb, type |-> t, oneof |-> o]
\* where tagmode dup / untagged writes its numbers: the innermost step of the path that declares fields (0: none does,
\* the attribute itself is the only numbered thing)
TagSite(p) == IF \E i \in DOMAIN p : p[i] \in FieldBearing
              THEN CHOOSE i \in DOMAIN p : p[i] \in FieldBearing /\ \A j \in (i + 1)..Len(p) : p[j] \notin FieldBearing
              ELSE 0
\* the number written by step i where the design means `design` and a fixed neighbour has the number `sibling`
NumAt(i, site, tm, design, sibling) == IF i # site THEN design ELSE IF tm = "untagged" THEN 0 ELSE IF tm = "dup" THEN sibling ELSE design
\* messages are named by role: req, res, and for the message type of a field its name (field of req / res) or
\* <role of the message>.<field>; a OneOf member counts as a field of its group: <group>.<member>
Role(m, n) == IF m \in {"req", "res"} THEN n ELSE m \o "." \o n
RoleIn(m, o, n) == IF o = "" THEN Role(m, n) ELSE Role(m, o) \o "." \o n
\* fields generated for the field `n` (number `k`, label `lb0` if it turns out a scalar, member of the oneof group `o`) of
\* message `m` whose value is the rest of the path from step i on; c = [a, site, tm].  A list / map whose entries are
\* lists / maps again gets a wrapper message with the single field "field" = 1.
RECURSIVE PathFields(_, _, _, _, _, _, _), TypeFields(_, _, _, _)
PathFields(c, m, n, k, lb0, o, i) ==
  LET q == From(c.a.path, i)
      lab(x) == IF o # "" THEN "oneof" ELSE x IN
  IF AllAlias(q) THEN <<Fld(m, n, k, lab(lb0), PType(c.a), o)>>
  ELSE LET h == q[1]
           r == Tail(q) IN
    CASE h = "nested" -> <<Fld(m, n, k, lab("singular"), "message", o)>> \o TypeFields(c, RoleIn(m, o, n), i + 1, i)
      [] h = "mapkey" -> <<Fld(m, n, k, lab("map"), "map", o)>>
      [] h \in {"elem", "mapval"} ->
           <<Fld(m, n, k, lab(IF h = "elem" THEN "repeated" ELSE "map"),
                 (IF h = "mapval" THEN "map" ELSE IF AllAlias(r) THEN PType(c.a) ELSE "message"), o)>>
           \o (IF AllAlias(r) THEN <<>>
               ELSE IF r[1] = "nested" THEN TypeFields(c, RoleIn(m, o, n), i + 2, i + 1)
               ELSE PathFields(c, RoleIn(m, o, n), "field", 1, "singular", "", i + 1))
      [] OTHER -> PathFields(c, m, "x", (IF Dev("number.oneof_alias_member_lost") /\ r # <<>> /\ AllAlias(r) THEN 0
                                         ELSE NumAt(i, c.site, c.tm, k, IF m \in {"req", "res"} THEN Tag0 ELSE TagW)), "oneof", n, i + 1)
                  \o <<Fld(m, "y", TagY, "oneof", "string", n)>>
\* the fields of the user type declared by step j (role rl): v = the rest of the path from step i on, and w
TypeFields(c, rl, i, j) ==
  PathFields(c, rl, "v", NumAt(j, c.site, (IF c.tm = "untagged" THEN "untagged" ELSE "ok"), TagV, TagV), "singular", "", i)
  \o <<Fld(rl, "w", NumAt(j, c.site, (IF c.tm = "dup" THEN "dup" ELSE "ok"), TagW, TagV), "optional", "string", "")>>
\* fields generated for the attribute under test `a` named `n` with the design number `k` in message `m`
AttrFields(m, n, k, a, tagged) ==
  LET lb == IF a.mode # "required" \/ (tagged /\ LosesRequired) THEN "optional" ELSE "singular"
      c == [a |-> a, site |-> TagSite(a.path), tm |-> IF tagged THEN cfg.tagmode ELSE "ok"] IN
  PathFields(c, m, n, NumAt(0, c.site, c.tm, k, Tag0), lb, "", 1)
ReqTable ==
  <<Fld("req", "a0", Tag0, "singular", "string", "")>>
  \o (IF cfg.pa.loc = "message" THEN AttrFields("req", "a1", Tag1, cfg.pa, TRUE) ELSE <<>>)
ResTable ==
  <<Fld("res", "r0", RTag0, "singular", "string", "")>>
  \o (IF cfg.ra.loc = "message" THEN AttrFields("res", "r1", RTag1, cfg.ra, FALSE) ELSE <<>>)
NumbersUnique(t) == \A i, j \in DOMAIN t : i # j /\ t[i].msg = t[j].msg => t[i].number # t[j].number
NamesUnique(t) == \A i, j \in DOMAIN t : i # j /\ t[i].msg = t[j].msg => t[i].name # t[j].name
NumbersValid(t) == \A i \in DOMAIN t : t[i].number >= 1

\* --- generated conversions
\* what the client hands to the transport
Narrow(a, v) ==
  IF v # Absent /\ a.loc = "message" /\ a.kind \in {"int", "uint"} /\ a.w = "n" /\ v.s \in {"big", "b32"} /\ ~IsAltY(a, v) /\ Dev("int.narrowed_to_32_bits")
  THEN [v EXCEPT !.s = "plain", !.n = 1]      \* 2^53 + 1 and 2^32 + 1 modulo 2^32
  ELSE v
\* (metadata, headers and trailers carry one entry per list element: an empty list leaves nothing to carry)
ClientWire(a, v) == IF v = Absent \/ (a.loc # "message" /\ a.nest = "elem" /\ v.cn = 0) THEN [loc |-> "none", v |-> Absent]
                    ELSE [loc |-> a.loc, v |-> Narrow(a, v)]
\* what the other side reads back
ReadBack(a, w) == IF w.loc = "none" THEN (IF a.mode = "default" THEN DefaultOf(a) ELSE Absent) ELSE w.v
\* validation as the generated code performs it
\*   validate.absent_collection_length  MinLength of an optional list / map is applied to the unset (nil) value (same defect as in the HTTP transport)
\* (proto3 gives a plain bytes field no presence and the generated code asks no required byte string to be there: one left
\*  unset is validated as the empty one it cannot be told from - the oracle allows both readings, AllowedDelivered)
UnsetBytes(a, d) == d = Absent /\ a.mode = "required" /\ a.kind = "bytes"
SideValid(a, d) ==
  IF d = Absent /\ a.mode = "optional" /\ a.rule = "cminlen" /\ Dev("validate.absent_collection_length") THEN FALSE
  ELSE IF UnsetBytes(a, d) THEN GValid(a, EmptyOf(a))
  ELSE GValid(a, d)
\* (with the field turned optional, a raw message without it skips the rules: also the left-out zero of a scalar)
ReqValid(d) == IF LosesRequired /\ (d = Absent \/ (cfg.raw /\ ScalarRequired(cfg.pa) /\ d = ZeroOf(cfg.pa))) THEN TRUE ELSE SideValid(cfg.pa, d)
SideViolation(a, d) == IF d = Absent /\ a.mode = "optional" /\ a.rule = "cminlen" THEN "invalid_length"
                       ELSE IF UnsetBytes(a, d) THEN ViolationOf(a, EmptyOf(a)) ELSE ViolationOf(a, d)

---------------------------------------------------------------------------
FixedP == GAttr("int", "64", "message", "required", "none", "direct")
FixedR == GAttr("int", "64", "message", "required", "none", "direct")
FixedVal == V("int", 3, "plain", 1)
WFShapes == {GAttr("int", "n", "message", "required", "none", ns) : ns \in {"direct", "elem", "mapval", "nested", "oneof"}}
         \cup {GAttr("string", "n", "message", "optional", "none", ns) : ns \in {"direct", "nested", "oneof"}}
Cfg(pa, ra, st, tm, md) == [pa |-> pa, ra |-> ra, stream |-> st, tagmode |-> tm, withmd |-> md, explicit |-> FALSE, raw |-> FALSE, shared |-> FALSE, devs |-> Deviations]
\* well-formedness of the composed nestings: every path up to PathDepth steps, an Int and an optional String leaf; the
\* spoilt numbers with the Int leaf; one user type serving request and response where the path declares one
WFKinds == {<<"int", "required">>, <<"string", "optional">>}
HasUserType(p) == "alias" \in StepsOf(p) \/ "nested" \in StepsOf(p)
\* the explicit-message family: message attributes of a few kinds, every mode; a valid, an invalid and (raw or where the
\* client can) no value
XMShapes == {GAttr(a.kind, a.w, a.loc, a.mode, a.rule, a.nest) :
               a \in {b \in [kind: {"int", "string"}, w: {"n", "64"}, loc: {"message"}, mode: Modes, rule: {"min", "none"}, nest: {"direct", "alias", "nested", "elem"}] :
                        GWF(b) /\ (b.kind = "int" <=> b.w = "64") /\ (b.kind = "int" <=> b.rule = "min")}}
\* (proto3 has no presence for a plain scalar field: leaving a required scalar out of a raw message IS sending its zero
\* value - the wire format never carries zero scalars - so that case appears as the zero value, which the harness omits)
XMVals(a, raw) == {V(a.kind, 3, "plain", 1)} \cup (IF a.rule = "min" THEN {V(a.kind, 1, "plain", 1)} ELSE {})
                  \cup (IF raw /\ ScalarRequired(a) THEN {ZeroOf(a)} ELSE IF raw \/ GCanBeAbsent(a) THEN {Absent} ELSE {})

Init ==
  /\ \/ /\ Family = "req"
        /\ \E a \in GAttrSpace(ReqLocs) \cup GCAttrSpace : \E v \in GPayloadVals(a) :
             cfg = Cfg(a, FixedR, "none", "ok", FALSE) /\ pv = v /\ rv = FixedVal
     \/ /\ Family = "res"
        /\ \E a \in GAttrSpace(ResLocs) \cup GCAttrSpace : \E v \in GPayloadVals(a) :
             /\ (v = Absent => a.mode # "required")
             /\ cfg = Cfg(FixedP, a, "none", "ok", FALSE) /\ pv = FixedVal /\ rv = v
     \/ /\ Family = "wf"
        /\ \E a \in WFShapes : \E st \in {"none", "client", "server", "bidi"} : \E tm \in {"ok", "dup", "untagged"} : \E md \in BOOLEAN :
             /\ (st # "none" => a.nest = "direct" /\ tm = "ok" /\ ~md)
             /\ cfg = Cfg(a, FixedR, st, tm, md)
             /\ pv = (IF a.kind = "int" THEN V("int", 3, "plain", 1) ELSE V("string", 3, "plain", 1)) /\ rv = FixedVal
     \/ /\ Family = "wf"
        /\ \E p \in Paths(PathDepth) : \E km \in WFKinds : \E tm \in {"ok", "dup", "untagged"} : \E sh \in BOOLEAN :
             LET a == GAttrP(km[1], km[2], "none", p) IN
             /\ Len(p) >= 2 /\ GWF(a)
             /\ (tm # "ok" => km[1] = "int" /\ Len(p) = 2 /\ ~Inexpressible(p))
             /\ (sh => tm = "ok" /\ HasUserType(p) /\ ~Inexpressible(p))
             /\ cfg = [Cfg(a, (IF sh THEN a ELSE FixedR), "none", tm, FALSE) EXCEPT !.shared = sh]
             /\ pv = V(km[1], 3, "plain", 1) /\ rv = (IF sh THEN V(km[1], 3, "plain", 1) ELSE FixedVal)
     \/ /\ Family = "xm"
        /\ \E a \in XMShapes : \E ex \in BOOLEAN : \E md \in BOOLEAN : \E rw \in BOOLEAN : \E v \in XMVals(a, rw) :
             /\ cfg = [Cfg(a, FixedR, "none", "ok", md) EXCEPT !.explicit = ex, !.raw = rw] /\ pv = v /\ rv = FixedVal
  /\ pc = "eval" /\ accepted = FALSE /\ proto = <<>> /\ rpcs = <<>> /\ descok = FALSE
  /\ wire = [loc |-> "none", v |-> Absent] /\ delivered = Absent /\ invoked = FALSE /\ errname = "none"
  /\ rwire = [loc |-> "none", v |-> Absent] /\ returned = Absent /\ cerr = "none"

Eval ==
  /\ pc = "eval"
  /\ accepted' = Accept
  /\ pc' = IF Accept THEN "codegen" ELSE "done"
  /\ UNCHANGED <<cfg, pv, rv, proto, rpcs, descok, wire, delivered, invoked, errname, rwire, returned, cerr>>
Codegen ==
  /\ pc = "codegen"
  /\ proto' = ReqTable \o ResTable
  /\ rpcs' = <<[name |-> "M", cs |-> StreamCS, ss |-> StreamSS]>>
  /\ descok' = (NumbersUnique(proto') /\ NamesUnique(proto') /\ NumbersValid(proto'))      \* what a protobuf compiler accepts
  /\ pc' = IF Family = "wf" \/ ~descok' THEN "done" ELSE "encode"
  /\ UNCHANGED <<cfg, pv, rv, accepted, wire, delivered, invoked, errname, rwire, returned, cerr>>
ClientEncode ==
  /\ pc = "encode"
  /\ wire' = ClientWire(cfg.pa, pv)
  /\ pc' = "decode"
  /\ UNCHANGED <<cfg, pv, rv, accepted, proto, rpcs, descok, delivered, invoked, errname, rwire, returned, cerr>>
ServerDecode ==
  /\ pc = "decode"
  /\ delivered' = ReadBack(cfg.pa, wire)
  /\ pc' = "validate"
  /\ UNCHANGED <<cfg, pv, rv, accepted, proto, rpcs, descok, wire, invoked, errname, rwire, returned, cerr>>
ServerValidate ==
  /\ pc = "validate"
  /\ IF ReqValid(delivered)
     THEN pc' = "invoke" /\ UNCHANGED <<errname, cerr>>
     ELSE pc' = "done" /\ errname' = SideViolation(cfg.pa, delivered) /\ cerr' = "remote"
  /\ UNCHANGED <<cfg, pv, rv, accepted, proto, rpcs, descok, wire, delivered, invoked, rwire, returned>>
Invoke ==
  /\ pc = "invoke" /\ invoked' = TRUE /\ pc' = (IF cfg.raw THEN "done" ELSE "respond")      \* a raw request is followed up to user code
  /\ UNCHANGED <<cfg, pv, rv, accepted, proto, rpcs, descok, wire, delivered, errname, rwire, returned, cerr>>
ServerEncode ==
  /\ pc = "respond"
  /\ rwire' = ClientWire(cfg.ra, rv)
  /\ pc' = "cdecode"
  /\ UNCHANGED <<cfg, pv, rv, accepted, proto, rpcs, descok, wire, delivered, invoked, errname, returned, cerr>>
ClientDecode ==
  /\ pc = "cdecode"
  /\ returned' = ReadBack(cfg.ra, rwire)
  /\ pc' = "cvalidate"
  /\ UNCHANGED <<cfg, pv, rv, accepted, proto, rpcs, descok, wire, delivered, invoked, errname, rwire, cerr>>
ClientValidate ==
  /\ pc = "cvalidate"
  /\ cerr' = IF SideValid(cfg.ra, returned) THEN "result" ELSE "validation"
  /\ pc' = "done"
  /\ UNCHANGED <<cfg, pv, rv, accepted, proto, rpcs, descok, wire, delivered, invoked, errname, rwire, returned>>

Next == Eval \/ Codegen \/ ClientEncode \/ ServerDecode \/ ServerValidate \/ Invoke \/ ServerEncode \/ ClientDecode \/ ClientValidate
Spec == Init /\ [][Next]_vars

---------------------------------------------------------------------------
\* C10, first half: definitions are well formed
\* the numbers the design chose for the message attributes: (message, field name) -> number
\* (read off the design, step by step: a field keeps its number whatever its type; a user type has v = 2 and w = 5; a OneOf
\*  gives its first member the number of the attribute and the second one 9; the single field of a wrapper message is not
\*  the design's choice)
RECURSIVE PathNumbers(_, _, _, _, _, _), TypeNumbers(_, _, _)
PathNumbers(p, m, n, k, o, i) ==
  LET q == From(p, i) IN
  IF AllAlias(q) THEN {<<m, n, k>>}
  ELSE LET h == q[1]
           r == Tail(q)
           sub == RoleIn(m, o, n) IN
    CASE h = "oneof" -> PathNumbers(p, m, "x", k, n, i + 1) \cup {<<m, "y", TagY>>}
      [] h = "nested" -> {<<m, n, k>>} \cup TypeNumbers(p, sub, i + 1)
      [] h = "mapkey" -> {<<m, n, k>>}
      [] OTHER -> {<<m, n, k>>} \cup (IF AllAlias(r) THEN {}
                                      ELSE IF r[1] = "nested" THEN TypeNumbers(p, sub, i + 2)
                                      ELSE PathNumbers(p, sub, "field", 1, "", i + 1) \ {<<sub, "field", 1>>})
TypeNumbers(p, rl, i) == PathNumbers(p, rl, "v", TagV, "", i) \cup {<<rl, "w", TagW>>}
DesignNumbers ==
  LET one(m, n, k, a) == IF a.loc # "message" THEN {} ELSE PathNumbers(a.path, m, n, k, "", 1) IN
  {<<"req", "a0", Tag0>>, <<"res", "r0", RTag0>>} \cup one("req", "a1", Tag1, cfg.pa) \cup one("res", "r1", RTag1, cfg.ra)
HasField(t, m, n, k) == \E i \in DOMAIN t : t[i].msg = m /\ t[i].name = n /\ t[i].number = k
AcceptedOnlyIfNumbered == accepted => DesignOK
WellFormed == proto # <<>> =>
  /\ descok
  /\ NumbersUnique(proto) /\ NamesUnique(proto) /\ NumbersValid(proto)
  /\ (DesignOK => \A d \in DesignNumbers : HasField(proto, d[1], d[2], d[3]))
  /\ Len(rpcs) = 1 /\ rpcs[1].cs = StreamCS /\ rpcs[1].ss = StreamSS
\* an attribute mapped to metadata / headers / trailers is not also a field of the message
NotInMessage == proto # <<>> =>
  /\ (cfg.pa.loc # "message" => \A i \in DOMAIN proto : ~(proto[i].msg = "req" /\ proto[i].name \in {"a1", "x", "y"}))
  /\ (cfg.ra.loc # "message" => \A i \in DOMAIN proto : ~(proto[i].msg = "res" /\ proto[i].name \in {"r1", "x", "y"}))
\* C10, second half: round trip and rejection
LocationPartition == pc \in {"decode", "validate", "invoke", "respond", "cdecode", "cvalidate"} \/ (pc = "done" /\ wire.loc # "none") => wire.loc \in AllowedWhere(cfg.pa, pv)
DeliveredIntact == invoked => delivered \in AllowedDelivered(cfg.pa, pv)
InvokedIffValid == pc = "done" /\ accepted /\ descok /\ Family # "wf" =>
    /\ (Satisfies(cfg.pa, pv) => invoked)
    /\ (Violates(cfg.pa, pv) => ~invoked)
ResultIntact == cerr = "result" => returned \in AllowedDelivered(cfg.ra, rv)
ResponsePartition == pc \in {"cdecode", "cvalidate"} => rwire.loc \in AllowedWhere(cfg.ra, rv)
ClientRejectsInvalidResult == pc = "done" /\ invoked /\ ~cfg.raw =>
    /\ (Violates(cfg.ra, rv) => cerr = "validation")
    /\ (Satisfies(cfg.ra, rv) => cerr = "result")
=============================================================================
