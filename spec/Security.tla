------------------------------ MODULE Security ------------------------------
(* Security requirements of goa-generated endpoints (property C06).

   A design declares schemes (basic "b", API key "k", JWT "j", OAuth2 "o") and attaches requirement lists at
   API, service or method level; NoSecurity switches them off.  A requirement list is a sequence of
   alternative requirements, each a sequence of schemes that must ALL succeed (plus required scopes).
   The generated endpoint calls the user's authorization callbacks:

       requirement 1: scheme 1; then each further scheme only if no error so far
       requirement k>1: only if the previous requirement ended with an error
       finally: error -> return it, else call the service method

   State: the effective requirement list, the callbacks' verdicts, cursor (ri, si), err, call log. *)
EXTENDS Integers, Sequences, FiniteSets, TLC

CONSTANTS Deviations

Schemes == {"b", "k", "j", "o"}
\* the catalogue of requirement lists the envelope draws from: list of [schemes: Seq, scopes: Seq]
Req(ss, sc) == [schemes |-> ss, scopes |-> sc]
Catalogue == <<
   << Req(<<"b">>, <<>>) >>,
   << Req(<<"k">>, <<>>) >>,
   << Req(<<"j">>, <<"r">>) >>,
   << Req(<<"o">>, <<"r", "w">>) >>,
   << Req(<<"b", "k">>, <<>>) >>,
   << Req(<<"j">>, <<"w">>), Req(<<"k">>, <<>>) >>,
   << Req(<<"j", "k">>, <<"r">>), Req(<<"b">>, <<>>) >>,
   << Req(<<"b">>, <<>>), Req(<<"k">>, <<>>), Req(<<"j">>, <<"r">>) >>,
   << Req(<<"k", "o">>, <<"r">>), Req(<<"j", "b">>, <<"w">>) >>,
   \* a scheme recurring in a later alternative (with other required scopes)
   << Req(<<"j">>, <<"w">>), Req(<<"j", "k">>, <<"r">>) >>,
   << Req(<<"k">>, <<>>), Req(<<"b", "k">>, <<>>) >> >>
\* TLC cannot compare strings with tuples: levels are records
Level == [kind: {"unset", "nosec"}, idx: {0}] \cup [kind: {"reqs"}, idx: 1..Len(Catalogue)]
ReqsOf(lv) == IF lv.kind = "reqs" THEN Catalogue[lv.idx] ELSE <<>>

\* inheritance: the innermost level that says something wins
Effective(api, svc, met) ==
  IF met.kind # "unset" THEN ReqsOf(met)
  ELSE IF svc.kind # "unset" THEN ReqsOf(svc)
  ELSE ReqsOf(api)

UsedSchemes(eff) == UNION {{eff[i].schemes[j] : j \in 1..Len(eff[i].schemes)} : i \in 1..Len(eff)}

VARIABLES cfg,       \* [api, svc, met: Level, keyloc: "header" | "query", keycred: "plain" | "space", tokcred: "plain" | "bearer"]
          outcome,   \* [Schemes -> BOOLEAN] verdict of each scheme's callback
          pc, ri, si, err, calls, invoked
vars == <<cfg, outcome, pc, ri, si, err, calls, invoked>>

Eff == Effective(cfg.api, cfg.svc, cfg.met)

\* what the callback of scheme s must receive as credential
ExpectedCred(s) ==
  CASE s = "b" -> "userpass"
    [] s = "k" -> IF cfg.keycred = "space" /\ cfg.keyloc = "header" /\ "auth.header_scheme_prefix_stripped" \in Deviations
                  THEN "key-after-space" ELSE "key"
    [] s = "j" -> "token"                 \* with the "Bearer " prefix removed when the caller supplied one
    [] s = "o" -> "accesstoken"

Init ==
  /\ cfg \in [api: Level, svc: Level, met: Level, keyloc: {"header", "query"}, keycred: {"plain", "space"}, tokcred: {"plain", "bearer"}]
  /\ cfg.api.kind # "nosec" /\ cfg.svc.kind # "nosec"          \* NoSecurity is a method-level DSL
  /\ outcome \in [Schemes -> BOOLEAN]
  /\ \A s \in Schemes \ UsedSchemes(Effective(cfg.api, cfg.svc, cfg.met)) : outcome[s]      \* verdicts of unused schemes do not matter
  /\ ("k" \notin UsedSchemes(Effective(cfg.api, cfg.svc, cfg.met)) => cfg.keyloc = "header" /\ cfg.keycred = "plain")
  /\ ("j" \notin UsedSchemes(Effective(cfg.api, cfg.svc, cfg.met)) => cfg.tokcred = "plain")
  /\ pc = "auth" /\ ri = 1 /\ si = 1 /\ err = "none" /\ calls = <<>> /\ invoked = FALSE

\* scopes only mean something for the schemes that declare scopes (JWT, OAuth2)
RequiredScopes(s, r) == IF s \in {"j", "o"} THEN r.scopes ELSE <<>>
\* one authorization callback
AuthCall ==
  /\ pc = "auth" /\ ri <= Len(Eff) /\ si <= Len(Eff[ri].schemes)
  /\ LET s == Eff[ri].schemes[si]
         guard == IF si = 1 THEN (ri = 1 \/ err # "none") ELSE err = "none" IN
     IF guard
     THEN /\ calls' = Append(calls, [scheme |-> s, cred |-> ExpectedCred(s), required |-> RequiredScopes(s, Eff[ri]), ok |-> outcome[s]])
          /\ err' = IF outcome[s] THEN "none" ELSE s
     ELSE UNCHANGED <<calls, err>>
  /\ si' = si + 1
  /\ UNCHANGED <<cfg, outcome, pc, ri, invoked>>
NextReq ==
  /\ pc = "auth" /\ ri <= Len(Eff) /\ si > Len(Eff[ri].schemes)
  /\ ri' = ri + 1 /\ si' = 1
  /\ UNCHANGED <<cfg, outcome, pc, err, calls, invoked>>
\* requirement k>1 is skipped as a whole when the previous one succeeded: model that by jumping over it
SkipReq ==
  /\ pc = "auth" /\ ri > 1 /\ ri <= Len(Eff) /\ si = 1 /\ err = "none"
  /\ ri' = ri + 1
  /\ UNCHANGED <<cfg, outcome, pc, si, err, calls, invoked>>
Decide ==
  /\ pc = "auth" /\ ri > Len(Eff)
  /\ invoked' = (err = "none")
  /\ pc' = "done"
  /\ UNCHANGED <<cfg, outcome, ri, si, err, calls>>
Next == (AuthCall /\ ~ENABLED SkipReq) \/ SkipReq \/ NextReq \/ Decide
Spec == Init /\ [][Next]_vars

---------------------------------------------------------------------------
Satisfied(r) == \A j \in 1..Len(r.schemes) : outcome[r.schemes[j]]
\* C06
RunIffSatisfied == pc = "done" => (invoked <=> (Eff = <<>> \/ \E i \in 1..Len(Eff) : Satisfied(Eff[i])))
UnsecuredNoCallback == Eff = <<>> => calls = <<>>
OnlyDesignedSchemes == \A c \in 1..Len(calls) : calls[c].scheme \in UsedSchemes(Eff)
DenyReturnsCallbackError == pc = "done" /\ ~invoked => \E c \in 1..Len(calls) : calls[c].scheme = err /\ ~calls[c].ok
CredentialFromDesignedPlace == \A c \in 1..Len(calls) :
   calls[c].cred = (CASE calls[c].scheme = "b" -> "userpass" [] calls[c].scheme = "k" -> "key"
                      [] calls[c].scheme = "j" -> "token" [] calls[c].scheme = "o" -> "accesstoken")
\* a satisfied requirement was actually checked: all of its schemes were called and said yes
GrantIsWitnessed == pc = "done" /\ invoked /\ Eff # <<>> =>
   \E i \in 1..Len(Eff) : \A j \in 1..Len(Eff[i].schemes) :
      \E c \in 1..Len(calls) : calls[c].scheme = Eff[i].schemes[j] /\ calls[c].ok /\ calls[c].required = RequiredScopes(Eff[i].schemes[j], Eff[i])
Inheritance == Eff = (IF cfg.met.kind = "nosec" THEN <<>> ELSE IF cfg.met.kind = "reqs" THEN Catalogue[cfg.met.idx]
                      ELSE IF cfg.svc.kind = "nosec" THEN <<>> ELSE IF cfg.svc.kind = "reqs" THEN Catalogue[cfg.svc.idx]
                      ELSE IF cfg.api.kind = "reqs" THEN Catalogue[cfg.api.idx] ELSE <<>>)
=============================================================================
