------------------------------ MODULE Security ------------------------------
(* Security requirements of goa-generated endpoints (property C06).

   A design declares schemes (basic "b", API key "k", JWT "j", OAuth2 "o") and attaches requirement lists at
   API, service or method level; NoSecurity switches them off.  A requirement list is a sequence of
   alternative requirements, each a sequence of schemes that must ALL succeed (plus required scopes).

   HOW A CREDENTIAL TRAVELS.  Every used scheme has a credential attribute in the payload, a LOCATION where the
   design puts it on the wire and a FORM the caller gives it:

     location  "dflt"   no HTTP mapping: goa maps the attribute to the Authorization header implicitly
                        (expr/http_endpoint.go Finalize, expr/http_body_types.go defaultRequestHeaderAttributes)
               "auth"   Header("tok:Authorization")          (dsl/security.go: `Header("key:Authorization")`)
               "hdr"    Header("tok:X-Tok"), a header of its own
               "query"  Param("tok:t")
               (basic auth always owns the Authorization header; goa's DSL documents header and query only - a
                credential mapped with Cookie() is accepted and mapped to the Authorization header as well, and the
                generated code does not compile: that is a C01 matter and not part of this envelope)
     form      the text handed over, as the sequence of its words (the text is the words joined by single spaces,
               so "Bearer  tok" is <<"Bearer", "", "tok">> and the empty text is <<"">>):
               bare <<tok>>, bearer <<Bearer, tok>>, lower <<bearer, tok>>, other <<Token, tok>> (another scheme
               word; for an API key: a key that contains a space), spaces <<Bearer, "", tok>>, empty, absent;
               basic: bare <<Basic, b64(user:pass)>>, lower <<basic, ..>>, other <<Bearer, ..>>, malformed
               <<Basic, garbage>>, absent
     sender    the generated client (the form is the value of the payload attribute; the client writes
               "Bearer " in front of a JWT / OAuth2 token that travels in the Authorization header and has no
               space: request_encoder.go.tpl + isBearer) or a raw request (the form is the wire value)

   THE DESIGN'S READING of what arrives (request_decoder.go.tpl; dsl/security.go "bearer token"):
     * a header value reaches the server without leading / trailing white space (HTTP), a query value verbatim;
     * basic: r.BasicAuth() - scheme word compared case-insensitively, base64 "user:pass"; anything else is "no
       credentials";
     * the value of the Authorization header (whatever the scheme kind) and a JWT / OAuth2 token in ANY header
       may carry an authorization scheme word: when the value contains a space, the credential is what follows the
       first space ("Bearer tok", "bearer tok", "Token tok" -> "tok"; the scheme word is not compared).  Further
       spaces: goa keeps them ("Bearer  tok" -> " tok"); the statement of C06 ("scheme prefix removed") also
       admits dropping them, so the oracle admits both;
     * an API key in a header of its own and every credential in the query string are taken verbatim;
     * an empty or absent value is "no credential": with a required credential attribute the request is refused
       before any callback runs; with an optional one the callback receives the empty credential.

   The generated endpoint then calls the user's authorization callbacks:

       requirement 1: scheme 1; then each further scheme only if no error so far
       requirement k>1: only if the previous requirement ended with an error
       finally: error -> return it, else call the service method

   State: the configuration (levels, travel), the callbacks' verdicts, the wire credentials, the credentials the
   decoder put in the payload, cursor (ri, si), err, call log. *)
EXTENDS Integers, Sequences, FiniteSets, TLC

CONSTANTS Deviations,
          Spaces,      \* which parts of the envelope Init draws from: "flow" (requirement placement x verdicts), "cred" (credential travel)
          MaxOdd       \* cred space: at most this many schemes of a method travel in a form other than bare

Schemes == {"b", "k", "j", "o"}
\* the catalogue of requirement lists the envelope draws from: list of [schemes: Seq, scopes: Seq]
Req(ss, sc) == [schemes |-> ss, scopes |-> sc]
Catalogue == <<
   << Req(<<"b">>, <<>>) >>,
   << Req(<<"k">>, <<>>) >>,
   << Req(<<"j">>, <<"r">>) >>,
   << Req(<<"o">>, <<"r", "w">>) >>,
   << Req(<<"b", "k">>, <<>>) >>,
   << Req(<<"j">>, <<"w">>), Req(<<"k">>, <<>>) >>,
   << Req(<<"j", "k">>, <<"r">>), Req(<<"b">>, <<>>) >>,
   << Req(<<"b">>, <<>>), Req(<<"k">>, <<>>), Req(<<"j">>, <<"r">>) >>,
   << Req(<<"k", "o">>, <<"r">>), Req(<<"j", "b">>, <<"w">>) >>,
   \* a scheme recurring in a later alternative (with other required scopes)
   << Req(<<"j">>, <<"w">>), Req(<<"j", "k">>, <<"r">>) >>,
   << Req(<<"k">>, <<>>), Req(<<"b", "k">>, <<>>) >> >>
\* TLC cannot compare strings with tuples: levels are records
Level == [kind: {"unset", "nosec"}, idx: {0}] \cup [kind: {"reqs"}, idx: 1..Len(Catalogue)]
ReqsOf(lv) == IF lv.kind = "reqs" THEN Catalogue[lv.idx] ELSE <<>>

\* inheritance: the innermost level that says something wins
Effective(api, svc, met) ==
  IF met.kind # "unset" THEN ReqsOf(met)
  ELSE IF svc.kind # "unset" THEN ReqsOf(svc)
  ELSE ReqsOf(api)

UsedSchemes(eff) == UNION {{eff[i].schemes[j] : j \in 1..Len(eff[i].schemes)} : i \in 1..Len(eff)}

---------------------------------------------------------------------------
\* credential travel
Locs == {"dflt", "auth", "hdr", "query"}
TokForms == {"bare", "bearer", "lower", "other", "spaces", "empty", "absent"}
BasicForms == {"bare", "lower", "other", "malformed", "absent"}
FormsOf(s) == IF s = "b" THEN BasicForms ELSE TokForms
SpacedForms == {"bearer", "lower", "other"}          \* forms that travel with one scheme word in front
PairForms(s) == IF s = "b" THEN {"lower"} ELSE {"bearer", "other"}   \* the forms two schemes of one method take together
ClientForms(s, req) == IF s = "b" THEN {"bare"} ELSE IF req THEN TokForms \ {"absent"} ELSE TokForms   \* what a caller of the generated client can hand over
Words(s, f) ==
  IF s = "b"
  THEN CASE f = "bare" -> <<"Basic", "userpass">> [] f = "lower" -> <<"basic", "userpass">> [] f = "other" -> <<"Bearer", "userpass">>
         [] f = "malformed" -> <<"Basic", "garbage">> [] OTHER -> <<"">>
  ELSE CASE f = "bare" -> <<"tok">> [] f = "bearer" -> <<"Bearer", "tok">> [] f = "lower" -> <<"bearer", "tok">> [] f = "other" -> <<"Token", "tok">>
         [] f = "spaces" -> <<"Bearer", "", "tok">> [] OTHER -> <<"">>
Bearerish(s) == s \in {"j", "o"}

VARIABLES cfg,       \* [space, api, svc, met: Level, loc: [Schemes -> Locs], form: [Schemes -> forms], via: "client" | "raw", credreq: BOOLEAN]
          outcome,   \* [Schemes -> BOOLEAN] verdict of each scheme's callback
          wire,      \* [Schemes -> [present: BOOLEAN, w: words]] what travels at each scheme's location
          got,       \* [Schemes -> words] the credential the request decoder left in the payload
          pc, ri, si, err, calls, invoked, rejected
vars == <<cfg, outcome, wire, got, pc, ri, si, err, calls, invoked, rejected>>

Eff == Effective(cfg.api, cfg.svc, cfg.met)
Used == UsedSchemes(Eff)
OnAuthz(s) == cfg.loc[s] \in {"dflt", "auth"}
InHeader(s) == cfg.loc[s] # "query"

\* ---- the configurations
\* "flow": requirement lists at the three levels x verdict vectors; credentials travel the plain way (the API key in a
\* header of its own or in the query string, possibly with a space inside; the JWT bare or as "Bearer tok")
FlowLoc(used, kl) == [b |-> "dflt", k |-> IF "k" \in used THEN kl ELSE "dflt", o |-> IF "o" \in used THEN "query" ELSE "dflt",
                      j |-> IF "j" \notin used THEN "dflt" ELSE IF "b" \in used THEN "hdr" ELSE "auth"]
FlowCfgs ==
  { [space |-> "flow", api |-> a, svc |-> v, met |-> m, loc |-> FlowLoc(UsedSchemes(Effective(a, v, m)), kl),
     form |-> [b |-> "bare", k |-> kf, j |-> jf, o |-> "bare"], via |-> "client", credreq |-> TRUE] :
      a \in {l \in Level : l.kind # "nosec"}, v \in {l \in Level : l.kind # "nosec"}, m \in Level,     \* NoSecurity is a method-level DSL
      kl \in {"hdr", "query"}, kf \in {"bare", "other"}, jf \in {"bare", "bearer"} }
FlowOK(c) == LET used == UsedSchemes(Effective(c.api, c.svc, c.met)) IN
  /\ ("k" \notin used => c.loc["k"] = "dflt" /\ c.form["k"] = "bare")
  /\ ("j" \notin used => c.form["j"] = "bare")
  /\ ("k" \in used => c.loc["k"] # "dflt")

\* "cred": every catalogue list at method level x every placement of the credentials (at most one scheme on the
\* Authorization header) x forms (at most MaxOdd schemes not bare; several at once only in PairForms - one scheme word
\* in front: that is where one credential's reading could leak into another's) x sender x required / optional
\* credential attributes; verdicts: all accept or exactly one callback refuses
\* (written as a predicate with nested quantifiers: TLC's UNION of thousands of records is quadratic)
Total(dom, f, dflt) == LET at(s) == IF s \in dom THEN f[s] ELSE dflt IN [b |-> at("b"), k |-> at("k"), j |-> at("j"), o |-> at("o")]
ClientCan(used, form, rq) == \A s \in used : form[s] \in ClientForms(s, rq)
IsCredCfg(c) ==
  \E idx \in 1..Len(Catalogue) :
    LET used == UsedSchemes(Catalogue[idx]) IN
    \E lf \in [used -> Locs] :
      /\ Cardinality({s \in used : lf[s] \in {"dflt", "auth"}}) <= 1
      /\ ("b" \in used => lf["b"] = "dflt")
      /\ \E odd \in SUBSET used :
           /\ Cardinality(odd) <= MaxOdd
           /\ \E ff \in [odd -> (TokForms \cup BasicForms) \ {"bare"}] :
                /\ \A s \in odd : ff[s] \in FormsOf(s)
                /\ (Cardinality(odd) > 1 => \A s \in odd : ff[s] \in PairForms(s))
                /\ \E via \in {"client", "raw"}, rq \in BOOLEAN :
                     /\ (via = "client" => ClientCan(used, Total(odd, ff, "bare"), rq))
                     /\ c = [space |-> "cred", api |-> [kind |-> "unset", idx |-> 0], svc |-> [kind |-> "unset", idx |-> 0], met |-> [kind |-> "reqs", idx |-> idx],
                             loc |-> Total(used, lf, "dflt"), form |-> Total(odd, ff, "bare"), via |-> via, credreq |-> rq]

NoCred(c, s) == IF s = "b" THEN c.form[s] \notin {"bare", "lower"} ELSE c.form[s] \in {"empty", "absent"}
Init ==
  /\ \/ "flow" \in Spaces /\ cfg \in FlowCfgs /\ FlowOK(cfg)
     \/ "cred" \in Spaces /\ IsCredCfg(cfg)
  /\ outcome \in [Schemes -> BOOLEAN]
  /\ LET used == UsedSchemes(Effective(cfg.api, cfg.svc, cfg.met)) IN
       /\ \A s \in Schemes \ used : outcome[s]      \* verdicts of unused schemes do not matter
       /\ cfg.space = "cred" => /\ Cardinality({s \in used : ~outcome[s]}) <= 1
                                /\ (cfg.credreq /\ (\E s \in used : NoCred(cfg, s)) => \A s \in used : outcome[s])
  /\ wire = [s \in Schemes |-> [present |-> FALSE, w |-> <<"">>]] /\ got = [s \in Schemes |-> <<"">>]
  /\ pc = "send" /\ ri = 1 /\ si = 1 /\ err = "none" /\ calls = <<>> /\ invoked = FALSE /\ rejected = FALSE

\* ---- the sender (request_encoder.go.tpl, or a hand-made request)
Sent(s) ==
  LET f == cfg.form[s]
      w == Words(s, f) IN
  IF f = "absent" THEN [present |-> FALSE, w |-> <<"">>]
  ELSE IF cfg.via = "raw" THEN [present |-> TRUE, w |-> w]
  ELSE IF s = "b" THEN [present |-> TRUE, w |-> <<"Basic", "userpass">>]              \* req.SetBasicAuth
  ELSE IF /\ OnAuthz(s) /\ Bearerish(s) /\ Len(w) = 1                                 \* isBearer: no space in the token -> "Bearer " + token
          /\ (w # <<"">> \/ "client.bearer_prefix_on_empty_token" \in Deviations)
       THEN [present |-> TRUE, w |-> <<"Bearer">> \o w]
       ELSE [present |-> TRUE, w |-> w]
Send ==
  /\ pc = "send"
  /\ wire' = [s \in Schemes |-> IF s \in Used THEN Sent(s) ELSE wire[s]]
  /\ pc' = "decode"
  /\ UNCHANGED <<cfg, outcome, got, ri, si, err, calls, invoked, rejected>>

\* ---- transport + the generated request decoder (request_decoder.go.tpl)
RECURSIVE DropLead(_), DropTrail(_)
DropLead(w) == IF Len(w) > 1 /\ w[1] = "" THEN DropLead(Tail(w)) ELSE w
DropTrail(w) == IF Len(w) > 1 /\ w[Len(w)] = "" THEN DropTrail(SubSeq(w, 1, Len(w) - 1)) ELSE w
Arrived(s) == IF ~wire[s].present THEN <<"">> ELSE IF InHeader(s) THEN DropTrail(DropLead(wire[s].w)) ELSE wire[s].w
BasicOK(w) == Len(w) = 2 /\ w[1] \in {"Basic", "basic"} /\ w[2] = "userpass"         \* r.BasicAuth()
Missing(s) == IF s = "b" THEN ~BasicOK(Arrived(s)) ELSE Arrived(s) = <<"">>
Strips(s) == InHeader(s) /\ (OnAuthz(s) \/ Bearerish(s) \/ "auth.header_scheme_prefix_stripped" \in Deviations)
Decoded(s) ==
  IF s = "b" THEN (IF BasicOK(Arrived(s)) THEN <<"userpass">> ELSE <<"">>)
  ELSE IF Strips(s) /\ Len(Arrived(s)) > 1 THEN Tail(Arrived(s))                     \* strings.SplitN(cred, " ", 2)[1]
  ELSE Arrived(s)
Decode ==
  /\ pc = "decode"
  /\ IF cfg.credreq /\ \E s \in Used : Missing(s)
     THEN rejected' = TRUE /\ pc' = "done" /\ UNCHANGED got                            \* goa.MissingFieldError -> 400, nothing else runs
     ELSE got' = [s \in Schemes |-> IF s \in Used THEN Decoded(s) ELSE got[s]] /\ pc' = "auth" /\ UNCHANGED rejected
  /\ UNCHANGED <<cfg, outcome, wire, ri, si, err, calls, invoked>>

\* ---- the generated endpoint (service_endpoint_method.go.tpl)
\* scopes only mean something for the schemes that declare scopes (JWT, OAuth2)
RequiredScopes(s, r) == IF s \in {"j", "o"} THEN r.scopes ELSE <<>>
\* one authorization callback
AuthCall ==
  /\ pc = "auth" /\ ri <= Len(Eff) /\ si <= Len(Eff[ri].schemes)
  /\ LET s == Eff[ri].schemes[si]
         guard == IF si = 1 THEN (ri = 1 \/ err # "none") ELSE err = "none" IN
     IF guard
     THEN /\ calls' = Append(calls, [scheme |-> s, cred |-> got[s], required |-> RequiredScopes(s, Eff[ri]), ok |-> outcome[s]])
          /\ err' = IF outcome[s] THEN "none" ELSE s
     ELSE UNCHANGED <<calls, err>>
  /\ si' = si + 1
  /\ UNCHANGED <<cfg, outcome, wire, got, pc, ri, invoked, rejected>>
NextReq ==
  /\ pc = "auth" /\ ri <= Len(Eff) /\ si > Len(Eff[ri].schemes)
  /\ ri' = ri + 1 /\ si' = 1
  /\ UNCHANGED <<cfg, outcome, wire, got, pc, err, calls, invoked, rejected>>
\* requirement k>1 is skipped as a whole when the previous one succeeded: model that by jumping over it
SkipReq ==
  /\ pc = "auth" /\ ri > 1 /\ ri <= Len(Eff) /\ si = 1 /\ err = "none"
  /\ ri' = ri + 1
  /\ UNCHANGED <<cfg, outcome, wire, got, pc, si, err, calls, invoked, rejected>>
Decide ==
  /\ pc = "auth" /\ ri > Len(Eff)
  /\ invoked' = (err = "none")
  /\ pc' = "done"
  /\ UNCHANGED <<cfg, outcome, wire, got, ri, si, err, calls, rejected>>
Next == Send \/ Decode \/ (AuthCall /\ ~ENABLED SkipReq) \/ SkipReq \/ NextReq \/ Decide
Spec == Init /\ [][Next]_vars

---------------------------------------------------------------------------
\* C06.  The oracle is written from the caller's side: what was handed over (form), where the design puts it.
Satisfied(r) == \A j \in 1..Len(r.schemes) : outcome[r.schemes[j]]
\* the scheme's place may carry an authorization scheme word in front of the credential
CarriesSchemeWord(s) == InHeader(s) /\ (OnAuthz(s) \/ Bearerish(s))
\* the credentials the design's reading of the handed-over form admits
Reading(s) ==
  LET f == cfg.form[s] IN
  IF s = "b" THEN (IF f \in {"bare", "lower"} THEN {<<"userpass">>} ELSE {<<"">>})
  ELSE CASE f \in {"empty", "absent"} -> {<<"">>}
         [] f = "bare" -> {<<"tok">>}
         [] f \in SpacedForms -> IF CarriesSchemeWord(s) THEN {<<"tok">>} ELSE {Words(s, f)}
         [] f = "spaces" -> IF CarriesSchemeWord(s) THEN {<<"tok">>, <<"", "tok">>} ELSE {Words(s, f)}
\* a required credential that is not there: the request must not get anywhere
MustRefuse == cfg.credreq /\ \E s \in Used : NoCred(cfg, s)

RunIffSatisfied == pc = "done" => (invoked <=> (~MustRefuse /\ (Eff = <<>> \/ \E i \in 1..Len(Eff) : Satisfied(Eff[i]))))
UnsecuredNoCallback == Eff = <<>> => calls = <<>>
OnlyDesignedSchemes == \A c \in 1..Len(calls) : calls[c].scheme \in Used
DenyReturnsCallbackError == pc = "done" /\ ~invoked /\ ~rejected => \E c \in 1..Len(calls) : calls[c].scheme = err /\ ~calls[c].ok
CredentialFromDesignedPlace == \A c \in 1..Len(calls) : calls[c].cred \in Reading(calls[c].scheme)
NoCredentialNeverRuns == MustRefuse => calls = <<>> /\ ~invoked /\ (pc = "done" => rejected)
RefusedOnlyWithoutCredential == rejected => MustRefuse
\* the generated client announces a bearer token in the Authorization header as one ("Bearer tok"), and never invents a credential
ClientWireForm == pc # "send" /\ cfg.via = "client" => \A s \in Used :
   /\ (Bearerish(s) /\ OnAuthz(s) /\ cfg.form[s] = "bare" => wire[s] = [present |-> TRUE, w |-> <<"Bearer", "tok">>])
   /\ (s # "b" /\ ~(Bearerish(s) /\ OnAuthz(s) /\ cfg.form[s] = "bare") => wire[s].w = Words(s, cfg.form[s]))
\* a satisfied requirement was actually checked: all of its schemes were called and said yes
GrantIsWitnessed == pc = "done" /\ invoked /\ Eff # <<>> =>
   \E i \in 1..Len(Eff) : \A j \in 1..Len(Eff[i].schemes) :
      \E c \in 1..Len(calls) : calls[c].scheme = Eff[i].schemes[j] /\ calls[c].ok /\ calls[c].required = RequiredScopes(Eff[i].schemes[j], Eff[i])
Inheritance == Eff = (IF cfg.met.kind = "nosec" THEN <<>> ELSE IF cfg.met.kind = "reqs" THEN Catalogue[cfg.met.idx]
                      ELSE IF cfg.svc.kind = "nosec" THEN <<>> ELSE IF cfg.svc.kind = "reqs" THEN Catalogue[cfg.svc.idx]
                      ELSE IF cfg.api.kind = "reqs" THEN Catalogue[cfg.api.idx] ELSE <<>>)
=============================================================================
