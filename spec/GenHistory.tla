----------------------------- MODULE GenHistory -----------------------------
(* One output directory over which the user and the goa command line act in
   turn.  Property C09: what `goa gen` leaves under gen/ is a function of the
   design and the command line alone (not of the process, the clock, map
   iteration order or what was in the directory before), `goa gen` over its
   own output reproduces it, and `goa example` never modifies a file that
   already exists.

   Structured like the code:
     cmd/goa/gen.go  Generator.Write    -> Start   (temporary main package in a
                                                    randomly named directory; the
                                                    list of gen/ sub-directories
                                                    to remove is computed HERE,
                                                    by the goa process, and baked
                                                    into the temporary main)
     mainT: eval.RunDSL, os.RemoveAll   -> Wipe    (every sub-directory of gen/
                                                    that existed at Start)
     generator.Generate -> File.Render  -> Render  (one file per step; O_APPEND
                                                    without O_TRUNC: an existing
                                                    file is appended to, so the
                                                    result is only right because
                                                    of Wipe / SkipExist)
     Generator.Remove, deferred Remove  -> Finish  (temporary files go away)

   A path is a sequence of segments; <<"gen", x, ...>> lies in a sub-directory
   of gen/ (wiped), <<"gen", x>> lies directly under gen/ (never wiped), all
   other paths are elsewhere.  A content is an integer naming an equivalence
   class of file contents (sha256 classes in the recorded traces): cfg gives the
   class Gen(d, p) / Ex(d, p) of every file of every design variant, Edit(n) is
   the user's n-th edit, cfg.strayc a stray file, Mixed "none of these" (text
   appended to older text).  `s` (stamp) is the number of the operation that
   last wrote the file (mtime classes in the traces).

   `nonce` stands for everything that differs from one process to the next
   (map hash seeds, time, pid, temporary names).  It is chosen afresh by Start
   and may show in the names of temporary files only.

   Named deviations:
     "gen.no_wipe"          gen does not remove the sub-directories of gen/
     "example.overwrites"   example ignores SkipExist
     "render.nonce_leak"    a rendered content depends on the process
     "gen.wipes_root"       gen also removes the files directly under gen/
     "tmp.left_behind"      temporary files survive the command
     "generate.not_repeatable_in_process"
                            generator.Generate called again by the SAME process
                            (action Again: library use, no new evaluation) renders
                            something else than the first time: the generators keep
                            state (memoized analysis, name scopes, the position of
                            the seeded example randomizer) in process globals and in
                            the evaluated design                                    *)
EXTENDS Integers, Sequences, FiniteSets, TLC

CONSTANTS Deviations,   \* set of named deviations (strings)
          MaxOps,       \* bound on the number of operations of one history
          Nonces,       \* the values `nonce` may take
          KeepHist      \* TRUE: record the history (vector generation)

VARIABLES cfg,      \* the case: design variants with their files, stray locations, editable paths
          dir,      \* Path -> [owner, c, s]
          pc,       \* "idle" | "wipe" | "render"
          cmd,      \* "none" | "gen" | "example": the command being run
          design,   \* design variant named on the command line of the current / last command
          nonce,    \* hidden per-process value
          gens,     \* how many times this process has completed Generate(dir, "gen")
          cleanup,  \* names of the gen/ sub-directories the temporary main will remove
          todo,     \* files still to render
          tmp,      \* temporary paths that exist right now
          clock,    \* operations so far
          edits,    \* user edits so far
          last,     \* [k, d]: the last completed operation ("none", "user", "gen", "example")
          before,   \* dir when the running command started
          wrote,    \* every <<command, design, path, content>> goa ever left behind
          hist      \* the operations so far (only when KeepHist)

vars == <<cfg, dir, pc, cmd, design, nonce, gens, cleanup, todo, tmp, clock, edits, last, before, wrote, hist>>

Mixed == -1
NonceStride == 1000
EmptyDir == [p \in {} |-> 0]

Range(s) == {s[i] : i \in 1..Len(s)}
Put(f, p, v) == [q \in (DOMAIN f) \cup {p} |-> IF q = p THEN v ELSE f[q]]
Without(f, S) == [q \in (DOMAIN f) \ S |-> f[q]]

InGenSub(p) == Len(p) >= 3 /\ p[1] = "gen"
InGenRoot(p) == Len(p) = 2 /\ p[1] = "gen"
GenSubDirs(d) == {p[2] : p \in {q \in DOMAIN d : InGenSub(q)}}

NDesigns == Len(cfg.designs)
GenFiles(d) == cfg.designs[d].gen          \* sequence of [p, c]: the function the property speaks of
ExFiles(d) == cfg.designs[d].ex
GenPaths(d) == {f.p : f \in Range(GenFiles(d))}
ExPaths(d) == {f.p : f \in Range(ExFiles(d))}
Files(k, d) == IF k = "gen" THEN GenFiles(d) ELSE ExFiles(d)
Edit(n) == cfg.editbase + n
Editable == IF cfg.focus = <<>> THEN DOMAIN dir ELSE (DOMAIN dir) \cap Range(cfg.focus)

File(o, c, s) == [owner |-> o, c |-> c, s |-> s]
InitDir(c) == [p \in {f.p : f \in Range(c.init)} |->
                 File("user", (CHOOSE f \in Range(c.init) : f.p = p).c, 0)]

Op(k, d, p) == [k |-> k, d |-> d, p |-> p, same |-> FALSE]
Log(o) == IF KeepHist THEN Append(hist, o) ELSE hist
NoPath == <<"-">>

---------------------------------------------------------------------------
\* a generation begins: the list of directories to remove is fixed now
Begin(k, d, same) ==
  /\ pc = "idle" /\ clock < MaxOps
  /\ d \in 1..NDesigns
  /\ cmd' = k /\ design' = d /\ clock' = clock + 1
  /\ cleanup' = IF k = "gen" /\ "gen.no_wipe" \notin Deviations THEN GenSubDirs(dir) ELSE {}
  /\ before' = dir
  /\ pc' = "wipe"
  /\ hist' = Log([Op(k, d, NoPath) EXCEPT !.same = same])
  /\ UNCHANGED <<cfg, dir, todo, edits, last, wrote>>

\* the goa command line: a new process
Start(k, d) ==
  /\ Begin(k, d, FALSE)
  /\ nonce' \in Nonces /\ gens' = 0
  /\ tmp' = {<<"goa" \o ToString(nonce')>>}

\* the program that already generated design d generates again (same process, same evaluated design;
\* it removes the sub-directories of gen/ itself, as the command line would)
Again(k, d) ==
  /\ last.k \in {"gen", "example"} /\ d = design
  /\ Begin(k, d, TRUE)
  /\ tmp' = {} /\ UNCHANGED <<nonce, gens>>

Wiped(p) == (InGenSub(p) /\ p[2] \in cleanup)
            \/ (InGenRoot(p) /\ cmd = "gen" /\ "gen.wipes_root" \in Deviations)
\* the temporary main: RunDSL, RemoveAll(each directory found by Start); Generate creates gen/temp.*.go
Wipe ==
  /\ pc = "wipe"
  /\ dir' = Without(dir, {p \in DOMAIN dir : Wiped(p)})
  /\ tmp' = tmp \cup {<<"gen", "temp" \o ToString(nonce) \o ".go">>}
  /\ todo' = Files(cmd, design)
  /\ pc' = "render"
  /\ UNCHANGED <<cfg, cmd, design, nonce, gens, cleanup, clock, edits, last, before, wrote, hist>>

Rendered(f) == IF "generate.not_repeatable_in_process" \in Deviations /\ cmd = "gen" /\ gens > 0 THEN Mixed
               ELSE IF "render.nonce_leak" \in Deviations THEN f.c + NonceStride * nonce ELSE f.c
Owner(k) == IF k = "gen" THEN "gen" ELSE "example"

\* codegen.File.Render
Render ==
  /\ pc = "render" /\ todo # <<>>
  /\ LET f == Head(todo)
         exists == f.p \in DOMAIN dir
         skip == cmd = "example" /\ exists /\ "example.overwrites" \notin Deviations    \* SkipExist
         c == IF exists THEN Mixed ELSE Rendered(f)                                      \* O_APPEND
         o == IF exists THEN dir[f.p].owner ELSE Owner(cmd)
     IN /\ dir' = IF skip THEN dir ELSE Put(dir, f.p, File(o, c, clock))
        /\ wrote' = IF skip THEN wrote ELSE wrote \cup {<<cmd, design, f.p, c>>}
  /\ todo' = Tail(todo)
  /\ UNCHANGED <<cfg, pc, cmd, design, nonce, gens, cleanup, tmp, clock, edits, last, before, hist>>

FinishCore ==
  /\ pc = "render" /\ todo = <<>>
  /\ tmp' = IF "tmp.left_behind" \in Deviations THEN tmp ELSE {}
  /\ last' = [k |-> cmd, d |-> design]
  /\ before' = EmptyDir
  /\ pc' = "idle" /\ cmd' = "none"
  /\ gens' = IF cmd = "gen" THEN gens + 1 ELSE gens
  /\ UNCHANGED <<cfg, design, nonce, cleanup, todo, clock, edits, wrote, hist>>
Finish == FinishCore /\ UNCHANGED dir

---------------------------------------------------------------------------
\* the user
UserCommon(o) ==
  /\ pc = "idle" /\ clock < MaxOps
  /\ clock' = clock + 1
  /\ last' = [k |-> "user", d |-> 0]
  /\ hist' = Log(o)
  /\ UNCHANGED <<cfg, pc, cmd, design, nonce, gens, cleanup, todo, tmp, before, wrote>>

UserEdit(p) ==
  /\ p \in DOMAIN dir
  /\ UserCommon(Op("edit", 0, p))
  /\ edits' = edits + 1
  /\ dir' = [dir EXCEPT ![p] = File(dir[p].owner, Edit(edits + 1), clock + 1)]

UserAddStray(p) ==
  /\ p \in Range(cfg.strays) /\ p \notin DOMAIN dir
  /\ UserCommon(Op("stray", 0, p))
  /\ dir' = Put(dir, p, File("user", cfg.strayc, clock + 1))
  /\ UNCHANGED edits

UserDelete(p) ==
  /\ p \in DOMAIN dir
  /\ UserCommon(Op("delete", 0, p))
  /\ dir' = Without(dir, {p})
  /\ UNCHANGED edits

UserOp == \/ \E p \in Editable : UserEdit(p) \/ UserDelete(p)
          \/ \E p \in Range(cfg.strays) : UserAddStray(p)

Next == \/ \E k \in {"gen", "example"}, d \in 1..NDesigns : Start(k, d) \/ Again(k, d)
        \/ Wipe \/ Render \/ Finish \/ UserOp

Idle(c) ==
  /\ cfg = c /\ dir = InitDir(c)
  /\ pc = "idle" /\ cmd = "none" /\ design = 1 /\ nonce \in Nonces /\ gens = 0 /\ cleanup = {} /\ todo = <<>>
  /\ tmp = {} /\ clock = 0 /\ edits = 0 /\ last = [k |-> "none", d |-> 0]
  /\ before = EmptyDir /\ wrote = {} /\ hist = <<>>

---------------------------------------------------------------------------
\* the property
AfterGen == pc = "idle" /\ last.k = "gen"

\* after any gen: every file of the design is there with the content the design determines, it is
\* goa's, and nothing else lives in a sub-directory of gen/ (no stray, no file of an older design)
GenIsFunctionOfDesign ==
  AfterGen =>
    /\ \A f \in Range(GenFiles(last.d)) :
         f.p \in DOMAIN dir /\ dir[f.p].c = f.c /\ dir[f.p].owner = "gen" /\ dir[f.p].s = clock
    /\ \A p \in DOMAIN dir : InGenSub(p) => p \in GenPaths(last.d)

SameContents(a, b) == DOMAIN a = DOMAIN b /\ \A p \in DOMAIN a : a[p].c = b[p].c
\* gen straight after gen of the same design reproduces the directory (evaluated as the second one ends)
GenIdempotent ==
  (pc = "render" /\ todo = <<>> /\ cmd = "gen" /\ last = [k |-> "gen", d |-> design]) => SameContents(dir, before)

\* every step of the example command leaves every existing file exactly as it is (content and stamp)
ExampleNeverModifies ==
  [][cmd = "example" => \A p \in DOMAIN dir : p \in DOMAIN dir' /\ dir'[p] = dir[p]]_vars

\* every step of the gen command leaves everything outside the sub-directories of gen/ alone
GenTouchesOnlyGenSubdirs ==
  [][cmd = "gen" => /\ \A p \in DOMAIN dir : ~InGenSub(p) => p \in DOMAIN dir' /\ dir'[p] = dir[p]
                    /\ \A p \in (DOMAIN dir') \ (DOMAIN dir) : InGenSub(p)]_vars

\* whatever goa writes for (command, design, path) is one content: no dependence on nonce or history
Deterministic ==
  \A w1, w2 \in wrote : (w1[1] = w2[1] /\ w1[2] = w2[2] /\ w1[3] = w2[3]) => w1[4] = w2[4]
DeterministicIsTheDesign ==
  \A w \in wrote : \E f \in Range(Files(w[1], w[2])) : f.p = w[3] /\ f.c = w[4]

\* example creates what is missing and only that
ExampleCompletes ==
  (pc = "idle" /\ last.k = "example") =>
     /\ \A f \in Range(ExFiles(last.d)) : f.p \in DOMAIN dir
     /\ \A p \in DOMAIN dir : dir[p].s = clock => \E f \in Range(ExFiles(last.d)) : f.p = p /\ f.c = dir[p].c

NoLeftovers == pc = "idle" => tmp = {}

TypeOK ==
  /\ pc \in {"idle", "wipe", "render"} /\ cmd \in {"none", "gen", "example"}
  /\ clock \in 0..MaxOps /\ edits \in 0..MaxOps /\ nonce \in Nonces /\ gens \in 0..MaxOps
  /\ \A p \in DOMAIN dir : dir[p].owner \in {"gen", "example", "user"} /\ dir[p].s \in 0..clock
  /\ (pc = "idle") = (cmd = "none")
=============================================================================
