----------------------------- MODULE TypeGraph -----------------------------
(* goa expr type graphs: structural hash (expr.Hash / expr.Equal), deep copy
   (expr.Dup / expr.DupAtt) and the mutations goa performs on copies.
   Property C13.

   A *canonical graph* (what TLC emits, what the driver's walker projects a
   real expr graph onto) is  [root : Ref, nodes : Seq(Node)]  with the nodes
   numbered in depth-first preorder from the root:

     Ref   [p, n]        n = 0: leaf p ("string", "int", ..., "Empty");  n > 0: node n (p = "-")
     Node  [kind, name, attrs]    kind in array | map | object | union | user | result
     Attr  [name, ref, desc, req, val, meta, tags, x]      one expr.AttributeExpr
        array:  attrs = <<elem>>             map: attrs = <<key, elem>>
        object / union: the named attributes / alternatives, in declaration order
        user / result:  attrs = << the type's own AttributeExpr >>, name = TypeName
        desc  0 = "" | k = "d<k>"            req  Validation.Required
        val   0 = none | k = MinLength k     meta values of the meta key "doc:k" (v<i>)
        enum  Validation.Values (e<i>)
        tags  [name, type]: values of struct:field:name / struct:field:type (0 = absent)
        x     number of meta keys / validation fields outside this vocabulary (always 0)
        al    0, or the number of an alias class: the attributes of one class are ONE expr.AttributeExpr held
              by several objects (what AttributeExpr.Merge - Extend(Base), at Finalize - leaves behind: the
              extending object holds the very attribute objects of the base).  Canonical numbering: classes with
              at least two reachable members, in the order of their first member.

   Only user types are shared or recursive (the DSL cannot share anonymous
   types; an attribute held by two objects - al - has a leaf or a user type as
   its type), and every cycle passes through an object (the DSL resolves types by
   name only inside an attribute list); both are what Dup's memo (keyed by
   user type id) and Hash's memo (keyed by object) rely on.

   Equality is specified BY CONSTRUCTION: a graph g is compared with T(g) for
   one transformation T, and Expected(g, T, flags) is the documented rule
   table of expr.Hash.  ModelHash is the *design* of the algorithm, structured
   like expr/hasher.go; HashIffEqual says the design implements the table.
   Besides the transformations that change one feature of one node there are
   three that change the SHARING structure (which references lead to the very
   same user type): unshare, redir, hollow.  For those the table is read as the
   recursive definition it is (Cmp): the old and the new target of the one
   reference that moved are compared rule by rule.

   The heap form of a graph (for Dup and mutations) keeps the slice-valued
   parts of an attribute (meta values, required names, enum values) the way Go
   does: a header [b, l, c] into backing arrays.  That is what makes "append on
   a copy writes into the original's spare capacity" (dup.meta_values_shared)
   and "an element written through the copy shows in the original"
   (dup.*_backing_array_shared, dup.enum_values_shared) expressible. *)
EXTENDS Integers, Sequences, FiniteSets, TLC

CONSTANTS Deviations,   \* named departures of the code from the design
          N,            \* at most N non-primitive nodes
          K,            \* at most K attributes per object / alternatives per union
          Leaves,       \* leaf types used by the generator
          UKinds,       \* subset of {"user", "result"}
          Modes,        \* subset of {"hash", "dup"}
          Decos,        \* hash mode: 0 = no tags, 1 = every object/user attribute carries both tags;
                        \* dup mode: every attribute has that many values under meta "doc:k" and that many required names
          Shapes,       \* "any": every graph; "shared": only graphs in which a non-recursive user type is referenced from two places;
                        \* "aliased": only graphs in which two objects hold the same attribute (after one Extend step)
          Ops,          \* hash mode: "all" transformations, or only those of "sharing" (SharingOps)
          MaxSteps,     \* length of mutation scripts
          Script        \* "free": any steps; "paired": any first step, then the same append-like change at the same
                        \* place on the other side; "copyfirst": like paired, first step on the copy

AllDeviations == {"hash.union_order_dependent", "hash.meta_iteration_order", "hash.recursive_reference_is_prefix",
                  "dup.meta_values_shared",
                  "dup.enum_values_shared",
                  \* hypothetical (vacuity guards of the in-place write steps):
                  "dup.meta_backing_array_shared", "dup.required_backing_array_shared",
                  \* hypothetical (vacuity guard of the sharing transformations): an object met again, in whatever way,
                  \* hashes as "_o_" - the second reference to a user type looks like a type without attributes
                  "hash.memo_hit_is_empty_object",
                  \* hypothetical (vacuity guard of the attributes held by two objects)
                  "dup.attribute_memo_records_original"}
ASSUME Deviations \subseteq AllDeviations

Range(s) == {s[i] : i \in 1..Len(s)}
AttrNames  == <<"a", "b", "c", "d", "y", "z">>      \* alphabetical = rank order
TypeNames  == <<"T1", "T2", "T3", "T4", "T5", "T6", "T7", "T8">>
UnionNames == <<"U1", "U2", "U3", "U4", "U5", "U6", "U7", "U8">>
RankMap == [s \in Range(AttrNames) |-> CHOOSE i \in 1..Len(AttrNames) : AttrNames[i] = s]
Rank(s) == RankMap[s]

P(p) == [p |-> p, n |-> 0]
R(i) == [p |-> "-", n |-> i]
NoTags == [name |-> 0, type |-> 0]
A(nm, r) == [name |-> nm, ref |-> r, desc |-> 0, req |-> <<>>, val |-> 0, enum |-> <<>>, meta |-> <<>>, tags |-> NoTags, x |-> 0, al |-> 0]
Nd(k, nm, as) == [kind |-> k, name |-> nm, attrs |-> as]
IsUser(nd) == nd.kind \in {"user", "result"}
IsNamed(nd) == nd.kind \in {"object", "union"}
NodeRefs(nd) == {nd.attrs[k].ref.n : k \in 1..Len(nd.attrs)} \ {0}

---------------------------------------------------------------------------
(* The graph space, declaratively: every graph with at most N nodes, as a term
   in preorder.  A user type is defined at its first occurrence and may be
   referenced from then on (also from inside its own definition).  The state
   machine below grows the same graphs one constructor at a time (action Build:
   TLC explores that in parallel and memoises the prefixes); BuildSound ties the
   two together and is checked for N <= 2. *)
RECURSIVE Gen(_, _, _), Kids(_, _, _, _)
Gen(nx, b, us) ==
  {[ref |-> P(p), nodes |-> <<>>, us |-> us] : p \in Leaves}
  \cup {[ref |-> R(j), nodes |-> <<>>, us |-> us] : j \in us}
  \cup IF b = 0 THEN {} ELSE
       {[ref |-> R(nx), nodes |-> <<Nd("array", "", <<A("elem", c.refs[1])>>)>> \o c.nodes, us |-> c.us]
          : c \in Kids(1, nx + 1, b - 1, us)}
  \cup {[ref |-> R(nx), nodes |-> <<Nd("map", "", <<A("key", P("string")), A("elem", c.refs[1])>>)>> \o c.nodes, us |-> c.us]
          : c \in Kids(1, nx + 1, b - 1, us)}
  \cup UNION {{[ref |-> R(nx), nodes |-> <<Nd(uk, TypeNames[nx], <<A("", c.refs[1])>>)>> \o c.nodes, us |-> c.us]
          : c \in Kids(1, nx + 1, b - 1, us \cup {nx})} : uk \in UKinds}
  \cup UNION {{[ref |-> R(nx), nodes |-> <<Nd("object", "", [i \in 1..m |-> A(AttrNames[i], c.refs[i])])>> \o c.nodes, us |-> c.us]
          : c \in Kids(m, nx + 1, b - 1, us)} : m \in 0..K}
  \cup UNION {{[ref |-> R(nx), nodes |-> <<Nd("union", UnionNames[nx], [i \in 1..m |-> A(AttrNames[i], c.refs[i])])>> \o c.nodes, us |-> c.us]
          : c \in Kids(m, nx + 1, b - 1, us)} : m \in 1..K}
Kids(m, nx, b, us) ==
  IF m = 0 THEN {[refs |-> <<>>, nodes |-> <<>>, us |-> us]}
  ELSE UNION {{[refs |-> <<c.ref>> \o r.refs, nodes |-> c.nodes \o r.nodes, us |-> r.us]
                 : r \in Kids(m - 1, nx + Len(c.nodes), b - Len(c.nodes), c.us)} : c \in Gen(nx, b, us)}

\* hashing follows user types without a memo: a cycle that avoids every object would never end
Succ(g, i) == IF g.nodes[i].kind = "object" THEN {} ELSE NodeRefs(g.nodes[i])
RECURSIVE ReachK(_, _, _)
ReachK(g, S, k) == IF k = 0 THEN S ELSE ReachK(g, S \cup UNION {Succ(g, i) : i \in S}, k - 1)
EveryCycleHasAnObject(g) == \A i \in 1..Len(g.nodes) : i \notin ReachK(g, Succ(g, i), Len(g.nodes))
\* node i lies on a cycle (is recursive)
RECURSIVE ReachAllK(_, _, _)
ReachAllK(g, S, k) == IF k = 0 THEN S ELSE ReachAllK(g, S \cup UNION {NodeRefs(g.nodes[i]) : i \in S}, k - 1)
OnCycle(g, i) == i \in ReachAllK(g, NodeRefs(g.nodes[i]), Len(g.nodes))
\* the references (node, attribute index) that lead to node u; DAG sharing: a user type that is not recursive
\* and is referenced from two places
RefsTo(g, u) == UNION {{<<i, k>> : k \in {k \in 1..Len(g.nodes[i].attrs) : g.nodes[i].attrs[k].ref.n = u}} : i \in 1..Len(g.nodes)}
SharedUsers(g) == {u \in 1..Len(g.nodes) : IsUser(g.nodes[u]) /\ ~OnCycle(g, u) /\ Cardinality(RefsTo(g, u)) >= 2}

\* alias classes (attribute objects held by several objects): canonical numbering over a node sequence
AllLocs(nodes) == UNION {{<<i, k>> : k \in 1..Len(nodes[i].attrs)} : i \in 1..Len(nodes)}
LocKey(l) == 100 * l[1] + l[2]
NormAl(nodes) ==
  IF \A l \in AllLocs(nodes) : nodes[l[1]].attrs[l[2]].al = 0 THEN nodes ELSE
  LET members(c) == {l \in AllLocs(nodes) : nodes[l[1]].attrs[l[2]].al = c}
      live == {c \in {nodes[l[1]].attrs[l[2]].al : l \in AllLocs(nodes)} \ {0} : Cardinality(members(c)) >= 2}
      first(c) == CHOOSE x \in {LocKey(l) : l \in members(c)} : \A l \in members(c) : x <= LocKey(l)
      num(c) == IF c \notin live THEN 0 ELSE 1 + Cardinality({c2 \in live : first(c2) < first(c)})
  IN [i \in 1..Len(nodes) |-> [nodes[i] EXCEPT !.attrs = [k \in 1..Len(@) |-> [@[k] EXCEPT !.al = num(@)]]]]
HasAlias(g) == \E l \in AllLocs(g.nodes) : g.nodes[l[1]].attrs[l[2]].al # 0
\* the structure alone: every holder of an aliased attribute has an attribute of its own
NoAl(gg) == [gg EXCEPT !.nodes = [i \in 1..Len(@) |-> [@[i] EXCEPT !.attrs = [k \in 1..Len(@) |-> [@[k] EXCEPT !.al = 0]]]]]

Graphs == {g \in {[root |-> t.ref, nodes |-> t.nodes] : t \in {t \in Gen(1, N, {}) : t.ref.n # 0}} : EveryCycleHasAnObject(g)}

---------------------------------------------------------------------------
(* The design of expr.Hash.  A hash is a sequence of string tokens; st threads
   the memo (object node -> its hash, like the *string in the code) and a visit
   counter, and carries the objects that are being hashed (see H). *)
FlagAt(i) == [fields |-> ((i - 1) \div 4) % 2 = 1, names |-> ((i - 1) \div 2) % 2 = 1, tags |-> (i - 1) % 2 = 1]
EqualFlags == 4      \* expr.Equal = Hash(., false, true, true)

SortByName(as) ==
  [i \in 1..Len(as) |-> as[CHOOSE k \in 1..Len(as) : Cardinality({j \in 1..Len(as) : Rank(as[j].name) < Rank(as[k].name)}) = i - 1]]
\* (H walks a graph whose objects and unions were put in this order by Ordered)
\* sort.Slice on <= 12 elements is an insertion sort; the comparator of hashUnion looked at the
\* names at positions i, j of the *unsorted* slice while the elements of the copy were being swapped
BuggySort(orig) ==
  LET n == Len(orig)
      less(i, j) == Rank(orig[i].name) < Rank(orig[j].name)
      RECURSIVE inner(_, _), outer(_, _)
      inner(s, j) == IF j > 1 /\ less(j, j - 1) THEN inner([s EXCEPT ![j] = s[j - 1], ![j - 1] = s[j]], j - 1) ELSE s
      outer(s, i) == IF i > n THEN s ELSE outer(inner(s, i), i + 1)
  IN outer(orig, 2)
UnionOrder(as, devs) == IF "hash.union_order_dependent" \in devs THEN BuggySort(as) ELSE SortByName(as)

\* the "struct:field:*" tags of one attribute; to = 2 stands for the other iteration order of the Go map
TagToks(a, f, to) ==
  IF f.tags THEN <<>> ELSE
  LET tn == IF a.tags.name = 0 THEN <<>> ELSE <<"+", "struct:field:name", ToString(a.tags.name)>>
      tt == IF a.tags.type = 0 THEN <<>> ELSE <<"+", "struct:field:type", ToString(a.tags.type)>>
  IN IF to = 2 THEN tt \o tn ELSE tn \o tt
\* the design writes the tags in sorted key order whatever order the map yields them in
TagOrder(o, devs) == IF "hash.meta_iteration_order" \in devs THEN o ELSE 1

LeafHash(p, f) ==
  IF p = "Empty"      \* the built-in user type Empty: an empty object
  THEN <<"_t_">> \o (IF ~f.names \/ f.fields THEN <<"Empty">> ELSE <<>>) \o (IF f.fields THEN <<>> ELSE <<"!", "_o_">>)
  ELSE <<p>>

\* TLC re-evaluates a LET definition at every use inside recursive operators; binding through a
\* singleton set evaluates it once
Bind(v, F(_)) == CHOOSE y \in {F(x) : x \in {v}} : TRUE

\* st = [seen, c, open, pre, hit]: seen = the memo (object node -> its hash; for an object still being hashed the
\* part built so far), c = visit counter, open = the objects being hashed, outermost first, pre = the deviation
\* hash.recursive_reference_is_prefix, hit = the (hypothetical) deviation hash.memo_hit_is_empty_object.  A reference back to an object that is still being hashed says which of
\* the enclosing objects it means (0 = the innermost): a token no finished object can produce.  The hash of an
\* object that contains such a reference to an object *outside* itself depends on where the object is met, so it
\* is not kept in the memo (`low` of a result = the outermost open object referred to from inside, Inf = none).
\* The code as it is returns the memo entry for a reference back - whatever part of that object had been written
\* so far, "_o_" alone for the first attribute -, which is also the hash of another, finite type.
Inf == 99
Min2(a, b) == IF a < b THEN a ELSE b
PosIn(open, n) == CHOOSE i \in 1..Len(open) : open[i] = n
RECURSIVE H(_, _, _, _, _), HSeq(_, _, _, _, _, _, _, _)
H(g, r, f, to, st) ==
  IF r.n = 0 THEN [h |-> LeafHash(r.p, f), seen |-> st.seen, c |-> st.c + 1, low |-> Inf]
  ELSE
  LET nd == g.nodes[r.n]
      st1 == [st EXCEPT !.c = @ + 1]
      in(e) == [st EXCEPT !.seen = e.seen, !.c = e.c]       \* the state after a sibling has been hashed
      d == Len(st.open) + 1                                   \* position of this object among the open ones
  IN CASE nd.kind = "array" ->
            Bind(H(g, nd.attrs[1].ref, f, to, st1), LAMBDA e : [e EXCEPT !.h = <<"_a_">> \o e.h])
       [] nd.kind = "map" ->
            Bind(H(g, nd.attrs[1].ref, f, to, st1), LAMBDA k :
              Bind(H(g, nd.attrs[2].ref, f, to, in(k)), LAMBDA e :
                [e EXCEPT !.h = <<"_m_">> \o k.h \o <<":">> \o e.h, !.low = Min2(k.low, e.low)]))
       [] nd.kind = "union" ->
            HSeq(g, nd.attrs, 1, f, to, 0, [h |-> <<"_u_", nd.name>>, seen |-> st1.seen, c |-> st1.c, low |-> Inf], st)
       [] IsUser(nd) ->
            LET nm == IF ~f.names \/ f.fields THEN <<nd.name>> ELSE <<>> IN
            IF f.fields THEN [h |-> <<"_t_">> \o nm, seen |-> st1.seen, c |-> st1.c, low |-> Inf]
            ELSE Bind(H(g, nd.attrs[1].ref, f, to, st1), LAMBDA e :
                   [e EXCEPT !.h = <<"_t_">> \o nm \o TagToks(nd.attrs[1], f, to) \o <<"!">> \o e.h])
       [] nd.kind = "object" ->
            IF r.n \in Range(st.open) /\ ~st.pre
            THEN [h |-> <<"_r_", ToString(Len(st.open) - PosIn(st.open, r.n))>>, seen |-> st.seen, c |-> st.c + 1,
                  low |-> PosIn(st.open, r.n)]
            ELSE IF r.n \in DOMAIN st.seen
                 THEN [h |-> IF st.hit THEN <<"_o_">> ELSE st.seen[r.n], seen |-> st.seen, c |-> st.c + 1, low |-> Inf]
            ELSE Bind(HSeq(g, nd.attrs, 1, f, to, r.n,
                           [h |-> <<"_o_">>, seen |-> (r.n :> <<"_o_">>) @@ st1.seen, c |-> st1.c, low |-> Inf],
                           [st EXCEPT !.open = Append(@, r.n)]), LAMBDA e :
                   IF st.pre \/ e.low >= d THEN [e EXCEPT !.low = Inf]
                   ELSE [e EXCEPT !.seen = [k \in DOMAIN e.seen \ {r.n} |-> e.seen[k]]])
\* the attributes of object `self` (self = 0: the alternatives of a union), one after the other; ctx = the state
\* the attributes are hashed in (its open objects)
HSeq(g, as, i, f, to, self, acc, ctx) ==
  IF i > Len(as) THEN acc ELSE
  Bind(H(g, as[i].ref, f, to, [ctx EXCEPT !.seen = acc.seen, !.c = acc.c]), LAMBDA e :
    Bind(IF self = 0 THEN acc.h \o <<"_*_", as[i].name, "_|_">> \o e.h
         ELSE acc.h \o <<"-", as[i].name, "/">> \o e.h \o TagToks(as[i], f, to), LAMBDA nh :
      HSeq(g, as, i + 1, f, to, self,
           [h |-> nh, seen |-> IF self # 0 THEN (self :> nh) @@ e.seen ELSE e.seen, c |-> e.c, low |-> Min2(acc.low, e.low)], ctx)))

\* hashObject and hashUnion first order the attributes by name; done once per graph here
Ordered(g, devs) ==
  [g EXCEPT !.nodes = [i \in 1..Len(g.nodes) |->
     IF g.nodes[i].kind = "object" THEN [g.nodes[i] EXCEPT !.attrs = SortByName(@)]
     ELSE IF g.nodes[i].kind = "union" THEN [g.nodes[i] EXCEPT !.attrs = UnionOrder(@, devs)]
     ELSE g.nodes[i]]]
HashRunO(og, fi, o, devs) == H(og, og.root, FlagAt(fi), TagOrder(o, devs),
                                [seen |-> <<>>, c |-> 0, open |-> <<>>, pre |-> "hash.recursive_reference_is_prefix" \in devs,
                                 hit |-> "hash.memo_hit_is_empty_object" \in devs])
HashRun(g, fi, o, devs) == HashRunO(Ordered(g, devs), fi, o, devs)
ModelHash(g, fi, o, devs) == HashRun(g, fi, o, devs).h

---------------------------------------------------------------------------
(* Transformations and the documented rule table. *)
T0(op, nd, ix) == [op |-> op, node |-> nd, idx |-> ix, perm |-> <<>>, tags |-> NoTags, to |-> 0]
Perms(n) == {p \in [1..n -> 1..n] : \A i, j \in 1..n : i # j => p[i] # p[j]}
Ident(n) == [i \in 1..n |-> i]
HasName(nd, s) == \E k \in 1..Len(nd.attrs) : nd.attrs[k].name = s
TagTargets == {[name |-> 0, type |-> 0], [name |-> 1, type |-> 0], [name |-> 0, type |-> 1],
               [name |-> 1, type |-> 1], [name |-> 2, type |-> 1]}
\* (unalias: every holder of an aliased attribute gets an attribute of its own with the same content)
IrrelevantOps == {"copy", "copyatt", "perm", "rev", "desc", "val", "req", "meta", "deco", "unalias"}
StructuralOps == {"ren", "add", "del", "prim", "flip"}
\* one reference to a user type is moved to another user type; everything else stays as it is:
\*   unshare  a user type referenced from two places (and not recursive): this reference gets a type of its own,
\*            "Z", with the same definition (anonymous structure copied, user types below stay shared)
\*   redir    the reference goes to another user type of the graph (two identical types merged into one shared
\*            node when the two are structurally equal - the inverse of unshare -, a different type otherwise;
\*            recursive types included: the reference may open or close a cycle)
\*   hollow   the reference goes to a new user type "Z" whose definition is an object without attributes
SharingOps == {"unshare", "redir", "hollow"}

\* reachable node ids, in preorder
RECURSIVE Ord(_, _, _), OrdSeq(_, _, _, _)
Ord(nodes, r, acc) == IF r.n = 0 \/ r.n \in Range(acc) THEN acc ELSE OrdSeq(nodes, nodes[r.n].attrs, 1, Append(acc, r.n))
OrdSeq(nodes, as, i, acc) == IF i > Len(as) THEN acc ELSE OrdSeq(nodes, as, i + 1, Ord(nodes, as[i].ref, acc))

Transforms(g, fine) ==
  LET NN == 1..Len(g.nodes)
      nd(i) == g.nodes[i]
      Locs == UNION {{<<i, k>> : k \in 1..Len(nd(i).attrs)} : i \in NN}
      tgt(l) == nd(l[1]).attrs[l[2]].ref.n
      \* what changes the attribute itself is done to attributes with one holder only (for an aliased attribute the
      \* change would show in every holder: another transformation); its slot can be renamed or removed
      Own == {l \in Locs : nd(l[1]).attrs[l[2]].al = 0}
      ULocs == {l \in Own : tgt(l) # 0 /\ IsUser(nd(tgt(l)))}       \* the references to user types
  IN {T0("copy", 0, 0), T0("copyatt", 0, 0)}
     \cup (IF HasAlias(g) THEN {T0("unalias", 0, 0)} ELSE {})
     \cup UNION {{[T0("perm", i, 0) EXCEPT !.perm = p] : p \in Perms(Len(nd(i).attrs)) \ {Ident(Len(nd(i).attrs))}}
                   : i \in {i \in NN : IsNamed(nd(i)) /\ Len(nd(i).attrs) >= 2}}
     \cup (IF \E i \in NN : IsNamed(nd(i)) /\ Len(nd(i).attrs) >= 2 THEN {T0("rev", 0, 0)} ELSE {})
     \cup {T0(op, l[1], l[2]) : op \in (IF fine THEN {"desc", "val", "req", "meta"} ELSE {"deco"}), l \in Own}
     \cup {T0("uname", i, 0) : i \in {i \in NN : IsUser(nd(i))}}
     \cup UNION {{[T0("tag", l[1], l[2]) EXCEPT !.tags = tg] : tg \in TagTargets \ {nd(l[1]).attrs[l[2]].tags}}
                   : l \in {l \in Own : nd(l[1]).kind = "object"}}
     \cup {T0("ren", l[1], l[2]) : l \in {l \in Locs : IsNamed(nd(l[1])) /\ ~HasName(nd(l[1]), "z")}}
     \cup {T0("add", i, 0) : i \in {i \in NN : IsNamed(nd(i)) /\ ~HasName(nd(i), "z")}}
     \cup {T0("del", l[1], l[2]) : l \in {l \in Locs : nd(l[1]).kind = "object" \/ (nd(l[1]).kind = "union" /\ Len(nd(l[1]).attrs) >= 2)}}
     \cup {T0("prim", l[1], l[2]) : l \in {l \in Own : nd(l[1]).attrs[l[2]].ref.n = 0 /\ nd(l[1]).attrs[l[2]].ref.p # "Empty"}}
     \cup {T0("flip", i, 0) : i \in {i \in NN : nd(i).kind \in {"array", "map"}}}
     \cup {T0("unshare", l[1], l[2]) : l \in {l \in ULocs : tgt(l) \in SharedUsers(g)}}
     \cup {T0("hollow", l[1], l[2]) : l \in ULocs}
     \cup UNION {{[T0("redir", l[1], l[2]) EXCEPT !.to = j]
                    : j \in {j \in NN \ {tgt(l)} : /\ nd(j).kind = nd(tgt(l)).kind
                                                   /\ EveryCycleHasAnObject([g EXCEPT !.nodes[l[1]].attrs[l[2]].ref = R(j)])}}
                   : l \in ULocs}

Deco(a, op) ==
  [a EXCEPT !.desc = IF op \in {"desc", "deco"} THEN 7 ELSE @,
            !.val  = IF op \in {"val", "deco"} THEN 7 ELSE @,
            !.req  = IF op \in {"req", "deco"} /\ "y" \notin Range(@) THEN Append(@, "y") ELSE @,
            !.meta = IF op \in {"meta", "deco"} THEN Append(@, 7) ELSE @]
RemoveAt(s, k) == SubSeq(s, 1, k - 1) \o SubSeq(s, k + 1, Len(s))

\* a copy of the anonymous structure below r (arrays, maps, objects, unions are never shared: each gets a new
\* node at the end; leaves and user types stay what they are)
RECURSIVE CopyAnon(_, _), CopyAnonAs(_, _, _, _)
CopyAnon(nodes, r) ==
  IF r.n = 0 \/ IsUser(nodes[r.n]) THEN [nodes |-> nodes, ref |-> r]
  ELSE LET id == Len(nodes) + 1
           res == CopyAnonAs(Append(nodes, [nodes[r.n] EXCEPT !.attrs = <<>>]), nodes[r.n].attrs, 1, <<>>)
       IN [nodes |-> [res.nodes EXCEPT ![id].attrs = res.attrs], ref |-> R(id)]
CopyAnonAs(nodes, as, i, out) ==
  IF i > Len(as) THEN [nodes |-> nodes, attrs |-> out]
  ELSE LET c == CopyAnon(nodes, as[i].ref) IN CopyAnonAs(c.nodes, as, i + 1, Append(out, [as[i] EXCEPT !.ref = c.ref]))

ApplyT(g, t) ==
  LET nd == g.nodes[t.node]
      u == nd.attrs[t.idx].ref.n            \* sharing operations: the user type the reference leads to now
      id == Len(g.nodes) + 1
  IN
  CASE t.op \in {"copy", "copyatt", "unalias"} -> NoAl(g)     \* (a copy: every DupAttribute call makes an attribute of its own, see DupAs)
    [] t.op = "unshare" ->
         LET c == CopyAnon(Append(g.nodes, [g.nodes[u] EXCEPT !.name = "Z", !.attrs = <<>>]), g.nodes[u].attrs[1].ref)
         IN [g EXCEPT !.nodes = [c.nodes EXCEPT ![id].attrs = <<[g.nodes[u].attrs[1] EXCEPT !.ref = c.ref]>>,
                                                ![t.node].attrs[t.idx].ref = R(id)]]
    [] t.op = "hollow" ->
         [g EXCEPT !.nodes = [g.nodes \o <<Nd(g.nodes[u].kind, "Z", <<[g.nodes[u].attrs[1] EXCEPT !.ref = R(id + 1)]>>), Nd("object", "", <<>>)>>
                                EXCEPT ![t.node].attrs[t.idx].ref = R(id)]]
    [] t.op = "redir" -> [g EXCEPT !.nodes[t.node].attrs[t.idx].ref = R(t.to)]
    [] t.op = "perm" -> [g EXCEPT !.nodes[t.node].attrs = [i \in 1..Len(nd.attrs) |-> nd.attrs[t.perm[i]]]]
    [] t.op = "rev" -> [g EXCEPT !.nodes = [i \in 1..Len(g.nodes) |->
                          IF IsNamed(g.nodes[i]) THEN [g.nodes[i] EXCEPT !.attrs = [k \in 1..Len(@) |-> @[Len(@) + 1 - k]]] ELSE g.nodes[i]]]
    [] t.op \in {"desc", "val", "req", "meta", "deco"} -> [g EXCEPT !.nodes[t.node].attrs[t.idx] = Deco(@, t.op)]
    [] t.op = "uname" -> [g EXCEPT !.nodes[t.node].name = "Z"]
    [] t.op = "tag" -> [g EXCEPT !.nodes[t.node].attrs[t.idx].tags = t.tags]
    [] t.op = "ren" -> [g EXCEPT !.nodes[t.node].attrs[t.idx].name = "z"]
    [] t.op = "add" -> [g EXCEPT !.nodes[t.node].attrs = Append(@, A("z", P("string")))]
    [] t.op = "del" -> [g EXCEPT !.nodes[t.node].attrs = RemoveAt(@, t.idx)]
    [] t.op = "prim" -> [g EXCEPT !.nodes[t.node].attrs[t.idx].ref = IF @.p = "string" THEN P("int") ELSE P("string")]
    [] t.op = "flip" -> [g EXCEPT !.nodes[t.node] =
                           IF nd.kind = "array" THEN Nd("map", "", <<A("key", P("string")), [nd.attrs[1] EXCEPT !.name = "elem"]>>)
                           ELSE Nd("array", "", <<nd.attrs[2]>>)]

\* the nodes a hash walk with flags f visits: it does not look inside a user type when fields are ignored
Visited(g, f) ==
  LET Exp(i) == IF IsUser(g.nodes[i]) /\ f.fields THEN {} ELSE NodeRefs(g.nodes[i])
      RECURSIVE Cl(_, _)
      Cl(S, k) == IF k = 0 THEN S ELSE Cl(S \cup UNION {Exp(i) : i \in S}, k - 1)
  IN Cl({g.root.n}, Len(g.nodes))

\* The documented rules read as the recursive definition they are, for a reference r1 into g1 (the graph as it
\* was) and a reference r2 into g2 (the transformed graph; nodes 1..Len(g1.nodes) are those of g1, and only the
\* one attribute of node `hold` that was redirected differs): "eq" same hash, "ne" different hashes, "na" the
\* documentation does not say.  A rule that says "different" decides.  "na":
\*   - a user type against a result type; different struct:field tags on the two types' own attributes; two
\*     unions with different names (the rules do not mention unions; their names are part of the hash whatever
\*     the flags);
\*   - two different types of which one is recursive, and no rule told them apart: whether a recursive type and
\*     an unrolling of it are "the same" is not defined (only a difference is);
\*   - the comparison has not come to an end after `fuel` levels.
\* The same node on both sides is the same type as long as the redirected attribute cannot be reached from it.
EmptyObj == [p |-> "{}", n |-> 0]        \* the definition of the built-in user type Empty
NodeOf(gg, r) ==
  IF r.n # 0 THEN gg.nodes[r.n]
  ELSE IF r.p = "Empty" THEN Nd("user", "Empty", <<A("", EmptyObj)>>)
  ELSE IF r = EmptyObj THEN Nd("object", "", <<>>)
  ELSE Nd("leaf", r.p, <<>>)
NameSet(nd) == {nd.attrs[k].name : k \in 1..Len(nd.attrs)}
AttrBy(nd, s) == nd.attrs[CHOOSE k \in 1..Len(nd.attrs) : nd.attrs[k].name = s]
Worst(S) == IF "ne" \in S THEN "ne" ELSE IF "na" \in S THEN "na" ELSE "eq"
Reaches(gg, i, j) == i = j \/ j \in ReachAllK(gg, NodeRefs(gg.nodes[i]), Len(gg.nodes))
RECURSIVE Cmp(_, _, _, _, _, _, _)
Cmp(g1, r1, g2, r2, f, hold, fuel) ==
  IF r1 = r2 /\ (r1.n = 0 \/ ~Reaches(g1, r1.n, hold)) THEN "eq" ELSE IF fuel = 0 THEN "na" ELSE
  LET n1 == NodeOf(g1, r1)
      n2 == NodeOf(g2, r2)
      sub(a1, a2) == Cmp(g1, a1.ref, g2, a2.ref, f, hold, fuel - 1)
      rec == (r1.n # 0 /\ OnCycle(g1, r1.n)) \/ (r2.n # 0 /\ OnCycle(g2, r2.n))
      v == IF n1.kind # n2.kind THEN (IF IsUser(n1) /\ IsUser(n2) THEN "na" ELSE "ne")
           ELSE CASE n1.kind = "leaf" -> IF n1.name = n2.name THEN "eq" ELSE "ne"
                  [] n1.kind = "array" -> sub(n1.attrs[1], n2.attrs[1])
                  [] n1.kind = "map" -> Worst({sub(n1.attrs[1], n2.attrs[1]), sub(n1.attrs[2], n2.attrs[2])})
                  [] IsNamed(n1) ->
                       IF n1.kind = "union" /\ n1.name # n2.name THEN "na"
                       ELSE IF NameSet(n1) # NameSet(n2) THEN "ne"
                       ELSE Worst({IF n1.kind = "object" /\ ~f.tags /\ AttrBy(n1, s).tags # AttrBy(n2, s).tags THEN "ne"
                                   ELSE sub(AttrBy(n1, s), AttrBy(n2, s)) : s \in NameSet(n1)})
                  [] IsUser(n1) ->
                       IF (~f.names \/ f.fields) /\ n1.name # n2.name THEN "ne"
                       ELSE IF f.fields THEN "eq"
                       ELSE IF ~f.tags /\ n1.attrs[1].tags # n2.attrs[1].tags THEN "na"
                       ELSE sub(n1.attrs[1], n2.attrs[1])
  IN Bind(v, LAMBDA x : IF x = "eq" /\ rec THEN "na" ELSE x)

\* documented rules of expr.Hash for g against tg = ApplyT(g, t): "eq" = same hash, "ne", "na" (see Cmp)
Expected(g, tg, t, fi, visited) ==
  LET f == FlagAt(fi)
      vis == t.node \in visited
      inside == vis /\ ~(IsUser(g.nodes[t.node]) /\ f.fields)
      B(b) == IF b THEN "eq" ELSE "ne"
  IN CASE t.op \in IrrelevantOps -> "eq"
       [] t.op = "uname" -> B(~(vis /\ (~f.names \/ f.fields)))
       [] t.op = "tag" -> B(~(inside /\ ~f.tags))
       [] t.op \in StructuralOps -> B(~inside)
       \* the one reference that moved is looked at or not; if it is, its old and its new target decide
       [] t.op \in SharingOps ->
            IF ~inside THEN "eq"
            ELSE Cmp(g, g.nodes[t.node].attrs[t.idx].ref, tg, tg.nodes[t.node].attrs[t.idx].ref, f, t.node, Len(tg.nodes) + 2)

HasTwoTags(g) == \E i \in 1..Len(g.nodes) : \E k \in 1..Len(g.nodes[i].attrs) :
                   g.nodes[i].attrs[k].tags.name # 0 /\ g.nodes[i].attrs[k].tags.type # 0
\* under hash.meta_iteration_order a hash may differ from call to call: some hashed attribute has both tags
MayBeUnstable(g, fi) ==
  LET f == FlagAt(fi) IN
  /\ ~f.tags /\ HasTwoTags(g)
  /\ \E i \in Visited(g, f) : /\ g.nodes[i].kind = "object" \/ (IsUser(g.nodes[i]) /\ ~f.fields)
                              /\ \E k \in 1..Len(g.nodes[i].attrs) : g.nodes[i].attrs[k].tags.name # 0 /\ g.nodes[i].attrs[k].tags.type # 0
HasWideUnion(g) == \E i \in 1..Len(g.nodes) : g.nodes[i].kind = "union" /\ Len(g.nodes[i].attrs) >= 3

Bits(b) == LET RECURSIVE s(_) s(i) == IF i > 8 THEN 0 ELSE (IF b[i] THEN 2 ^ (i - 1) ELSE 0) + s(i + 1) IN s(1)

AllRuns(g, o, devs) == LET og == Ordered(g, devs) IN [fi \in 1..8 |-> HashRunO(og, fi, o, devs)]
\* the iteration order o reaches the hash only through an attribute with two tags and only when tags count
\* (TagToks); everywhere else the second run would repeat the first one token by token
StableBits(g, runs) ==
  IF ~HasTwoTags(g) THEN 255
  ELSE Bits([fi \in 1..8 |-> FlagAt(fi).tags \/ runs[fi].h = ModelHash(g, fi, 2, Deviations)])
And8(x, y) == Bits([i \in 1..8 |-> (x \div 2 ^ (i - 1)) % 2 = 1 /\ (y \div 2 ^ (i - 1)) % 2 = 1])

HasCycle(g) == \E i \in 1..Len(g.nodes) : OnCycle(g, i)
RD == {"hash.recursive_reference_is_prefix"}
\* everything the model says about one transformation of g (bit i-1 of a mask = flag combination i);
\* cx = what depends on g alone: base = AllRuns(g, 1, Deviations), bst = StableBits(g, base),
\* vis = the visited sets without / with ignoreFields, mu = MayBeUnstable per combination,
\* rec = the runs under hash.recursive_reference_is_prefix when g is recursive (du, dr: what the hashes would
\* answer under that one deviation, -1: the same as without it)
\* (TLC evaluates a LET definition again at every use: what is used more than once is bound through Bind)
Judge(g, t, cx) ==
  Bind(ApplyT(g, t), LAMBDA tg :
    Bind(AllRuns(tg, 1, Deviations), LAMBDA runs :
      Bind([fi \in 1..8 |-> Expected(g, tg, t, fi, IF FlagAt(fi).fields THEN cx.vis[2] ELSE cx.vis[1])], LAMBDA ex :
        LET UD == {"hash.union_order_dependent"}
            wide == HasWideUnion(g) \/ HasWideUnion(tg)
        IN [t |-> t,
            eq  |-> Bits([fi \in 1..8 |-> cx.base[fi].h = runs[fi].h]),
            exp |-> Bits([fi \in 1..8 |-> ex[fi] = "eq"]),
            na  |-> Bits([fi \in 1..8 |-> ex[fi] = "na"]),
            st  |-> And8(cx.bst, StableBits(tg, runs)),
            du  |-> IF wide THEN Bits([fi \in 1..8 |-> ModelHash(g, fi, 1, UD) = ModelHash(tg, fi, 1, UD)]) ELSE -1,
            dr  |-> IF cx.cyc \/ HasCycle(tg) THEN Bits([fi \in 1..8 |-> cx.rec[fi].h = ModelHash(tg, fi, 1, RD)]) ELSE -1,
            mu  |-> Bits([fi \in 1..8 |-> cx.mu[fi] \/ MayBeUnstable(tg, fi)]),
            c   |-> runs[1].c])))

\* hash mode decoration: both tags on every object attribute and on every user type's own attribute
WithTags(g, d) ==
  IF d = 0 THEN g ELSE
  [g EXCEPT !.nodes = [i \in 1..Len(g.nodes) |->
     IF g.nodes[i].kind = "object" \/ IsUser(g.nodes[i])
     THEN [g.nodes[i] EXCEPT !.attrs = [k \in 1..Len(@) |-> [@[k] EXCEPT !.tags = [name |-> 1, type |-> 1]]]]
     ELSE g.nodes[i]]]

---------------------------------------------------------------------------
(* Heap form, Dup, mutations, canonical projection.

   In the heap form the three slice-valued parts of an attribute - the values of meta "doc:k",
   Validation.Required, Validation.Values (the enum) - are Go slices: a header [b, l, c] (backing
   array, length, capacity; b = 0 is the nil slice) into hp.bufs, where bufs[b] holds the cells
   written so far.  Append writes in place while l < c and moves to a new array otherwise; an
   element assignment or an in-place reordering always writes in place.  Two headers with the
   same b alias each other: that is what the dup.* deviations are about.  Cells are numbers
   (required names through ReqTable). *)
\* dup mode decoration: d meta values, d required names, d enum values (and a name tag) on every attribute
WithMeta(g, d) ==
  [g EXCEPT !.nodes = [i \in 1..Len(g.nodes) |-> [g.nodes[i] EXCEPT !.attrs =
     [k \in 1..Len(@) |-> [@[k] EXCEPT !.meta = [j \in 1..d |-> j], !.req = [j \in 1..d |-> AttrNames[j]],
                                       !.enum = [j \in 1..d |-> j], !.tags.name = IF d > 0 THEN 1 ELSE 0]]]]]

ReqTable == AttrNames \o <<"o1", "c1", "o2", "c2", "o3", "c3">>
ReqCode(s) == IF s \in Range(ReqTable) THEN CHOOSE i \in 1..Len(ReqTable) : ReqTable[i] = s ELSE 0
ReqName(i) == IF i \in 1..Len(ReqTable) THEN ReqTable[i] ELSE "?"

\* append growth of a Go slice built by one-value appends: capacity 1, 2, 4, 8
GrowCap(c) == IF c = 0 THEN 1 ELSE 2 * c
RECURSIVE CapFor(_, _)
CapFor(l, c) == IF c >= l THEN c ELSE CapFor(l, GrowCap(c))

NilS == [b |-> 0, l |-> 0, c |-> 0]
SVal(bufs, h) == IF h.b = 0 THEN <<>> ELSE SubSeq(bufs[h.b], 1, h.l)
\* a new array holding vals, capacity cap (no array for no values)
SNew(bufs, vals, cap) == IF vals = <<>> THEN [bufs |-> bufs, h |-> NilS]
                         ELSE [bufs |-> Append(bufs, vals), h |-> [b |-> Len(bufs) + 1, l |-> Len(vals), c |-> cap]]
SAppend(bufs, h, v) ==
  IF h.l < h.c
  THEN [bufs |-> [bufs EXCEPT ![h.b] = IF Len(@) > h.l THEN [@ EXCEPT ![h.l + 1] = v] ELSE Append(@, v)],
        h |-> [h EXCEPT !.l = @ + 1]]
  ELSE SNew(bufs, Append(SVal(bufs, h), v), GrowCap(h.c))
SSet(bufs, h, i, v) == [bufs EXCEPT ![h.b][i] = v]
SReverse(bufs, h) == [bufs EXCEPT ![h.b] = [k \in 1..Len(@) |-> IF k <= h.l THEN @[h.l + 1 - k] ELSE @[k]]]
\* how a copy gets its slice: "fresh" = own array, "alias" = the same header, "capped" = the same array
\* with the capacity cut down to the length (appends move away, element writes do not)
SCopy(bufs, h, how) ==
  IF h.b = 0 \/ how = "alias" THEN [bufs |-> bufs, h |-> h]
  ELSE IF how = "capped" THEN [bufs |-> bufs, h |-> [h EXCEPT !.c = h.l]]
  ELSE SNew(bufs, SVal(bufs, h), h.l)

\* canonical graph -> heap.  Meta values and required names accumulate one append at a time (repeated
\* Meta() / Required() calls of a design), the enum is one literal.
RECURSIVE LoadNodes(_, _, _, _, _)
LoadNodes(nodes, i, k, outN, bufs) ==
  IF i > Len(nodes) THEN [nodes |-> outN, bufs |-> bufs]
  ELSE IF k > Len(nodes[i].attrs) THEN LoadNodes(nodes, i + 1, 1, outN, bufs)
  ELSE LET a == nodes[i].attrs[k]
           m == SNew(bufs, a.meta, CapFor(Len(a.meta), 0))
           r == SNew(m.bufs, [j \in 1..Len(a.req) |-> ReqCode(a.req[j])], CapFor(Len(a.req), 0))
           e == SNew(r.bufs, a.enum, Len(a.enum))
           na == [a EXCEPT !.meta = m.h, !.req = r.h, !.enum = e.h]
           \* a member of an alias class loaded before: the very same attribute (its slices included)
           prev == {l \in AllLocs(nodes) : LocKey(l) < LocKey(<<i, k>>) /\ nodes[l[1]].attrs[l[2]].al = a.al}
       IN IF a.al # 0 /\ prev # {}
          THEN LET l == CHOOSE l \in prev : TRUE
               IN LoadNodes(nodes, i, k + 1, [outN EXCEPT ![i].attrs[k] = [outN[l[1]].attrs[l[2]] EXCEPT !.name = a.name]], bufs)
          ELSE LoadNodes(nodes, i, k + 1, [outN EXCEPT ![i].attrs[k] = na], e.bufs)
Load(g) == LoadNodes(g.nodes, 1, 1, g.nodes, <<>>)

CanonAttr(hp, a, ref) ==
  [a EXCEPT !.ref = ref, !.meta = SVal(hp.bufs, @), !.enum = SVal(hp.bufs, @),
            !.req = [j \in 1..a.req.l |-> ReqName(hp.bufs[a.req.b][j])]]
Canon(hp, root) ==
  LET ord == Ord(hp.nodes, root, <<>>)
      pos(id) == CHOOSE i \in 1..Len(ord) : ord[i] = id
      ren(r) == IF r.n = 0 THEN r ELSE R(pos(r.n))
  IN [root |-> ren(root),
      nodes |-> NormAl([i \in 1..Len(ord) |->
                   [hp.nodes[ord[i]] EXCEPT !.attrs = [k \in 1..Len(@) |-> CanonAttr(hp, @[k], ren(@[k].ref))]]])]
\* the same renumbering for a canonical-form graph after a transformation (drops unreachable nodes)
CanonG(g) ==
  LET ord == Ord(g.nodes, g.root, <<>>)
      pos(id) == CHOOSE i \in 1..Len(ord) : ord[i] = id
      ren(r) == IF r.n = 0 THEN r ELSE R(pos(r.n))
  IN [root |-> ren(g.root),
      nodes |-> NormAl([i \in 1..Len(ord) |-> [g.nodes[ord[i]] EXCEPT !.attrs = [k \in 1..Len(@) |-> [@[k] EXCEPT !.ref = ren(@)]]]])]

\* how expr.Dup treats the three slices (DupAttribute -> MetaExpr.Dup, ValidationExpr.Dup)
MetaHow(devs) == IF "dup.meta_values_shared" \in devs THEN "alias"
                 ELSE IF "dup.meta_backing_array_shared" \in devs THEN "capped" ELSE "fresh"
ReqHow(devs)  == IF "dup.required_backing_array_shared" \in devs THEN "capped" ELSE "fresh"
EnumHow(devs) == IF "dup.enum_values_shared" \in devs THEN "alias" ELSE "fresh"

\* expr.Dup: fresh nodes for everything reachable, memo keyed by user type.  Every DupAttribute call makes an
\* attribute of its own: an attribute held by two objects of the original (alias class) becomes two attributes
\* of the copy (al = 0).  dupper.ats is there to hand back what already is a copy; under the (hypothetical)
\* deviation dup.attribute_memo_records_original it records the attributes copied *from*, and the second holder
\* of an aliased attribute gets the original attribute itself - type, slices, alias class and all.
RECURSIVE DupR(_, _, _), DupAs(_, _, _, _, _)
DupR(st, r, devs) ==
  IF r.n = 0 THEN [st |-> st, ref |-> r]
  ELSE LET nd == st.nodes[r.n] IN
    IF IsUser(nd) /\ r.n \in DOMAIN st.uts THEN [st |-> st, ref |-> R(st.uts[r.n])]
    ELSE LET id == Len(st.nodes) + 1
             st1 == [st EXCEPT !.nodes = Append(@, [nd EXCEPT !.attrs = <<>>]),
                               !.uts = IF IsUser(nd) THEN (r.n :> id) @@ @ ELSE @]
             res == DupAs(st1, nd.attrs, 1, <<>>, devs)
         IN [st |-> [res.st EXCEPT !.nodes[id].attrs = res.attrs], ref |-> R(id)]
DupAs(st, as, i, out, devs) ==
  IF i > Len(as) THEN [st |-> st, attrs |-> out]
  ELSE LET a == as[i]
           d == DupR(st, a.ref, devs)
           m == SCopy(d.st.bufs, a.meta, MetaHow(devs))
           r == SCopy(m.bufs, a.req, ReqHow(devs))
           e == SCopy(r.bufs, a.enum, EnumHow(devs))
           na == [a EXCEPT !.ref = d.ref, !.meta = m.h, !.req = r.h, !.enum = e.h, !.al = 0]
       IN IF "dup.attribute_memo_records_original" \in devs /\ a.al # 0 /\ a.al \in st.ats
          THEN DupAs(st, as, i + 1, Append(out, a), devs)
          ELSE DupAs([d.st EXCEPT !.bufs = e.bufs, !.ats = IF a.al # 0 THEN @ \cup {a.al} ELSE @], as, i + 1, Append(out, na), devs)
DupHeap(hp, root, devs) ==
  LET d == DupR([nodes |-> hp.nodes, bufs |-> hp.bufs, uts |-> <<>>, ats |-> {}], root, devs)
  IN [hp |-> [nodes |-> d.st.nodes, bufs |-> d.st.bufs], ref |-> d.ref]

MutOps == {"set", "del", "ren", "meta", "tag", "req", "vmerge", "setattr", "rename", "type", "desc",
           "metaset", "metarev", "tagset", "reqset", "enumset", "slot"}
AppendOps == {"meta", "tag", "req", "vmerge"}
Step(side, op, nd, ix) == [side |-> side, op |-> op, node |-> nd, idx |-> ix]
FreshAttr(nm) == [A(nm, P("string")) EXCEPT !.meta = NilS, !.req = NilS, !.enum = NilS]
Mine(side, o, c) == IF side = "orig" THEN o ELSE c      \* the two sides write different values, so aliasing shows

\* the steps possible on the graph below `root` (node = preorder index within that graph)
StepsOf(hp, root, side) ==
  LET ord == Ord(hp.nodes, root, <<>>)
      nd(i) == hp.nodes[ord[i]]
      at(l) == nd(l[1]).attrs[l[2]]
      NN == 1..Len(ord)
      Locs == UNION {{<<i, k>> : k \in 1..Len(nd(i).attrs)} : i \in NN}
  IN {Step(side, op, l[1], l[2]) : op \in {"meta", "tag", "req", "vmerge", "type", "desc"}, l \in Locs}
     \cup {Step(side, "set", l[1], l[2]) : l \in {l \in Locs : nd(l[1]).kind = "object"}}
     \cup {Step(side, "set", i, 0) : i \in {i \in NN : nd(i).kind = "object" /\ ~HasName(nd(i), "z")}}
     \cup {Step(side, "del", l[1], l[2]) : l \in {l \in Locs : nd(l[1]).kind = "object"}}
     \cup {Step(side, "ren", l[1], l[2]) : l \in {l \in Locs : nd(l[1]).kind = "object" /\ ~HasName(nd(l[1]), "y")}}
     \cup {Step(side, op, i, 0) : op \in {"setattr", "rename"}, i \in {i \in NN : IsUser(nd(i))}}
     \* writes into what already exists: element assignment, in-place reordering, slot reassignment
     \cup {Step(side, "metaset", l[1], l[2]) : l \in {l \in Locs : at(l).meta.l >= 1}}
     \cup {Step(side, "metarev", l[1], l[2]) : l \in {l \in Locs : at(l).meta.l >= 2}}
     \cup {Step(side, "tagset", l[1], l[2]) : l \in {l \in Locs : at(l).tags.name # 0}}
     \cup {Step(side, "reqset", l[1], l[2]) : l \in {l \in Locs : at(l).req.l >= 1}}
     \cup {Step(side, "enumset", l[1], l[2]) : l \in {l \in Locs : at(l).enum.l >= 1}}
     \cup {Step(side, "slot", l[1], l[2]) : l \in {l \in Locs : IsNamed(nd(l[1]))}}

ApplyStep1(hp, root, s) ==
  LET id == Ord(hp.nodes, root, <<>>)[s.node]
      a == hp.nodes[id].attrs[s.idx]
      \* Validation.AddRequired(name): append unless present
      addReq(name) == IF ReqCode(name) \in Range(SVal(hp.bufs, a.req)) THEN [bufs |-> hp.bufs, h |-> a.req]
                      ELSE SAppend(hp.bufs, a.req, ReqCode(name))
  IN CASE s.op = "set" /\ s.idx = 0 -> [hp EXCEPT !.nodes[id].attrs = Append(@, FreshAttr("z"))]
       [] s.op = "set" /\ s.idx > 0 -> [hp EXCEPT !.nodes[id].attrs[s.idx] = FreshAttr(a.name)]
       [] s.op = "slot" -> [hp EXCEPT !.nodes[id].attrs[s.idx] = FreshAttr(a.name)]
       [] s.op = "del" -> [hp EXCEPT !.nodes[id].attrs = RemoveAt(@, s.idx)]
       [] s.op = "ren" -> [hp EXCEPT !.nodes[id].attrs[s.idx].name = "y"]
       [] s.op = "meta" -> LET r == SAppend(hp.bufs, a.meta, Mine(s.side, 8, 9))
                           IN [hp EXCEPT !.bufs = r.bufs, !.nodes[id].attrs[s.idx].meta = r.h]
       [] s.op = "metaset" -> [hp EXCEPT !.bufs = SSet(@, a.meta, 1, Mine(s.side, 8, 9))]
       [] s.op = "metarev" -> [hp EXCEPT !.bufs = SReverse(@, a.meta)]
       [] s.op = "tag" -> [hp EXCEPT !.nodes[id].attrs[s.idx].tags.name = 2]
       [] s.op = "tagset" -> [hp EXCEPT !.nodes[id].attrs[s.idx].tags.name = 3]
       [] s.op = "req" -> LET r == addReq(Mine(s.side, "o1", "c1"))
                          IN [hp EXCEPT !.bufs = r.bufs, !.nodes[id].attrs[s.idx].req = r.h]
       [] s.op = "reqset" -> [hp EXCEPT !.bufs = SSet(@, a.req, 1, ReqCode(Mine(s.side, "o3", "c3")))]
       [] s.op = "enumset" -> [hp EXCEPT !.bufs = SSet(@, a.enum, 1, Mine(s.side, 8, 9))]
       [] s.op = "vmerge" -> LET r == addReq(Mine(s.side, "o2", "c2"))
                             IN [hp EXCEPT !.bufs = r.bufs, !.nodes[id].attrs[s.idx].req = r.h,
                                           !.nodes[id].attrs[s.idx].val = IF @ = 0 \/ @ > 1 THEN 1 ELSE @]
       [] s.op = "setattr" -> [hp EXCEPT !.nodes[id].attrs = <<FreshAttr("")>>]
       [] s.op = "rename" -> [hp EXCEPT !.nodes[id].name = "Z"]
       [] s.op = "type" -> [hp EXCEPT !.nodes[id].attrs[s.idx].ref = P("int")]
       [] s.op = "desc" -> [hp EXCEPT !.nodes[id].attrs[s.idx].desc = 9]
\* the steps that write into the attribute (the others put another attribute into the holder's slot, or take the
\* slot away): every holder of that attribute sees the change - wherever in the heap it is
InPlaceOps == {"meta", "metaset", "metarev", "tag", "tagset", "req", "reqset", "enumset", "vmerge", "type", "desc"}
ApplyStep(hp, root, s) ==
  IF s.op \notin InPlaceOps THEN ApplyStep1(hp, root, s) ELSE
  LET id == Ord(hp.nodes, root, <<>>)[s.node] IN
  IF hp.nodes[id].attrs[s.idx].al = 0 THEN ApplyStep1(hp, root, s) ELSE
  Bind(ApplyStep1(hp, root, s), LAMBDA h1 :
    LET na == h1.nodes[id].attrs[s.idx]
        held(x) == IF x.al = na.al THEN [na EXCEPT !.name = x.name] ELSE x
    IN [h1 EXCEPT !.nodes = [i \in 1..Len(@) |-> [@[i] EXCEPT !.attrs = [k \in 1..Len(@) |-> held(@[k])]]]])

---------------------------------------------------------------------------
(* State machine: one case per behaviour.
     build --Build*--> build --Built--> start
     hash:  start --DoHash--> done
     dup:   start --Load--> loaded --DoDup--> mut --Mutate*--> mut *)
VARIABLES mode, g, deco, pc, stack, hp, ro, rc, script, unch, obs
vars == <<mode, g, deco, pc, stack, hp, ro, rc, script, unch, obs>>

(* Build: the graph is grown one type constructor at a time, in preorder.  `stack` holds the
   attribute slots that still need a type (a hole is <<node, attribute index>>, <<0, 0>> is the root). *)
Q == P("?")
EmptyHeap == [nodes |-> <<>>, bufs |-> <<>>]
Fill(gg, hole, r) == IF hole[1] = 0 THEN [gg EXCEPT !.root = r] ELSE [gg EXCEPT !.nodes[hole[1]].attrs[hole[2]].ref = r]
Arity(kind) == IF kind = "object" THEN 0..K ELSE IF kind = "union" THEN 1..K ELSE {1}
NewNode(kind, id, m) ==
  CASE kind = "array" -> Nd("array", "", <<A("elem", Q)>>)
    [] kind = "map" -> Nd("map", "", <<A("key", P("string")), A("elem", Q)>>)
    [] kind = "object" -> Nd("object", "", [i \in 1..m |-> A(AttrNames[i], Q)])
    [] kind = "union" -> Nd("union", UnionNames[id], [i \in 1..m |-> A(AttrNames[i], Q)])
    [] OTHER -> Nd(kind, TypeNames[id], <<A("", Q)>>)
HolesOf(kind, id, m) == IF kind = "map" THEN <<<<id, 2>>>> ELSE [i \in 1..m |-> <<id, i>>]

Init == /\ pc = "build" /\ g = [root |-> Q, nodes |-> <<>>] /\ stack = <<<<0, 0>>>>
        /\ mode = "-" /\ deco = 0 /\ hp = EmptyHeap /\ ro = Q /\ rc = Q
        /\ script = <<>> /\ unch = <<>> /\ obs = <<>>

Build ==
  /\ pc = "build" /\ stack # <<>>
  /\ LET hole == Head(stack)
         id == Len(g.nodes) + 1
     IN \/ \E p \in Leaves : hole[1] # 0 /\ g' = Fill(g, hole, P(p)) /\ stack' = Tail(stack)
        \/ \E j \in 1..Len(g.nodes) : IsUser(g.nodes[j]) /\ g' = Fill(g, hole, R(j)) /\ stack' = Tail(stack)
        \/ /\ Len(g.nodes) < N
           /\ \E kind \in {"array", "map", "object", "union"} \cup UKinds : \E m \in Arity(kind) :
                /\ g' = [Fill(g, hole, R(id)) EXCEPT !.nodes = Append(@, NewNode(kind, id, m))]
                /\ stack' = HolesOf(kind, id, m) \o Tail(stack)
  /\ UNCHANGED <<mode, deco, pc, hp, ro, rc, script, unch, obs>>
\* AttributeExpr.Merge (Extend(Base), when a design is finalized): object o2 gets the very attribute objects of
\* object o1 - Object.Set: in the slot of its attribute of that name, else at the end.  Done once, to a finished
\* graph, and only with attributes whose type is a leaf or a user type (an anonymous type below a shared
\* attribute would be a shared anonymous type: whether a copy has to keep that sharing is not said anywhere).
ObjSet(as, a) == IF \E j \in 1..Len(as) : as[j].name = a.name
                 THEN [as EXCEPT ![CHOOSE j \in 1..Len(as) : as[j].name = a.name] = a] ELSE Append(as, a)
RECURSIVE ObjSetAll(_, _, _)
ObjSetAll(as, src, k) == IF k > Len(src) THEN as ELSE ObjSetAll(ObjSet(as, src[k]), src, k + 1)
ExtendG(gg, o2, o1) ==
  LET src == [k \in 1..Len(gg.nodes[o1].attrs) |-> [gg.nodes[o1].attrs[k] EXCEPT !.al = k]]
  IN CanonG([gg EXCEPT !.nodes[o1].attrs = src, !.nodes[o2].attrs = ObjSetAll(@, src, 1)])
Mergeable(gg, o1) == /\ gg.nodes[o1].kind = "object" /\ Len(gg.nodes[o1].attrs) >= 1
                     /\ \A k \in 1..Len(gg.nodes[o1].attrs) :
                          LET r == gg.nodes[o1].attrs[k].ref IN IF r.n = 0 THEN TRUE ELSE IsUser(gg.nodes[r.n])
Extend ==
  /\ pc = "build" /\ stack = <<>> /\ Shapes = "aliased" /\ ~HasAlias(g)
  /\ \E o1, o2 \in 1..Len(g.nodes) : /\ o1 # o2 /\ g.nodes[o2].kind = "object" /\ Mergeable(g, o1)
                                      /\ g' = ExtendG(g, o2, o1) /\ HasAlias(g')
  /\ UNCHANGED <<mode, deco, pc, stack, hp, ro, rc, script, unch, obs>>
Built ==
  /\ pc = "build" /\ stack = <<>> /\ EveryCycleHasAnObject(g)
  /\ Shapes = "shared" => SharedUsers(g) # {}
  /\ Shapes = "aliased" => HasAlias(g)
  /\ mode' \in Modes /\ deco' \in Decos /\ pc' = "start"
  /\ UNCHANGED <<g, stack, hp, ro, rc, script, unch, obs>>

SetToSeq(S) == LET RECURSIVE f(_) f(T) == IF T = {} THEN <<>> ELSE LET x == CHOOSE x \in T : TRUE IN <<x>> \o f(T \ {x}) IN f(S)
Cx(gg) ==
  Bind(AllRuns(gg, 1, Deviations), LAMBDA base :
    [base |-> base, bst |-> StableBits(gg, base),
     vis |-> <<Visited(gg, FlagAt(1)), Visited(gg, FlagAt(5))>>,
     mu |-> [fi \in 1..8 |-> MayBeUnstable(gg, fi)],
     cyc |-> HasCycle(gg), rec |-> IF HasCycle(gg) THEN AllRuns(gg, 1, RD) ELSE base])
HashObs(gg, fine) ==
  Bind(SetToSeq({t \in Transforms(gg, fine) : Ops = "sharing" => t.op \in SharingOps}), LAMBDA ts :
    Bind(Cx(gg), LAMBDA cx : [i \in 1..Len(ts) |-> Judge(gg, ts[i], cx)]))

DoHash == /\ pc = "start" /\ mode = "hash"
          /\ obs' = HashObs(WithTags(g, deco), FALSE)
          /\ pc' = "done" /\ UNCHANGED <<mode, g, deco, stack, hp, ro, rc, script, unch>>
Load_ == /\ pc = "start" /\ mode = "dup"
         /\ hp' = Load(WithMeta(g, deco)) /\ ro' = g.root
         /\ pc' = "loaded" /\ UNCHANGED <<mode, g, deco, stack, rc, script, unch, obs>>
DoDup == /\ pc = "loaded"
         /\ LET d == DupHeap(hp, ro, Deviations) IN hp' = d.hp /\ rc' = d.ref
         /\ pc' = "mut" /\ UNCHANGED <<mode, g, deco, stack, ro, script, unch, obs>>

RootOf(side) == IF side = "orig" THEN ro ELSE rc
Other(side) == IF side = "orig" THEN "copy" ELSE "orig"
Allowed(s) ==
  \/ script = <<>> /\ (Script = "copyfirst" => s.side = "copy")
  \/ Script = "free"
  \/ /\ Script \in {"paired", "copyfirst"} /\ Len(script) = 1       \* the same change at the same place on the other side
     /\ s = [script[1] EXCEPT !.side = Other(@)] /\ s.op \in AppendOps
Mutate == /\ pc = "mut" /\ Len(script) < MaxSteps
          /\ \E side \in {"orig", "copy"} : \E s \in StepsOf(hp, RootOf(side), side) :
               /\ Allowed(s)
               /\ hp' = ApplyStep(hp, RootOf(side), s)
               /\ script' = Append(script, s)
               /\ unch' = Append(unch, Canon(hp', RootOf(Other(side))) = Canon(hp, RootOf(Other(side))))
          /\ UNCHANGED <<mode, g, deco, pc, stack, ro, rc, obs>>

Next == Build \/ Extend \/ Built \/ DoHash \/ Load_ \/ DoDup \/ Mutate
Spec == Init /\ [][Next]_vars

---------------------------------------------------------------------------
(* Properties. *)
HashDone == pc = "done" /\ mode = "hash"
\* same hash exactly when the documented rules say so, for all 8 flag combinations (Equal is combination 4)
\* (where the documentation does not say - bits of na - nothing is claimed)
Without(x, m) == And8(x, 255 - m)
HashIffEqual == HashDone => \A i \in 1..Len(obs) : Without(obs[i].eq, obs[i].na) = Without(obs[i].exp, obs[i].na)
PermutationInvariant == HashDone => \A i \in 1..Len(obs) : obs[i].t.op \in {"perm", "rev"} => obs[i].eq = 255
CopyHashEqual == HashDone => \A i \in 1..Len(obs) : obs[i].t.op \in {"copy", "copyatt"} => obs[i].eq = 255
Stable == HashDone => \A i \in 1..Len(obs) : obs[i].st = 255
\* the walk visits a bounded number of nodes (user types are re-expanded at every reference, objects are not)
VisitBound == (K + 2) ^ (N + 1)
Terminates == HashDone => \A i \in 1..Len(obs) : obs[i].c <= VisitBound

Reach(root) == Range(Ord(hp.nodes, root, <<>>))
\* (the structure: which attributes are one object is left aside - NoAl -, see DupAs)
CopyEqual == pc = "mut" /\ script = <<>> => NoAl(Canon(hp, rc)) = NoAl(Canon(hp, ro))
CopyDisjoint == pc = "mut" => Reach(ro) \cap Reach(rc) = {}
CopyIndependent == \A i \in 1..Len(unch) : unch[i]
DupTerminates == pc = "mut" => Len(hp.nodes) <= 2 * N + MaxSteps
\* the graphs Build completes are exactly the declared space (completeness: compare the counts)
BuildSound == pc = "start" => g \in Graphs
===========================================================================
