------------------------------ MODULE SkipWriter ------------------------------
(* goa.SkipResponseWriter (pkg/skip_response_writer.go): adapts an io.WriterTo into an io.ReadCloser for
   handlers that skip response body encoding.  The first Read or Close creates a pipe (sync.Once) and starts
   a goroutine that runs WriteTo(pipe writer) and then closes the writer with WriteTo's error.  Growth module
   under C20 (the file is one of its anchors): the adapter is shared by the handler goroutine (Read/Close)
   and the writer goroutine.

   Abstract state: how many bytes the WriterTo wants to write (in chunks), how many the reader has consumed,
   the state of the pipe, whether the writer goroutine has finished and what it reported.  io.Pipe is
   unbuffered: a Write hands bytes to concurrent Reads and returns when its chunk is consumed or when the
   read side is closed (io.ErrClosedPipe, with the number of bytes consumed so far). *)
EXTENDS Integers, Sequences, FiniteSets, TLC

CONSTANTS MaxChunks, MaxChunk, Deviations

VARIABLES chunks,     \* sequence of chunk sizes the WriterTo writes
          ci, off,    \* writer cursor: chunk index and offset inside it
          consumed,   \* bytes the reader got
          pipe,       \* "none" | "open" | "rclosed" | "wclosed"
          inits,      \* number of times the pipe was created
          writer,     \* "notstarted" | "running" | "done"
          wcount, werr,   \* what WriteTo returned: bytes counted, "none" | "closedpipe"
          rlast       \* result of the last reader call: [op, n, err]
vars == <<chunks, ci, off, consumed, pipe, inits, writer, wcount, werr, rlast>>

Total == LET RECURSIVE sum(_) sum(i) == IF i > Len(chunks) THEN 0 ELSE chunks[i] + sum(i + 1) IN sum(1)
Remaining == ci <= Len(chunks)

Init == /\ chunks \in UNION {[1..n -> 1..MaxChunk] : n \in 0..MaxChunks}
        /\ ci = 1 /\ off = 0 /\ consumed = 0 /\ pipe = "none" /\ inits = 0 /\ writer = "notstarted"
        /\ wcount = 0 /\ werr = "none" /\ rlast = [op |-> "none", n |-> 0, err |-> "none"]

\* sync.Once: whoever comes first (Read or Close) creates the pipe and starts the writer goroutine
OpenPipe ==
  /\ pipe = "none"
  /\ pipe' = "open" /\ inits' = inits + 1 /\ writer' = "running"
  /\ UNCHANGED <<chunks, ci, off, consumed, wcount, werr, rlast>>

\* Read(buf) while the writer has data: hands over n bytes of the current chunk
ReadData(buf) ==
  /\ pipe = "open" /\ writer # "done" /\ Remaining
  /\ LET n == IF buf < chunks[ci] - off THEN buf ELSE chunks[ci] - off IN
     /\ n > 0
     /\ consumed' = consumed + n
     /\ IF off + n = chunks[ci] THEN ci' = ci + 1 /\ off' = 0 ELSE ci' = ci /\ off' = off + n
     /\ rlast' = [op |-> "read", n |-> n, err |-> "none"]
  /\ UNCHANGED <<chunks, pipe, inits, writer, wcount, werr>>
\* the writer has nothing left: WriteTo returns, the write side is closed with its (nil) error
WriterFinish ==
  /\ writer = "running" /\ ~Remaining /\ pipe = "open"
  /\ writer' = "done" /\ wcount' = consumed /\ werr' = "none" /\ pipe' = "wclosed"
  /\ UNCHANGED <<chunks, ci, off, consumed, inits, rlast>>
\* Read after the writer finished: EOF
ReadEOF ==
  /\ pipe = "wclosed"
  /\ rlast' = [op |-> "read", n |-> 0, err |-> "eof"]
  /\ UNCHANGED <<chunks, ci, off, consumed, pipe, inits, writer, wcount, werr>>
\* Close: the read side is closed (creating the pipe first if nobody did)
Close ==
  /\ pipe \in {"open", "wclosed"}
  /\ UNCHANGED <<inits, writer>>
  /\ pipe' = IF pipe = "wclosed" THEN "wclosed" ELSE "rclosed"
  /\ rlast' = [op |-> "close", n |-> 0, err |-> "none"]
  /\ UNCHANGED <<chunks, ci, off, consumed, wcount, werr>>
\* the writer's pending (or next) Write fails because the read side is gone; WriteTo returns what was consumed
WriterInterrupted ==
  /\ writer = "running" /\ pipe = "rclosed"
  /\ IF "skipwriter.writer_never_unblocked" \in Deviations THEN FALSE ELSE TRUE     \* hypothetical: the goroutine would leak
  /\ writer' = "done" /\ wcount' = consumed
  /\ werr' = IF Remaining THEN "closedpipe" ELSE "none"
  /\ UNCHANGED <<chunks, ci, off, consumed, pipe, inits, rlast>>
\* Read after Close
ReadClosed ==
  /\ pipe = "rclosed"
  /\ rlast' = [op |-> "read", n |-> 0, err |-> "closedpipe"]
  /\ UNCHANGED <<chunks, ci, off, consumed, pipe, inits, writer, wcount, werr>>

Next == OpenPipe \/ (\E b \in 1..(MaxChunk + 1) : ReadData(b)) \/ WriterFinish \/ ReadEOF \/ Close \/ WriterInterrupted \/ ReadClosed
Spec == Init /\ [][Next]_vars /\ WF_vars(WriterFinish) /\ WF_vars(WriterInterrupted)

OneePipe == inits <= 1
NeverMoreThanWritten == consumed <= Total
CountIsWhatWasConsumed == writer = "done" => wcount = consumed /\ (werr = "none" <=> ~Remaining)
EOFOnlyAfterEverything == rlast.err = "eof" => consumed = Total
\* no goroutine leak: once the reader closed (or everything was read) the writer goroutine ends
NoLeak == (pipe = "rclosed" \/ (pipe = "open" /\ ~Remaining)) ~> (writer = "done")
===============================================================================
