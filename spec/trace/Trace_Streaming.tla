--------------------------- MODULE Trace_Streaming ---------------------------
(* Trace validation of streaming calls executed on the generated WebSocket client and server
   (harness/drivers/streaming).  Lines: reset(id, m) starts a call of method m; step(side, op, v, view - the inputs of
   the script step - res, rv, rview - the outcome observed; res = "timeout": the call did not return within the
   driver's time limit); ran(n): the service method ran n times in this case; end closes the log.  A step line is matched by any
   transition of Streaming!Next that produces exactly this step.
   Judge mode (Judge = TRUE): a case that cannot be matched is skipped to the next reset (step lines carry nx, the line
   of the next reset / end) and every case matched to its end is reported with <<"ACC", id>>: one TLC run gives the
   verdict of every case - used to find the named deviation that explains a case. *)
EXTENDS Streaming, Json
CONSTANT Judge
TraceLog == ndJsonDeserialize("trace.ndjson")
VARIABLES l, cid, okc
tvars == <<vars, l, cid, okc>>
Ev(e) == l <= Len(TraceLog) /\ TraceLog[l].ev = e
E == TraceLog[l]

TraceInit ==
  /\ TLCSet(1, 1) /\ l = 1 /\ cid = 0 /\ okc = TRUE
  /\ cfg = "srvn"
  /\ pay = "none" /\ dpay = "unset" /\ cpc = "idle" /\ spc = "idle" /\ up = FALSE
  /\ hview = "none" /\ sview = "" /\ cview = "" /\ sclosed = "no" /\ cclosed = "no"
  /\ c2s = <<>> /\ s2c = <<>> /\ srecv = FALSE /\ crecv = "no"
  /\ sfail = FALSE /\ cfail = FALSE /\ seof = FALSE /\ ceof = FALSE
  /\ sentC = <<>> /\ sentS = <<>> /\ gotS = <<>> /\ gotC = <<>> /\ nrs = 0 /\ nrc = 0 /\ idle = 0
  /\ last = NoStep

Report == IF Judge /\ okc /\ l > 1 THEN PrintT(<<"ACC", cid>>) ELSE TRUE

TReset ==
  /\ Ev("reset") /\ Report
  /\ cfg' = E.m
  /\ pay' = "none" /\ dpay' = "unset" /\ cpc' = "idle" /\ spc' = "idle" /\ up' = FALSE
  /\ hview' = "none" /\ sview' = "" /\ cview' = "" /\ sclosed' = "no" /\ cclosed' = "no"
  /\ c2s' = <<>> /\ s2c' = <<>> /\ srecv' = FALSE /\ crecv' = "no"
  /\ sfail' = FALSE /\ cfail' = FALSE /\ seof' = FALSE /\ ceof' = FALSE
  /\ sentC' = <<>> /\ sentS' = <<>> /\ gotS' = <<>> /\ gotC' = <<>> /\ nrs' = 0 /\ nrc' = 0 /\ idle' = 0
  /\ last' = NoStep
  /\ l' = l + 1 /\ cid' = E.id /\ okc' = TRUE

TStep ==
  /\ Ev("step") /\ okc /\ E.res # "timeout"
  /\ Next
  /\ last'.side = E.side /\ last'.op = E.op /\ last'.v = E.v /\ last'.view = E.view
  /\ last'.res = E.res /\ last'.rv = E.rv /\ last'.rview = E.rview
  /\ l' = l + 1 /\ UNCHANGED <<cid, okc>>

\* a step that did not come back within the time limit: matched when the model says this call cannot return here
\* (it blocks); the driver ends the script there
CanDo(side, op) == Next /\ last'.side = side /\ last'.op = op
TBlocked ==
  /\ Ev("step") /\ okc /\ E.res = "timeout"
  /\ ~ENABLED CanDo(E.side, E.op)
  /\ l' = l + 1 /\ UNCHANGED <<vars, cid, okc>>

\* end of a case: how many times the service method ran (it must not run at all when the payload was refused)
TRan ==
  /\ Ev("ran") /\ okc
  /\ E.n \in IF spc \in {"running", "returned", "panicked"} THEN {1}
            ELSE IF cpc = "calling" /\ spc = "idle" /\ pay # "bad" THEN {0, 1}     \* (the script ended with the request on its way)
            ELSE {0}
  /\ l' = l + 1 /\ UNCHANGED <<vars, cid, okc>>

TSkip ==
  /\ Judge /\ (Ev("step") \/ Ev("ran"))
  /\ l' = E.nx /\ okc' = FALSE /\ UNCHANGED <<vars, cid>>

TEnd == Ev("end") /\ Report /\ l' = l + 1 /\ UNCHANGED <<vars, cid, okc>>

TraceNext == TReset \/ TStep \/ TBlocked \/ TRan \/ TSkip \/ TEnd
TraceSpec == TraceInit /\ [][TraceNext]_tvars
HWM == IF l > TLCGet(1) THEN TLCSet(1, l) ELSE TRUE
TraceAccepted == PrintT(<<"HWM", TLCGet(1)>>) /\ TLCGet(1) = Len(TraceLog) + 1
\* the bounds of the model do not apply to recorded behaviours
==============================================================================
