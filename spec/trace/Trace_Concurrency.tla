--------------------------- MODULE Trace_Concurrency ---------------------------
(* Trace validation for C20: every replayed schedule is logged as
     sched(kinds, codecs, bodies, serial)  pass(p, gate)*  end(races, seen, from)
   The passes must be steps of Concurrency (each process passes its own gates in handler order; in the serial
   mode only while every other process waits), arrivals happen unobserved in between, the race detector must have
   reported nothing, the payload every handler read must be the one of its own request (seen[p] = p) and every
   reply must have been computed from its own request (from[p] = p): seen/from are what the harness observed on
   the real server - the id of the request whose payload showed up, -1 for bytes belonging to nobody - and must
   equal what the specification computes. *)
EXTENDS Concurrency, Json
TraceLog == ndJsonDeserialize("trace.ndjson")
VARIABLE l
tvars == <<vars, l>>
TraceInit == /\ TLCSet(1, 1) /\ l = 1
             /\ req = [p \in Procs |-> [kind |-> "ok", codec |-> "json", body |-> "object"]] /\ serial = FALSE
             /\ pos = [p \in Procs |-> Len(Gates("ok"))] /\ at = [p \in Procs |-> "done"] /\ hist = <<>> /\ lastErr = 0 /\ pool = 0
             /\ ref = [p \in Procs |-> "none"] /\ seen = [p \in Procs |-> 0] /\ resp = [p \in Procs |-> 0]
Ev(e) == l <= Len(TraceLog) /\ TraceLog[l].ev = e
Used(p) == p <= Len(TraceLog[l].kinds)
TSched == /\ Ev("sched")
          /\ \A p \in Procs : at[p] = "done"
          /\ req' = [p \in Procs |-> IF Used(p) THEN [kind |-> TraceLog[l].kinds[p], codec |-> TraceLog[l].codecs[p], body |-> TraceLog[l].bodies[p]]
                                     ELSE [kind |-> "ok", codec |-> "json", body |-> "object"]]
          /\ \A p \in Procs : req'[p] \in Requests
          /\ serial' = TraceLog[l].serial
          /\ pos' = [p \in Procs |-> IF Used(p) THEN 0 ELSE Len(Gates("ok"))]     \* unused processes are out of the way
          /\ at' = [p \in Procs |-> IF Used(p) THEN "run" ELSE "done"]
          /\ hist' = <<>> /\ lastErr' = 0 /\ pool' = 0
          /\ ref' = [p \in Procs |-> "none"] /\ seen' = [p \in Procs |-> 0] /\ resp' = [p \in Procs |-> 0]
          /\ l' = l + 1
TPass == /\ Ev("pass")
         /\ LET p == TraceLog[l].p IN
            /\ Pass(p)
            /\ hist'[Len(hist')][2] = TraceLog[l].gate
         /\ l' = l + 1
\* arrivals are not observed: any process inside a region may complete it between two logged events
TArrive == /\ l <= Len(TraceLog) /\ TraceLog[l].ev \in {"pass", "end"}
           /\ \E p \in Procs : Arrive(p)
           /\ l' = l
TEnd == /\ Ev("end")
        /\ AllDone                                                  \* every process went through its whole handler
        /\ TraceLog[l].races = 0
        /\ \A p \in Procs : p <= Len(TraceLog[l].seen) => TraceLog[l].seen[p] = seen[p] /\ TraceLog[l].from[p] = resp[p]
        /\ Echo
        /\ l' = l + 1 /\ UNCHANGED vars
TraceNext == TSched \/ TPass \/ TArrive \/ TEnd
TraceSpec == TraceInit /\ [][TraceNext]_tvars
HWM == IF l > TLCGet(1) THEN TLCSet(1, l) ELSE TRUE
\* NoConflict is an invariant of every behaviour the trace can be read as (checked while validating)
TraceAccepted == PrintT(<<"HWM", TLCGet(1)>>) /\ TLCGet(1) = Len(TraceLog) + 1
===============================================================================
