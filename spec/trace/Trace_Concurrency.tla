--------------------------- MODULE Trace_Concurrency ---------------------------
(* Trace validation for C20: every replayed schedule is logged as  sched(kinds)  pass(p, gate)*  end(races, echo).
   The passes must be steps of Concurrency (each process passes its own gates in handler order), the race
   detector must have reported nothing and every response must be the one of its own request. *)
EXTENDS Concurrency, Json
TraceLog == ndJsonDeserialize("trace.ndjson")
VARIABLE l
tvars == <<vars, l>>
TraceInit == /\ TLCSet(1, 1) /\ l = 1
             /\ kind = [p \in Procs |-> "ok"] /\ pos = [p \in Procs |-> 0] /\ hist = <<>> /\ lastErr = 0 /\ resp = [p \in Procs |-> 0]
Ev(e) == l <= Len(TraceLog) /\ TraceLog[l].ev = e
TSched == /\ Ev("sched")
          /\ kind' = [p \in Procs |-> IF p <= Len(TraceLog[l].kinds) THEN TraceLog[l].kinds[p] ELSE "ok"]
          /\ pos' = [p \in Procs |-> IF p <= Len(TraceLog[l].kinds) THEN 0 ELSE Len(Gates("ok"))]     \* unused processes are out of the way
          /\ hist' = <<>> /\ lastErr' = 0 /\ resp' = [p \in Procs |-> 0]
          /\ l' = l + 1
TPass == /\ Ev("pass")
         /\ LET p == TraceLog[l].p IN
            /\ Pass(p)
            /\ hist'[Len(hist')][2] = TraceLog[l].gate
         /\ l' = l + 1
TEnd == /\ Ev("end")
        /\ \A p \in Procs : pos[p] = Len(Gates(kind[p]))          \* every process went through its whole handler
        /\ TraceLog[l].races = 0 /\ TraceLog[l].echo = TRUE
        /\ NoConflict
        /\ l' = l + 1 /\ UNCHANGED vars
TraceNext == TSched \/ TPass \/ TEnd
TraceSpec == TraceInit /\ [][TraceNext]_tvars
HWM == IF l > TLCGet(1) THEN TLCSet(1, l) ELSE TRUE
TraceAccepted == PrintT(<<"HWM", TLCGet(1)>>) /\ TLCGet(1) = Len(TraceLog) + 1
===============================================================================
