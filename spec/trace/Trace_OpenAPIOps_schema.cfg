SPECIFICATION XTraceSpec
CONSTANTS
  Deviations = {}
  NPA = 1
  NRA = 1
  Family = "req"
  OFamily = "mix"
  NSvc = 1
  NMeth = 1
CONSTRAINT HWM
POSTCONDITION TraceAccepted
CHECK_DEADLOCK FALSE
