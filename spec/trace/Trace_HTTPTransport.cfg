SPECIFICATION TraceSpec
CONSTANTS
  Deviations = {}
  NPA = 1
  NRA = 1
  Family = "req"
CONSTRAINT HWM
POSTCONDITION TraceAccepted
CHECK_DEADLOCK FALSE
