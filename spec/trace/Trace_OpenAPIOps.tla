--------------------------- MODULE Trace_OpenAPIOps ---------------------------
(* Batch trace validation for C07.  One case per design:
     reset(design)
     mount(method, pattern)* end_mounts      what the recording muxer saw while the generated Mount functions ran
     srvop(...)* end_srv                     what the probes made the generated server show, route by route
     docop(3, ...)* end_doc(3)               operations of openapi3.json
     docop(2, ...)* end_doc(2)               operations of openapi.json
     docvalid(v, ok) docfact(v, facts) json_eq_yaml(v, ok)   (v = 3, 2)     external validators, renderings
     end
   Every table entry must be an entry of the table the mechanism of OpenAPIOps produces for that design (under
   the run's Deviations = the recorded findings), every table must be complete when its end marker arrives, and
   the steps GenServer, BuildV3, BuildV2, WriteDocs are taken with exactly the observed tables. *)
EXTENDS OpenAPIOps, Json
TraceLog == ndJsonDeserialize("trace.ndjson")
VARIABLES l, seenM, seenO
tvars == <<ovars, hvars, l, seenM, seenO>>

Ev == TraceLog[l]
Is(e) == l <= Len(TraceLog) /\ TraceLog[l].ev = e
ToOp(e) == Op(e.method, e.path, {P(p.name, p.in, p.required) : p \in RangeQ(e.params)}, e.hasBody, RangeQ(e.statuses),
              {RQ({Sch(x.name, x.kind) : x \in RangeQ(r.schemes)}, RangeQ(r.scopes)) : r \in RangeQ(e.security)})
\* documented operations are compared without their Authorization header parameter (see DocParam)
ToDocOp(e) == LET o == ToOp(e) IN [o EXCEPT !.params = {p \in @ : DocParam(p)}]
ToMount(e) == Mnt(e.method, e.pattern)
Step == l' = l + 1 /\ UNCHANGED hvars

TraceInit == /\ TLCSet(1, 1) /\ l = 1 /\ seenM = {} /\ seenO = {} /\ OInit /\ Init /\ xflag = "none"
TReset == /\ Is("reset") /\ opc \in {"api", "done"}
          /\ design' = [Ev.design EXCEPT !.devs = Deviations] /\ opc' = "server"
          /\ mounts' = {} /\ srvOps' = {} /\ doc3' = {} /\ doc2' = {} /\ verdicts' = NoVerdicts
          /\ seenM' = {} /\ seenO' = {} /\ Step
TMount == /\ Is("mount") /\ opc = "server" /\ ToMount(Ev) \in MountsOf(design)
          /\ seenM' = seenM \cup {ToMount(Ev)} /\ UNCHANGED <<ovars, seenO>> /\ Step
TEndMounts == /\ Is("end_mounts") /\ opc = "server" /\ seenM = MountsOf(design) /\ UNCHANGED <<ovars, seenM, seenO>> /\ Step
TSrvop == /\ Is("srvop") /\ opc = "server" /\ ToOp(Ev) \in SrvOpsOf(design)
          /\ seenO' = seenO \cup {ToOp(Ev)} /\ UNCHANGED <<ovars, seenM>> /\ Step
TEndSrv == /\ Is("end_srv") /\ GenServer /\ mounts' = seenM /\ srvOps' = seenO /\ seenM' = {} /\ seenO' = {} /\ Step
TDocop3 == /\ Is("docop") /\ Ev.version = 3 /\ opc = "doc3" /\ ToDocOp(Ev) \in V3Ops(design)
           /\ seenO' = seenO \cup {ToDocOp(Ev)} /\ UNCHANGED <<ovars, seenM>> /\ Step
TEndDoc3 == /\ Is("end_doc") /\ Ev.version = 3 /\ BuildV3 /\ doc3' = seenO /\ seenO' = {} /\ UNCHANGED seenM /\ Step
TDocop2 == /\ Is("docop") /\ Ev.version = 2 /\ opc = "doc2" /\ ToDocOp(Ev) \in V2Ops(design)
           /\ seenO' = seenO \cup {ToDocOp(Ev)} /\ UNCHANGED <<ovars, seenM>> /\ Step
TEndDoc2 == /\ Is("end_doc") /\ Ev.version = 2 /\ BuildV2 /\ doc2' = seenO /\ seenO' = {} /\ UNCHANGED seenM /\ Step
PV == VerdictsOf(design)
TDocvalid == /\ Is("docvalid") /\ opc = "write" /\ Ev.ok = (IF Ev.version = 3 THEN PV.valid3 ELSE PV.valid2)
             /\ UNCHANGED <<ovars, seenM, seenO>> /\ Step
TDocfact == /\ Is("docfact") /\ opc = "write"
            /\ LET pf == IF Ev.version = 3 THEN PV.facts3 ELSE PV.facts2 IN \A k \in DOMAIN pf : (Ev.facts[k] > 0) = (pf[k] > 0)
            /\ UNCHANGED <<ovars, seenM, seenO>> /\ Step
TJsonYaml == /\ Is("json_eq_yaml") /\ opc = "write" /\ Ev.ok = (IF Ev.version = 3 THEN PV.jy3 ELSE PV.jy2)
             /\ UNCHANGED <<ovars, seenM, seenO>> /\ Step
TEnd == /\ Is("end") /\ WriteDocs /\ UNCHANGED <<seenM, seenO>> /\ Step

TraceNext == TReset \/ TMount \/ TEndMounts \/ TSrvop \/ TEndSrv \/ TDocop3 \/ TEndDoc3 \/ TDocop2 \/ TEndDoc2
             \/ TDocvalid \/ TDocfact \/ TJsonYaml \/ TEnd
TraceSpec == TraceInit /\ [][TraceNext]_tvars
HWM == IF l > TLCGet(1) THEN TLCSet(1, l) ELSE TRUE
TraceAccepted == PrintT(<<"HWM", TLCGet(1)>>) /\ TLCGet(1) = Len(TraceLog) + 1
\* with no deviation enabled an accepted trace is a behaviour that satisfies C07
PropertyHolds == Deviations = {} => MountEqualsExpected /\ Doc3EqualsMount /\ Doc2EqualsMount /\ JsonEqualsYaml /\ DocsValid

---------------------------------------------------------------------------
(* Batch trace validation for C14.  One case per exchange run through the real generated client / server:
     xreset(pa, ra, tagged, pv, rv, flag)      the method shape and the values (what HTTPTransport enumerates, or a raw request)
     xverdict(sreq, invoked, status, sresp)    kin-openapi's verdict on the recorded wire request, the server's decision,
                                               kin-openapi's verdict on the recorded wire response
   and per declared-error response of the C07 designs:  xerr(status, sresp).
   Between xreset and xverdict the mechanism of HTTPTransport (under the run's Deviations) runs silently up to the server's
   answer.  A verdict is accepted when the exchange satisfies C14 (schema and server agree, consistently with the design),
   or when it is exactly what the mechanism does under the recorded deviations. *)
XMal == \E i \in PIdx : Malformed(pv[i])
XSat == Satisfies(cfg.pa, pv) /\ xflag \in {"none", "rd"} /\ ~XMal
XVio == Violates(cfg.pa, pv) \/ XMal \/ xflag \in OmitFlags
TXReset == /\ Is("xreset") /\ pc \in {"pick", "done"}
           /\ cfg' = [pa |-> Ev.pa, ra |-> Ev.ra, tagged |-> Ev.tagged, devs |-> Deviations] /\ pv' = Ev.pv /\ rv' = Ev.rv /\ xflag' = Ev.flag
           /\ pc' = "encode" /\ wire' = <<>> /\ delivered' = <<>> /\ invoked' = FALSE /\ status' = 0 /\ errname' = "none"
           /\ rwire' = <<>> /\ returned' = <<>> /\ cerr' = "none"
           /\ l' = l + 1 /\ UNCHANGED <<ovars, seenM, seenO>>
TXSilent == /\ pc \in {"encode", "route", "decode", "validate", "invoke", "respond"} /\ XNext
            /\ UNCHANGED <<ovars, l, seenM, seenO>>
TXVerdict == /\ Is("xverdict") /\ pc = "cswitch"
             /\ LET so == Ev.sreq = "ok" IN
                  \/ so = Ev.invoked /\ (so => ~XVio) /\ (~so => ~XSat)
                  \/ so \in SchemaReqVerdicts /\ Ev.invoked = invoked
             /\ \/ Ev.sresp \in {"ok", "none"}
                \/ ~(Ev.invoked /\ Ev.status \in 200..299 /\ Satisfies(cfg.ra, rv))
                \/ invoked /\ FALSE \in SchemaRespVerdicts
             /\ pc' = "done" /\ UNCHANGED <<cfg, pv, rv, wire, delivered, invoked, status, errname, rwire, returned, cerr, xflag>>
             /\ l' = l + 1 /\ UNCHANGED <<ovars, seenM, seenO>>
TXErr == /\ Is("xerr") /\ pc \in {"pick", "done"}
         /\ (Ev.sresp = "ok" \/ "schema.error_response_media_type" \in Deviations)
         /\ l' = l + 1 /\ UNCHANGED <<ovars, hvars, seenM, seenO>>
XTraceNext == TXReset \/ TXSilent \/ TXVerdict \/ TXErr
XTraceSpec == TraceInit /\ [][XTraceNext]_tvars
=============================================================================
