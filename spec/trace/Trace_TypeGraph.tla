------------------------- MODULE Trace_TypeGraph -------------------------
(* Trace validation for C13.  The log is a batch of cases produced by the real goa code
   (harness/drivers/expr -random): per case one `reset` carrying a type graph (up to 5 nodes,
   depth 5, arbitrary decorations), `hash` events (one transformation each, with the verdicts of
   expr.Hash under the 8 flag combinations, expr.Equal, repetition stability and the projection of
   the transformed graph), one `dup` event (projection of the copy, sharing) and `mutate` events
   (one mutation of the copy or of the original, with the projections of both afterwards).
   The specification recomputes every logged value. *)
EXTENDS TypeGraph, Json
TraceLog == ndJsonDeserialize("trace.ndjson")
VARIABLE l
tvars == <<vars, l>>

TraceInit == /\ TLCSet(1, 1) /\ l = 1
             /\ pc = "idle" /\ g = [root |-> Q, nodes |-> <<>>] /\ stack = <<>> /\ mode = "-" /\ deco = 0
             /\ hp = EmptyHeap /\ ro = Q /\ rc = Q /\ script = <<>> /\ unch = <<>> /\ obs = <<>>

Ev(e) == l <= Len(TraceLog) /\ TraceLog[l].ev = e
Bit(x, i) == (x \div 2 ^ (i - 1)) % 2 = 1

TReset == /\ Ev("reset")
          /\ LET e == TraceLog[l] IN
             /\ EveryCycleHasAnObject(e.g) /\ CanonG(e.g) = e.g      \* the generator kept its side of the contract
             /\ g' = e.g /\ hp' = Load(e.g) /\ ro' = e.g.root
          /\ pc' = "loaded" /\ rc' = Q /\ script' = <<>> /\ unch' = <<>> /\ mode' = "trace"
          /\ l' = l + 1 /\ UNCHANGED <<stack, deco, obs>>

THash == /\ Ev("hash") /\ pc = "loaded"
         /\ LET e == TraceLog[l] IN
            \E j \in {Judge(g, e.t, Cx(g))} :        \* (bound once: TLC evaluates a LET definition again at every use)
               /\ e.t \in Transforms(g, TRUE) \cup Transforms(g, FALSE)
               /\ e.tg = CanonG(ApplyT(g, e.t))          \* the driver applied the transformation the model means
               \* the algorithm as designed (with the configured deviations); where a deviation makes the hash
               \* depend on the map iteration order, the comparison of two hashes can come out either way
               \* (nothing is claimed for a flag combination under which the documentation does not decide: j.na)
               /\ e.st = j.st /\ e.equals = Bit(j.st, EqualFlags)
               /\ \A fi \in 1..8 : Bit(j.st, fi) /\ ~Bit(j.na, fi) => Bit(e.eq, fi) = Bit(j.eq, fi)
               /\ Bit(j.st, EqualFlags) /\ ~Bit(j.na, EqualFlags) => e.equal = Bit(j.eq, EqualFlags)
               /\ Deviations = {} => (Without(j.eq, j.na) = Without(j.exp, j.na) /\ j.st = 255)   \* ... which is the documented table
         /\ l' = l + 1 /\ UNCHANGED vars

TDup == /\ Ev("dup") /\ pc = "loaded"
        /\ LET e == TraceLog[l]
               d == DupHeap(hp, ro, Deviations)
           IN /\ hp' = d.hp /\ rc' = d.ref
              /\ e.canC = Canon(d.hp, d.ref)
              /\ e.copyeq = (NoAl(Canon(d.hp, d.ref)) = NoAl(g))
              /\ e.shared = 0 /\ e.attshared = 0 /\ e.atteq /\ e.again
              /\ e.hasheq = 255 /\ e.equal
        /\ pc' = "mut" /\ l' = l + 1 /\ UNCHANGED <<mode, g, deco, stack, ro, script, unch, obs>>

TMutate == /\ Ev("mutate") /\ pc = "mut"
           /\ LET e == TraceLog[l]
                  s == e.step
              IN /\ s \in StepsOf(hp, RootOf(s.side), s.side)
                 /\ hp' = ApplyStep(hp, RootOf(s.side), s)
                 /\ e.canO = Canon(hp', ro) /\ e.canC = Canon(hp', rc)
                 /\ e.unch = (Canon(hp', RootOf(Other(s.side))) = Canon(hp, RootOf(Other(s.side))))
                 /\ script' = Append(script, s) /\ unch' = Append(unch, e.unch)
           /\ l' = l + 1 /\ UNCHANGED <<mode, g, deco, pc, stack, ro, rc, obs>>

TraceNext == TReset \/ THash \/ TDup \/ TMutate
TraceSpec == TraceInit /\ [][TraceNext]_tvars
HWM == IF l > TLCGet(1) THEN TLCSet(1, l) ELSE TRUE
TraceAccepted == PrintT(<<"HWM", TLCGet(1)>>) /\ TLCGet(1) = Len(TraceLog) + 1
===========================================================================
