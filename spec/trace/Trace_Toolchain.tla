--------------------------- MODULE Trace_Toolchain ---------------------------
(* Batch trace validation for C01 (and the stage part of C12): one `prog` event per program (its design
   class computed from the abstract design only), then one `stage` event per stage the real toolchain ran
   with the outcome observed.  Every step must be a step of Toolchain. *)
EXTENDS Toolchain, Json
TraceLog == ndJsonDeserialize("trace.ndjson")
VARIABLE l
tvars == <<vars, l>>
TraceInit == /\ TLCSet(1, 1) /\ l = 1 /\ class = "none" /\ stage = Len(Stages) + 1 /\ accepted = FALSE /\ log = <<>>
TProg == /\ l <= Len(TraceLog) /\ TraceLog[l].ev = "prog"
         /\ class' = TraceLog[l].class /\ stage' = 1 /\ accepted' = FALSE /\ log' = <<>>
         /\ l' = l + 1
TStage == /\ l <= Len(TraceLog) /\ TraceLog[l].ev = "stage"
          /\ stage <= Len(Stages) /\ Stages[stage] = TraceLog[l].stage
          /\ Run(TraceLog[l].outcome)
          /\ l' = l + 1
TraceNext == TProg \/ TStage
TraceSpec == TraceInit /\ [][TraceNext]_tvars
HWM == IF l > TLCGet(1) THEN TLCSet(1, l) ELSE TRUE
TraceAccepted == PrintT(<<"HWM", TLCGet(1)>>) /\ TLCGet(1) = Len(TraceLog) + 1
=============================================================================
