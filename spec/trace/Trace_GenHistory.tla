-------------------------- MODULE Trace_GenHistory --------------------------
(* Trace validation for C09.  A trace is a batch of cases; each case starts with a `reset`
   event carrying the configuration (for every design variant the files of a reference
   generation with their content classes, the stray locations, the files present at the start)
   and continues with one event per operation performed on a real output directory with the
   real goa command line (`gen`, `example`) or by the harness playing the user (`edit`,
   `stray`, `delete`).  Every event carries the whole directory tree observed after the
   operation: path, content class (sha256 classes numbered by the harness: reference classes,
   cfg.editbase + n for the n-th edit, cfg.strayc, fresh numbers for anything else) and stamp
   (the number of the operation after which the file's mtime or content last changed).
   A gen/example event with same = TRUE was performed by the process of the previous command
   (generator.Generate called again: action Again), otherwise by a new `goa` process.
   The specification computes the directory from its own actions and must agree on every path,
   class and stamp.  Start / Wipe / Render are silent steps (one per file rendered). *)
EXTENDS GenHistory, Json
TraceLog == ndJsonDeserialize("trace.ndjson")
VARIABLE l
tvars == <<vars, l>>

EmptyCfg == [designs |-> <<>>, strays |-> <<>>, focus |-> <<>>, init |-> <<>>, strayc |-> 0, editbase |-> 0]
TraceInit == TLCSet(1, 1) /\ l = 1 /\ Idle(EmptyCfg)

Cur == TraceLog[l]
IsEvent(e) == l <= Len(TraceLog) /\ Cur.ev = e /\ l' = l + 1

Obs(tree) == [p \in {t.p : t \in Range(tree)} |-> CHOOSE t \in Range(tree) : t.p = p]

\* a content the model cannot name (Mixed, or anything just written under "render.nonce_leak") matches any class
Wild(f) == \/ f.c = Mixed
           \/ "render.nonce_leak" \in Deviations /\ f.owner \in {"gen", "example"} /\ f.s = clock
Match(pred, tree) ==
  LET o == Obs(tree) IN
  /\ DOMAIN o = DOMAIN pred
  /\ \A p \in DOMAIN pred : o[p].s = pred[p].s /\ (o[p].c = pred[p].c \/ Wild(pred[p]))
Adopt(pred, tree) == LET o == Obs(tree) IN [p \in DOMAIN pred |-> [pred[p] EXCEPT !.c = o[p].c]]

TReset ==
  /\ IsEvent("reset") /\ pc = "idle"
  /\ cfg' = Cur.cfg /\ dir' = InitDir(Cur.cfg)
  /\ pc' = "idle" /\ cmd' = "none" /\ design' = 1 /\ gens' = 0 /\ cleanup' = {} /\ todo' = <<>> /\ tmp' = {}
  /\ clock' = 0 /\ edits' = 0 /\ last' = [k |-> "none", d |-> 0] /\ before' = EmptyDir /\ wrote' = {}
  /\ UNCHANGED <<nonce, hist>>

TStart == /\ pc = "idle" /\ l <= Len(TraceLog) /\ Cur.ev \in {"gen", "example"}
          /\ (IF "same" \in DOMAIN Cur /\ Cur.same THEN Again(Cur.ev, Cur.d) ELSE Start(Cur.ev, Cur.d))
          /\ UNCHANGED l
TSilent == (Wipe \/ Render) /\ UNCHANGED l
\* the command has ended: what is on disk is what the model computed
TFinish == /\ IsEvent(cmd) /\ Cur.rc = 0 /\ FinishCore
           /\ Match(dir, Cur.tree) /\ dir' = Adopt(dir, Cur.tree)
TUser == \/ IsEvent("edit") /\ UserEdit(Cur.p) /\ Match(dir', Cur.tree)
         \/ IsEvent("stray") /\ UserAddStray(Cur.p) /\ Match(dir', Cur.tree)
         \/ IsEvent("delete") /\ UserDelete(Cur.p) /\ Match(dir', Cur.tree)

TraceNext == TReset \/ TStart \/ TSilent \/ TFinish \/ TUser
TraceSpec == TraceInit /\ [][TraceNext]_tvars
HWM == IF l > TLCGet(1) THEN TLCSet(1, l) ELSE TRUE
TraceAccepted == PrintT(<<"HWM", TLCGet(1)>>) /\ TLCGet(1) = Len(TraceLog) + 1
=============================================================================
