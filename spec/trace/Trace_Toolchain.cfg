SPECIFICATION TraceSpec
CONSTANTS
  Deviations = {}
  Classes = {"plain"}
CONSTRAINT HWM
INVARIANTS AcceptedNeverFailsLater
POSTCONDITION TraceAccepted
CHECK_DEADLOCK FALSE
