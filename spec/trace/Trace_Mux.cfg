SPECIFICATION TraceSpec
CONSTANTS
  Deviations = {}
  Profile = "trace"
  MaxLen = 1
  MaxPats = 1
  Shapes = {1,2,3,4,5,6,7,8,9,10,11,12,13,14}
CONSTRAINT HWM
POSTCONDITION TraceAccepted
INVARIANTS TypeOK DispatchToMatch CaptureInverse VarsConsistent NotFound404WellFormed ResolvedPatternEqualsRegistered MiddlewareOrder
CHECK_DEADLOCK FALSE
