---------------------------- MODULE Trace_Eval ----------------------------
(* Trace validation for C11.  A trace is a batch of cases; each case is
     reset(cfg)                      the roots, dependencies and behaviours of the case
     cb(phase, root, set, idx) ...   every user callback the real eval.RunDSL made, in order
     return(kind, errs)              what RunDSL returned
   Every cb must be the callback of an enabled ExecExpr / StepExpr step of Eval.tla; the
   engine's internal steps are silent.  The one free choice of the specification, the order
   Context.Roots() returns, is bound to the order the trace shows (first DSL callback of each
   root) and must be one of the admissible dependency orders; a root none of whose expressions
   is a Source shows its place only in the later phases (every admissible place is tried). *)
EXTENDS Eval, Json
TraceLog == ndJsonDeserialize("trace.ndjson")
VARIABLES l,     \* next trace line
          ret,   \* the current case has returned
          c0     \* line of the reset event of the current case
tvars == <<vars, l, ret, c0>>

NoCfg == [reg |-> <<>>, late |-> <<>>, deps |-> [r \in Roots |-> {}], beh |-> [r \in Roots |-> <<"plain">>],
          beh2 |-> [r \in Roots |-> <<>>], rb |-> [r \in Roots |-> "plain"]]
ConvCfg(j) == [reg |-> j.reg, late |-> j.late,
               deps |-> [r \in Roots |-> Range(j.deps[r])],
               beh |-> [r \in Roots |-> j.beh[r]],
               beh2 |-> [r \in Roots |-> j.beh2[r]],
               rb |-> [r \in Roots |-> j.rb[r]]]
\* the behaviours of a case are those the specification knows
KnownCfg(c) == \A r \in Roots : /\ c.rb[r] \in RootToks
                                /\ \A i \in 1..Len(c.beh[r]) : c.beh[r][i] \in AllToks
                                /\ \A i \in 1..Len(c.beh2[r]) : c.beh2[r][i] \in AllToks \ {"append", "appendsame", "reg"}

\* between two cases every variable of Eval is back to one idle value
NoSets == [r \in Roots |-> <<NoCfg.beh[r], <<>> >>]
\* q lists the roots of Range(q) in the order p has them
Agrees(p, q) == SelectSeq(p, LAMBDA x : x \in Range(q)) = q
TraceInit == /\ TLCSet(1, 1) /\ l = 1 /\ ret = TRUE /\ c0 = 0
             /\ cfg = NoCfg /\ registered = <<>> /\ sets = NoSets
             /\ order = <<>> /\ phase = "done" /\ ri = 1 /\ si = 1 /\ ei = 1
             /\ log = <<>> /\ errs = {} /\ result = "ok"
ToIdle == /\ cfg' = NoCfg /\ registered' = <<>> /\ sets' = NoSets
          /\ order' = <<>> /\ phase' = "done" /\ ri' = 1 /\ si' = 1 /\ ei' = 1
          /\ log' = <<>> /\ errs' = {} /\ result' = "ok"

IsEvent(e) == l <= Len(TraceLog) /\ TraceLog[l].ev = e /\ l' = l + 1

\* the roots of S in the order of their first DSL callback in the lines from k on (same case)
RECURSIVE PeekFrom(_, _, _)
PeekFrom(k, S, acc) ==
  IF k > Len(TraceLog) THEN acc
  ELSE LET e == TraceLog[k] IN
       IF e.ev # "cb" \/ e.phase # "dsl" THEN acc      \* (the DSL callbacks come first)
       ELSE PeekFrom(k + 1, S, IF e.root \in S /\ e.root \notin Range(acc)
                               THEN Append(acc, e.root) ELSE acc)

TReset == /\ IsEvent("reset") /\ phase = "done" /\ ret /\ c0' = l
          /\ cfg' = ConvCfg(TraceLog[l].cfg) /\ KnownCfg(cfg')
          /\ registered' = cfg'.reg
          /\ sets' = [r \in Roots |-> <<cfg'.beh[r], cfg'.beh2[r]>>]
          /\ order' = <<>> /\ phase' = "order" /\ ri' = 1 /\ si' = 1 /\ ei' = 1
          /\ log' = <<>> /\ errs' = {} /\ result' = "none" /\ ret' = FALSE
TOrder == /\ ComputeOrder /\ UNCHANGED <<l, ret, c0>>
          /\ phase' = "dsl" => Agrees(order', PeekFrom(l, Range(registered), <<>>))
TEndDSL == /\ EndDSL /\ UNCHANGED <<l, ret, c0>>
           /\ order' # order => Agrees(SubSeq(order', Len(order) + 1, Len(order')),
                                        PeekFrom(l, Range(registered) \ Range(order), <<>>))
TCb == /\ IsEvent("cb") /\ Callback /\ UNCHANGED <<ret, c0>>
       /\ LET e == TraceLog[l] IN log'[Len(log')] = <<e.phase, e.root, e.set, e.idx>>
TSilent == Internal /\ UNCHANGED <<l, ret, c0>>
TReturn == /\ IsEvent("return") /\ phase = "done" /\ ~ret
           /\ LET e == TraceLog[l] IN
              /\ [kind |-> e.kind, errs |-> Range(e.errs)] \in Outcomes
              /\ Len(e.errs) = Cardinality(Range(e.errs))
           /\ PrintT(<<"ACC", c0>>)              \* this case has a complete behaviour of Eval
           /\ ret' = TRUE /\ ToIdle /\ c0' = 0
\* cfg is fixed by c0 and log by (c0, l) - every callback appended is the trace line consumed -
\* so they need not be fingerprinted
TView == <<l, c0, ret, registered, sets, order, phase, ri, si, ei, errs, result>>
TraceNext == TReset \/ TOrder \/ TEndDSL \/ TCb \/ TSilent \/ TReturn
TraceSpec == TraceInit /\ [][TraceNext]_tvars

\* Judge mode: every case is judged on its own (a case may be skipped as a whole, so a rejected
\* case does not hide the verdicts on the cases after it); accepted cases print <<"ACC", line>>.
RECURSIVE NextReset(_)
NextReset(k) == IF k > Len(TraceLog) \/ TraceLog[k].ev = "reset" THEN k ELSE NextReset(k + 1)
TSkipCase == /\ l <= Len(TraceLog) /\ TraceLog[l].ev = "reset" /\ phase = "done" /\ ret
             /\ l' = NextReset(l + 1) /\ UNCHANGED <<vars, ret, c0>>      \* (c0 = 0 between cases)
JudgeSpec == TraceInit /\ [][TraceNext \/ TSkipCase]_tvars
HWM == IF l > TLCGet(1) THEN TLCSet(1, l) ELSE TRUE
TraceAccepted == PrintT(<<"HWM", TLCGet(1)>>) /\ TLCGet(1) = Len(TraceLog) + 1
===========================================================================
