------------------------- MODULE Trace_HTTPTransport -------------------------
(* Trace validation for C02 / C03 / C04: every scenario executed on real generated code is logged as

     reset(pa, ra, tagged, pv, rv)          the case
     wire(where)                            for each payload attribute: the wire locations that carried it
     invoke(delivered)                      the service method ran; per attribute "sent" | "default" | "absent" | "other"
     resp(status, errname, rwhere)          the response on the wire
     client(cerr, returned)                 what the generated client handed back

   and must be a behaviour of the PROPERTY read as a specification: each step may do anything the oracle
   of HTTPTransport allows (AllowedWhere, AllowedDelivered, Satisfies / Violates, ViolationNames) and nothing
   else.  Cases explained by a recorded deviation are not in the trace (they are judged against the mechanism
   by Explain_HTTPTransport). *)
EXTENDS HTTPTransport, Json
TraceLog == ndJsonDeserialize("trace.ndjson")
VARIABLE l
tvars == <<vars, l>>

TraceInit ==
  /\ TLCSet(1, 1) /\ l = 1
  /\ cfg = [pa |-> <<>>, ra |-> <<>>, tagged |-> FALSE, tags |-> 0, devs |-> {}] /\ pv = <<>> /\ rv = <<>>
  /\ pc = "done" /\ wire = <<>> /\ delivered = <<>> /\ invoked = FALSE /\ status = 0 /\ errname = "none"
  /\ rwire = <<>> /\ returned = <<>> /\ cerr = "none"
Ev(e) == l <= Len(TraceLog) /\ TraceLog[l].ev = e
E == TraceLog[l]

\* an observed set of locations is fine when it is exactly one allowed location, or empty where "none" is allowed
WhereOK(obs, allowed) == (obs = <<>> /\ "none" \in allowed) \/ (Len(obs) = 1 /\ obs[1] \in allowed)
\* an observed class stands for an abstract value (anything else is no allowed value)
ClassOK(a, v, c) ==
  \/ c = "sent" /\ v # Absent /\ v \in AllowedDelivered(a, v)
  \/ c = "sent" /\ v # Absent /\ Emptyish(a, v)
  \/ c = "absent" /\ Absent \in AllowedDelivered(a, v)
  \/ c = "absent" /\ v = Absent /\ IsContainer(a) /\ ~HasDefault(a)
  \/ c = "default" /\ HasDefault(a) /\ DefaultOf(a) \in AllowedDelivered(a, v)

TReset == /\ Ev("reset") /\ pc = "done"
          /\ cfg' = [pa |-> E.pa, ra |-> E.ra, tagged |-> E.tagged, tags |-> E.tags, devs |-> {}]
          /\ pv' = E.pv /\ rv' = E.rv
          /\ pc' = "encode" /\ wire' = <<>> /\ delivered' = <<>> /\ invoked' = FALSE /\ status' = 0 /\ errname' = "none"
          /\ rwire' = <<>> /\ returned' = <<>> /\ cerr' = "none"
          /\ l' = l + 1
TWire == /\ Ev("wire") /\ pc = "encode"
         /\ \A i \in 1..Len(cfg.pa) : WhereOK(E.where[i], AllowedWhere(cfg.pa[i], pv[i]))
         /\ pc' = "validate" /\ l' = l + 1
         /\ UNCHANGED <<cfg, pv, rv, wire, delivered, invoked, status, errname, rwire, returned, cerr>>
TInvoke == /\ Ev("invoke") /\ pc = "validate"
           /\ ~Violates(cfg.pa, pv)                                    \* user code never runs on a surely invalid request
           /\ \A i \in 1..Len(cfg.pa) : ClassOK(cfg.pa[i], pv[i], E.delivered[i])
           /\ invoked' = TRUE /\ pc' = "respond" /\ l' = l + 1
           /\ UNCHANGED <<cfg, pv, rv, wire, delivered, status, errname, rwire, returned, cerr>>
TReject == /\ Ev("resp") /\ pc = "validate"                            \* answered without running user code
           /\ ~Satisfies(cfg.pa, pv)                                   \* a surely valid request is never refused
           /\ E.status \in 400..499
           /\ (Violates(cfg.pa, pv) => E.errname \in ViolationNames(cfg.pa, pv))
           /\ status' = E.status /\ errname' = E.errname /\ pc' = "cswitch" /\ l' = l + 1
           /\ UNCHANGED <<cfg, pv, rv, wire, delivered, invoked, rwire, returned, cerr>>
TResp == /\ Ev("resp") /\ pc = "respond"
         /\ E.status = DesignedStatus
         /\ \A j \in 1..Len(cfg.ra) : WhereOK(E.rwhere[j], AllowedWhere(cfg.ra[j], rv[j]))
         /\ status' = E.status /\ pc' = "cswitch" /\ l' = l + 1
         /\ UNCHANGED <<cfg, pv, rv, wire, delivered, invoked, errname, rwire, returned, cerr>>
TClient == /\ Ev("client") /\ pc = "cswitch"
           /\ IF ~invoked THEN E.cerr = "remote"
              ELSE /\ (E.cerr = "result" => ~Violates(cfg.ra, rv) /\ \A j \in 1..Len(cfg.ra) : ClassOK(cfg.ra[j], rv[j], E.returned[j]))
                   /\ (E.cerr # "result" => E.cerr = "validation" /\ ~Satisfies(cfg.ra, rv))
           /\ cerr' = E.cerr /\ pc' = "done" /\ l' = l + 1
           /\ UNCHANGED <<cfg, pv, rv, wire, delivered, invoked, status, errname, rwire, returned>>
TraceNext == TReset \/ TWire \/ TInvoke \/ TReject \/ TResp \/ TClient
TraceSpec == TraceInit /\ [][TraceNext]_tvars
HWM == IF l > TLCGet(1) THEN TLCSet(1, l) ELSE TRUE
TraceAccepted == PrintT(<<"HWM", TLCGet(1)>>) /\ TLCGet(1) = Len(TraceLog) + 1
==============================================================================
