SPECIFICATION TraceSpec
CONSTANTS
  K = 3
  Deviations = {}
CONSTRAINT HWM
POSTCONDITION TraceAccepted
CHECK_DEADLOCK FALSE
