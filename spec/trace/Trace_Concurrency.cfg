SPECIFICATION TraceSpec
CONSTANTS
  K = 3
  Deviations = {}
  KindSet = {"ok", "invalid", "declared", "undeclared", "plain"}
  CodecSet = {"json", "xml", "gob", "text", "unsup"}
  BodySet = {"object", "string", "bytes", "list"}
  SerialSet = {TRUE, FALSE}
CONSTRAINT HWM
INVARIANTS NoConflict
POSTCONDITION TraceAccepted
CHECK_DEADLOCK FALSE
