-------------------------- MODULE Trace_Middleware --------------------------
(* Trace validation for C19.  The log is a batch of cases run by
   harness/drivers/middleware on the real middlewares/interceptors:
     reset(cfg, reqs)   a new case: configuration and the requests the driver sent
     hop(o)             what the handler of a hop saw (context values, inbound headers/metadata)
     forward(o)         the headers/metadata the traced client put on the call to the next hop
     capture(o)         ResponseCapture / Log middleware / recorder after the handler returned (HTTP)
     end                the driver finished the case
   Between events the specification takes its own (silent) steps; the events
   must be explained by Handler / TracedClient / CapDone steps whose observation
   equals the logged one.  Sampling and the other documented choices are
   resolved by TLC's search. *)
EXTENDS Middleware, Json
TraceLog == ndJsonDeserialize("trace.ndjson")
VARIABLE l
tvars == <<vars, l>>

Cfg0 == Cfg("http", "none", 0, "default", 100, 1, 0, 1, FALSE, FALSE, "canon", "plain")
TraceInit == /\ TLCSet(1, 1) /\ l = 1
             /\ cfg = Cfg0 /\ reqs = <<>> /\ pc = "fin" /\ Idle

IsEvent(e) == l <= Len(TraceLog) /\ TraceLog[l].ev = e /\ l' = l + 1
Last(s) == s[Len(s)]

TReset == /\ IsEvent("reset") /\ pc = "fin"
          /\ cfg' = TraceLog[l].cfg /\ reqs' = TraceLog[l].reqs
          /\ pc' = "idle"
          /\ q' = 0 /\ hop' = 0 /\ wire' = NoWire
          /\ ctx' = [h \in Hops |-> EmptyCtx] /\ scount' = [h \in Hops |-> 0]
          /\ nR' = 0 /\ nT' = 0 /\ nS' = 0 /\ k' = 1 /\ cap' = Cap0 /\ rec' = Rec0
          /\ hops' = <<>> /\ fwds' = <<>> /\ caps' = <<>>
TSilent  == /\ (Arrive \/ RidTrusted \/ RidFresh \/ TraceKeep \/ TraceSample \/ TraceSkip
                \/ CapWriteHeader \/ CapWrite \/ CapFlush \/ Return)
            /\ UNCHANGED l
THop     == IsEvent("hop") /\ Handler /\ Last(hops') = TraceLog[l].o
TForward == IsEvent("forward") /\ TracedClient /\ Last(fwds') = TraceLog[l].o
\* the recorder's header flag is not observable: every other field of the capture observation is compared
CapView(c) == [q |-> c.q, hop |-> c.hop, st |-> c.st, by |-> c.by, lst |-> c.lst, lby |-> c.lby,
               rst |-> c.rst, rby |-> c.rby, logid |-> c.logid]
TCapture == IsEvent("capture") /\ CapDone /\ CapView(Last(caps')) = TraceLog[l].o
TEnd     == IsEvent("end") /\ pc = "done" /\ pc' = "fin"
            /\ UNCHANGED <<cfg, reqs, q, hop, wire, ctx, scount, nR, nT, nS, k, cap, rec, hops, fwds, caps>>
TraceNext == TReset \/ TSilent \/ THop \/ TForward \/ TCapture \/ TEnd
TraceSpec == TraceInit /\ [][TraceNext]_tvars
HWM == IF l > TLCGet(1) THEN TLCSet(1, l) ELSE TRUE
TraceAccepted == PrintT(<<"HWM", TLCGet(1)>>) /\ TLCGet(1) = Len(TraceLog) + 1
===========================================================================
