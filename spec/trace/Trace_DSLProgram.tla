-------------------------- MODULE Trace_DSLProgram --------------------------
(* Batch trace validation for C12.  The log is a sequence of cases, each
     program(id, nodes)                       the abstract program that was executed by dslhost on the real dsl/eval/expr code
     evaluate(id, outcome, nErrs, allNamed)   what the real code answered (accepted | rejected | panic | timeout)
     handoff(id, later)                       optional, after an accepted evaluate: outcome of generator "gen" + go build
   The specification takes the program as its own state, RECOMPUTES Dangling(program) and the crash classes the
   program falls in, and accepts the evaluate event only if it is a step of DSLProgram!Evaluate. *)
EXTENDS DSLProgram, Json
TraceLog == ndJsonDeserialize("trace.ndjson")
VARIABLES l, pid
tvars == <<vars, l, pid>>

TraceInit == /\ TLCSet(1, 1) /\ l = 1 /\ pid = 0
             /\ nodes = <<>> /\ stack = <<>> /\ pc = "done" /\ mode = "-" /\ cur = NoCall /\ nmis = 0
             /\ outcome = NoOutcome /\ later = "-"

Ev(e) == l <= Len(TraceLog) /\ TraceLog[l].ev = e
\* a logged program replaces the state; it must be a program (known functions and tokens, children under calls that run them)
TProgram == /\ Ev("program") /\ pc \in {"done", "evaluated"}
            /\ WFProgram(TraceLog[l].nodes) /\ Len(TraceLog[l].nodes) >= 1
            /\ nodes' = TraceLog[l].nodes /\ pid' = TraceLog[l].id
            /\ stack' = <<>> /\ pc' = "ready" /\ mode' = "-" /\ cur' = NoCall
            /\ nmis' = Cardinality({i \in Idx(TraceLog[l].nodes) : ~Documented(TraceLog[l].nodes, i)})
            /\ outcome' = NoOutcome /\ later' = "-"
            /\ l' = l + 1
\* DSLProgram!Evaluate with the logged answer (error counts are not limited to the small OutcomeSpace of the model)
TEvaluate ==
             /\ Ev("evaluate") /\ TraceLog[l].id = pid /\ pc = "ready"
             /\ LET o == [kind |-> TraceLog[l].outcome, nErrs |-> TraceLog[l].nErrs, allNamed |-> TraceLog[l].allNamed]
                IN Allowed(nodes, o) /\ outcome' = o
             /\ pc' = "evaluated" /\ UNCHANGED <<nodes, stack, mode, cur, nmis, later, pid>>
             /\ l' = l + 1
THandOff == /\ Ev("handoff") /\ TraceLog[l].id = pid
            /\ HandOff /\ later' = TraceLog[l].later
            /\ l' = l + 1 /\ UNCHANGED pid
TraceNext == TProgram \/ TEvaluate \/ THandOff
TraceSpec == TraceInit /\ [][TraceNext]_tvars
HWM == IF l > TLCGet(1) THEN TLCSet(1, l) ELSE TRUE
TraceAccepted == PrintT(<<"HWM", TLCGet(1)>>) /\ TLCGet(1) = Len(TraceLog) + 1
=============================================================================
