------------------------ MODULE Trace_PatternCache ------------------------
(* Trace validation for the pattern cache (C17).  The log is written by the
   `verif` hook inside goa.ValidatePattern and by the driver:

     reset   n, calls[{p, v}], keep      a new batch of n concurrent calls; keep = the cache is not emptied
     rlock   c, g, seq                   logged while the read lock is held
     runlock c, g, seq                   logged after RUnlock            (no lock held: position in the log is late)
     compile c, g, seq                   cache miss: compiled, before Lock (no lock held)
     write   c, g, seq                   logged under the write lock, after the map write
     match   c, g, seq, verdict          after the call returned           (no lock held)
     done    cache[texts]                all calls returned; content of the real cache
     race    reports                     number of data race reports of the Go race detector for the run

   Every step taken here is a step g(c) of PatternCache.  Events logged while a
   lock is held are totally ordered like the lock operations; the other events
   only confirm that the call has passed a label.  So the specification is
   advanced lazily and deterministically: a call catches up to the label its
   own event reports, and a call that must have released a lock for another
   call's event to be possible (its release is not logged under the lock) is
   advanced first.  The read of the map therefore sees exactly the writes
   logged before the call's rlock event: hit/miss (presence of a compile event)
   and the verdict are predicted, not copied. *)
EXTENDS PatternCache, Json
CONSTANT MaxG
TraceLog == ndJsonDeserialize("trace.ndjson")
VARIABLES l, gseq
tvars == <<vars, l, gseq>>

Empty == [k \in {} |-> 0]
TraceInit == /\ TLCSet(1, 1) /\ l = 1
             /\ gseq = [x \in 1..MaxG |-> 0]
             /\ cache = Empty /\ readers = {} /\ writer = 0 /\ last = 0
             /\ acc = [q \in Procs |-> "none"] /\ verdict = [q \in Procs |-> "none"]
             /\ p = [q \in Procs |-> 1] /\ v = [q \in Procs |-> 1]
             /\ r = [q \in Procs |-> 0] /\ hit = [q \in Procs |-> FALSE]
             /\ pc = [q \in Procs |-> "Done"]

Ev == TraceLog[l]
Is(k) == l <= Len(TraceLog) /\ Ev.ev = k

TReset == /\ Is("reset") /\ AllDone
          /\ LET e == Ev IN
             /\ e.n \in 1..Cardinality(Procs)
             /\ p' = [q \in Procs |-> IF q <= e.n THEN e.calls[q].p ELSE 1]
             /\ v' = [q \in Procs |-> IF q <= e.n THEN e.calls[q].v ELSE 1]
             /\ \A q \in 1..e.n : e.calls[q].p \in 1..NPatterns /\ e.calls[q].v \in 1..NValues
             /\ pc' = [q \in Procs |-> IF q <= e.n THEN "RLock" ELSE "Done"]
             /\ cache' = IF e.keep THEN cache ELSE Empty
          /\ r' = [q \in Procs |-> 0] /\ hit' = [q \in Procs |-> FALSE]
          /\ verdict' = [q \in Procs |-> "none"] /\ acc' = [q \in Procs |-> "none"]
          /\ readers' = {} /\ writer' = 0 /\ last' = 0
          /\ gseq' = [x \in 1..MaxG |-> 0]
          /\ l' = l + 1

\* labels a call may still have to pass / has just passed when its event of that kind is read
Before(k) == CASE k = "rlock"   -> {"RLock"}
               [] k = "runlock" -> {"Read", "ReadEnd", "RUnlock"}
               [] k = "compile" -> {"Miss", "Compile"}
               [] k = "write"   -> {"WLock", "Write", "WriteEnd"}
               [] k = "match"   -> {"Miss", "WUnlock", "Match"}
After(k) ==  CASE k = "rlock"   -> "Read"
               [] k = "runlock" -> "Miss"
               [] k = "compile" -> "WLock"
               [] k = "write"   -> "WUnlock"
               [] k = "match"   -> "Done"
CallEvents == {"rlock", "runlock", "compile", "write", "match"}
IsCall == l <= Len(TraceLog) /\ Ev.ev \in CallEvents /\ Ev.c \in Procs

Holders == readers \cup (IF writer = 0 THEN {} ELSE {writer})
Blocked(c) == \/ pc[c] = "RLock" /\ writer # 0
              \/ pc[c] = "WLock" /\ (writer # 0 \/ readers # {})
MinOf(S) == CHOOSE x \in S : \A y \in S : x <= y

\* the event is confirmed by the state reached
TConsume == /\ IsCall
            /\ LET e == Ev IN
               /\ pc[e.c] = After(e.ev)
               /\ e.g \in 1..MaxG /\ e.seq = gseq[e.g] + 1
               /\ gseq' = [gseq EXCEPT ![e.g] = e.seq]
               /\ e.ev = "match" => verdict[e.c] = e.verdict
            /\ l' = l + 1 /\ UNCHANGED vars
\* the call catches up with its own event
TCatchUp == /\ IsCall
            /\ LET c == Ev.c IN
               /\ pc[c] \in Before(Ev.ev) /\ ~Blocked(c)
               /\ g(c)
            /\ UNCHANGED <<l, gseq>>
\* a lock holder whose release was not logged under the lock is advanced first
THelp == /\ IsCall
         /\ LET c == Ev.c IN
            /\ pc[c] \in Before(Ev.ev) /\ Blocked(c)
            /\ Holders \ {c} # {}
            /\ g(MinOf(Holders \ {c}))
         /\ UNCHANGED <<l, gseq>>
TDone == /\ Is("done") /\ AllDone
         /\ {PatText(k) : k \in DOMAIN cache} = {Ev.cache[i] : i \in 1..Len(Ev.cache)}
         /\ l' = l + 1 /\ UNCHANGED <<vars, gseq>>
TRace == /\ Is("race") /\ Ev.reports = 0
         /\ l' = l + 1 /\ UNCHANGED <<vars, gseq>>

TraceNext == TReset \/ TConsume \/ TCatchUp \/ THelp \/ TDone \/ TRace
TraceSpec == TraceInit /\ [][TraceNext]_tvars
HWM == IF l > TLCGet(1) THEN TLCSet(1, l) ELSE TRUE
TraceAccepted == PrintT(<<"HWM", TLCGet(1)>>) /\ TLCGet(1) = Len(TraceLog) + 1
===========================================================================
