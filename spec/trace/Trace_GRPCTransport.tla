------------------------ MODULE Trace_GRPCTransport ------------------------
(* Trace validation for C10.  A trace is a batch of cases executed on real goa output; per case
     reset(cfg, pv, rv, devs),
     eval(accepted),
     [ proto_field(msg, name, number, label, type, oneof)*, rpc(name, cs, ss)*, descriptor_ok(ok),      -- as parsed by fakeprotoc / judged by protodesc
       [ client_encode(where), server_decode(kind, class | errname), [ invoke, server_encode(where), client_decode(kind, class) ] ] ]
   Every event must be a step of GRPCTransport.tla with exactly the logged observation, under the deviations the
   reset event declares - and a case may only declare deviations listed in the constant Deviations (the recorded
   findings).  The parsed field table is kept as logged and the uniqueness rules are checked on it directly. *)
EXTENDS GRPCTransport, Json
TraceLog == ndJsonDeserialize("trace.ndjson")
VARIABLES l,
          fseen,     \* indices of the generated table already matched by a proto_field event
          observed,  \* the field table as logged
          nrpc       \* rpc events of the case
tvars == <<vars, l, fseen, observed, nrpc>>

Idle == GAttr("int", "64", "message", "required", "none", "direct")
TraceInit == /\ TLCSet(1, 1) /\ l = 1 /\ fseen = {} /\ observed = <<>> /\ nrpc = 0
             /\ cfg = [pa |-> Idle, ra |-> Idle, stream |-> "none", tagmode |-> "ok", withmd |-> FALSE, explicit |-> FALSE, raw |-> FALSE, shared |-> FALSE, devs |-> {}]
             /\ pv = FixedVal /\ rv = FixedVal
             /\ pc = "idle" /\ accepted = FALSE /\ proto = <<>> /\ rpcs = <<>> /\ descok = FALSE
             /\ wire = [loc |-> "none", v |-> Absent] /\ delivered = Absent /\ invoked = FALSE /\ errname = "none"
             /\ rwire = [loc |-> "none", v |-> Absent] /\ returned = Absent /\ cerr = "none"

Ev == TraceLog[l]
IsEvent(e) == l <= Len(TraceLog) /\ TraceLog[l].ev = e /\ l' = l + 1
NextIs(S) == l <= Len(TraceLog) /\ TraceLog[l].ev \in S
RangeOf(q) == {q[i] : i \in 1..Len(q)}
ClassOf(a, sent, x) == IF x = Absent THEN "absent" ELSE IF x = sent THEN "sent"
                       ELSE IF a.mode = "default" /\ x = DefaultOf(a) THEN "default" ELSE "other"
\* an unset value and an empty container are the same "nothing there" for the observer
ObsClass(a, sent, x) == IF x # Absent /\ Emptyish(a, x) /\ sent = Absent THEN "absent"
                        ELSE IF x = Absent /\ sent # Absent /\ Emptyish(a, sent) THEN "sent"
                        ELSE ClassOf(a, sent, x)

TReset == /\ IsEvent("reset") /\ pc \in {"idle", "done"}
          /\ RangeOf(Ev.devs) \subseteq Deviations                      \* only recorded findings may be invoked
          /\ cfg' = [pa |-> Ev.pa, ra |-> Ev.ra, stream |-> Ev.stream, tagmode |-> Ev.tagmode, withmd |-> Ev.withmd, explicit |-> Ev.explicit, raw |-> Ev.raw, shared |-> Ev.shared, devs |-> RangeOf(Ev.devs)]
          /\ pv' = Ev.pv /\ rv' = Ev.rv
          /\ pc' = "eval" /\ accepted' = FALSE /\ proto' = <<>> /\ rpcs' = <<>> /\ descok' = FALSE
          /\ wire' = [loc |-> "none", v |-> Absent] /\ delivered' = Absent /\ invoked' = FALSE /\ errname' = "none"
          /\ rwire' = [loc |-> "none", v |-> Absent] /\ returned' = Absent /\ cerr' = "none"
          /\ fseen' = {} /\ observed' = <<>> /\ nrpc' = 0
TEval == /\ IsEvent("eval") /\ Eval /\ accepted' = Ev.accepted /\ UNCHANGED <<fseen, observed, nrpc>>
\* the generator runs before the first thing the protocol buffer compiler reports
TCodegen == /\ NextIs({"proto_field", "rpc", "descriptor_ok"}) /\ Codegen /\ UNCHANGED <<l, fseen, observed, nrpc>>
AfterCodegen == proto # <<>> /\ accepted
TField == /\ IsEvent("proto_field") /\ AfterCodegen
          /\ LET f == Fld(Ev.msg, Ev.name, Ev.number, Ev.label, Ev.type, Ev.oneof) IN
             /\ \E i \in DOMAIN proto \ fseen : proto[i] = f /\ fseen' = fseen \cup {i}
             /\ observed' = Append(observed, f)
          /\ UNCHANGED <<vars, nrpc>>
TRpc == /\ IsEvent("rpc") /\ AfterCodegen /\ nrpc = 0
        /\ rpcs[1] = [name |-> Ev.name, cs |-> Ev.cs, ss |-> Ev.ss]
        /\ nrpc' = 1 /\ UNCHANGED <<vars, fseen, observed>>
TDesc == /\ IsEvent("descriptor_ok") /\ AfterCodegen
         /\ fseen = DOMAIN proto /\ nrpc = 1                               \* nothing missing, nothing extra
         /\ Ev.ok = descok
         /\ UNCHANGED <<vars, fseen, observed, nrpc>>
\* an empty container has no location to speak of: the observer logs "-"
LocTok(w, a, sent) == IF sent # Absent /\ Emptyish(a, sent) THEN "-" ELSE w.loc
TClientEncode == /\ IsEvent("client_encode") /\ ClientEncode /\ LocTok(wire', cfg.pa, pv) = Ev.where /\ UNCHANGED <<fseen, observed, nrpc>>
TSilent == /\ (ServerDecode \/ ClientDecode) /\ UNCHANGED <<l, fseen, observed, nrpc>>
TServerDecode == /\ IsEvent("server_decode") /\ ServerValidate
                 /\ IF Ev.kind = "payload"
                    THEN pc' = "invoke" /\ ObsClass(cfg.pa, pv, delivered) = Ev.class
                    ELSE pc' = "done"        \* (the name of the error is logged but not promised by the property)
                 /\ UNCHANGED <<fseen, observed, nrpc>>
TInvoke == /\ IsEvent("invoke") /\ Invoke /\ UNCHANGED <<fseen, observed, nrpc>>
TServerEncode == /\ IsEvent("server_encode") /\ ServerEncode /\ LocTok(rwire', cfg.ra, rv) = Ev.where /\ UNCHANGED <<fseen, observed, nrpc>>
TClientDecode == /\ IsEvent("client_decode") /\ ClientValidate
                 /\ cerr' = Ev.kind
                 /\ (Ev.kind = "result" => ObsClass(cfg.ra, rv, returned) = Ev.class)
                 /\ UNCHANGED <<fseen, observed, nrpc>>

TraceNext == TReset \/ TEval \/ TCodegen \/ TField \/ TRpc \/ TDesc \/ TClientEncode \/ TSilent \/ TServerDecode \/ TInvoke \/ TServerEncode \/ TClientDecode
TraceSpec == TraceInit /\ [][TraceNext]_tvars
HWM == IF l > TLCGet(1) THEN TLCSet(1, l) ELSE TRUE
TraceAccepted == PrintT(<<"HWM", TLCGet(1)>>) /\ TLCGet(1) = Len(TraceLog) + 1

\* the rules of C10 on what was actually parsed / recorded, for every case that claims no deviation
ObservedTableWellFormed == cfg.devs = {} => NumbersUnique(observed) /\ NamesUnique(observed) /\ NumbersValid(observed)
PropertyHolds == cfg.devs = {} => AcceptedOnlyIfNumbered /\ WellFormed /\ NotInMessage /\ DeliveredIntact /\ ResultIntact
===========================================================================
