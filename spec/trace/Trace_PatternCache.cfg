SPECIFICATION TraceSpec
CONSTANTS
  Procs = {1,2,3,4,5,6,7,8,9,10,11,12,13,14,15,16,17,18,19,20,21,22,23,24,25,26,27,28,29,30,31,32,33,34,35,36,37,38,39,40,41,42,43,44,45,46,47,48}
  Patterns = {1}
  Values = {1}
  Deviations = {}
  MaxG = 16
INVARIANTS LockOK NoConflict LockDiscipline CacheSound
CONSTRAINT HWM
POSTCONDITION TraceAccepted
CHECK_DEADLOCK FALSE
