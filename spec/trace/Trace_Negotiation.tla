------------------------- MODULE Trace_Negotiation -------------------------
(* Trace validation for C15.  The log is a batch of cases executed on the real
   goa code; each case starts with a `reset` event carrying its configuration and
   the environment facts (standard-library parse results) of its strings:

     response: reset, encoder(nil), header(hdr), body(fmt), decoder(fmt), decoded(rt)
     request : reset, sent(hdr, fmt), reqdecoded(rt), status(code)

   Every event must be explained by the corresponding action of Negotiation.tla.
   The Content-Type header the code wrote is not compared as a string (the property
   does not fix it) but by the format it announces: the specification's own reading
   of the real header must agree with the specification's header, and the decoder the
   real library then picks must be the one the specification picks (both only when a
   body is written: the property says nothing about the header of a failed encoding). *)
EXTENDS Negotiation, Json
TraceLog == ndJsonDeserialize("trace.ndjson")
VARIABLE l
tvars == <<vars, l>>

Range(f) == {f[i] : i \in DOMAIN f}

TraceInit == /\ TLCSet(1, 1) /\ l = 1
             /\ mode = "response" /\ facts = FactFunction({}) /\ accP = FALSE /\ acc = "" /\ des = "" /\ pre = ""
             /\ kind = "struct" /\ rct = "" /\ sender = "" /\ sfmt = ""
             /\ pc = "done" /\ enc = "none" /\ mt = "" /\ header = "" /\ body = "none"
             /\ dec = "none" /\ rt = "none" /\ status = 0

IsEvent(e) == l <= Len(TraceLog) /\ TraceLog[l].ev = e /\ l' = l + 1

TReset == /\ IsEvent("reset") /\ pc = "done"
          /\ LET e == TraceLog[l] IN
             /\ mode' = e.mode /\ facts' = FactFunction(Range(e.facts))
             /\ accP' = e.accP /\ acc' = e.acc /\ des' = e.des /\ pre' = e.pre /\ kind' = e.kind
             /\ rct' = e.rct /\ sender' = e.sender /\ sfmt' = e.sfmt
          /\ pc' = "start" /\ enc' = "none" /\ mt' = "" /\ header' = "" /\ body' = "none"
          /\ dec' = "none" /\ rt' = "none" /\ status' = 0

\* response side
TEncoder == IsEvent("encoder") /\ ChooseEncoder /\ (enc' = "nil") = TraceLog[l].nil
THeader  == IsEvent("header") /\ SetContentType /\ (WillEncode => DecFormat(TraceLog[l].hdr) = DecFormat(header'))
TBody    == IsEvent("body") /\ Encode /\ body' = TraceLog[l].fmt
TDecoder == IsEvent("decoder") /\ ChooseDecoder /\ (body # "none" => dec' = TraceLog[l].fmt)
TDecoded == IsEvent("decoded") /\ Decode /\ rt' = TraceLog[l].rt

\* request side: the choice of the decoder is not visible from outside (silent step)
TSent       == IsEvent("sent") /\ SendRequest /\ header' = TraceLog[l].hdr /\ body' = TraceLog[l].fmt
TChooseReq  == ChooseRequestDecoder /\ UNCHANGED l
TReqDecoded == IsEvent("reqdecoded") /\ DecodeRequest /\ rt' = TraceLog[l].rt
TStatus     == IsEvent("status") /\ EncodeError /\ status' = TraceLog[l].code

TraceNext == TReset \/ TEncoder \/ THeader \/ TBody \/ TDecoder \/ TDecoded
             \/ TSent \/ TChooseReq \/ TReqDecoded \/ TStatus
TraceSpec == TraceInit /\ [][TraceNext]_tvars

HWM == IF l > TLCGet(1) THEN TLCSet(1, l) ELSE TRUE
TraceAccepted == PrintT(<<"HWM", TLCGet(1)>>) /\ TLCGet(1) = Len(TraceLog) + 1
=============================================================================
