SPECIFICATION TraceSpec
CONSTANTS
  Deviations = {}
  Formats = {"date"}
  Rich = TRUE
INVARIANTS IPRelation
CONSTRAINT HWM
POSTCONDITION TraceAccepted
CHECK_DEADLOCK FALSE
