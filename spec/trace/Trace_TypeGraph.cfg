SPECIFICATION TraceSpec
CONSTANTS
  Deviations = {}
  N = 5
  K = 4
  Leaves = {"string"}
  UKinds = {"user"}
  Modes = {}
  Decos = {0}
  Shapes = "any"
  Ops = "all"
  MaxSteps = 5
  Script = "free"
CONSTRAINT HWM
POSTCONDITION TraceAccepted
CHECK_DEADLOCK FALSE
