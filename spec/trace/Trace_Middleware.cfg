SPECIFICATION TraceSpec
CONSTANTS
  Mode = "trace_log"
  MaxHops = 4
  MaxReq = 8
  LimitMax = 12
  MaxDiscards = 3
  Layouts = {"plain", "rev", "dup"}
  OptHops = 4
  MaxScript = 6
  Deviations = {}
CONSTRAINT HWM
POSTCONDITION TraceAccepted
CHECK_DEADLOCK FALSE
