SPECIFICATION JudgeSpec
CONSTANTS
  Roots = {"a", "b", "c", "d", "e", "f"}
  MaxExprs = 4
  MaxLate = 2
  Space = "none"
  Canonical = FALSE
  Deviations = {}
VIEW TView
CONSTRAINT HWM
POSTCONDITION TraceAccepted
CHECK_DEADLOCK FALSE
