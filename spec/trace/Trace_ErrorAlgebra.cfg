SPECIFICATION TraceSpec
CONSTANTS
  N = 1
  Rich = FALSE
  Deviations = {}
CONSTRAINT HWM
POSTCONDITION TraceAccepted
CHECK_DEADLOCK FALSE
