SPECIFICATION TraceSpec
CONSTANTS
  N = 1
  Rich = FALSE
  Family = "all"
  Deviations = {}
CONSTRAINT HWM
POSTCONDITION TraceAccepted
CHECK_DEADLOCK FALSE
