SPECIFICATION TraceSpec
CONSTANTS
  Deviations = {}
  Tolerated = {}
CONSTRAINT HWM
POSTCONDITION TraceAccepted
CHECK_DEADLOCK FALSE
