---------------------------- MODULE Trace_Mux ----------------------------
(* Trace validation for C16.  A trace is a batch of cases executed by the real
   goahttp muxer (harness/drivers/mux -random N): per case
     reset, use(id, probe, res)*, handle(id, method, pattern, segs)+, use*,
     serve(method, wire, accept, path, rawkept, src),
     mw(in, id, probe?)*, reached(id, probe) | notfound(status, ct, wf), mw(out, id, probe?)*, done
   Every event must be a step of Mux.tla with exactly the logged observation:
   Use outcome, URL.Path / RawPath as net/http derived them, order of the chain,
   Vars and ResolvePattern at every probe, handler reached, 404 body. *)
EXTENDS Mux, Json
TraceLog == ndJsonDeserialize("trace.ndjson")
VARIABLE l
tvars == <<vars, l>>

IdleReq == Req("GET", <<Lit("/")>>, "", 0, <<>>, "-")
TraceInit == /\ TLCSet(1, 1) /\ l = 1
             /\ plan = <<>> /\ req = IdleReq /\ MachineInit

Ev == TraceLog[l]
IsEvent(e) == l <= Len(TraceLog) /\ TraceLog[l].ev = e /\ l' = l + 1
Last(s) == s[Len(s)]
\* the probe a middleware or handler logged is the one the specification computes
ProbeAgrees(shouldProbe, newobs) ==
  IF shouldProbe
  THEN /\ "probe" \in DOMAIN Ev
       /\ Last(newobs.probes).res = Ev.probe.res
       /\ Last(newobs.probes).vars = Ev.probe.vars
  ELSE "probe" \notin DOMAIN Ev

TReset == /\ IsEvent("reset") /\ pc \in {"setup", "done"} /\ (pc = "setup" => plan = <<>>)
          /\ MachineReset /\ plan' = <<>> /\ req' = IdleReq
TUse == /\ IsEvent("use")
        /\ LET o == UseOp(Ev.id, Ev.probe) IN
           /\ DoUse(o) /\ plan' = Append(plan, o)
           /\ Last(useres') = Ev.res
        /\ req' = req
THandle == /\ IsEvent("handle")
           /\ LET o == HandleOp(Ev.id, Ev.method, Ev.segs) IN
              /\ PatString(GoaPat(Ev.segs)) = Ev.pattern        \* the text registered is the text of these segments
              /\ DoHandle(o) /\ plan' = Append(plan, o)
           /\ req' = req
TSetupDone == /\ l <= Len(TraceLog) /\ TraceLog[l].ev = "serve"
              /\ SetupDone /\ UNCHANGED <<l, plan, req>>
TServe == /\ IsEvent("serve")
          /\ LET r == Req(Ev.method, Ev.wire, Ev.accept, Ev.src.hid, Ev.src.vals, Ev.src.enc) IN
             /\ req' = r /\ Parse(r)
             /\ url'.path = Ev.path /\ url'.rawkept = Ev.rawkept       \* net/http agrees with the model of url.setPath
             /\ (Ev.src.hid # 0 => Ev.wire = Build(HandleById(Ev.src.hid).segs, Ev.src.vals, Ev.src.enc))
          /\ plan' = plan
TMwIn == /\ IsEvent("mw") /\ Ev.dir = "in"
         /\ MwEnter(req)
         /\ Last(obs'.order) = <<"in", Ev.id>>
         /\ ProbeAgrees(chain[depth + 1].probe, obs')
         /\ UNCHANGED <<plan, req>>
TRoute == /\ Route(req) /\ UNCHANGED <<l, plan, req>>
TReached == /\ IsEvent("reached")
            /\ Handler(req)
            /\ obs'.reached = Ev.id
            /\ ProbeAgrees(TRUE, obs')
            /\ UNCHANGED <<plan, req>>
TNotFound == /\ IsEvent("notfound")
             /\ \/ NotFound(req) /\ Ev.status = 404 /\ Ev.ct = obs'.ct /\ Ev.wf = obs'.wf
                \/ NotAllowed(req) /\ Ev.status = 405
             /\ UNCHANGED <<plan, req>>
TMwOut == /\ IsEvent("mw") /\ Ev.dir = "out"
          /\ MwExit(req)
          /\ Last(obs'.order) = <<"out", Ev.id>>
          /\ ProbeAgrees(chain[depth].probe, obs')
          /\ UNCHANGED <<plan, req>>
TDone == /\ IsEvent("done") /\ Finish /\ UNCHANGED <<plan, req>>

TraceNext == TReset \/ TUse \/ THandle \/ TSetupDone \/ TServe \/ TMwIn \/ TRoute \/ TReached \/ TNotFound \/ TMwOut \/ TDone
TraceSpec == TraceInit /\ [][TraceNext]_tvars
HWM == IF l > TLCGet(1) THEN TLCSet(1, l) ELSE TRUE
TraceAccepted == PrintT(<<"HWM", TLCGet(1)>>) /\ TLCGet(1) = Len(TraceLog) + 1
===========================================================================
