SPECIFICATION TraceSpec
CONSTANTS
  MaxChunks = 4
  MaxChunk = 4
  Deviations = {}
CONSTRAINT HWM
INVARIANTS OneePipe NeverMoreThanWritten
POSTCONDITION TraceAccepted
CHECK_DEADLOCK FALSE
