SPECIFICATION TraceSpec
CONSTANTS
  Methods = {"srv", "srvn", "srvv", "cli", "clin", "clip", "bidi", "bidip", "bidiv"}
  Vals = {"a", "b", "x", "y"}
  Pays = {"ok", "bad"}
  MaxSend = 6
  Deviations = {}
  Judge = FALSE
CONSTRAINT HWM
INVARIANTS OrderOnceIntact NeverInvalid PayloadFirst EOFAfterCloseAndDrain
POSTCONDITION TraceAccepted
CHECK_DEADLOCK FALSE
