--------------------------- MODULE Trace_SkipWriter ---------------------------
(* Trace validation of goa.SkipResponseWriter runs: reset(chunks), read(n, err), close, wdone(count, err, leaked).
   The writer goroutine's own steps are not logged: they are silent steps of the specification. *)
EXTENDS SkipWriter, Json
TraceLog == ndJsonDeserialize("trace.ndjson")
VARIABLE l
tvars == <<vars, l>>
TraceInit == /\ TLCSet(1, 1) /\ l = 1
             /\ chunks = <<>> /\ ci = 1 /\ off = 0 /\ consumed = 0 /\ pipe = "none" /\ inits = 0 /\ writer = "notstarted"
             /\ wcount = 0 /\ werr = "none" /\ rlast = [op |-> "none", n |-> 0, err |-> "none"]
Ev(e) == l <= Len(TraceLog) /\ TraceLog[l].ev = e
E == TraceLog[l]
TReset == /\ Ev("reset")
          /\ chunks' = E.chunks /\ ci' = 1 /\ off' = 0 /\ consumed' = 0 /\ pipe' = "none" /\ inits' = 0 /\ writer' = "notstarted"
          /\ wcount' = 0 /\ werr' = "none" /\ rlast' = [op |-> "none", n |-> 0, err |-> "none"]
          /\ l' = l + 1
TRead == /\ Ev("read")
         /\ \/ (E.err = "none" /\ ReadData(E.buf) /\ rlast'.n = E.n)
            \/ (E.err = "eof" /\ E.n = 0 /\ ReadEOF)
            \/ (E.err = "closedpipe" /\ E.n = 0 /\ ReadClosed)
         /\ l' = l + 1
TClose == Ev("close") /\ Close /\ l' = l + 1
TSilent == (OpenPipe \/ WriterFinish \/ WriterInterrupted) /\ UNCHANGED l
TDone == /\ Ev("wdone")
         /\ E.leaked = FALSE /\ E.dataok = TRUE
         /\ writer = "done" /\ E.count = wcount /\ E.err = werr
         /\ E.consumed = consumed
         /\ l' = l + 1 /\ UNCHANGED vars
TConc == Ev("concurrent") /\ l' = l + 1 /\ UNCHANGED vars
TraceNext == TReset \/ TRead \/ TClose \/ TSilent \/ TDone \/ TConc
TraceSpec == TraceInit /\ [][TraceNext]_tvars
HWM == IF l > TLCGet(1) THEN TLCSet(1, l) ELSE TRUE
TraceAccepted == PrintT(<<"HWM", TLCGet(1)>>) /\ TLCGet(1) = Len(TraceLog) + 1
===============================================================================
