SPECIFICATION TraceSpec
CONSTANTS
  Deviations = {}
  MaxOps = 99
  Nonces = {0}
  KeepHist = FALSE
CONSTRAINT HWM
POSTCONDITION TraceAccepted
CHECK_DEADLOCK FALSE
