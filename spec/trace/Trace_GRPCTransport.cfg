SPECIFICATION TraceSpec
CONSTANTS
  Deviations = {}
  Family = "req"
  PathDepth = 2
CONSTRAINT HWM
POSTCONDITION TraceAccepted
INVARIANTS ObservedTableWellFormed PropertyHolds
CHECK_DEADLOCK FALSE
