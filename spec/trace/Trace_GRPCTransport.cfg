SPECIFICATION TraceSpec
CONSTANTS
  Deviations = {}
  Family = "req"
CONSTRAINT HWM
POSTCONDITION TraceAccepted
INVARIANTS ObservedTableWellFormed PropertyHolds
CHECK_DEADLOCK FALSE
