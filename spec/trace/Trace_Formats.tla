--------------------------- MODULE Trace_Formats ---------------------------
(* Trace validation for the format validators (C17).  Two lines per case:
     render   fmt, inst (field record), corr, str     the text the driver built from the fields
     verdict  verdicts {format: accepted}             what goa.ValidateFormat answered
   The instance comes from the driver's random generator (field values wider
   than the boundary sets of Formats.tla).  TRender re-renders the instance and
   requires the same text (so the two renderers check each other) and that the
   case lies in the modelled classes; TVerdict is Validate of Formats.tla and
   requires the recorded answers to be the specification's. *)
EXTENDS Formats, Json
TraceLog == ndJsonDeserialize("trace.ndjson")
VARIABLE l
tvars == <<vars, l>>

RECURSIVE CatS(_)
CatS(t) == IF Len(t) = 0 THEN "" ELSE IF Len(t) = 1 THEN t[1]
           ELSE CatS(SubSeq(t, 1, Len(t) \div 2)) \o CatS(SubSeq(t, Len(t) \div 2 + 1, Len(t)))

TraceInit == /\ TLCSet(1, 1) /\ l = 1
             /\ fmt = "date" /\ inst = [y |-> 0, m |-> 1, d |-> 1] /\ corr = NoCorr
             /\ toks = <<>> /\ verdict = [a \in {} |-> FALSE] /\ pc = "done"
Ev == TraceLog[l]
Is(k) == l <= Len(TraceLog) /\ Ev.ev = k

HexD == {"0", "1", "2", "3", "4", "5", "6", "7", "8", "9", "a", "b", "c", "d", "e", "f"}
V4Scope(x) == Len(x.oct) \in 1..6 /\ \A i \in 1..Len(x.oct) : x.oct[i] \in 0..999
V6Scope(x) == /\ x.bg = 0 /\ Len(x.a) + Len(x.b) <= 9
              /\ \A i \in 1..Len(x.a) : HexDigitsOK(x.a[i])
              /\ \A i \in 1..Len(x.b) : HexDigitsOK(x.b[i])
              /\ \A i \in 1..Len(x.t) : x.t[i] \in 0..999
              /\ (~x.e => x.b = <<>> /\ x.a # <<>>)
DateScope(x) == x.y \in 0..9999 /\ x.m \in 0..99 /\ x.d \in 0..99
TimeScope(x) == x.h \in 0..99 /\ x.mi \in 0..99 /\ x.s \in 0..99 /\ x.s # 60
LabScope(lb) == /\ lb.n \in 1..80 /\ lb.k \in {"alpha", "digit1", "mixed", "digits"} /\ lb.hy \in {"none", "mid", "mid2", "lead", "trail"}
                /\ (lb.hy = "mid" => lb.n >= 3) /\ (lb.hy = "mid2" => lb.n >= 4)
\* the classes the specification speaks about (see the list of exclusions in Formats.tla)
InScope(f, x) ==
  CASE f = "date" -> DateScope(x)
    [] f = "date-time" -> DateScope(x.date) /\ TimeScope(x) /\ x.frac \in {"", "5", "123456789", "000", "25"}
                          /\ (x.zone.z \/ (x.zone.zh \in 0..99 /\ x.zone.zh # 24 /\ x.zone.zm \in 0..99 /\ x.zone.zm # 60 /\ x.zone.sg \in {"+", "-"}))
    [] f = "rfc1123" -> DateScope(x.date) /\ TimeScope(x) /\ x.zone \in {"GMT", "EST", "EDT", "CST", "CDT", "MST", "MDT", "PST", "PDT"}
    [] f = "ipv4" -> V4Scope(x)
    [] f = "ipv6" -> V6Scope(x)
    [] f = "cidr" -> x.len \in 0..9999 /\ (IF x.fam = "v4" THEN V4Scope(x.ip) ELSE x.fam = "v6" /\ V6Scope(x.ip))
    [] f = "mac" -> x.n \in 1..12 /\ x.sep \in {":", "-", "."} /\ x.k \in 0..9 /\ (x.sep = "." => x.n % 2 = 0)
    [] f = "uuid" -> x.form \in {"plain", "urn", "brace", "bare"} /\ x.ver \in HexD /\ x.var \in {"8", "9", "a", "b"} /\ x.k \in 0..35
    [] f = "hostname" -> /\ Len(x.labels) \in 1..6 /\ \A i \in 1..Len(x.labels) : LabScope(x.labels[i])
                         /\ HasLetter(x.labels[Len(x.labels)])
    [] OTHER -> FALSE

TRender == /\ Is("render") /\ pc = "done"
           /\ LET e == Ev IN
              /\ e.fmt \in AllFamilies /\ InScope(e.fmt, e.inst)
              /\ e.corr = NoCorr \/ e.corr \in Corrs(e.fmt, e.inst)
              /\ fmt' = e.fmt /\ inst' = e.inst /\ corr' = e.corr
              /\ toks' = Render(e.fmt, e.inst, e.corr)
              /\ CatS(toks') = e.str
              \* an illegal character stays illegal whatever the instance; removing a separator or a digit from an
              \* instance that is already malformed may repair it (9 groups -> 8): no claim is made about those
              /\ pc' = IF e.corr.k \in {"none", "insert", "badsep"} \/ WF(e.fmt, e.inst) THEN "validate" ELSE "skip"
           /\ l' = l + 1 /\ UNCHANGED verdict
TVerdict == /\ Is("verdict") /\ Validate(fmt)
            /\ DOMAIN Ev.verdicts = Asked(fmt)
            /\ \A a \in Asked(fmt) : verdict'[a] = Ev.verdicts[a]
            /\ l' = l + 1
\* (the relations between formats hold for every text: the recorded answers still go through IPRelation)
TSkip == /\ Is("verdict") /\ pc = "skip" /\ pc' = "done" /\ l' = l + 1
         /\ DOMAIN Ev.verdicts = Asked(fmt)
         /\ verdict' = [a \in Asked(fmt) |-> Ev.verdicts[a]]
         /\ UNCHANGED <<fmt, inst, corr, toks>>
TraceNext == TRender \/ TVerdict \/ TSkip
TraceSpec == TraceInit /\ [][TraceNext]_tvars
HWM == IF l > TLCGet(1) THEN TLCSet(1, l) ELSE TRUE
TraceAccepted == PrintT(<<"HWM", TLCGet(1)>>) /\ TLCGet(1) = Len(TraceLog) + 1
============================================================================
