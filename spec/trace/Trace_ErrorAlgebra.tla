------------------------ MODULE Trace_ErrorAlgebra ------------------------
(* Trace validation for C18: every line is one merge evaluated by the real
   goa.MergeErrors on a (random, 5-8 leaf) tree; the specification recomputes
   the observable from the logged leaves and tree and must agree. *)
EXTENDS ErrorAlgebra, Json
TraceLog == ndJsonDeserialize("trace.ndjson")
VARIABLE l
tvars == <<vars, l>>

TraceInit == /\ TLCSet(1, 1) /\ l = 1
             /\ mode = "merge" /\ leaves = <<NilLeaf>> /\ tree = <<"leaf", 1>>
             /\ scase = [kind |-> "svc", name |-> "n1", flags |-> NoFlags]
             /\ pc = "start" /\ obs = [kind |-> "none"]

\* JSON omits empty/absent fields: rebuild the record the spec compares with
Norm(o) ==
  IF o.kind = "merged"
  THEN [kind |-> "merged", name |-> o.name,
        msgs |-> IF "msgs" \in DOMAIN o THEN o.msgs ELSE <<>>,
        flags |-> o.flags,
        causes |-> IF "causes" \in DOMAIN o THEN o.causes ELSE <<>>,
        hist |-> IF "hist" \in DOMAIN o THEN o.hist ELSE <<>>]
  ELSE o

TCase == /\ l <= Len(TraceLog) /\ TraceLog[l].ev = "case"
         /\ LET e == TraceLog[l] IN
            /\ leaves' = e.leaves /\ tree' = e.tree
            /\ obs' = Obs(e.leaves, e.tree)
            /\ obs' = Norm(e.obs)                     \* the implementation's answer is the specification's
         /\ l' = l + 1 /\ pc' = "done" /\ UNCHANGED <<mode, scase>>
TraceNext == TCase
TraceSpec == TraceInit /\ [][TraceNext]_tvars
HWM == IF l > TLCGet(1) THEN TLCSet(1, l) ELSE TRUE
TraceAccepted == PrintT(<<"HWM", TLCGet(1)>>) /\ TLCGet(1) = Len(TraceLog) + 1
===========================================================================
