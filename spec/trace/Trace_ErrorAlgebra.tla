------------------------ MODULE Trace_ErrorAlgebra ------------------------
(* Trace validation for C18.  A "case" line is one merge evaluated by the real goa.MergeErrors on a
   (random, 5-8 leaf) tree whose leaves also vary in what they wrap; the result is observed directly and on
   the wire (http.NewErrorResponse / StatusCode, grpc.EncodeError -> DecodeError -> NewServiceError).
   A "status" line is one error alone (kind x name x flags x cause) observed on the wire.  The
   specification recomputes the observable from the logged case and must agree.

   A line the design rejects but one of TraceDeviations (deviations recorded as known findings) predicts
   exactly is matched under that deviation and printed as <<"DEV", line, deviation>>: the check files it
   under the deviation's name (a KNOWN-FINDING if listed, a VIOLATION otherwise) - it is never silent. *)
EXTENDS ErrorAlgebra, Json
TraceLog == ndJsonDeserialize("trace.ndjson")
TraceDeviations == {"grpc.detail_after_inherited"}
VARIABLE l
tvars == <<vars, l>>

TraceInit == /\ TLCSet(1, 1) /\ l = 1
             /\ mode = "merge" /\ leaves = <<NilLeaf>> /\ tree = <<"leaf", 1>>
             /\ scase = NoCase
             /\ pc = "start" /\ obs = [kind |-> "none"]

\* JSON omits empty/absent fields: rebuild the record the spec compares with
Norm(o) ==
  IF o.kind = "merged"
  THEN [kind |-> "merged", name |-> o.name,
        msgs |-> IF "msgs" \in DOMAIN o THEN o.msgs ELSE <<>>,
        flags |-> o.flags,
        causes |-> IF "causes" \in DOMAIN o THEN o.causes ELSE <<>>,
        hist |-> IF "hist" \in DOMAIN o THEN o.hist ELSE <<>>,
        wire |-> o.wire]
  ELSE o

\* the implementation's answer o is the specification's: pred(D) is the prediction under deviations D
Agrees(pred(_), o) ==
  \/ pred(Deviations) = o
  \/ /\ pred(Deviations) # o
     /\ \E d \in TraceDeviations : pred({d}) = o /\ PrintT(<<"DEV", l, d>>)

TCase == /\ l <= Len(TraceLog) /\ TraceLog[l].ev = "case"
         /\ LET e == TraceLog[l]
                P(D) == ObsD(D, e.leaves, e.tree) IN
            /\ leaves' = e.leaves /\ tree' = e.tree
            /\ obs' = Norm(e.obs)
            /\ Agrees(P, obs')
         /\ l' = l + 1 /\ pc' = "done" /\ mode' = "merge" /\ UNCHANGED scase
TStatus == /\ l <= Len(TraceLog) /\ TraceLog[l].ev = "status"
           /\ LET e == TraceLog[l]
                  P(D) == StatusObsD(D, e.scase) IN
              /\ scase' = e.scase
              /\ obs' = e.obs
              /\ Agrees(P, obs')
           /\ l' = l + 1 /\ pc' = "done" /\ mode' = "status" /\ UNCHANGED <<leaves, tree>>
TraceNext == TCase \/ TStatus
TraceSpec == TraceInit /\ [][TraceNext]_tvars
HWM == IF l > TLCGet(1) THEN TLCSet(1, l) ELSE TRUE
TraceAccepted == PrintT(<<"HWM", TLCGet(1)>>) /\ TLCGet(1) = Len(TraceLog) + 1
===========================================================================
