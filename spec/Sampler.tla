------------------------------- MODULE Sampler -------------------------------
(* middleware.adaptiveSampler.Sample (property C20: "locks/atomics around ... samplers"), one action per step of
   the code, N request goroutines calling Sample() Calls times each on ONE sampler shared by all requests:

     inc      c := atomic.AddUint32(&counter, 1)              if c # sampleSize: load lastRate (atomic), done
     reset    atomic.StoreUint32(&counter, 0)                 ("race is ok": only the counter, an atomic)
     lock     s.Lock()                                        [deviation sampler.adjust_unlocked: no lock at all]
     read     d := time.Since(s.start)                        plain read of start
     write    s.start = time.Now()                            plain write of start
     unlock   s.Unlock()
     store    atomic.StoreInt64(&lastRate, rate)

   The counter is reset BEFORE the adjustment block runs, so while one goroutine is inside the block sampleSize
   further calls bring the counter to sampleSize again and send a second goroutine towards the block: "only one
   caller sees counter = sampleSize" does not make the block exclusive, the mutex does.
   Invariants: at most one goroutine between lock and unlock (the block is a critical section); no plain access to
   start conflicts with another one (what the race detector observes on the real code); the rate every call uses
   is within 1..UpperBound (never zero). *)
EXTENDS Integers, FiniteSets, TLC
CONSTANTS N, Calls, SampleSize, Deviations
Procs == 1..N
Unlocked == "sampler.adjust_unlocked" \in Deviations
VARIABLES counter, mutex, pc, left, lastRate
vars == <<counter, mutex, pc, left, lastRate>>
Rates == {1, 2}     \* abstract rates: 2 = the upper bound (sample everything), 1 = anything lower; never 0
Init == /\ counter = 0 /\ mutex = 0 /\ pc = [p \in Procs |-> "idle"] /\ left = [p \in Procs |-> Calls] /\ lastRate = 2
Go(p, to) == pc' = [pc EXCEPT ![p] = to]
Inc(p) == /\ pc[p] = "idle" /\ left[p] > 0
          /\ counter' = counter + 1
          /\ left' = [left EXCEPT ![p] = @ - 1]
          /\ IF counter' = SampleSize THEN Go(p, "reset") ELSE Go(p, "idle")     \* else: atomic load of lastRate
          /\ UNCHANGED <<mutex, lastRate>>
Reset(p) == /\ pc[p] = "reset" /\ counter' = 0 /\ Go(p, "lock") /\ UNCHANGED <<mutex, left, lastRate>>
Lock(p) == /\ pc[p] = "lock"
           /\ IF Unlocked THEN UNCHANGED mutex ELSE mutex = 0 /\ mutex' = p
           /\ Go(p, "read") /\ UNCHANGED <<counter, left, lastRate>>
Read(p) == /\ pc[p] = "read" /\ Go(p, "write") /\ UNCHANGED <<counter, mutex, left, lastRate>>
Write(p) == /\ pc[p] = "write" /\ Go(p, "unlock") /\ UNCHANGED <<counter, mutex, left, lastRate>>
Unlock(p) == /\ pc[p] = "unlock"
             /\ IF Unlocked THEN UNCHANGED mutex ELSE mutex' = 0
             /\ Go(p, "store") /\ UNCHANGED <<counter, left, lastRate>>
Store(p) == /\ pc[p] = "store" /\ \E r \in Rates : lastRate' = r
            /\ Go(p, "idle") /\ UNCHANGED <<counter, mutex, left>>
Next == \E p \in Procs : Inc(p) \/ Reset(p) \/ Lock(p) \/ Read(p) \/ Write(p) \/ Unlock(p) \/ Store(p)
Spec == Init /\ [][Next]_vars /\ WF_vars(Next)

InBlock(p) == pc[p] \in {"read", "write", "unlock"}
\* C20, sampler
BlockIsCritical == Cardinality({p \in Procs : InBlock(p)}) <= 1
NoRaceOnStart == \A p, q \in Procs : p # q => ~(pc[p] = "write" /\ pc[q] \in {"read", "write"})
RateNeverZero == lastRate \in Rates
\* the reset-before-block window exists (otherwise the mutex would be redundant and the guard below vacuous)
Done == \A p \in Procs : pc[p] = "idle" /\ left[p] = 0
Termination == <>Done
==============================================================================
