----------------------------- MODULE Toolchain -----------------------------
(* The design-time pipeline of goa for ONE program (a design written with the public DSL):

     dsl (the DSL functions run)  ->  eval (RunDSL: execute, prepare, validate, finalize)
        ->  gen (generator "gen")  ->  example (generator "example")
        ->  typecheck (every Go package written, against the goa runtime packages)

   Property C01: a design that evaluation accepts is never crashed on, rejected, or turned into
   uncompilable code by a later stage.  (C12 adds: the dsl/eval stages themselves never panic or hang.)

   The stage outcomes are observations of the real toolchain (genhost + go build); this module is the
   state machine they must follow and the invariant they must satisfy.  A *named deviation* is a class of
   designs for which a later stage is known to fail (a recorded C01 finding): the machine then allows
   exactly that failure for exactly that class. *)
EXTENDS Integers, Sequences, FiniteSets, TLC

CONSTANTS Deviations,
          Classes        \* design classes the exhaustive model ranges over (opaque strings)

Stages == <<"dsl", "eval", "gen", "example", "typecheck">>
Outcomes == {"ok", "errors", "error", "panic", "timeout"}

\* which design classes are covered by which recorded deviation
\* (two earlier classes, non-string cookies and alias-typed string cookies, were repaired in goa and are
\* ordinary designs again)
KnownBad(class, stage) ==
  \/ class = "param/alias+default" /\ stage = "typecheck" /\ "codegen.param_alias_default" \in Deviations
  \/ class = "error/api-level-user-type" /\ stage = "typecheck" /\ "codegen.api_error_user_type" \in Deviations
  \/ class = "views/recursive-result-type" /\ stage = "typecheck" /\ "codegen.recursive_result_type_views" \in Deviations
  \/ class = "payload/whole-in-header" /\ stage = "typecheck" /\ "codegen.primitive_payload_in_header" \in Deviations
  \* a map keyed by Boolean / Float32 / Float64 in an HTTP body: the OpenAPI generators marshal an example of it,
  \* encoding/json refuses such maps, and `goa gen` fails
  \/ class = "map/key-not-json" /\ stage = "gen" /\ "codegen.map_key_not_json_encodable" \in Deviations

VARIABLES class,     \* class of the program under way
          stage,     \* index into Stages of the next stage to run (6 = finished)
          accepted,  \* evaluation accepted the design
          log        \* outcomes so far, one per stage run
vars == <<class, stage, accepted, log>>

Init == class \in Classes /\ stage = 1 /\ accepted = FALSE /\ log = <<>>

\* what a stage may answer
Allowed(c, s, acc) ==
  CASE s = "dsl"  -> {"ok"}                               \* calling DSL functions only records expressions and errors
    [] s = "eval" -> {"ok", "errors"}                     \* a design or a list of errors (never a crash: C12)
    [] OTHER      -> IF KnownBad(c, s) THEN {"ok", "error"} ELSE {"ok"}   \* after acceptance every stage succeeds

Run(o) ==
  /\ stage <= Len(Stages)
  /\ o \in Allowed(class, Stages[stage], accepted)
  /\ log' = Append(log, <<Stages[stage], o>>)
  /\ accepted' = IF Stages[stage] = "eval" THEN o = "ok" ELSE accepted
  /\ stage' = IF o = "ok" THEN stage + 1 ELSE Len(Stages) + 1        \* a failing stage ends the run
  /\ UNCHANGED class
Next == \E o \in Outcomes : Run(o)
Spec == Init /\ [][Next]_vars

\* C01
AcceptedNeverFailsLater ==
  \A i \in 1..Len(log) : (\E j \in 1..(i - 1) : log[j] = <<"eval", "ok">>) /\ log[i][2] # "ok" => KnownBad(class, log[i][1])
RejectedStops == \A i \in 1..Len(log) : log[i] = <<"eval", "errors">> => i = Len(log)
StagesInOrder == \A i \in 1..Len(log) : log[i][1] = Stages[i]
=============================================================================
