------------------------------- MODULE Streaming -------------------------------
(* ONE streaming call of a goa HTTP (WebSocket) endpoint: growth module beyond the list of claimed properties
   (none of them executes Send/Recv).  Code modelled: the generated `*ServerStream` / `*ClientStream` types
   (http/codegen/templates/websocket_{send,recv,close,set_view,struct_type}.go.tpl, partial
   websocket_upgrade), the generated handler / client endpoint of a streaming method (server_handler_init,
   client_endpoint_init) and gorilla/websocket underneath.

   What the code does, one action per call of the generated API:
     * the client endpoint builds the request (payload in the query string) and dials; the dial returns
       when the server upgrades the connection, and the server upgrades lazily inside its FIRST Send or
       Recv (sync.Once) - never in Close or SendAndClose;
     * the server handler decodes and validates the request payload BEFORE the service method runs
       (an invalid payload is answered 400 and the method never runs);
     * Send is WriteJSON on the connection, one FIFO per direction (TCP); nobody validates on Send;
     * Recv is ReadJSON + validation against the design + conversion; a message that fails validation is
       consumed and Recv returns the validation error;
     * server Close: close frame (1000) then TCP close; the client's Recv maps that frame to io.EOF;
       client Close / CloseAndRecv: a JSON `null` message is the end marker, the server's Recv maps it to
       io.EOF; SendAndClose: the result message, then TCP close without close frame;
     * viewed results: the view is announced once, in the `goa-view` header of the upgrade response, and
       the client validates / projects every message under that view.

   Streaming kinds of the design family (one service, fixed): server (srv: payload, srvn, srvv: viewed
   result), client (cli: result, clin: no result, clip: payload + result), bidirectional (bidi, bidip:
   payload, bidiv: viewed result).

   Blocking calls are split in a call step and a return step (Recv, CloseAndRecv, the client's endpoint
   call) so that a script - a sequence of steps, each executed to completion before the next one is
   issued - never deadlocks: a return step is only enabled when the model says its outcome is available.

   Where the outcome depends on TCP timing (a write after the peer closed its socket) the scripts avoid
   the case or the model allows both outcomes; see the comments at the actions.

   Named deviations.  Deviations = {} is the ideal read from the interface comments ("Close closes the
   stream", "SetView sets the view used to render the result before streaming", Recv returns io.EOF once
   the peer closed) plus the rule asked for in the task: after a validation failure nothing more is
   delivered.  What the generated code does instead is described by CodeDeviations below; the `hyp.*`
   deviations are hypothetical (no code does this): they only show that the invariants are not vacuous. *)
EXTENDS Integers, Sequences, FiniteSets, TLC

CONSTANTS Methods,      \* subset of AllMethods
          Vals,         \* subset of {"a", "b", "x", "y"}: message values
          Pays,         \* subset of {"ok", "bad"}: request payload classes (methods with a payload)
          MaxSend,      \* messages per direction
          Deviations

AllMethods == {"srv", "srvn", "srvv", "cli", "clin", "clip", "bidi", "bidip", "bidiv"}
CodeDeviations == {"recv.continues_after_invalid", "close.noop_before_upgrade", "sendandclose.nil_conn_before_recv",
                   "view.recv_upgrade_drops_view", "eof.server_recv_after_eof_is_error"}
HypDeviations == {"hyp.recv_skips_validation", "hyp.dup_delivery", "hyp.close_overtakes", "hyp.invoke_on_bad_payload"}
ASSUME Methods \subseteq AllMethods /\ Vals \subseteq {"a", "b", "x", "y"} /\ Pays \subseteq {"ok", "bad"}
ASSUME Deviations \subseteq CodeDeviations \cup HypDeviations

Dev(d) == d \in Deviations
MaxIdle == 2      \* calls that have no effect at all (a Send after the own Close, a Close that does nothing) per script

\* ---------------------------------------------------------------- the design family
Kind(m) == CASE m \in {"srv", "srvn", "srvv"} -> "server"
             [] m \in {"cli", "clin", "clip"} -> "client"
             [] OTHER -> "bidi"
HasPayload(m) == m \in {"srv", "clip", "bidip"}
HasResult(m) == m \in {"cli", "clip"}          \* client streaming with a result: SendAndClose / CloseAndRecv
Viewed(m) == m \in {"srvv", "bidiv"}           \* streamed result type with views default (v, t) and tiny (v)
ServerSends(m) == Kind(m) \in {"server", "bidi"}
ClientSends(m) == Kind(m) \in {"client", "bidi"}
ServerCloses(m) == ServerSends(m) \/ (Kind(m) = "client" /\ ~HasResult(m))
ClientCloses(m) == Kind(m) = "bidi" \/ (Kind(m) = "client" /\ ~HasResult(m))

(* Message values (types Msg{v Int >= 1 required, t String maxlen 3} and Res{v, t both required, same rules,
   views default(v,t) / tiny(v)}): a = {1,"a"}, b = {2,"bb"} valid; x = {0,"x"} invalid everywhere;
   y = {3,"long"} invalid unless rendered with view tiny (t is then not on the wire). *)
ValidUnder(v, view) == v \in {"a", "b"} \/ (v = "y" /\ view = "tiny")
Effective(view) == IF view \in {"", "none"} THEN "default" ELSE view

\* wire messages: uniform records; the end marker of the client and the close frame of the server have the same shape
Msg(v, view) == [v |-> v, view |-> view]
Nil == Msg("nil", "-")
CloseFrame == Msg("close", "-")

VARIABLES
  cfg,      \* the method called
  pay,      \* payload class the client passes: "none" | "ok" | "bad"
  dpay,     \* payload class the service method got ("unset" until it runs)
  cpc,      \* client: "idle" | "calling" | "open" | "failed"
  spc,      \* server: "idle" | "refused" | "running" | "returned" | "panicked"
  up,       \* connection upgraded
  hview,    \* view announced by the upgrade response: "none" (no header) | "" | "default" | "tiny"
  sview,    \* view set on the server stream: "" | "default" | "tiny"
  cview,    \* view of the client stream (set from the header when the call returns)
  sclosed,  \* server end: "no" | "frame" (Close: close frame + TCP close) | "tcp" (SendAndClose)
  cclosed,  \* client end: "no" | "half" (CloseAndRecv: end marker sent, still reading) | "tcp"
  c2s, s2c, \* the two FIFOs
  srecv,    \* server has a Recv in progress
  crecv,    \* client: "no" | "recv" | "car" (CloseAndRecv) | "carx" (CloseAndRecv issued after the server closed its socket)
  sfail, cfail,   \* a Recv on this side returned a validation error (history)
  seof, ceof,     \* a Recv on this side returned io.EOF (history)
  sentC, sentS,   \* messages handed to Send, in order (history)
  gotS, gotC,     \* messages returned by Recv (history)
  nrs, nrc,       \* Recv calls issued (bound)
  idle,           \* calls without any effect so far (Send after the own Close, Close that does nothing): bound
  last            \* the last step: [side, op, v, view, res, rv, rview]

vars == <<cfg, pay, dpay, cpc, spc, up, hview, sview, cview, sclosed, cclosed, c2s, s2c, srecv, crecv,
          sfail, cfail, seof, ceof, sentC, sentS, gotS, gotC, nrs, nrc, idle, last>>

\* nd = "nd": the model allows another outcome for this very step (TCP timing), leading to the same state
StepX(side, op, v, view, res, rv, rview, nd) ==
  last' = [side |-> side, op |-> op, v |-> v, view |-> view, res |-> res, rv |-> rv, rview |-> rview, nd |-> nd]
Step(side, op, v, view, res, rv, rview) == StepX(side, op, v, view, res, rv, rview, "-")
NoStep == [side |-> "-", op |-> "-", v |-> "-", view |-> "-", res |-> "-", rv |-> "-", rview |-> "-", nd |-> "-"]

Init ==
  /\ cfg \in Methods
  /\ pay = "none" /\ dpay = "unset" /\ cpc = "idle" /\ spc = "idle" /\ up = FALSE
  /\ hview = "none" /\ sview = "" /\ cview = "" /\ sclosed = "no" /\ cclosed = "no"
  /\ c2s = <<>> /\ s2c = <<>> /\ srecv = FALSE /\ crecv = "no"
  /\ sfail = FALSE /\ cfail = FALSE /\ seof = FALSE /\ ceof = FALSE
  /\ sentC = <<>> /\ sentS = <<>> /\ gotS = <<>> /\ gotC = <<>> /\ nrs = 0 /\ nrc = 0 /\ idle = 0
  /\ last = NoStep

\* ---------------------------------------------------------------- the call and the upgrade
\* client: c.<Method>(ctx, payload) - builds the request and dials; returns in CliCallRet
CliCall(p) ==
  /\ cpc = "idle"
  /\ p = IF HasPayload(cfg) THEN p ELSE "none"
  /\ HasPayload(cfg) => p \in Pays
  /\ cpc' = "calling" /\ pay' = p
  /\ Step("c", "call", p, "-", "-", "-", "-")
  /\ UNCHANGED <<cfg, dpay, spc, up, hview, sview, cview, sclosed, cclosed, c2s, s2c, srecv, crecv, sfail, cfail, seof, ceof,
                 sentC, sentS, gotS, gotC, nrs, nrc, idle>>

\* server handler: decode + validate the request payload, then run the service method (observed by the stub)
SrvInvoke ==
  /\ cpc = "calling" /\ spc = "idle"
  /\ pay # "bad" \/ Dev("hyp.invoke_on_bad_payload")
  /\ spc' = "running" /\ dpay' = pay
  /\ Step("s", "invoked", pay, "-", "ok", "-", "-")
  /\ UNCHANGED <<cfg, pay, cpc, up, hview, sview, cview, sclosed, cclosed, c2s, s2c, srecv, crecv, sfail, cfail, seof, ceof,
                 sentC, sentS, gotS, gotC, nrs, nrc, idle>>

\* the three ways the client's call returns
CliCallRet ==
  /\ cpc = "calling"
  /\ \/ /\ spc = "idle" /\ pay = "bad" /\ ~Dev("hyp.invoke_on_bad_payload")     \* 400: the method never runs
        /\ spc' = "refused" /\ cpc' = "failed" /\ cview' = cview
        /\ Step("c", "callret", "-", "-", "error", "-", "-")
     \/ /\ up                                                                  \* 101: a stream
        /\ spc' = spc /\ cpc' = "open" /\ cview' = IF hview = "none" THEN "" ELSE hview
        /\ Step("c", "callret", "-", "-", "stream", "-", IF Viewed(cfg) THEN Effective(IF hview = "none" THEN "" ELSE hview) ELSE "-")
     \/ /\ ~up /\ spc \in {"returned", "panicked"}                            \* the handler ended without upgrading
        /\ spc' = spc /\ cpc' = "failed" /\ cview' = cview
        /\ Step("c", "callret", "-", "-", "error", "-", "-")
  /\ UNCHANGED <<cfg, pay, dpay, up, hview, sview, sclosed, cclosed, c2s, s2c, srecv, crecv, sfail, cfail, seof, ceof,
                 sentC, sentS, gotS, gotC, nrs, nrc, idle>>

ServerCanAct == spc = "running" /\ ~srecv
\* the upgrade is part of the server's first Send / Recv (ideal: of whatever stream call comes first)
UpgradeBy(announce) ==
  IF up THEN UNCHANGED <<up, hview>>
  ELSE up' = TRUE /\ hview' = IF Viewed(cfg) /\ announce THEN sview ELSE "none"

SrvSetView(w) ==
  /\ ServerCanAct /\ Viewed(cfg) /\ ~up /\ sview # w /\ w \in {"default", "tiny"}
  /\ sview' = w
  /\ Step("s", "setview", "-", w, "ok", "-", "-")
  /\ UNCHANGED <<cfg, pay, dpay, cpc, spc, up, hview, cview, sclosed, cclosed, c2s, s2c, srecv, crecv, sfail, cfail, seof, ceof,
                 sentC, sentS, gotS, gotC, nrs, nrc, idle>>

\* the handler returns before any stream call (afterwards its return has no effect on the wire: not modelled)
SrvReturn ==
  /\ ServerCanAct /\ ~up
  /\ spc' = "returned"
  /\ Step("s", "return", "-", "-", "ok", "-", "-")
  /\ UNCHANGED <<cfg, pay, dpay, cpc, up, hview, sview, cview, sclosed, cclosed, c2s, s2c, srecv, crecv, sfail, cfail, seof, ceof,
                 sentC, sentS, gotS, gotC, nrs, nrc, idle>>

\* ---------------------------------------------------------------- server stream
RenderView == IF Viewed(cfg) THEN Effective(sview) ELSE "-"

SrvSend(v) ==
  /\ ServerCanAct /\ ServerSends(cfg) /\ Len(sentS) < MaxSend
  /\ cclosed # "tcp"                       \* (a write to a socket the peer closed: outcome depends on timing - scripts avoid it)
  /\ IF sclosed # "no"
     THEN /\ idle < MaxIdle /\ idle' = idle + 1
          /\ Step("s", "send", v, "-", "error", "-", "-")            \* gorilla: ErrCloseSent
          /\ UNCHANGED <<up, hview, s2c, sentS>>
     ELSE /\ UpgradeBy(TRUE) /\ idle' = idle
          /\ s2c' = Append(s2c, Msg(v, RenderView)) /\ sentS' = Append(sentS, Msg(v, RenderView))
          /\ Step("s", "send", v, "-", "ok", "-", "-")
  /\ UNCHANGED <<cfg, pay, dpay, cpc, spc, sview, cview, sclosed, cclosed, c2s, srecv, crecv, sfail, cfail, seof, ceof,
                 sentC, gotS, gotC, nrs, nrc>>

SrvRecvCall ==
  /\ ServerCanAct /\ ClientSends(cfg) /\ sclosed = "no" /\ nrs < MaxSend + 2
  /\ seof => cclosed = "tcp"               \* (after EOF with the client still connected the code blocks for ever: avoided)
  /\ UpgradeBy(~Dev("view.recv_upgrade_drops_view"))
  /\ srecv' = TRUE /\ nrs' = nrs + 1
  /\ Step("s", "recvcall", "-", "-", "-", "-", "-")
  /\ UNCHANGED <<cfg, pay, dpay, cpc, spc, sview, cview, sclosed, cclosed, c2s, s2c, crecv, sfail, cfail, seof, ceof,
                 sentC, sentS, gotS, gotC, nrc, idle>>

SBroken == sfail /\ ~Dev("recv.continues_after_invalid")
CBroken == cfail /\ ~Dev("recv.continues_after_invalid")

SrvRecvRet ==
  /\ spc = "running" /\ srecv
  /\ srecv' = FALSE
  /\ IF seof THEN
        /\ Step("s", "recvret", "-", "-", IF Dev("eof.server_recv_after_eof_is_error") THEN "error" ELSE "eof", "-", "-")
        /\ UNCHANGED <<c2s, gotS, sfail, seof>>
     ELSE IF SBroken THEN
        /\ Step("s", "recvret", "-", "-", "error", "-", "-")
        /\ UNCHANGED <<c2s, gotS, sfail, seof>>
     ELSE
        /\ c2s # <<>>
        /\ LET h == Head(c2s) IN
           /\ c2s' = IF Dev("hyp.dup_delivery") /\ h # Nil THEN c2s ELSE Tail(c2s)
           /\ IF h = Nil THEN
                 /\ seof' = TRUE /\ UNCHANGED <<gotS, sfail>>
                 /\ Step("s", "recvret", "-", "-", "eof", "-", "-")
              ELSE IF ValidUnder(h.v, "-") \/ Dev("hyp.recv_skips_validation") THEN
                 /\ gotS' = Append(gotS, h) /\ UNCHANGED <<sfail, seof>>
                 /\ Step("s", "recvret", "-", "-", "val", h.v, h.view)
              ELSE
                 /\ sfail' = TRUE /\ UNCHANGED <<gotS, seof>>
                 /\ Step("s", "recvret", "-", "-", "invalid", "-", "-")
  /\ UNCHANGED <<cfg, pay, dpay, cpc, spc, up, hview, sview, cview, sclosed, cclosed, s2c, crecv, cfail, ceof,
                 sentC, sentS, gotC, nrs, nrc, idle>>

\* Close: ideal - closes the stream whatever came before; code - does nothing when the connection was never upgraded
SrvClose ==
  /\ ServerCanAct /\ ServerCloses(cfg) /\ sclosed = "no"
  /\ IF ~up /\ Dev("close.noop_before_upgrade")
     THEN /\ idle < MaxIdle /\ idle' = idle + 1
          /\ Step("s", "close", "-", "-", "ok", "-", "-")
          /\ UNCHANGED <<up, hview, s2c, sclosed>>
     ELSE /\ UpgradeBy(TRUE) /\ idle' = idle
          /\ s2c' = IF Dev("hyp.close_overtakes") THEN <<CloseFrame>> \o s2c ELSE Append(s2c, CloseFrame)
          /\ sclosed' = "frame"
          /\ IF cclosed = "tcp"           \* the client's socket is gone: the close frame may or may not be written
             THEN \E r \in {"ok", "error"} : StepX("s", "close", "-", "-", r, "-", "-", "nd")
             ELSE Step("s", "close", "-", "-", "ok", "-", "-")
  /\ UNCHANGED <<cfg, pay, dpay, cpc, spc, sview, cview, cclosed, c2s, srecv, crecv, sfail, cfail, seof, ceof,
                 sentC, sentS, gotS, gotC, nrs, nrc>>

\* SendAndClose: ideal - sends the result (upgrading if nothing was received yet); code - nil connection before the first Recv
SrvSendAndClose(v) ==
  /\ ServerCanAct /\ Kind(cfg) = "client" /\ HasResult(cfg) /\ sclosed = "no"
  /\ IF ~up /\ Dev("sendandclose.nil_conn_before_recv")
     THEN /\ spc' = "panicked"
          /\ Step("s", "sendandclose", v, "-", "panic", "-", "-")
          /\ UNCHANGED <<up, hview, s2c, sentS, sclosed>>
     ELSE /\ UpgradeBy(TRUE)
          /\ s2c' = Append(s2c, Msg(v, "-")) /\ sentS' = Append(sentS, Msg(v, "-"))
          /\ sclosed' = "tcp" /\ spc' = spc
          /\ Step("s", "sendandclose", v, "-", "ok", "-", "-")
  /\ UNCHANGED <<cfg, pay, dpay, cpc, sview, cview, cclosed, c2s, srecv, crecv, sfail, cfail, seof, ceof,
                 sentC, gotS, gotC, nrs, nrc, idle>>

\* ---------------------------------------------------------------- client stream
ClientCanAct == cpc = "open" /\ crecv = "no" /\ cclosed = "no"

CliSend(v) ==
  /\ ClientCanAct /\ ClientSends(cfg) /\ Len(sentC) < MaxSend
  /\ sclosed = "no"                        \* (a write to a socket the peer closed: timing - scripts avoid it)
  /\ c2s' = Append(c2s, Msg(v, "-")) /\ sentC' = Append(sentC, Msg(v, "-"))
  /\ Step("c", "send", v, "-", "ok", "-", "-")
  /\ UNCHANGED <<cfg, pay, dpay, cpc, spc, up, hview, sview, cview, sclosed, cclosed, s2c, srecv, crecv, sfail, cfail, seof, ceof,
                 sentS, gotS, gotC, nrs, nrc, idle>>

CliRecvCall ==
  /\ ClientCanAct /\ ServerSends(cfg) /\ nrc < MaxSend + 2
  /\ crecv' = "recv" /\ nrc' = nrc + 1
  /\ Step("c", "recvcall", "-", "-", "-", "-", "-")
  /\ UNCHANGED <<cfg, pay, dpay, cpc, spc, up, hview, sview, cview, sclosed, cclosed, c2s, s2c, srecv, sfail, cfail, seof, ceof,
                 sentC, sentS, gotS, gotC, nrs, idle>>

(* What the client makes of a message rendered under h.view when its own view is cv (code: validate the body
   under cv, then project under cv).  With the view announced correctly cv = h.view always. *)
ClientView == IF Viewed(cfg) THEN Effective(cview) ELSE "-"
ClientAccepts(h) ==
  \/ Dev("hyp.recv_skips_validation")
  \/ /\ ~(h.view = "tiny" /\ ClientView = "default")      \* t is required by view default and is not on the wire
     /\ ValidUnder(h.v, ClientView)

CliRecvRet ==
  /\ cpc = "open" /\ crecv = "recv"
  /\ crecv' = "no"
  /\ IF ceof THEN
        /\ Step("c", "recvret", "-", "-", "eof", "-", "-")
        /\ UNCHANGED <<s2c, gotC, cfail, ceof, cclosed>>
     ELSE IF CBroken THEN
        /\ Step("c", "recvret", "-", "-", "error", "-", "-")
        /\ UNCHANGED <<s2c, gotC, cfail, ceof, cclosed>>
     ELSE
        /\ s2c # <<>>
        /\ LET h == Head(s2c) IN
           /\ s2c' = IF Dev("hyp.dup_delivery") /\ h # CloseFrame THEN s2c ELSE Tail(s2c)
           /\ IF h = CloseFrame THEN
                 /\ ceof' = TRUE /\ UNCHANGED <<gotC, cfail>>
                 /\ cclosed' = IF Kind(cfg) = "server" THEN "tcp" ELSE cclosed      \* (server streaming: the client closes on EOF)
                 /\ Step("c", "recvret", "-", "-", "eof", "-", "-")
              ELSE IF ClientAccepts(h) THEN
                 /\ gotC' = Append(gotC, Msg(h.v, ClientView)) /\ UNCHANGED <<cfail, ceof, cclosed>>
                 /\ Step("c", "recvret", "-", "-", "val", h.v, ClientView)
              ELSE
                 /\ cfail' = TRUE /\ UNCHANGED <<gotC, ceof, cclosed>>
                 /\ Step("c", "recvret", "-", "-", "invalid", "-", "-")
  /\ UNCHANGED <<cfg, pay, dpay, cpc, spc, up, hview, sview, cview, sclosed, c2s, srecv, sfail, seof,
                 sentC, sentS, gotS, nrs, nrc, idle>>

\* Close (bidirectional, client streaming without result): end marker, then TCP close
CliClose ==
  /\ ClientCanAct /\ ClientCloses(cfg)
  /\ c2s' = Append(c2s, Nil) /\ cclosed' = "tcp"
  /\ IF sclosed # "no"                    \* the server's socket is gone: the end marker may or may not be written
     THEN \E r \in {"ok", "error"} : StepX("c", "close", "-", "-", r, "-", "-", "nd")
     ELSE Step("c", "close", "-", "-", "ok", "-", "-")
  /\ UNCHANGED <<cfg, pay, dpay, cpc, spc, up, hview, sview, cview, sclosed, s2c, srecv, crecv, sfail, cfail, seof, ceof,
                 sentC, sentS, gotS, gotC, nrs, nrc, idle>>

\* CloseAndRecv (client streaming with a result): end marker, read the result, TCP close
CliCloseAndRecvCall ==
  /\ ClientCanAct /\ Kind(cfg) = "client" /\ HasResult(cfg)
  /\ c2s' = Append(c2s, Nil) /\ cclosed' = "half"
  /\ crecv' = IF sclosed = "no" THEN "car" ELSE "carx"
  /\ Step("c", "carcall", "-", "-", "-", "-", "-")
  /\ UNCHANGED <<cfg, pay, dpay, cpc, spc, up, hview, sview, cview, sclosed, s2c, srecv, sfail, cfail, seof, ceof,
                 sentC, sentS, gotS, gotC, nrs, nrc, idle>>

CliCloseAndRecvRet ==
  /\ cpc = "open" /\ crecv \in {"car", "carx"}
  /\ s2c # <<>>
  /\ crecv' = "no" /\ cclosed' = "tcp"
  /\ LET h == Head(s2c) IN
     \/ /\ s2c' = Tail(s2c)
        /\ IF ClientAccepts(h)
           THEN gotC' = Append(gotC, h) /\ cfail' = cfail
                /\ StepX("c", "carret", "-", "-", "val", h.v, h.view, IF crecv = "carx" THEN "nd" ELSE "-")
           ELSE gotC' = gotC /\ cfail' = TRUE
                /\ StepX("c", "carret", "-", "-", "invalid", "-", "-", IF crecv = "carx" THEN "nd" ELSE "-")
     \/ /\ crecv = "carx"                  \* the end marker was written to a socket the server had closed: may fail first
        /\ UNCHANGED <<s2c, gotC, cfail>>
        /\ StepX("c", "carret", "-", "-", "error", "-", "-", "nd")
  /\ UNCHANGED <<cfg, pay, dpay, cpc, spc, up, hview, sview, cview, sclosed, c2s, srecv, sfail, seof, ceof,
                 sentC, sentS, gotS, nrs, nrc, idle>>

Next ==
  \/ \E p \in Pays \cup {"none"} : CliCall(p)
  \/ SrvInvoke \/ CliCallRet \/ SrvReturn
  \/ \E w \in {"default", "tiny"} : SrvSetView(w)
  \/ \E v \in Vals : SrvSend(v) \/ SrvSendAndClose(v) \/ CliSend(v)
  \/ SrvRecvCall \/ SrvRecvRet \/ SrvClose
  \/ CliRecvCall \/ CliRecvRet \/ CliClose \/ CliCloseAndRecvCall \/ CliCloseAndRecvRet

Spec == Init /\ [][Next]_vars

\* ---------------------------------------------------------------- the property
Strs == {"-", "", "none", "default", "tiny", "nil", "close", "ok", "bad", "unset"} \cup Vals
TypeOK ==
  /\ cfg \in Methods /\ pay \in {"none", "ok", "bad"} /\ dpay \in {"unset", "none", "ok", "bad"}
  /\ cpc \in {"idle", "calling", "open", "failed"} /\ spc \in {"idle", "refused", "running", "returned", "panicked"}
  /\ up \in BOOLEAN /\ srecv \in BOOLEAN /\ crecv \in {"no", "recv", "car", "carx"}
  /\ sclosed \in {"no", "frame", "tcp"} /\ cclosed \in {"no", "half", "tcp"}
  /\ hview \in {"none", "", "default", "tiny"} /\ sview \in {"", "default", "tiny"} /\ cview \in {"", "default", "tiny"}
  /\ Len(sentC) <= MaxSend /\ Len(sentS) <= MaxSend

IsPrefix(s, t) == Len(s) <= Len(t) /\ \A i \in 1..Len(s) : s[i] = t[i]
RECURSIVE ValidPrefixLen(_, _)
ValidPrefixLen(s, i) == IF i > Len(s) \/ ~ValidUnder(s[i].v, s[i].view) THEN i - 1 ELSE ValidPrefixLen(s, i + 1)
\* the oracle (same style as AllowedDelivered of HTTPTransport): what may have been delivered, given what was sent -
\* the messages sent, in order, each once, unchanged, and nothing from the first invalid one on
AllowedDelivered(sent) == {SubSeq(sent, 1, n) : n \in 0..ValidPrefixLen(sent, 1)}
\* weaker reading (order, exactly once, intact; a refused message is skipped): a subsequence of the valid messages
IsValid(m) == ValidUnder(m.v, m.view)
InOrderOnce(got, sent) == IsPrefix(got, SelectSeq(sent, IsValid))

DeliveredToServer == gotS \in AllowedDelivered(sentC)
DeliveredToClient == gotC \in AllowedDelivered(sentS)
OrderOnceIntact == InOrderOnce(gotS, sentC) /\ InOrderOnce(gotC, sentS)
NeverInvalid == (\A i \in 1..Len(gotS) : IsValid(gotS[i])) /\ (\A i \in 1..Len(gotC) : IsValid(gotC[i]))
\* the request payload comes first: the service method only ever runs with a valid payload, the one the client passed;
\* nothing is streamed and no stream is handed out before that
PayloadFirst ==
  /\ spc \in {"running", "returned", "panicked"} => (dpay = pay /\ pay # "bad")
  /\ (up \/ sentS # <<>> \/ gotS # <<>> \/ cpc = "open") => (spc \notin {"idle", "refused"} /\ dpay = pay /\ pay # "bad")
  /\ cpc = "open" => up
\* io.EOF means: the peer closed and everything it sent before was consumed
EOFAfterCloseAndDrain ==
  /\ seof => (cclosed # "no" /\ c2s = <<>>)
  /\ ceof => (sclosed = "frame" /\ s2c = <<>>)
\* a successful Close is visible to the peer; a stream call never panics
CloseIsVisible == (last.side = "s" /\ last.op = "close" /\ last.res = "ok") => sclosed = "frame"
NoPanic == spc # "panicked"
\* both ends agree on the view of a viewed stream
ViewAgreed == (Viewed(cfg) /\ cpc = "open") => Effective(cview) = Effective(sview)
\* after io.EOF a Recv returns io.EOF and nothing else; after a validation failure nothing is delivered
EOFSticky == [][/\ (seof /\ last'.side = "s" /\ last'.op = "recvret") => last'.res = "eof"
                /\ (ceof /\ last'.side = "c" /\ last'.op = "recvret") => last'.res = "eof"]_vars
NothingAfterFailure == [][(sfail => gotS' = gotS) /\ (cfail => gotC' = gotC)]_vars
===============================================================================
