------------------------------ MODULE ErrorMap ------------------------------
(* Errors through the generated HTTP transport (property C05).

   A method has a table of declared errors (from the method, its service or the API), each with the status
   the design assigns, a type (the built-in ErrorResult or a user defined type) and possibly a status shared
   with another error (told apart by the goa-error header).  The service method returns a declared error, a
   wrapped declared error, an undeclared goa ServiceError with some flags, or a plain Go error; or the
   request does not even decode.  The server writes exactly one response; the client maps it back. *)
EXTENDS Integers, Sequences, FiniteSets, TLC

CONSTANTS Deviations

Names == {"e1", "e2", "e3"}
Levels == {"method", "service", "api"}
Types == {"result", "custom"}                \* ErrorResult | user type with attributes (and a GoaErrorName)
Statuses == {400, 404, 409}
FlagRec == [t: BOOLEAN, tmp: BOOLEAN, f: BOOLEAN]
NoFlags == [t |-> FALSE, tmp |-> FALSE, f |-> FALSE]

Decl(n, l, ty, st, fl) == [name |-> n, level |-> l, type |-> ty, status |-> st, flags |-> fl]
\* declared flags (Temporary()/Timeout()/Fault() in the Error DSL) only exist for ErrorResult errors
DeclSpace(n) == {Decl(n, l, "result", st, fl) : l \in Levels, st \in Statuses, fl \in {NoFlags, [t |-> TRUE, tmp |-> TRUE, f |-> FALSE], [t |-> FALSE, tmp |-> FALSE, f |-> TRUE]}}
                \cup {Decl(n, l, "custom", st, NoFlags) : l \in Levels, st \in Statuses}

\* default status of an undeclared service error (same table as ErrorAlgebra!HTTPStatus)
DefaultStatus(name, fl) ==
  IF name = "unsupported_media_type" THEN 415
  ELSE IF fl.f THEN 500
  ELSE IF fl.t THEN (IF fl.tmp THEN 504 ELSE 408)
  ELSE IF fl.tmp THEN 503
  ELSE 400

\* what the service method does / what is wrong with the request
Outcomes ==
  [kind: {"declared", "wrapped"}, name: Names, flags: {NoFlags}]
  \cup [kind: {"service", "joined"}, name: {"zz"}, flags: FlagRec]      \* joined: errors.Join(plain, serviceError)
  \cup [kind: {"plain"}, name: {"-"}, flags: {NoFlags}]
  \cup [kind: {"decode"}, name: {"missing_body", "malformed_body", "bad_param", "bad_media_type"}, flags: {NoFlags}]

VARIABLES table,     \* sequence of declared errors (distinct names)
          outcome, pc,
          status, goaerr, bodyname, bodyflags, writes,      \* the response on the wire
          cname, cflags, ckind                               \* what the client caller gets: error name, flags, "declared" | "generic"
vars == <<table, outcome, pc, status, goaerr, bodyname, bodyflags, writes, cname, cflags, ckind>>

Find(n) == {i \in 1..Len(table) : table[i].name = n}
Declared(n) == Find(n) # {}
Entry(n) == table[CHOOSE i \in Find(n) : TRUE]

Init ==
  /\ table \in UNION {{<<a>> : a \in DeclSpace("e1")},
                      {<<a, b>> : a \in DeclSpace("e1"), b \in {x \in DeclSpace("e2") : x.level = "method"}},
                      {<<a, b, c>> : a \in {x \in DeclSpace("e1") : x.level = "method" /\ x.type = "result" /\ x.flags = NoFlags},
                                     b \in {x \in DeclSpace("e2") : x.level = "service" /\ x.flags = NoFlags},
                                     c \in {x \in DeclSpace("e3") : x.level = "api" /\ x.type = "result" /\ x.flags = NoFlags}}}
  /\ outcome \in {o \in Outcomes : o.kind \in {"declared", "wrapped"} => Declared(o.name)}
  /\ (outcome.kind = "wrapped" => Entry(outcome.name).type = "result")     \* only service errors are wrapped (fmt.Errorf("%w", MakeE1(...)))
  /\ pc = "server" /\ status = 0 /\ goaerr = "none" /\ bodyname = "none" /\ bodyflags = NoFlags /\ writes = 0
  /\ cname = "none" /\ cflags = NoFlags /\ ckind = "none"

\* server side: the generated error encoder, else the default encoder
ServerEncode ==
  /\ pc = "server"
  /\ writes' = writes + 1
  /\ CASE outcome.kind \in {"declared", "wrapped"} ->
            LET e == Entry(outcome.name) IN
            /\ status' = e.status
            /\ goaerr' = IF "server.no_goa_error_header" \in Deviations THEN "none" ELSE e.name      \* hypothetical (vacuity guard)
            /\ bodyname' = e.name /\ bodyflags' = e.flags
       [] outcome.kind \in {"service", "joined"} ->
            /\ status' = DefaultStatus(outcome.name, outcome.flags) /\ goaerr' = "none"
            /\ bodyname' = outcome.name /\ bodyflags' = outcome.flags
       [] outcome.kind = "plain" ->
            /\ status' = 500 /\ goaerr' = "none" /\ bodyname' = "fault" /\ bodyflags' = [t |-> FALSE, tmp |-> FALSE, f |-> TRUE]
       [] outcome.kind = "decode" ->
            /\ status' = IF outcome.name = "bad_media_type" THEN 415 ELSE 400
            /\ goaerr' = "none" /\ bodyflags' = NoFlags
            /\ bodyname' = CASE outcome.name = "missing_body" -> "missing_payload"
                             [] outcome.name = "malformed_body" -> "decode_payload"
                             [] outcome.name = "bad_param" -> "invalid_field_type"
                             [] OTHER -> "unsupported_media_type"
  /\ pc' = "client"
  /\ UNCHANGED <<table, outcome, cname, cflags, ckind>>

\* client side: switch on the status, then on the goa-error header when several errors share the status
ClientDecode ==
  /\ pc = "client"
  /\ LET cands == {i \in 1..Len(table) : table[i].status = status} IN
     IF cands = {} \/ (goaerr = "none") \/ ~(\E i \in cands : table[i].name = goaerr)
     THEN IF cands # {} /\ Cardinality(cands) = 1 /\ goaerr = "none" /\ "client.single_error_ignores_header" \in Deviations
          THEN LET e == table[CHOOSE i \in cands : TRUE] IN cname' = e.name /\ cflags' = bodyflags /\ ckind' = "declared"
          ELSE cname' = "generic" /\ cflags' = NoFlags /\ ckind' = "generic"
     ELSE LET e == table[CHOOSE i \in cands : table[i].name = goaerr] IN
          cname' = e.name /\ cflags' = bodyflags /\ ckind' = "declared"
  /\ pc' = "done"
  /\ UNCHANGED <<table, outcome, status, goaerr, bodyname, bodyflags, writes>>
Next == ServerEncode \/ ClientDecode
Spec == Init /\ [][Next]_vars

---------------------------------------------------------------------------
\* C05
DeclaredRoundTrip == pc = "done" /\ outcome.kind \in {"declared", "wrapped"} =>
   /\ status = Entry(outcome.name).status /\ goaerr = outcome.name
   /\ ckind = "declared" /\ cname = outcome.name /\ cflags = Entry(outcome.name).flags
DefaultMapping == pc = "done" =>
   /\ (outcome.kind = "plain" => status = 500 /\ bodyflags.f /\ bodyname = "fault")
   /\ (outcome.kind \in {"service", "joined"} => status = DefaultStatus(outcome.name, outcome.flags) /\ bodyname = outcome.name /\ bodyflags = outcome.flags)
   /\ (outcome.kind = "decode" => status \in {400, 415} /\ bodyname \in {"missing_payload", "decode_payload", "invalid_field_type", "unsupported_media_type"})
ExactlyOneResponse == pc \in {"client", "done"} => writes = 1
\* (what the client hands back for an undeclared error is not part of the property: when its status
\* coincides with a declared error's status the generated client decodes the body as that error type)
=============================================================================
