------------------------------ MODULE ErrorMap ------------------------------
(* Errors through the generated HTTP transport (property C05).

   A method has a table of declared errors, in declaration ORDER.  Each error is declared (Error(name, ...)) at
   one or more levels - the method, its service, the API - and its HTTP response (Response(name, status)) is
   written in one or more HTTP expressions - the method's, the service's, the API's; the most specific
   response is the one the design assigns (less specific ones carry the Decoy status).  Each error has a type
   (the built-in ErrorResult or a user defined type), possibly declared flags and possibly a status shared
   with another error (told apart by the goa-error header).

   The endpoint's error responses are resolved the way the expr package does it (Source): HTTPServiceExpr.Prepare
   first copies the API's response of every service level error without a service level response into the
   service's list; HTTPEndpointExpr.Prepare then takes the method's own responses, then for every method level
   error the response in the service's list and only then the API's, then the same for the service level errors.

   The service method is called once per declared error (returning it, possibly wrapped), then once more with
   an undeclared goa ServiceError with some flags, a plain Go error, or a request that does not even decode.
   Every call negotiates the encoding of the response through its Accept header (none, JSON, XML, gob: what
   goahttp.ResponseEncoder supports): the body - the generated body type of a declared error, goahttp's
   ErrorResponse for everything else - carries the same name, message and flags in every encoding.
   The server writes exactly one response per call; the client maps it back. *)
EXTENDS Integers, Sequences, FiniteSets, TLC

CONSTANTS Deviations,
          Spaces,      \* which table spaces Init offers: "base", "place1", "pair", "pairq" (exhaustive), "triple" (grown by Declare: simulate)
          Seed,        \* rotates the members of "pairq"
          EncSpaces    \* the spaces whose calls range over every encoding (the others send no Accept header)
ASSUME Seed \in 0..10000

Names == <<"e1", "e2", "e3">>
Levels == {"method", "service", "api"}
Types == {"result", "custom"}                \* ErrorResult | user type with attributes (and a GoaErrorName)
Statuses == {400, 404, 409}
Decoy == 422                                 \* status of a response shadowed by a more specific one
FlagRec == [t: BOOLEAN, tmp: BOOLEAN, f: BOOLEAN]
NoFlags == [t |-> FALSE, tmp |-> FALSE, f |-> FALSE]
DeclFlags == {NoFlags, [t |-> TRUE, tmp |-> TRUE, f |-> FALSE], [t |-> FALSE, tmp |-> FALSE, f |-> TRUE]}
Encodings == {"none", "json", "xml", "gob"}  \* the Accept header of the request: absent, application/json, /xml, /gob
Negotiated(a) == IF a = "none" THEN "json" ELSE a      \* the Content-Type of the response
\* known departures of the generated client (known_findings.txt); the emitted cases carry what each of them predicts
KnownClientDeviations == {"client.gob_zero_value_missing"}

Innermost(S) == IF "method" \in S THEN "method" ELSE IF "service" \in S THEN "service" ELSE "api"

\* an error of the table: `level` = innermost declaration level (kept for readers of the base space),
\* `status` = status of the innermost response AS THE DESIGN WRITES IT, `form` = the way it is written there
Entry(n, d, mp, ty, st, fl) ==
  [name |-> n, decl |-> d, maps |-> mp, level |-> Innermost(d), type |-> ty, status |-> st, flags |-> fl, form |-> "arg"]
\* The ways the DSL lets a design write the status of an error response (all accepted by the unchanged tree;
\* Response(name) alone is refused: "too few arguments"):
\*   arg      Response(name, status)                       argfn    Response(name, status, func() { Description(..) })
\*   code     Response(name, func() { Code(status); .. })  swapped  Response(status, name)
\*   default  Response(name, func() { Description(..) })   no status written: the documented default, 400
Forms == {"arg", "argfn", "code", "swapped", "default"}
FormSeq == <<"arg", "argfn", "code", "swapped">>
WithForm(e, f) == [e EXCEPT !.form = f, !.status = IF f = "default" THEN 400 ELSE e.status]

\* What the DSL accepts (checked on the unchanged tree: anything else is refused by eval with "Error .. does
\* not match an error defined in the service / API"): a service level response needs the error declared in the
\* service or the API, an API level response needs it declared in the API.
Accepted(d, mp) == /\ ("service" \in mp => d \cap {"service", "api"} # {})
                   /\ ("api" \in mp => "api" \in d)
\* The error belongs to the method: declared by the method or its service, or an API level definition the
\* method's own HTTP expression maps (an API level Error alone is only a reusable definition).
OfMethod(d, mp) == d \cap {"method", "service"} # {} \/ "method" \in mp
NonEmpty(S) == SUBSET S \ {{}}
Placements == {p \in [decl : NonEmpty(Levels), maps : NonEmpty(Levels)] : Accepted(p.decl, p.maps) /\ OfMethod(p.decl, p.maps)}   \* 32

\* ---- base space: every error declared at one level, all responses in the method's HTTP expression;
\* declared flags (Temporary()/Timeout()/Fault() in the Error DSL) only exist for ErrorResult errors
Decl(n, l, ty, st, fl) == Entry(n, {l}, {"method"}, ty, st, fl)
DeclSpace(n) == {Decl(n, l, "result", st, fl) : l \in Levels, st \in Statuses, fl \in DeclFlags}
                \cup {Decl(n, l, "custom", st, NoFlags) : l \in Levels, st \in Statuses}
BaseTables ==
  UNION {{<<a>> : a \in DeclSpace("e1")},
         {<<a, b>> : a \in DeclSpace("e1"), b \in {x \in DeclSpace("e2") : x.level = "method"}},
         {<<a, b, c>> : a \in {x \in DeclSpace("e1") : x.level = "method" /\ x.type = "result" /\ x.flags = NoFlags},
                        b \in {x \in DeclSpace("e2") : x.level = "service" /\ x.flags = NoFlags},
                        c \in {x \in DeclSpace("e3") : x.level = "api" /\ x.type = "result" /\ x.flags = NoFlags}}}

\* ---- placement spaces: every accepted (declaration levels, response levels) combination per error.
\* (A user type error declared at the API level only does not compile - C01, codegen.api_error_user_type -
\* and stays in the base space.)
Placed(n, ty, st, fl) == {Entry(n, p.decl, p.maps, ty, st, fl) : p \in {q \in Placements : ty = "custom" => q.decl # {"api"}}}
PlacedPlain(n, st) == Placed(n, "result", st, NoFlags) \cup Placed(n, "custom", st, NoFlags)
Place1Tables == {<<a>> : a \in PlacedPlain("e1", 404)}
\* ---- "enc": a few tables for the encodings: one ErrorResult error per flag declaration (with a timeout flag that
\* differs from the temporary flag), one user type error, both kinds on one status
EncTables == {<<Decl("e1", "method", "result", 404, fl)>> : fl \in DeclFlags \cup {[t |-> TRUE, tmp |-> FALSE, f |-> FALSE]}}
             \cup {<<Decl("e1", "method", "custom", 404, NoFlags)>>,
                   <<Decl("e1", "method", "result", 409, [t |-> FALSE, tmp |-> TRUE, f |-> FALSE]), Decl("e2", "service", "custom", 409, NoFlags)>>}
\* ---- "form": every way of writing the status, in the method's, the service's and the API's HTTP expression (the API's
\* response taken directly and through the copy in the service's list), ErrorResult and user type
FormPlacements == {[decl |-> {"method"}, maps |-> {"method"}], [decl |-> {"service"}, maps |-> {"service"}],
                   [decl |-> {"method", "api"}, maps |-> {"api"}], [decl |-> {"service", "api"}, maps |-> {"api"}]}
FormTables == {<<WithForm(Entry("e1", p.decl, p.maps, "result", 409, NoFlags), f)>> : p \in FormPlacements, f \in Forms}
              \cup {<<WithForm(Decl("e1", "method", "custom", 409, NoFlags), f)>> : f \in Forms}
\* all ordered pairs, on one status or on two
PairTables == {<<a, b>> : a \in PlacedPlain("e1", 404), b \in PlacedPlain("e2", 404) \cup PlacedPlain("e2", 409)}
\* ---- "pairq": one pair per ordered pair of resolution paths, the members rotated by Seed (the quick tier's cut
\* of the pair space; the whole pair space is still model-checked)
SetSeq == <<{"method"}, {"service"}, {"api"}, {"method", "service"}, {"method", "api"}, {"service", "api"}, {"method", "service", "api"}>>
PlacementSeq == LET all == [k \in 1..49 |-> [decl |-> SetSeq[((k - 1) \div 7) + 1], maps |-> SetSeq[((k - 1) % 7) + 1]]]
                    ok(p) == p \in Placements
                IN SelectSeq(all, ok)
\* the path an error of this placement takes through the resolution (= Path(i) when nothing deviates)
PClass(d, mp) == <<IF "method" \in d THEN "M" ELSE IF "service" \in d THEN "S" ELSE "A",
                   IF "method" \in mp THEN "method" ELSE IF "service" \in mp THEN "service" ELSE IF "service" \in d THEN "copied" ELSE "api">>
ClassSeq == <<<<"M", "method">>, <<"M", "service">>, <<"M", "copied">>, <<"M", "api">>,
              <<"S", "method">>, <<"S", "service">>, <<"S", "copied">>, <<"A", "method">>>>
Members(c, n, st) ==      \* the plain errors of path c, ErrorResult ones first
  LET mk(ty) == [k \in 1..Len(PlacementSeq) |-> Entry(n, PlacementSeq[k].decl, PlacementSeq[k].maps, ty, st, NoFlags)]
      ok(e) == PClass(e.decl, e.maps) = c /\ (e.type = "custom" => e.decl # {"api"})
  IN SelectSeq(mk("result") \o mk("custom"), ok)
Pick(c, n, st, k) == LET ms == Members(c, n, st) IN ms[(k % Len(ms)) + 1]
PairQTables == {<<WithForm(Pick(ClassSeq[i], "e1", 404, Seed + 3 * i + 5 * j), FormSeq[((Seed + i + 2 * j) % 4) + 1]),
                  WithForm(Pick(ClassSeq[j], "e2", IF (Seed + i + j) % 2 = 0 THEN 404 ELSE 409, (Seed \div 3) + 5 * i + 3 * j), FormSeq[((Seed + 3 * i + j) % 4) + 1])>>
                : i \in 1..Len(ClassSeq), j \in 1..Len(ClassSeq)}

\* the errors a table of the "triple" space is grown from
GrownArg(n) == (UNION {Placed(n, "result", st, fl) : st \in Statuses, fl \in DeclFlags}) \cup (UNION {Placed(n, "custom", st, NoFlags) : st \in Statuses})
Grown(n) == {WithForm(e, f) : e \in GrownArg(n), f \in Forms}

\* default status of an undeclared service error (same table as ErrorAlgebra!HTTPStatus)
DefaultStatus(name, fl) ==
  IF name = "unsupported_media_type" THEN 415
  ELSE IF fl.f THEN 500
  ELSE IF fl.t THEN (IF fl.tmp THEN 504 ELSE 408)
  ELSE IF fl.tmp THEN 503
  ELSE 400

\* what the service method does / what is wrong with the request
Undeclared ==
  [kind: {"service", "joined"}, name: {"zz"}, flags: FlagRec]      \* joined: errors.Join(plain, serviceError)
  \cup [kind: {"plain"}, name: {"-"}, flags: {NoFlags}]
  \cup [kind: {"decode"}, name: {"missing_body", "malformed_body", "bad_param", "bad_media_type"}, flags: {NoFlags}]
UndeclaredFew ==
  {[kind |-> "service", name |-> "zz", flags |-> NoFlags], [kind |-> "plain", name |-> "-", flags |-> NoFlags],
   [kind |-> "decode", name |-> "missing_body", flags |-> NoFlags]}
\* only service errors are wrapped (fmt.Errorf("%w", MakeE1(...)))
Returning(e) == {[kind |-> k, name |-> e.name, flags |-> NoFlags] : k \in IF e.type = "result" THEN {"declared", "wrapped"} ELSE {"declared"}}
WithEnc(S, C) == {[kind |-> o.kind, name |-> o.name, flags |-> o.flags, enc |-> c] : o \in S, c \in C}
NoOutcome == [kind |-> "none", name |-> "-", flags |-> NoFlags, enc |-> "none"]

VARIABLES space,     \* the table space this behaviour explores
          table,     \* sequence of declared errors (distinct names) in declaration order
          callno,    \* calls made so far
          outcome, pc,
          status, goaerr, ctype, bodyname, bodyflags, writes,      \* the response on the wire (ctype: encoding of the body)
          cname, cflags, ckind                               \* what the client caller gets: error name, flags, "declared" | "generic"
vars == <<space, table, callno, outcome, pc, status, goaerr, ctype, bodyname, bodyflags, writes, cname, cflags, ckind>>

Find(n) == {i \in 1..Len(table) : table[i].name = n}
Declared(n) == Find(n) # {}
Idx(n) == CHOOSE i \in Find(n) : TRUE
Entry_(n) == table[Idx(n)]

\* ---- resolution of the endpoint's error responses (HTTPServiceExpr.Prepare, then HTTPEndpointExpr.Prepare)
\* HTTPServiceExpr.Prepare runs first: a service level error without a service level response gets a copy of the API's
InServiceList(e) == "service" \in e.maps \/ ("service" \in e.decl /\ "api" \in e.maps)
\* hypothetical (vacuity guard): the `found` flag of the method level loop is not reset per error - once a method
\* level error took its response from the service's list, later method level errors never look at the API
Sticky(i) == /\ "prepare.found_flag_not_reset" \in Deviations
             /\ \E j \in 1..(i - 1) : "method" \in table[j].decl /\ "method" \notin table[j].maps /\ InServiceList(table[j])
\* which loop of HTTPEndpointExpr.Prepare handles error i: the endpoint's own responses, the method's errors, the service's errors
Loop(i) == IF "method" \in table[i].maps THEN "own" ELSE IF "method" \in table[i].decl THEN "method" ELSE "service"
\* where error i takes its response from: the method's / service's HTTP expression, the API's through the copy in the
\* service's list, the API's directly ("none": no response, the default encoder answers)
Source(i) == LET e == table[i] IN
  IF "method" \in e.maps THEN "method"
  ELSE IF e.decl \cap {"method", "service"} = {} THEN "none"
  ELSE IF "service" \in e.maps THEN "service"
  ELSE IF InServiceList(e) THEN "copied"
  ELSE IF "api" \in e.maps /\ ~(Loop(i) = "method" /\ Sticky(i)) THEN "api"
  ELSE "none"
Resolved(i) == Source(i) # "none"
\* the status the innermost response ends up with: the one the design wrote
\* hypothetical (vacuity guard): the default is applied after the response function and overwrites a Code(..) in it
Written(e) == IF "dsl.code_in_function_overwritten" \in Deviations /\ e.form = "code" THEN 400 ELSE e.status
SourceLevel(i) == IF Source(i) \in {"copied", "api"} THEN "api" ELSE Source(i)
WireStatus(i) == IF SourceLevel(i) = Innermost(table[i].maps) THEN Written(table[i]) ELSE Decoy
\* the path of error i through the resolution (strata for sampling; part of the emitted case)
Path(i) == <<IF "method" \in table[i].decl THEN "M" ELSE IF "service" \in table[i].decl THEN "S" ELSE "A", Source(i)>>

Grow == space = "triple"
Complete == IF Grow THEN Len(table) = 3 ELSE Len(table) >= 1

Init ==
  /\ \/ "base" \in Spaces /\ space = "base" /\ table \in BaseTables
     \/ "place1" \in Spaces /\ space = "place1" /\ table \in Place1Tables
     \/ "pair" \in Spaces /\ space = "pair" /\ table \in PairTables
     \/ "pairq" \in Spaces /\ space = "pairq" /\ table \in PairQTables
     \/ "enc" \in Spaces /\ space = "enc" /\ table \in EncTables
     \/ "form" \in Spaces /\ space = "form" /\ table \in FormTables
     \/ "triple" \in Spaces /\ space = "triple" /\ table = <<>>
  /\ callno = 0 /\ outcome = NoOutcome /\ pc = "design"
  /\ status = 0 /\ goaerr = "none" /\ ctype = "none" /\ bodyname = "none" /\ bodyflags = NoFlags /\ writes = 0
  /\ cname = "none" /\ cflags = NoFlags /\ ckind = "none"

\* one more Error(...) (with its Response(...) lines) in the design
Declare ==
  /\ pc = "design" /\ Grow /\ Len(table) < 3
  /\ \E e \in Grown(Names[Len(table) + 1]) : table' = Append(table, e)
  /\ UNCHANGED <<space, callno, outcome, pc, status, goaerr, ctype, bodyname, bodyflags, writes, cname, cflags, ckind>>

\* the next request: every declared error in turn, then one undeclared outcome
Call ==
  /\ pc \in {"design", "done"} /\ Complete /\ callno <= Len(table)
  /\ callno' = callno + 1
  /\ outcome' \in WithEnc(IF callno < Len(table) THEN Returning(table[callno + 1])
                          ELSE IF space \in {"base", "triple", "enc"} THEN Undeclared ELSE UndeclaredFew,
                          IF space \in EncSpaces THEN Encodings ELSE {"none"})
  /\ pc' = "server" /\ status' = 0 /\ goaerr' = "none" /\ ctype' = "none" /\ bodyname' = "none" /\ bodyflags' = NoFlags /\ writes' = 0
  /\ cname' = "none" /\ cflags' = NoFlags /\ ckind' = "none"
  /\ UNCHANGED <<space, table>>

\* hypothetical (vacuity guard): the XML form of goahttp's ErrorResponse takes its timeout flag from the temporary flag
ErrorResponseFlags(fl, ct) == IF "encode.xml_timeout_is_temporary" \in Deviations /\ ct = "xml" THEN [fl EXCEPT !.t = fl.tmp] ELSE fl
FaultFlags == [t |-> FALSE, tmp |-> FALSE, f |-> TRUE]

\* server side: the generated error encoder, else the default encoder (goahttp.ErrorEncoder: an ErrorResponse body);
\* both write through goahttp.ResponseEncoder, which picks the encoding the request asked for
ServerEncode ==
  /\ pc = "server"
  /\ writes' = writes + 1
  /\ ctype' = Negotiated(outcome.enc)
  /\ CASE outcome.kind \in {"declared", "wrapped"} /\ Resolved(Idx(outcome.name)) ->
            LET e == Entry_(outcome.name) IN
            /\ status' = WireStatus(Idx(outcome.name))
            /\ goaerr' = IF "server.no_goa_error_header" \in Deviations THEN "none" ELSE e.name      \* hypothetical (vacuity guard)
            /\ bodyname' = e.name /\ bodyflags' = e.flags
       [] outcome.kind \in {"declared", "wrapped"} /\ ~Resolved(Idx(outcome.name)) ->      \* only under a deviation: nothing knows the error
            LET e == Entry_(outcome.name) IN
            IF e.type = "result"
            THEN /\ status' = DefaultStatus(e.name, e.flags) /\ goaerr' = "none" /\ bodyname' = e.name /\ bodyflags' = ErrorResponseFlags(e.flags, ctype')
            ELSE /\ status' = 500 /\ goaerr' = "none" /\ bodyname' = "fault" /\ bodyflags' = FaultFlags
       [] outcome.kind \in {"service", "joined"} ->
            /\ status' = DefaultStatus(outcome.name, outcome.flags) /\ goaerr' = "none"
            /\ bodyname' = outcome.name /\ bodyflags' = ErrorResponseFlags(outcome.flags, ctype')
       [] outcome.kind = "plain" ->
            /\ status' = 500 /\ goaerr' = "none" /\ bodyname' = "fault" /\ bodyflags' = ErrorResponseFlags(FaultFlags, ctype')
       [] outcome.kind = "decode" ->
            /\ status' = IF outcome.name = "bad_media_type" THEN 415 ELSE 400
            /\ goaerr' = "none" /\ bodyflags' = ErrorResponseFlags(NoFlags, ctype')
            /\ bodyname' = CASE outcome.name = "missing_body" -> "missing_payload"
                             [] outcome.name = "malformed_body" -> "decode_payload"
                             [] outcome.name = "bad_param" -> "invalid_field_type"
                             [] OTHER -> "unsupported_media_type"
  /\ pc' = "client"
  /\ UNCHANGED <<space, table, callno, outcome, cname, cflags, ckind>>

\* client side: switch on the status, then on the goa-error header when several errors share the status, then the
\* body is decoded (goahttp.ResponseDecoder reads JSON, XML and gob) and validated.  What the caller gets under `devs`:
ClientView(devs) ==
  LET cands == {i \in 1..Len(table) : Resolved(i) /\ WireStatus(i) = status}
      generic == [cname |-> "generic", cflags |-> NoFlags, ckind |-> "generic"]
      as(e) == \* known: gob leaves zero values out, the client's validation of an ErrorResult body then misses the false flags
               IF "client.gob_zero_value_missing" \in devs /\ ctype = "gob" /\ e.type = "result" /\ ~(bodyflags.t /\ bodyflags.tmp /\ bodyflags.f)
               THEN generic ELSE [cname |-> e.name, cflags |-> bodyflags, ckind |-> "declared"]
  IN IF cands = {} \/ (goaerr = "none") \/ ~(\E i \in cands : table[i].name = goaerr)
     THEN IF cands # {} /\ Cardinality(cands) = 1 /\ goaerr = "none" /\ "client.single_error_ignores_header" \in devs
          THEN as(table[CHOOSE i \in cands : TRUE])
          ELSE generic
     ELSE as(table[CHOOSE i \in cands : table[i].name = goaerr])
ClientDecode ==
  /\ pc = "client"
  /\ LET v == ClientView(Deviations) IN cname' = v.cname /\ cflags' = v.cflags /\ ckind' = v.ckind
  /\ pc' = "done"
  /\ UNCHANGED <<space, table, callno, outcome, status, goaerr, ctype, bodyname, bodyflags, writes>>
Next == Declare \/ Call \/ ServerEncode \/ ClientDecode
Spec == Init /\ [][Next]_vars

---------------------------------------------------------------------------
\* the tables are designs goa accepts, every error of a table is an error of the method with a response, names are distinct
WellFormed == \A i \in 1..Len(table) :
   /\ Accepted(table[i].decl, table[i].maps) /\ OfMethod(table[i].decl, table[i].maps) /\ table[i].maps # {}
   /\ table[i].name = Names[i]
   /\ table[i].form \in Forms /\ (table[i].form = "default" => table[i].status = 400)
PairQInPair == space = "pairq" => /\ [k \in 1..Len(table) |-> [table[k] EXCEPT !.form = "arg"]] \in PairTables /\ Len(PlacementSeq) = Cardinality(Placements)
                                   /\ {PClass(p.decl, p.maps) : p \in Placements} = {ClassSeq[k] : k \in 1..Len(ClassSeq)}
\* without deviations every error takes the path its placement says (the strata of the sampling are real)
PathsAsPlaced == Deviations = {} => \A i \in 1..Len(table) : Path(i) = PClass(table[i].decl, table[i].maps)
\* C05
DeclaredRoundTrip == pc = "done" /\ outcome.kind \in {"declared", "wrapped"} =>
   /\ status = Entry_(outcome.name).status /\ goaerr = outcome.name
   /\ ckind = "declared" /\ cname = outcome.name /\ cflags = Entry_(outcome.name).flags
DefaultMapping == pc = "done" =>
   /\ (outcome.kind = "plain" => status = 500 /\ bodyflags.f /\ bodyname = "fault")
   /\ (outcome.kind \in {"service", "joined"} => status = DefaultStatus(outcome.name, outcome.flags) /\ bodyname = outcome.name /\ bodyflags = outcome.flags)
   /\ (outcome.kind = "decode" => status \in {400, 415} /\ bodyname \in {"missing_payload", "decode_payload", "invalid_field_type", "unsupported_media_type"})
ExactlyOneResponse == pc \in {"client", "done"} => writes = 1
\* the body is written in the encoding the request asked for (JSON when it did not ask)
ContentNegotiated == pc \in {"client", "done"} => ctype = Negotiated(outcome.enc)
\* every declared error of the table is returned by the service (and so observed at the client) before the undeclared call
EveryDeclaredReturned == pc = "done" /\ callno = Len(table) + 1 => outcome.kind \notin {"declared", "wrapped"}
CallsInOrder == pc \in {"server", "client", "done"} /\ callno <= Len(table) => outcome.name = table[callno].name
\* (what the client hands back for an undeclared error is not part of the property: when its status
\* coincides with a declared error's status the generated client decodes the body as that error type)
=============================================================================
