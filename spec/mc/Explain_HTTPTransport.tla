----------------------- MODULE Explain_HTTPTransport -----------------------
(* Re-runs the mechanism of HTTPTransport on given cases (those where the real code departed from the
   oracle) under each candidate set of named deviations, and prints what the mechanism does, so that the
   orchestrator can tell which recorded finding - if any - explains an observed behaviour exactly. *)
EXTENDS MC_HTTPTransport
Cases == ndJsonDeserialize("cases.ndjson")
DevSets == ndJsonDeserialize("devsets.ndjson")
RangeOf(q) == {q[i] : i \in 1..Len(q)}
ExplainInit ==
  /\ \E k \in 1..Len(Cases) : \E d \in 1..Len(DevSets) :
       /\ cfg = [pa |-> Cases[k].pa, ra |-> Cases[k].ra, tagged |-> Cases[k].tagged, tags |-> Cases[k].tags, devs |-> RangeOf(DevSets[d].devs)]
       /\ pv = Cases[k].pv /\ rv = Cases[k].rv
  /\ pc = "encode" /\ wire = <<>> /\ delivered = <<>> /\ invoked = FALSE /\ status = 0 /\ errname = "none"
  /\ rwire = <<>> /\ returned = <<>> /\ cerr = "none"
ExplainSpec == ExplainInit /\ [][Next]_vars
EmitExplain == pc = "done" =>
  PrintT(<<"VEC", ToJson([pa |-> cfg.pa, ra |-> cfg.ra, tagged |-> cfg.tagged, tags |-> TagLayout, pv |-> pv, rv |-> rv, devs |-> SetSeq(cfg.devs),
     mech |-> [ where |-> [i \in 1..Len(cfg.pa) |-> wire[i].loc], delivered |-> delivered, invoked |-> invoked,
                status |-> status, errname |-> errname, returned |-> returned, cerr |-> cerr ] ])>>)
=============================================================================
