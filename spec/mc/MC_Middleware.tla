--------------------------- MODULE MC_Middleware ---------------------------
EXTENDS Middleware, Json
\* Gen mode: every terminal state printed once: the case and the predicted observations
Emit == pc = "done" =>
  PrintT(<<"VEC", ToJson([cfg |-> cfg, reqs |-> reqs, pred |-> [hops |-> hops, fwds |-> fwds, caps |-> caps]])>>)
===========================================================================
