SPECIFICATION Spec
CONSTANTS
  Deviations = {}
  N = 2
  K = 2
  Leaves = {"string", "int"}
  UKinds = {"user", "result"}
  Modes = {"hash", "dup"}
  Decos = {0}
  Shapes = "any"
  Ops = "all"
  MaxSteps = 2
  Script = "paired"
INVARIANTS HashIffEqual PermutationInvariant CopyHashEqual Stable Terminates CopyEqual CopyDisjoint CopyIndependent DupTerminates
CHECK_DEADLOCK FALSE
