SPECIFICATION Spec
CONSTANTS
  Deviations = {}
  Seed = 1
  Spaces = {"base", "place1", "pair"}
INVARIANTS WellFormed DeclaredRoundTrip DefaultMapping ExactlyOneResponse EveryDeclaredReturned CallsInOrder PairQInPair PathsAsPlaced
CHECK_DEADLOCK FALSE
