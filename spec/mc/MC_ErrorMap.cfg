SPECIFICATION Spec
CONSTANTS
  Deviations = {}
  Seed = 1
  EncSpaces = {"enc", "triple"}
  Spaces = {"base", "place1", "pair", "enc", "form"}
INVARIANTS WellFormed DeclaredRoundTrip DefaultMapping ExactlyOneResponse ContentNegotiated EveryDeclaredReturned CallsInOrder PairQInPair PathsAsPlaced
CHECK_DEADLOCK FALSE
