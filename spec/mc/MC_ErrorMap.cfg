SPECIFICATION Spec
CONSTANTS
  Deviations = {}
INVARIANTS DeclaredRoundTrip DefaultMapping ExactlyOneResponse
CHECK_DEADLOCK FALSE
