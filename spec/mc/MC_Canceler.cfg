SPECIFICATION Spec
CONSTANTS
  Streams <- StreamSet
  Patient <- PatientSet
  Deviations = {}
INVARIANTS NoLostCancel RefusedOnlyWhenStopping
PROPERTIES GracefulStop
CHECK_DEADLOCK FALSE
