----------------------------- MODULE MC_Eval -----------------------------
EXTENDS Eval, Json
\* Gen mode (Canonical = TRUE): print every finished case once: the case, the admissible return
\* values and the set of callbacks the engine owes (their order is bound by Trace_Eval).
Emit == phase = "done" =>
  PrintT(<<"VEC", ToJson([cfg |-> cfg,
                          pred |-> [outcomes |-> Outcomes, cbs |-> Range(log), ncb |-> Len(log)]])>>)
\* bound for liveness-free exploration is not needed: every behaviour is finite
===========================================================================
