SPECIFICATION Spec
CONSTANTS
  Deviations = {}
  Profile = "values"
  MaxLen = 3
  MaxPats = 2
  Shapes = {1,2,3,4,5,6,7,8,9,10,11,12,13,14}
INVARIANTS TypeOK DispatchToMatch CaptureInverse VarsConsistent NotFound404WellFormed ResolvedPatternEqualsRegistered MiddlewareOrder
CHECK_DEADLOCK FALSE
