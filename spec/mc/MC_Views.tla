------------------------------- MODULE MC_Views -------------------------------
EXTENDS Views, Json
SetSeq(S) == LET RECURSIVE go(_) go(T) == IF T = {} THEN <<>> ELSE LET x == CHOOSE y \in T : TRUE IN <<x>> \o go(T \ {x}) IN go(S)
Emit == pc = "done" =>
  PrintT(<<"VEC", ToJson([cfg |-> cfg, val |-> SetSeq(val),
     pred |-> [wireKeys |-> SetSeq(wireKeys), viewHeader |-> viewHeader, clientKeys |-> SetSeq(clientKeys), cerr |-> cerr, effView |-> EffView]])>>)
===============================================================================
