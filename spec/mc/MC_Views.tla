------------------------------- MODULE MC_Views -------------------------------
EXTENDS Views, Json
SetSeq(S) == LET RECURSIVE go(_) go(T) == IF T = {} THEN <<>> ELSE LET x == CHOOSE y \in T : TRUE IN <<x>> \o go(T \ {x}) IN go(S)
\* the variant as a design: types, attributes and views in DECLARATION order (what the check turns into DSL calls)
TypeDesc(k, t) ==
  LET as == Attrs(k, t) dv == DeclViews(k, t) IN
  [name |-> t,
   attrs |-> [i \in DOMAIN as |-> [name |-> as[i].attr, typ |-> as[i].typ, own |-> as[i].own, coll |-> as[i].coll,
                                   required |-> as[i].attr \in Required(k, t), validated |-> as[i].attr \in Validated(k, t)]],
   views |-> [i \in DOMAIN dv |-> [name |-> dv[i].name,
                                   attrs |-> [j \in DOMAIN dv[i].attrs |-> LET e == dv[i].attrs[j] IN
                                                [name |-> e.attr, view |-> IF e.sub[1] = "-" \/ e.sub[2] = "=" THEN "" ELSE e.sub[2]]]]]]
GraphDesc(k) ==
  [g |-> k.g, order |-> k.order, req |-> k.req, mo |-> k.mo, cd |-> k.cd, collFixed |-> CollFixed(k), coll |-> TopColl(k.g), views |-> SetSeq(ViewsOf(k)), methods |-> Methods(k),
   types |-> [i \in DOMAIN TypesOf(k.g) |-> TypeDesc(k, TypesOf(k.g)[i])]]
\* one description per variant (printed with its first case), one line per finished case
FirstCase == cfg.fixed = CollFixed(K) /\ cfg.chosen = "" /\ bad = {} /\ val = CHOOSE v \in ValueSpace(K) : TRUE
Emit ==
  /\ pc = "server" /\ FirstCase => PrintT(<<"VEC", ToJson([graph |-> GraphDesc(K)])>>)
  /\ pc = "done" =>
       PrintT(<<"VEC", ToJson([cfg |-> cfg, val |-> SetSeq(val), bad |-> SetSeq(bad),
          sval |-> SetSeq(IF CollFixed(K) # "-" THEN Expected ELSE val),    \* what the service's own result type can hold
          pred |-> [sres |-> sres, wireKeys |-> SetSeq(wireKeys), viewHeader |-> viewHeader, clientKeys |-> SetSeq(clientKeys), cerr |-> cerr, effView |-> EffView]])>>)
===============================================================================
