SPECIFICATION Spec
CONSTANTS
  Deviations = {}
  Classes = {"plain", "param/alias+default"}
INVARIANTS AcceptedNeverFailsLater RejectedStops StagesInOrder
CHECK_DEADLOCK FALSE
