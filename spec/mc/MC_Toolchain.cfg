SPECIFICATION Spec
CONSTANTS
  Deviations = {}
  Classes = {"plain", "param/alias+default", "error/api-level-user-type", "views/recursive-result-type"}
INVARIANTS AcceptedNeverFailsLater RejectedStops StagesInOrder
CHECK_DEADLOCK FALSE
