SPECIFICATION Spec
CONSTANTS
  Deviations = {}
  Classes = {"plain", "param/alias+default", "error/api-level-user-type", "views/recursive-result-type", "payload/whole-in-header", "map/key-not-json"}
INVARIANTS AcceptedNeverFailsLater RejectedStops StagesInOrder
CHECK_DEADLOCK FALSE
