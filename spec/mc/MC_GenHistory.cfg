SPECIFICATION Spec
CONSTANTS
  Deviations = {}
  MaxOps = 4
  Nonces = {0, 1}
  KeepHist = FALSE
  Focus = FALSE
INVARIANTS TypeOK GenIsFunctionOfDesign GenIdempotent Deterministic DeterministicIsTheDesign ExampleCompletes NoLeftovers
PROPERTIES ExampleNeverModifies GenTouchesOnlyGenSubdirs
CHECK_DEADLOCK FALSE
