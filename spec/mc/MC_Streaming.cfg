SPECIFICATION Spec
CONSTANTS
  Methods = {"srv", "srvn", "srvv", "cli", "clin", "clip", "bidi", "bidip", "bidiv"}
  Vals = {"a", "x", "y"}
  Pays = {"ok", "bad"}
  MaxSend = 2
  Deviations = {}
INVARIANTS TypeOK DeliveredToServer DeliveredToClient OrderOnceIntact NeverInvalid PayloadFirst EOFAfterCloseAndDrain CloseIsVisible NoPanic ViewAgreed
PROPERTIES EOFSticky NothingAfterFailure
CHECK_DEADLOCK FALSE
