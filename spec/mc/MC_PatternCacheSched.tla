------------------------- MODULE MC_PatternCacheSched -------------------------
(* Model-checking / generation wrapper for PatternCache.
   SchedSpec adds the schedule (sequence of <<process, label>>) as a history
   variable, so that a terminal state carries the whole behaviour: used with
   one process (exhaustive: regular-expression semantics, every pattern x every
   value) and with several processes in simulation mode (interleavings to be
   replayed through the gates of the verif hook). *)
EXTENDS PatternCache, Json
VARIABLE hist
SchedInit == Init /\ hist = <<>>
SchedNext == \E self \in Procs : g(self) /\ hist' = Append(hist, <<self, pc[self]>>)
SchedSpec == SchedInit /\ [][SchedNext]_<<vars, hist>>

ProcSeq == [q \in 1..Cardinality(Procs) |->
              [p |-> p[q], v |-> v[q], ptxt |-> PatText(p[q]), val |-> ValueDefs[v[q]],
               verdict |-> verdict[q], hit |-> hit[q]]]
InCache(i) == i \in DOMAIN cache
CacheIdx == SelectSeq([i \in 1..NPatterns |-> i], InCache)
CacheSeq == [k \in 1..Len(CacheIdx) |-> PatText(CacheIdx[k])]
Emit == AllDone => PrintT(<<"VEC", ToJson([calls |-> ProcSeq, sched |-> hist, cache |-> CacheSeq])>>)

\* table of pattern texts (one TLC run, no states): index -> text
PatTable == PrintT(<<"VEC", ToJson([pats |-> [i \in 1..NPatterns |-> PatText(i)], vals |-> ValueDefs])>>)
===========================================================================
