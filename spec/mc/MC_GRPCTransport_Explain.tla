----------------------- MODULE MC_GRPCTransport_Explain -----------------------
(* Re-runs the mechanism of GRPCTransport on given cases (those where the real code departed from the
   oracle or from the deviation-free mechanism) under each candidate set of named deviations and prints what
   the mechanism does, so that the orchestrator can tell which recorded finding - if any - explains an
   observed behaviour exactly. *)
EXTENDS MC_GRPCTransport
Cases == ndJsonDeserialize("cases.ndjson")
DevSets == ndJsonDeserialize("devsets.ndjson")
RangeOf(q) == {q[i] : i \in 1..Len(q)}
ExplainInit ==
  /\ \E k \in 1..Len(Cases) : \E d \in 1..Len(DevSets) :
       /\ cfg = [pa |-> Cases[k].pa, ra |-> Cases[k].ra, stream |-> Cases[k].stream, tagmode |-> Cases[k].tagmode,
                 withmd |-> Cases[k].withmd, explicit |-> Cases[k].explicit, raw |-> Cases[k].raw, shared |-> Cases[k].shared, devs |-> RangeOf(DevSets[d].devs)]
       /\ pv = Cases[k].pv /\ rv = Cases[k].rv
  /\ pc = "eval" /\ accepted = FALSE /\ proto = <<>> /\ rpcs = <<>> /\ descok = FALSE
  /\ wire = [loc |-> "none", v |-> Absent] /\ delivered = Absent /\ invoked = FALSE /\ errname = "none"
  /\ rwire = [loc |-> "none", v |-> Absent] /\ returned = Absent /\ cerr = "none"
ExplainSpec == ExplainInit /\ [][Next]_vars
EmitExplain == pc = "done" =>
  PrintT(<<"VEC", ToJson([pa |-> cfg.pa, ra |-> cfg.ra, stream |-> cfg.stream, tagmode |-> cfg.tagmode, withmd |-> cfg.withmd, explicit |-> cfg.explicit, raw |-> cfg.raw, shared |-> cfg.shared,
     pv |-> pv, rv |-> rv, devs |-> SetSeq(cfg.devs),
     mech |-> [ accepted |-> accepted, proto |-> proto, rpcs |-> rpcs, descok |-> descok,
                where |-> wire.loc, delivered |-> delivered, invoked |-> invoked, errname |-> errname,
                rwhere |-> rwire.loc, returned |-> returned, cerr |-> cerr ] ])>>)
=============================================================================
