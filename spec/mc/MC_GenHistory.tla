--------------------------- MODULE MC_GenHistory ---------------------------
(* Bounded exhaustive checking of GenHistory on a 4-file abstraction: each of the two design
   variants has two files under gen/ and two example files; the variants share gen/a/f and x1
   (with different contents), variant 1 alone has gen/b/f and cmd/x2, variant 2 alone gen/c/f and
   x3.  Stray locations: inside a generated sub-directory, inside a sub-directory of gen/ the
   user made, directly under gen/, elsewhere.  One user file (the design source) is there from
   the start.  All histories of at most MaxOps operations are explored. *)
EXTENDS GenHistory, Json

CONSTANT Focus    \* TRUE: the user edits/deletes two representative paths only (vector generation)

GA == <<"gen", "a", "f">>
GB == <<"gen", "b", "f">>
GC == <<"gen", "c", "f">>
X1 == <<"x1">>
X2 == <<"cmd", "x2">>
X3 == <<"x3">>
F(p, c) == [p |-> p, c |-> c]

AbstractCfg ==
  [designs |-> << [gen |-> <<F(GA, 11), F(GB, 12)>>, ex |-> <<F(X1, 13), F(X2, 14)>>],
                  [gen |-> <<F(GA, 21), F(GC, 22)>>, ex |-> <<F(X1, 23), F(X3, 24)>>] >>,
   strays  |-> << <<"gen", "a", "stray">>, <<"gen", "u", "stray">>, <<"gen", "stray">>, <<"stray">> >>,
   focus   |-> IF Focus THEN <<GA, X1>> ELSE <<>>,
   init    |-> << F(<<"design", "design.go">>, 1) >>,
   strayc  |-> 100,
   editbase |-> 200]

Init == Idle(AbstractCfg)
Spec == Init /\ [][Next]_vars

\* vector generation: every history (all prefixes) with the directory the model predicts after it
Tree == {[p |-> p, c |-> dir[p].c, s |-> dir[p].s, o |-> dir[p].owner] : p \in DOMAIN dir}
Emit == (pc = "idle" /\ hist # <<>>) => PrintT(<<"VEC", ToJson([hist |-> hist, tree |-> Tree])>>)
=============================================================================
