----------------------- MODULE MC_DSLProgram_Classify -----------------------
(* What does the specification say about given programs?  Reads programs.ndjson (one {"id", "nodes"} per line)
   and prints, for each, the dangling references and the crash classes of DSLProgram.  Used by checks/c12.py to
   key findings on MINIMISED failing programs and to explain replays. *)
EXTENDS DSLProgram, Json
Progs == ndJsonDeserialize("programs.ndjson")
VARIABLE ci
SetToSeq(S) == LET RECURSIVE go(_)
                   go(T) == IF T = {} THEN <<>> ELSE LET x == CHOOSE y \in T : TRUE IN <<x>> \o go(T \ {x})
               IN go(S)
ClassifyInit == Init /\ ci = 0
ClassifyNext == ci < Len(Progs) /\ ci' = ci + 1 /\ UNCHANGED vars
ClassifySpec == ClassifyInit /\ [][ClassifyNext]_<<vars, ci>>
EmitClass == ci \in 1..Len(Progs) =>
  LET ns == Progs[ci].nodes IN
  PrintT(<<"VEC", ToJson([id |-> Progs[ci].id, wf |-> WFProgram(ns),
                          dangling |-> IF WFProgram(ns) THEN SetToSeq(DanglingKinds(ns)) ELSE <<>>,
                          triggers |-> IF WFProgram(ns) THEN SetToSeq(TriggeredCrashes(ns)) ELSE <<>>,
                          misplaced |-> IF WFProgram(ns) THEN Cardinality({i \in Idx(ns) : ~Documented(ns, i)}) ELSE 0,
                          grpc |-> IF WFProgram(ns) THEN HasGRPC(ns) ELSE FALSE])>>)
=============================================================================
