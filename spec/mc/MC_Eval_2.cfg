SPECIFICATION Spec
CONSTANTS
  Roots = {"a", "b"}
  MaxExprs = 2
  MaxLate = 1
  Space = "full"
  Canonical = FALSE
  Deviations = {}
INVARIANTS  TypeOK RunReturns PhaseBarrier DepOrder SetOrder CycleReported NoFinalizeAfterError AllPhasesForAll CompleteBeforeError ErrorsTogether OkMeansNoErrors LateRootsRun
PROPERTY Terminates
CHECK_DEADLOCK FALSE
