----------------------------- MODULE MC_ErrorMap -----------------------------
EXTENDS ErrorMap, Json
Emit == pc = "done" =>
  PrintT(<<"VEC", ToJson([space |-> space, table |-> table, call |-> callno, outcome |-> outcome,
     paths |-> [i \in 1..Len(table) |-> Path(i)], decoy |-> Decoy,
     pred |-> [status |-> status, goaerr |-> goaerr, bodyname |-> bodyname, bodyflags |-> bodyflags, writes |-> writes,
               cname |-> cname, cflags |-> cflags, ckind |-> ckind]])>>)
=============================================================================
