----------------------------- MODULE MC_ErrorMap -----------------------------
EXTENDS ErrorMap, Json
Emit == pc = "done" =>
  PrintT(<<"VEC", ToJson([table |-> table, outcome |-> outcome,
     pred |-> [status |-> status, goaerr |-> goaerr, bodyname |-> bodyname, bodyflags |-> bodyflags, writes |-> writes,
               cname |-> cname, cflags |-> cflags, ckind |-> ckind]])>>)
=============================================================================
