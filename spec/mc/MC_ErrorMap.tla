----------------------------- MODULE MC_ErrorMap -----------------------------
EXTENDS ErrorMap, Json
Emit == pc = "done" =>
  PrintT(<<"VEC", ToJson([space |-> space, table |-> table, call |-> callno, outcome |-> outcome,
     paths |-> [i \in 1..Len(table) |-> Path(i)], decoy |-> Decoy,
     known |-> [d \in KnownClientDeviations |-> ClientView({d})],
     pred |-> [status |-> status, goaerr |-> goaerr, ctype |-> ctype, bodyname |-> bodyname, bodyflags |-> bodyflags, writes |-> writes,
               cname |-> cname, cflags |-> cflags, ckind |-> ckind]])>>)
=============================================================================
