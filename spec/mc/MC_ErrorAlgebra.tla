------------------------- MODULE MC_ErrorAlgebra -------------------------
EXTENDS ErrorAlgebra, Json
\* deviations recorded as known findings: where one of them predicts something else than the design, the
\* vector carries that prediction too (alt), so a mismatch equal to it gets the deviation's name as its key
KnownDeviations == {"grpc.detail_after_inherited"}
Alts == {d \in KnownDeviations : PredD({d}) # obs}
\* Gen mode: print every terminal state once as a vector (case + predicted observation)
Emit == pc = "done" =>
  PrintT(<<"VEC", ToJson(IF mode = "merge"
                         THEN [mode |-> mode, leaves |-> leaves, tree |-> tree, pred |-> obs, alt |-> [d \in Alts |-> PredD({d})]]
                         ELSE [mode |-> mode, scase |-> scase, pred |-> obs, alt |-> [d \in Alts |-> PredD({d})]])>>)
===========================================================================
