------------------------- MODULE MC_ErrorAlgebra -------------------------
EXTENDS ErrorAlgebra, Json
\* Gen mode: print every terminal state once as a vector (case + predicted observation)
Emit == pc = "done" =>
  PrintT(<<"VEC", ToJson(IF mode = "merge"
                         THEN [mode |-> mode, leaves |-> leaves, tree |-> tree, pred |-> obs]
                         ELSE [mode |-> mode, scase |-> scase, pred |-> obs])>>)
===========================================================================
