------------------------- MODULE MC_GRPCTransport -------------------------
EXTENDS GRPCTransport, Json
SetSeq(S) == LET RECURSIVE go(_) go(T) == IF T = {} THEN <<>> ELSE LET x == CHOOSE y \in T : TRUE IN <<x>> \o go(T \ {x}) IN go(S)
\* one vector per terminal state: the case, what the oracle allows, what the mechanism (under Deviations) did
Emit == pc = "done" =>
  PrintT(<<"VEC", ToJson([
     fam |-> Family, pa |-> cfg.pa, ra |-> cfg.ra, stream |-> cfg.stream, tagmode |-> cfg.tagmode, withmd |-> cfg.withmd,
     explicit |-> cfg.explicit, raw |-> cfg.raw, shared |-> cfg.shared,
     pv |-> pv, rv |-> rv,
     allow |-> [ accept |-> DesignOK,
                 numbers |-> SetSeq(DesignNumbers),
                 cs |-> StreamCS, ss |-> StreamSS,
                 where |-> SetSeq(AllowedWhere(cfg.pa, pv)),
                 delivered |-> SetSeq(AllowedDelivered(cfg.pa, pv)),
                 mustInvoke |-> Satisfies(cfg.pa, pv),
                 mustReject |-> Violates(cfg.pa, pv),
                 rwhere |-> SetSeq(AllowedWhere(cfg.ra, rv)),
                 returned |-> SetSeq(AllowedDelivered(cfg.ra, rv)),
                 cMustAccept |-> Satisfies(cfg.ra, rv),
                 cMustReject |-> Violates(cfg.ra, rv) ],
     mech |-> [ accepted |-> accepted, proto |-> proto, rpcs |-> rpcs, descok |-> descok,
                where |-> wire.loc, delivered |-> delivered, invoked |-> invoked, errname |-> errname,
                rwhere |-> rwire.loc, returned |-> returned, cerr |-> cerr ] ])>>)
===========================================================================
