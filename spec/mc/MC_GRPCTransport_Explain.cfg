SPECIFICATION ExplainSpec
CONSTANTS
  Deviations = {}
  Family = "req"
  PathDepth = 2
INVARIANTS EmitExplain
CHECK_DEADLOCK FALSE
