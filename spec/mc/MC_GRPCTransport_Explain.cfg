SPECIFICATION ExplainSpec
CONSTANTS
  Deviations = {}
  Family = "req"
INVARIANTS EmitExplain
CHECK_DEADLOCK FALSE
