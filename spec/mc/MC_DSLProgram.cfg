SPECIFICATION Spec
CONSTANTS
  Deviations = {}
  Fns = {"Service", "Method", "Payload", "Attribute", "HTTP", "GET", "Param", "Response", "Error", "Security", "JWTSecurity", "Server"}
  Pools = "tiny"
  MaxCalls = 3
  MinCalls = 1
  MaxDepth = 3
  MaxMisplaced = 1
  MaxTop = 3
  MinKids = 0
  Once = {}
  SpineDeep = FALSE
INVARIANTS TypeOK NeverCrash RejectedHasErrors AcceptedHasNoDangling AcceptedCompiles StackIsOpenChain ProgramWellFormed MisplacedCounted
CHECK_DEADLOCK FALSE
