SPECIFICATION Spec
CONSTANTS
  Deviations = {}
  ReqModes = {"base", "sel", "oth", "nest"}
  AllFixed = TRUE
INVARIANTS ExactlyViewAttributes ViewHeaderAccompanies ClientRefusesUnknownView NothingOutsideTheView ValidIsDelivered InvalidIsRefused ClientNeverCrashes
CHECK_DEADLOCK FALSE
