SPECIFICATION Spec
CONSTANTS
  Deviations = {}
INVARIANTS ExactlyViewAttributes ViewHeaderAccompanies ClientRefusesUnknownView NothingOutsideTheView
CHECK_DEADLOCK FALSE
