SPECIFICATION Spec
CONSTANTS
  Roots = {"a", "b", "c"}
  MaxExprs = 1
  MaxLate = 1
  Space = "one"
  Canonical = FALSE
  Deviations = {}
INVARIANTS  TypeOK RunReturns PhaseBarrier DepOrder SetOrder CycleReported NoFinalizeAfterError AllPhasesForAll CompleteBeforeError ErrorsTogether OkMeansNoErrors LateRootsRun

CHECK_DEADLOCK FALSE
