SPECIFICATION Spec
CONSTANTS
  Methods = {"srv", "srvn", "srvv", "cli", "clin", "clip", "bidi", "bidip", "bidiv"}
  Vals = {"a", "x", "y"}
  Pays = {"ok", "bad"}
  MaxSend = 2
  Deviations = {"recv.continues_after_invalid", "close.noop_before_upgrade", "sendandclose.nil_conn_before_recv", "view.recv_upgrade_drops_view", "eof.server_recv_after_eof_is_error"}
INVARIANTS TypeOK OrderOnceIntact NeverInvalid PayloadFirst EOFAfterCloseAndDrain
CHECK_DEADLOCK FALSE
