SPECIFICATION Spec
CONSTANTS
  K = 2
  Deviations = {}
INVARIANTS NoConflict Echo
PROPERTIES Termination
CHECK_DEADLOCK FALSE
