SPECIFICATION Spec
CONSTANTS
  K = 2
  Deviations = {}
  KindSet = {"ok", "invalid", "declared", "undeclared", "plain"}
  CodecSet = {"json", "text"}
  BodySet = {"object", "bytes"}
  SerialSet = {TRUE, FALSE}
INVARIANTS NoConflict Echo
PROPERTIES Termination
CHECK_DEADLOCK FALSE
