--------------------------- MODULE MC_Negotiation ---------------------------
(* Model instance for C15: the pools of Accept values, designed content types, pre-set response
   headers and request content types that TLC enumerates, and the table of environment facts about
   every string that can occur (generated once with `negotiation -tlafacts`; the driver re-checks each
   entry against the Go standard library at run time and stops with exit code 3 when one differs). *)
EXTENDS Negotiation, Json

CONSTANTS Rich      \* TRUE: larger pools and the full product Accept x designed x pre-set
                    \* FALSE: base pools, Accept varies only where it matters (no designed type)

AcceptBase == {"", "application/json", "application/xml", "application/gob", "text/plain", "text/html",
               "application/xml; charset=utf-8", "application/xml;q=0.8", "APPLICATION/XML", " application/gob ",
               "text/plain;", "application/xml, application/json", "application/json;q=0.5, application/xml;q=0.9",
               "*/*", "application/*", "text/*", "application/vnd.x+xml", "application/vnd.x+json", "image/png",
               "application/xml; charset", "@@;;="}
AcceptMore == {"application/json; charset=utf-8", "TEXT/HTML", "text/html; q=0.9", "application/json, text/plain",
               "*/*;q=0.1", "application/gob;", "application/vnd.x+gob", "text/xml", "json",
               "text/plain; charset=utf-8; format=flowed"}
DesignedBase == {"", "application/json", "application/xml", "application/gob", "text/plain", "text/html",
                 "application/json; charset=utf-8", "Application/XML", "application/vnd.x+json",
                 "application/vnd.x+xml", "application/vnd.x+gob", "application/vnd.x+html", "application/vnd.x+txt",
                 "application/vnd.x+xml; charset=utf-8", "application/vnd.x+foo", "application/octet-stream",
                 "application/json; charset", "application/xml; charset", "@@;;="}
DesignedMore == {"text/html; charset=utf-8", "TEXT/PLAIN", "application/problem+json", "application/problem+xml",
                 "+json", "image/svg+xml", "application/vnd.x+JSON", "application/json;"}
PresetBase == {"", "application/json", "application/xml", "text/plain", "application/vnd.x",
               "application/vnd.x+json", "application/vnd.x+xml", "application/vnd.x+gob", "foo+bar",
               "application/vnd.x; charset=utf-8", "application/vnd.x+json; charset=utf-8", "garbage;;"}
PresetMore == {"application/problem+json", "application/problem+xml", "text/html; charset=utf-8",
               "application/vnd.x+foo", "APPLICATION/VND.X+XML", "application/vnd.x;",
               "application/vnd.x; profile=a+b", "+xml"}
RequestBase == {"", "application/json", "application/xml", "application/gob", "text/plain", "text/html",
                "application/json; charset=utf-8", "APPLICATION/JSON", "application/xml;q=0.8",
                "application/vnd.api+json", "application/vnd.x+xml", "application/vnd.x+gob",
                "application/vnd.x+txt", "image/png", "application/json; charset", "@@;;=",
                "application/x-www-form-urlencoded", "multipart/form-data; boundary=x"}
RequestMore == {"text/plain; charset=utf-8", " application/json", "application/json;", "application/problem+json",
                "text/xml", "json", "application/vnd.x+foo", "*/*"}
AcceptPool   == AcceptBase   \cup (IF Rich THEN AcceptMore ELSE {})
DesignedPool == DesignedBase \cup (IF Rich THEN DesignedMore ELSE {})
PresetPool   == PresetBase   \cup (IF Rich THEN PresetMore ELSE {})
RequestPool  == RequestBase  \cup (IF Rich THEN RequestMore ELSE {})

FactTable == {
  [s |-> " application/gob ", ok |-> TRUE, mt |-> "application/gob", eff |-> "application/gob", suf |-> "", plus |-> FALSE],
  [s |-> " application/json", ok |-> TRUE, mt |-> "application/json", eff |-> "application/json", suf |-> "", plus |-> FALSE],
  [s |-> "*/*", ok |-> TRUE, mt |-> "*/*", eff |-> "*/*", suf |-> "", plus |-> FALSE],
  [s |-> "*/*;q=0.1", ok |-> TRUE, mt |-> "*/*", eff |-> "*/*", suf |-> "", plus |-> FALSE],
  [s |-> "+json", ok |-> TRUE, mt |-> "+json", eff |-> "+json", suf |-> "+json", plus |-> TRUE],
  [s |-> "+xml", ok |-> TRUE, mt |-> "+xml", eff |-> "+xml", suf |-> "+xml", plus |-> TRUE],
  [s |-> "+xml+json", ok |-> TRUE, mt |-> "+xml+json", eff |-> "+xml+json", suf |-> "+json", plus |-> TRUE],
  [s |-> "+xml+xml", ok |-> TRUE, mt |-> "+xml+xml", eff |-> "+xml+xml", suf |-> "+xml", plus |-> TRUE],
  [s |-> "@@;;=", ok |-> FALSE, mt |-> "", eff |-> "@@;;=", suf |-> "", plus |-> FALSE],
  [s |-> "APPLICATION/JSON", ok |-> TRUE, mt |-> "application/json", eff |-> "application/json", suf |-> "", plus |-> FALSE],
  [s |-> "APPLICATION/VND.X+XML", ok |-> TRUE, mt |-> "application/vnd.x+xml", eff |-> "application/vnd.x+xml", suf |-> "+xml", plus |-> TRUE],
  [s |-> "APPLICATION/VND.X+XML+json", ok |-> TRUE, mt |-> "application/vnd.x+xml+json", eff |-> "application/vnd.x+xml+json", suf |-> "+json", plus |-> TRUE],
  [s |-> "APPLICATION/VND.X+XML+xml", ok |-> TRUE, mt |-> "application/vnd.x+xml+xml", eff |-> "application/vnd.x+xml+xml", suf |-> "+xml", plus |-> TRUE],
  [s |-> "APPLICATION/XML", ok |-> TRUE, mt |-> "application/xml", eff |-> "application/xml", suf |-> "", plus |-> FALSE],
  [s |-> "Application/XML", ok |-> TRUE, mt |-> "application/xml", eff |-> "application/xml", suf |-> "", plus |-> FALSE],
  [s |-> "TEXT/HTML", ok |-> TRUE, mt |-> "text/html", eff |-> "text/html", suf |-> "", plus |-> FALSE],
  [s |-> "TEXT/PLAIN", ok |-> TRUE, mt |-> "text/plain", eff |-> "text/plain", suf |-> "", plus |-> FALSE],
  [s |-> "application/*", ok |-> TRUE, mt |-> "application/*", eff |-> "application/*", suf |-> "", plus |-> FALSE],
  [s |-> "application/gob", ok |-> TRUE, mt |-> "application/gob", eff |-> "application/gob", suf |-> "", plus |-> FALSE],
  [s |-> "application/gob;", ok |-> TRUE, mt |-> "application/gob", eff |-> "application/gob", suf |-> "", plus |-> FALSE],
  [s |-> "application/json", ok |-> TRUE, mt |-> "application/json", eff |-> "application/json", suf |-> "", plus |-> FALSE],
  [s |-> "application/json+json", ok |-> TRUE, mt |-> "application/json+json", eff |-> "application/json+json", suf |-> "+json", plus |-> TRUE],
  [s |-> "application/json+xml", ok |-> TRUE, mt |-> "application/json+xml", eff |-> "application/json+xml", suf |-> "+xml", plus |-> TRUE],
  [s |-> "application/json, text/plain", ok |-> FALSE, mt |-> "", eff |-> "application/json, text/plain", suf |-> "", plus |-> FALSE],
  [s |-> "application/json;", ok |-> TRUE, mt |-> "application/json", eff |-> "application/json", suf |-> "", plus |-> FALSE],
  [s |-> "application/json; charset", ok |-> FALSE, mt |-> "application/json", eff |-> "application/json; charset", suf |-> "", plus |-> FALSE],
  [s |-> "application/json; charset=utf-8", ok |-> TRUE, mt |-> "application/json", eff |-> "application/json", suf |-> "", plus |-> FALSE],
  [s |-> "application/json;q=0.5, application/xml;q=0.9", ok |-> FALSE, mt |-> "application/json", eff |-> "application/json;q=0.5, application/xml;q=0.9", suf |-> "", plus |-> FALSE],
  [s |-> "application/octet-stream", ok |-> TRUE, mt |-> "application/octet-stream", eff |-> "application/octet-stream", suf |-> "", plus |-> FALSE],
  [s |-> "application/problem+json", ok |-> TRUE, mt |-> "application/problem+json", eff |-> "application/problem+json", suf |-> "+json", plus |-> TRUE],
  [s |-> "application/problem+json+json", ok |-> TRUE, mt |-> "application/problem+json+json", eff |-> "application/problem+json+json", suf |-> "+json", plus |-> TRUE],
  [s |-> "application/problem+json+xml", ok |-> TRUE, mt |-> "application/problem+json+xml", eff |-> "application/problem+json+xml", suf |-> "+xml", plus |-> TRUE],
  [s |-> "application/problem+xml", ok |-> TRUE, mt |-> "application/problem+xml", eff |-> "application/problem+xml", suf |-> "+xml", plus |-> TRUE],
  [s |-> "application/problem+xml+json", ok |-> TRUE, mt |-> "application/problem+xml+json", eff |-> "application/problem+xml+json", suf |-> "+json", plus |-> TRUE],
  [s |-> "application/problem+xml+xml", ok |-> TRUE, mt |-> "application/problem+xml+xml", eff |-> "application/problem+xml+xml", suf |-> "+xml", plus |-> TRUE],
  [s |-> "application/vnd.api+json", ok |-> TRUE, mt |-> "application/vnd.api+json", eff |-> "application/vnd.api+json", suf |-> "+json", plus |-> TRUE],
  [s |-> "application/vnd.x", ok |-> TRUE, mt |-> "application/vnd.x", eff |-> "application/vnd.x", suf |-> "", plus |-> FALSE],
  [s |-> "application/vnd.x+JSON", ok |-> TRUE, mt |-> "application/vnd.x+json", eff |-> "application/vnd.x+json", suf |-> "+json", plus |-> TRUE],
  [s |-> "application/vnd.x+foo", ok |-> TRUE, mt |-> "application/vnd.x+foo", eff |-> "application/vnd.x+foo", suf |-> "+foo", plus |-> TRUE],
  [s |-> "application/vnd.x+foo+json", ok |-> TRUE, mt |-> "application/vnd.x+foo+json", eff |-> "application/vnd.x+foo+json", suf |-> "+json", plus |-> TRUE],
  [s |-> "application/vnd.x+foo+xml", ok |-> TRUE, mt |-> "application/vnd.x+foo+xml", eff |-> "application/vnd.x+foo+xml", suf |-> "+xml", plus |-> TRUE],
  [s |-> "application/vnd.x+gob", ok |-> TRUE, mt |-> "application/vnd.x+gob", eff |-> "application/vnd.x+gob", suf |-> "+gob", plus |-> TRUE],
  [s |-> "application/vnd.x+gob+json", ok |-> TRUE, mt |-> "application/vnd.x+gob+json", eff |-> "application/vnd.x+gob+json", suf |-> "+json", plus |-> TRUE],
  [s |-> "application/vnd.x+gob+xml", ok |-> TRUE, mt |-> "application/vnd.x+gob+xml", eff |-> "application/vnd.x+gob+xml", suf |-> "+xml", plus |-> TRUE],
  [s |-> "application/vnd.x+html", ok |-> TRUE, mt |-> "application/vnd.x+html", eff |-> "application/vnd.x+html", suf |-> "+html", plus |-> TRUE],
  [s |-> "application/vnd.x+json", ok |-> TRUE, mt |-> "application/vnd.x+json", eff |-> "application/vnd.x+json", suf |-> "+json", plus |-> TRUE],
  [s |-> "application/vnd.x+json+json", ok |-> TRUE, mt |-> "application/vnd.x+json+json", eff |-> "application/vnd.x+json+json", suf |-> "+json", plus |-> TRUE],
  [s |-> "application/vnd.x+json+xml", ok |-> TRUE, mt |-> "application/vnd.x+json+xml", eff |-> "application/vnd.x+json+xml", suf |-> "+xml", plus |-> TRUE],
  [s |-> "application/vnd.x+json; charset=utf-8", ok |-> TRUE, mt |-> "application/vnd.x+json", eff |-> "application/vnd.x+json", suf |-> "+json", plus |-> TRUE],
  [s |-> "application/vnd.x+json; charset=utf-8+json", ok |-> TRUE, mt |-> "application/vnd.x+json", eff |-> "application/vnd.x+json", suf |-> "+json", plus |-> TRUE],
  [s |-> "application/vnd.x+json; charset=utf-8+xml", ok |-> TRUE, mt |-> "application/vnd.x+json", eff |-> "application/vnd.x+json", suf |-> "+json", plus |-> TRUE],
  [s |-> "application/vnd.x+txt", ok |-> TRUE, mt |-> "application/vnd.x+txt", eff |-> "application/vnd.x+txt", suf |-> "+txt", plus |-> TRUE],
  [s |-> "application/vnd.x+xml", ok |-> TRUE, mt |-> "application/vnd.x+xml", eff |-> "application/vnd.x+xml", suf |-> "+xml", plus |-> TRUE],
  [s |-> "application/vnd.x+xml+json", ok |-> TRUE, mt |-> "application/vnd.x+xml+json", eff |-> "application/vnd.x+xml+json", suf |-> "+json", plus |-> TRUE],
  [s |-> "application/vnd.x+xml+xml", ok |-> TRUE, mt |-> "application/vnd.x+xml+xml", eff |-> "application/vnd.x+xml+xml", suf |-> "+xml", plus |-> TRUE],
  [s |-> "application/vnd.x+xml; charset=utf-8", ok |-> TRUE, mt |-> "application/vnd.x+xml", eff |-> "application/vnd.x+xml", suf |-> "+xml", plus |-> TRUE],
  [s |-> "application/vnd.x;", ok |-> TRUE, mt |-> "application/vnd.x", eff |-> "application/vnd.x", suf |-> "", plus |-> FALSE],
  [s |-> "application/vnd.x; charset=utf-8", ok |-> TRUE, mt |-> "application/vnd.x", eff |-> "application/vnd.x", suf |-> "", plus |-> FALSE],
  [s |-> "application/vnd.x; charset=utf-8+json", ok |-> TRUE, mt |-> "application/vnd.x", eff |-> "application/vnd.x", suf |-> "", plus |-> TRUE],
  [s |-> "application/vnd.x; charset=utf-8+xml", ok |-> TRUE, mt |-> "application/vnd.x", eff |-> "application/vnd.x", suf |-> "", plus |-> TRUE],
  [s |-> "application/vnd.x; profile=a+b", ok |-> TRUE, mt |-> "application/vnd.x", eff |-> "application/vnd.x", suf |-> "", plus |-> TRUE],
  [s |-> "application/vnd.x; profile=a+b+json", ok |-> TRUE, mt |-> "application/vnd.x", eff |-> "application/vnd.x", suf |-> "", plus |-> TRUE],
  [s |-> "application/vnd.x; profile=a+b+xml", ok |-> TRUE, mt |-> "application/vnd.x", eff |-> "application/vnd.x", suf |-> "", plus |-> TRUE],
  [s |-> "application/vnd.x;+json", ok |-> FALSE, mt |-> "application/vnd.x", eff |-> "application/vnd.x;+json", suf |-> "+json", plus |-> TRUE],
  [s |-> "application/vnd.x;+xml", ok |-> FALSE, mt |-> "application/vnd.x", eff |-> "application/vnd.x;+xml", suf |-> "+xml", plus |-> TRUE],
  [s |-> "application/x-www-form-urlencoded", ok |-> TRUE, mt |-> "application/x-www-form-urlencoded", eff |-> "application/x-www-form-urlencoded", suf |-> "", plus |-> FALSE],
  [s |-> "application/xml", ok |-> TRUE, mt |-> "application/xml", eff |-> "application/xml", suf |-> "", plus |-> FALSE],
  [s |-> "application/xml+json", ok |-> TRUE, mt |-> "application/xml+json", eff |-> "application/xml+json", suf |-> "+json", plus |-> TRUE],
  [s |-> "application/xml+xml", ok |-> TRUE, mt |-> "application/xml+xml", eff |-> "application/xml+xml", suf |-> "+xml", plus |-> TRUE],
  [s |-> "application/xml, application/json", ok |-> FALSE, mt |-> "", eff |-> "application/xml, application/json", suf |-> "", plus |-> FALSE],
  [s |-> "application/xml; charset", ok |-> FALSE, mt |-> "application/xml", eff |-> "application/xml; charset", suf |-> "", plus |-> FALSE],
  [s |-> "application/xml; charset=utf-8", ok |-> TRUE, mt |-> "application/xml", eff |-> "application/xml", suf |-> "", plus |-> FALSE],
  [s |-> "application/xml;q=0.8", ok |-> TRUE, mt |-> "application/xml", eff |-> "application/xml", suf |-> "", plus |-> FALSE],
  [s |-> "foo+bar", ok |-> TRUE, mt |-> "foo+bar", eff |-> "foo+bar", suf |-> "+bar", plus |-> TRUE],
  [s |-> "foo+bar+json", ok |-> TRUE, mt |-> "foo+bar+json", eff |-> "foo+bar+json", suf |-> "+json", plus |-> TRUE],
  [s |-> "foo+bar+xml", ok |-> TRUE, mt |-> "foo+bar+xml", eff |-> "foo+bar+xml", suf |-> "+xml", plus |-> TRUE],
  [s |-> "garbage", ok |-> TRUE, mt |-> "garbage", eff |-> "garbage", suf |-> "", plus |-> FALSE],
  [s |-> "garbage;;", ok |-> FALSE, mt |-> "garbage", eff |-> "garbage;;", suf |-> "", plus |-> FALSE],
  [s |-> "garbage;;+json", ok |-> FALSE, mt |-> "garbage", eff |-> "garbage;;+json", suf |-> "+json", plus |-> TRUE],
  [s |-> "garbage;;+xml", ok |-> FALSE, mt |-> "garbage", eff |-> "garbage;;+xml", suf |-> "+xml", plus |-> TRUE],
  [s |-> "image/png", ok |-> TRUE, mt |-> "image/png", eff |-> "image/png", suf |-> "", plus |-> FALSE],
  [s |-> "image/svg+xml", ok |-> TRUE, mt |-> "image/svg+xml", eff |-> "image/svg+xml", suf |-> "+xml", plus |-> TRUE],
  [s |-> "json", ok |-> TRUE, mt |-> "json", eff |-> "json", suf |-> "", plus |-> FALSE],
  [s |-> "multipart/form-data", ok |-> TRUE, mt |-> "multipart/form-data", eff |-> "multipart/form-data", suf |-> "", plus |-> FALSE],
  [s |-> "multipart/form-data; boundary=x", ok |-> TRUE, mt |-> "multipart/form-data", eff |-> "multipart/form-data", suf |-> "", plus |-> FALSE],
  [s |-> "text/*", ok |-> TRUE, mt |-> "text/*", eff |-> "text/*", suf |-> "", plus |-> FALSE],
  [s |-> "text/html", ok |-> TRUE, mt |-> "text/html", eff |-> "text/html", suf |-> "", plus |-> FALSE],
  [s |-> "text/html; charset=utf-8", ok |-> TRUE, mt |-> "text/html", eff |-> "text/html", suf |-> "", plus |-> FALSE],
  [s |-> "text/html; charset=utf-8+json", ok |-> TRUE, mt |-> "text/html", eff |-> "text/html", suf |-> "", plus |-> TRUE],
  [s |-> "text/html; charset=utf-8+xml", ok |-> TRUE, mt |-> "text/html", eff |-> "text/html", suf |-> "", plus |-> TRUE],
  [s |-> "text/html; q=0.9", ok |-> TRUE, mt |-> "text/html", eff |-> "text/html", suf |-> "", plus |-> FALSE],
  [s |-> "text/plain", ok |-> TRUE, mt |-> "text/plain", eff |-> "text/plain", suf |-> "", plus |-> FALSE],
  [s |-> "text/plain+json", ok |-> TRUE, mt |-> "text/plain+json", eff |-> "text/plain+json", suf |-> "+json", plus |-> TRUE],
  [s |-> "text/plain+xml", ok |-> TRUE, mt |-> "text/plain+xml", eff |-> "text/plain+xml", suf |-> "+xml", plus |-> TRUE],
  [s |-> "text/plain;", ok |-> TRUE, mt |-> "text/plain", eff |-> "text/plain", suf |-> "", plus |-> FALSE],
  [s |-> "text/plain; charset=utf-8", ok |-> TRUE, mt |-> "text/plain", eff |-> "text/plain", suf |-> "", plus |-> FALSE],
  [s |-> "text/plain; charset=utf-8; format=flowed", ok |-> TRUE, mt |-> "text/plain", eff |-> "text/plain", suf |-> "", plus |-> FALSE],
  [s |-> "text/xml", ok |-> TRUE, mt |-> "text/xml", eff |-> "text/xml", suf |-> "", plus |-> FALSE]
}

FactFn == FactFunction(FactTable)

CodecTable == {[fmt |-> f, kind |-> k, can |-> CanEncode(f, k)] : f \in Formats, k \in Kinds}

InitResponse ==
  /\ mode = "response" /\ rct = "" /\ sender = "" /\ sfmt = ""
  /\ des \in DesignedPool /\ pre \in PresetPool /\ kind \in Kinds
  \* a designed content type makes Accept irrelevant: two Accept values are enough there unless Rich
  /\ \/ accP = FALSE /\ acc = ""
     \/ accP = TRUE /\ acc \in (IF des # "" /\ ~Rich THEN {"application/xml"} ELSE AcceptPool)
InitRequest ==
  /\ mode = "request" /\ accP = FALSE /\ acc = "" /\ des = "" /\ pre = ""
  /\ rct \in RequestPool /\ kind \in Kinds
  /\ \/ sender = "goa" /\ sfmt = "json"
     \/ sender = "std" /\ sfmt \in Formats
  /\ RequestEnvelope
Init == /\ facts = FactFn /\ Idle /\ (InitResponse \/ InitRequest)
Spec == Init /\ [][Next]_vars

Case == IF mode = "response"
        THEN [mode |-> mode, accP |-> accP, acc |-> acc, des |-> des, pre |-> pre, kind |-> kind]
        ELSE [mode |-> mode, rct |-> rct, sender |-> sender, sfmt |-> sfmt, kind |-> kind]

\* Gen mode: every terminal state once, as case + predicted observation
Emit == pc = "done" => PrintT(<<"VEC", ToJson([case |-> Case, pred |-> Obs])>>)
\* the environment facts as vectors for the driver to re-check (printed from one initial state only)
EmitFacts == (pc = "start" /\ mode = "request" /\ rct = "" /\ sender = "goa" /\ kind = "struct") =>
   /\ \A f \in FactTable : PrintT(<<"VEC", ToJson([case |-> [mode |-> "fact"] @@ f])>>)
   /\ \A c \in CodecTable : PrintT(<<"VEC", ToJson([case |-> [mode |-> "codec"] @@ c])>>)

\* every media type the parser returns for a table entry is itself in the table
FactsComplete == \A f \in FactTable : f.mt = "" \/ HasFact(f.mt)
=============================================================================
