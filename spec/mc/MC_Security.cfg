SPECIFICATION Spec
CONSTANTS
  Deviations = {}
INVARIANTS RunIffSatisfied UnsecuredNoCallback OnlyDesignedSchemes DenyReturnsCallbackError CredentialFromDesignedPlace GrantIsWitnessed Inheritance
CHECK_DEADLOCK FALSE
