SPECIFICATION Spec
CONSTANTS
  Deviations = {}
  Spaces = {"flow", "cred"}
  MaxOdd = 2
INVARIANTS RunIffSatisfied UnsecuredNoCallback OnlyDesignedSchemes DenyReturnsCallbackError CredentialFromDesignedPlace NoCredentialNeverRuns RefusedOnlyWithoutCredential ClientWireForm GrantIsWitnessed Inheritance
CHECK_DEADLOCK FALSE
