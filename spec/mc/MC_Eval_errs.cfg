SPECIFICATION Spec
CONSTANTS
  Roots = {"a", "b"}
  MaxExprs = 1
  MaxLate = 0
  Space = "errs"
  Canonical = FALSE
  Deviations = {}
INVARIANTS  TypeOK RunReturns PhaseBarrier DepOrder SetOrder CycleReported NoFinalizeAfterError AllPhasesForAll CompleteBeforeError ErrorsTogether OkMeansNoErrors LateRootsRun
PROPERTY Terminates
CHECK_DEADLOCK FALSE
