SPECIFICATION Spec
CONSTANTS
  MaxChunks = 3
  MaxChunk = 3
  Deviations = {}
INVARIANTS OneePipe NeverMoreThanWritten CountIsWhatWasConsumed EOFOnlyAfterEverything
PROPERTIES NoLeak
CHECK_DEADLOCK FALSE
