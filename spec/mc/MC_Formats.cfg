SPECIFICATION Spec
CONSTANTS
  Deviations = {}
  Formats = {"date", "date-time", "rfc1123", "ipv4", "ipv6", "cidr", "mac", "uuid", "hostname", "email", "uri", "regexp", "json"}
  Rich = FALSE
INVARIANTS VerdictIsIntended MalformedRejected IPRelation CorruptionBites
CHECK_DEADLOCK FALSE
