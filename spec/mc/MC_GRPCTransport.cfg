SPECIFICATION Spec
CONSTANTS
  Deviations = {}
  Family = "req"
INVARIANTS AcceptedOnlyIfNumbered WellFormed NotInMessage LocationPartition DeliveredIntact InvokedIffValid ResultIntact ResponsePartition ClientRejectsInvalidResult
CHECK_DEADLOCK FALSE
