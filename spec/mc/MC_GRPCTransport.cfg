SPECIFICATION Spec
CONSTANTS
  Deviations = {}
  Family = "req"
  PathDepth = 2
INVARIANTS AcceptedOnlyIfNumbered WellFormed NotInMessage LocationPartition DeliveredIntact InvokedIffValid ResultIntact ResponsePartition ClientRejectsInvalidResult
CHECK_DEADLOCK FALSE
