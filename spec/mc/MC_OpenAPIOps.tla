---------------------------- MODULE MC_OpenAPIOps ----------------------------
(* Model checking, vector emission and evaluation of given designs for OpenAPIOps (C07) and the schema
   agreement part (C14). *)
EXTENDS OpenAPIOps, Json

LOCAL SX == INSTANCE SequencesExt
SetSeq(S) == SX!SetToSeq(S)
OpJ(o) == [method |-> o.method, path |-> o.path, params |-> SetSeq(o.params), hasBody |-> o.hasBody, statuses |-> SetSeq(o.statuses),
           security |-> SetSeq({[schemes |-> SetSeq(r.schemes), scopes |-> SetSeq(r.scopes)] : r \in o.security})]
OpsJ(S) == SetSeq({OpJ(o) : o \in S})
DesignJ(d) == [d EXCEPT !.devs = SetSeq(@)]

\* (G) one vector per enumerated design
EmitDesign == opc = "done" => PrintT(<<"VEC", ToJson([design |-> DesignJ(design)])>>)

\* evaluation of given designs under given deviation sets: what the oracle expects, what the mechanisms produce
Cases == ndJsonDeserialize("designs.ndjson")
DevSets == ndJsonDeserialize("devsets.ndjson")
EvalInit ==
  /\ \E k \in 1..Len(Cases) : \E j \in 1..Len(DevSets) :
       design = [Cases[k].design EXCEPT !.devs = RangeQ(DevSets[j].devs)]
  /\ opc = "server" /\ mounts = {} /\ srvOps = {} /\ doc3 = {} /\ doc2 = {} /\ verdicts = NoVerdicts
  /\ Init /\ xflag = "none"
EvalSpec == EvalInit /\ [][ONext]_<<ovars, hvars>>
EffJ(d) == [i \in DOMAIN d.svcs |-> [j \in DOMAIN d.svcs[i].meths |-> EffSec(d, d.svcs[i], d.svcs[i].meths[j])]]
EmitEval == opc = "done" =>
  PrintT(<<"VEC", ToJson([
     id |-> design.id, devs |-> SetSeq(design.devs), eff |-> EffJ(design),
     expected |-> [mounts |-> SetSeq(ExpectedMounts(design)), ops |-> OpsJ(ExpectedOps(design)), fileops |-> OpsJ(ExpectedFileOps(design)),
                   doc3 |-> OpsJ({Proj3(o) : o \in {x \in ExpectedOps(design) \cup ExpectedFileOps(design) : Expressible3(x)}}),
                   doc2 |-> OpsJ({Proj2(o) : o \in {x \in ExpectedOps(design) \cup ExpectedFileOps(design) : Expressible2(x)}})],
     mech |-> [mounts |-> SetSeq(mounts), srvOps |-> OpsJ(srvOps), doc3 |-> OpsJ(doc3), doc2 |-> OpsJ(doc2), verdicts |-> verdicts] ])>>)

\* ---- part 2 (C14)
\* (G) one vector per exchange of the request family, raw requests included
ValJ(S) == SetSeq(S)
EmitX == pc = "done" =>
  PrintT(<<"VEC", ToJson([fam |-> Family, pa |-> cfg.pa, ra |-> cfg.ra, tagged |-> cfg.tagged, pv |-> pv, rv |-> rv, flag |-> xflag,
     raw |-> (xflag \notin {"none", "rd"} \/ \E i \in PIdx : Malformed(pv[i])),
     allow |-> [mustInvoke |-> Satisfies(cfg.pa, pv) /\ xflag \in {"none", "rd"} /\ (\A i \in PIdx : ~Malformed(pv[i])),
                mustReject |-> Violates(cfg.pa, pv) \/ (\E i \in PIdx : Malformed(pv[i])) \/ xflag \in OmitFlags,
                cMustAccept |-> Satisfies(cfg.ra, rv)],
     mech |-> [invoked |-> invoked, status |-> status, sreq |-> ValJ(SchemaReqVerdicts),
               sresp |-> IF invoked /\ status \in {200, 201} THEN ValJ(SchemaRespVerdicts) ELSE <<>>] ])>>)
\* the method shapes alone (to draw a sample before enumerating the exchanges), and the sample read back
XShapeInit == /\ \E a \in (IF Family = "req" THEN XAttrsAll ELSE {x \in XAttrsAll : ResAttrOK(x)}) :
                   cfg = [pa |-> <<a>>, ra |-> <<>>, tagged |-> FALSE, devs |-> {}]
              /\ pv = <<>> /\ rv = <<>> /\ xflag = "none" /\ Idle /\ OInit
XShapeSpec == XShapeInit /\ [][FALSE]_<<hvars, ovars>>
EmitShape == PrintT(<<"VEC", ToJson([a |-> cfg.pa[1]])>>)
SampleFile == ndJsonDeserialize("shapes.ndjson")
MCXAttrs == {SampleFile[i].a : i \in 1..Len(SampleFile)}
\* evaluation of given exchanges under given deviation sets
XCases == ndJsonDeserialize("xcases.ndjson")
XEvalInit ==
  /\ \E k \in 1..Len(XCases) : \E j \in 1..Len(DevSets) :
       /\ cfg = [pa |-> XCases[k].pa, ra |-> XCases[k].ra, tagged |-> XCases[k].tagged, devs |-> RangeQ(DevSets[j].devs)]
       /\ pv = XCases[k].pv /\ rv = XCases[k].rv /\ xflag = XCases[k].flag
  /\ pc = "encode" /\ wire = <<>> /\ delivered = <<>> /\ invoked = FALSE /\ status = 0 /\ errname = "none"
  /\ rwire = <<>> /\ returned = <<>> /\ cerr = "none" /\ OInit
XEvalSpec == XEvalInit /\ [][XNext /\ UNCHANGED ovars]_<<hvars, ovars>>
EmitXEval == pc = "done" =>
  PrintT(<<"VEC", ToJson([pa |-> cfg.pa, ra |-> cfg.ra, tagged |-> cfg.tagged, pv |-> pv, rv |-> rv, flag |-> xflag, devs |-> SetSeq(cfg.devs),
     mech |-> [invoked |-> invoked, status |-> status, sreq |-> ValJ(SchemaReqVerdicts),
               sresp |-> IF invoked /\ status \in {200, 201} THEN ValJ(SchemaRespVerdicts) ELSE <<>>] ])>>)
=============================================================================
