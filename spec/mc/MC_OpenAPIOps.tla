---------------------------- MODULE MC_OpenAPIOps ----------------------------
(* Model checking, vector emission and evaluation of given designs for OpenAPIOps (C07) and the schema
   agreement part (C14). *)
EXTENDS OpenAPIOps, Json

SetSeq(S) == LET RECURSIVE go(_) go(T) == IF T = {} THEN <<>> ELSE LET x == CHOOSE y \in T : TRUE IN <<x>> \o go(T \ {x}) IN go(S)
OpJ(o) == [method |-> o.method, path |-> o.path, params |-> SetSeq(o.params), hasBody |-> o.hasBody, statuses |-> SetSeq(o.statuses),
           security |-> SetSeq({[schemes |-> SetSeq(r.schemes), scopes |-> SetSeq(r.scopes)] : r \in o.security})]
OpsJ(S) == SetSeq({OpJ(o) : o \in S})
DesignJ(d) == [d EXCEPT !.devs = SetSeq(@)]

\* (G) one vector per enumerated design
EmitDesign == opc = "done" => PrintT(<<"VEC", ToJson([design |-> DesignJ(design)])>>)

\* evaluation of given designs under given deviation sets: what the oracle expects, what the mechanisms produce
Cases == ndJsonDeserialize("designs.ndjson")
DevSets == ndJsonDeserialize("devsets.ndjson")
EvalInit ==
  /\ \E k \in 1..Len(Cases) : \E j \in 1..Len(DevSets) :
       design = [Cases[k].design EXCEPT !.devs = RangeQ(DevSets[j].devs)]
  /\ opc = "server" /\ mounts = {} /\ srvOps = {} /\ doc3 = {} /\ doc2 = {} /\ verdicts = NoVerdicts
  /\ Init
EvalSpec == EvalInit /\ [][ONext]_<<ovars, vars>>
EffJ(d) == [i \in DOMAIN d.svcs |-> [j \in DOMAIN d.svcs[i].meths |-> EffSec(d, d.svcs[i], d.svcs[i].meths[j])]]
EmitEval == opc = "done" =>
  PrintT(<<"VEC", ToJson([
     id |-> design.id, devs |-> SetSeq(design.devs), eff |-> EffJ(design),
     expected |-> [mounts |-> SetSeq(ExpectedMounts(design)), ops |-> OpsJ(ExpectedOps(design)), fileops |-> OpsJ(ExpectedFileOps(design)),
                   doc3 |-> OpsJ({Proj3(o) : o \in {x \in ExpectedOps(design) \cup ExpectedFileOps(design) : Expressible3(x)}}),
                   doc2 |-> OpsJ({Proj2(o) : o \in {x \in ExpectedOps(design) \cup ExpectedFileOps(design) : Expressible2(x)}})],
     mech |-> [mounts |-> SetSeq(mounts), srvOps |-> OpsJ(srvOps), doc3 |-> OpsJ(doc3), doc2 |-> OpsJ(doc2), verdicts |-> verdicts] ])>>)
=============================================================================
