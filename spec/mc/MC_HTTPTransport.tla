------------------------- MODULE MC_HTTPTransport -------------------------
EXTENDS HTTPTransport, Json
SetSeq(S) == LET RECURSIVE go(_) go(T) == IF T = {} THEN <<>> ELSE LET x == CHOOSE y \in T : TRUE IN <<x>> \o go(T \ {x}) IN go(S)
\* one vector per terminal state: the case, what the oracle allows, what the mechanism (under Deviations) did
Emit == pc = "done" =>
  PrintT(<<"VEC", ToJson([
     fam |-> Family, pa |-> cfg.pa, ra |-> cfg.ra, tagged |-> cfg.tagged, tags |-> TagLayout, pv |-> pv, rv |-> rv,
     allow |-> [ where |-> [i \in PIdx |-> SetSeq(AllowedWhere(cfg.pa[i], pv[i]))],
                 delivered |-> [i \in PIdx |-> SetSeq(AllowedDelivered(cfg.pa[i], pv[i]))],
                 mustInvoke |-> Satisfies(cfg.pa, pv),
                 mustReject |-> Violates(cfg.pa, pv),
                 errnames |-> SetSeq(ViolationNames(cfg.pa, pv)),
                 rwhere |-> [j \in RIdx |-> SetSeq(AllowedWhere(cfg.ra[j], rv[j]))],
                 returned |-> [j \in RIdx |-> SetSeq(AllowedDelivered(cfg.ra[j], rv[j]))],
                 status |-> DesignedStatus,
                 cMustAccept |-> Satisfies(cfg.ra, rv),
                 cMustReject |-> Violates(cfg.ra, rv) ],
     mech |-> [ where |-> [i \in PIdx |-> wire[i].loc], delivered |-> delivered, invoked |-> invoked,
                status |-> status, errname |-> errname, returned |-> returned, cerr |-> cerr ] ])>>)
===========================================================================
