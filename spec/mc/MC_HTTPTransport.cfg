SPECIFICATION Spec
CONSTANTS
  Deviations = {}
  NPA = 1
  NRA = 1
  Family = "req"
INVARIANTS LocationPartition DeliveredIntact InvokedIffValid RejectedIs4xxNamingRule ResultIntact StatusAsDesigned ResponsePartition ClientRejectsInvalidResult
CHECK_DEADLOCK FALSE
