--------------------------- MODULE MC_TypeGraph ---------------------------
EXTENDS TypeGraph, Json
(* Gen mode: every finished hash case and every state of a mutation script is one vector.
   Graphs, transformations and steps are printed as positional arrays (checks/c13.py names the
   fields again): the record form is five times the size. *)
EncA(a) == <<a.name, a.ref.p, a.ref.n, a.desc, a.req, a.val, a.meta, a.tags.name, a.tags.type, a.x, a.enum, a.al>>
EncN(nd) == <<nd.kind, nd.name, [k \in 1..Len(nd.attrs) |-> EncA(nd.attrs[k])]>>
EncG(gg) == <<gg.root.p, gg.root.n, [i \in 1..Len(gg.nodes) |-> EncN(gg.nodes[i])]>>
EncT(t) == <<t.op, t.node, t.idx, t.perm, t.tags.name, t.tags.type, t.to>>
EncJ(j) == <<EncT(j.t), j.eq, j.exp, j.st, j.du, j.mu, j.c, j.na, j.dr>>
EncS(s) == <<s.side, s.op, s.node, s.idx>>
Emit ==
  /\ (pc = "done" /\ mode = "hash") =>
        PrintT(<<"VEC", ToJson([mode |-> "hash", g |-> EncG(WithTags(g, deco)),
                                trs |-> [i \in 1..Len(obs) |-> EncJ(obs[i])]])>>)
  /\ (pc = "mut") =>
        PrintT(<<"VEC", ToJson([mode |-> "dup", g |-> EncG(WithMeta(g, deco)),
                                script |-> [i \in 1..Len(script) |-> EncS(script[i])],
                                unch |-> unch, canO |-> EncG(Canon(hp, ro)), canC |-> EncG(Canon(hp, rc))])>>)
===========================================================================
