------------------------ MODULE Cases_HTTPTransport ------------------------
(* Runs HTTPTransport on explicitly given cases (multi-attribute methods assembled by the orchestrator from
   TLC-enumerated single attribute shapes and values, seeded): the oracle sets and the mechanism outcome are
   computed by the same operators and invariants as in the exhaustive runs. *)
EXTENDS MC_HTTPTransport
GivenCases == ndJsonDeserialize("cases.ndjson")
CasesInit ==
  /\ \E k \in 1..Len(GivenCases) :
       /\ cfg = [pa |-> GivenCases[k].pa, ra |-> GivenCases[k].ra, tagged |-> GivenCases[k].tagged, tags |-> GivenCases[k].tags, devs |-> Deviations]
       /\ pv = GivenCases[k].pv /\ rv = GivenCases[k].rv
  /\ pc = "encode" /\ wire = <<>> /\ delivered = <<>> /\ invoked = FALSE /\ status = 0 /\ errname = "none"
  /\ rwire = <<>> /\ returned = <<>> /\ cerr = "none"
CasesSpec == CasesInit /\ [][Next]_vars
=============================================================================
