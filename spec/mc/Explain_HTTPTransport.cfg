SPECIFICATION ExplainSpec
CONSTANTS
  Deviations = {}
  NPA = 1
  NRA = 1
  Family = "req"
INVARIANTS EmitExplain
CHECK_DEADLOCK FALSE
