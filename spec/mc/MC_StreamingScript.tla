------------------------- MODULE MC_StreamingScript -------------------------
(* Script generation for Streaming: the behaviour so far is kept as a history variable, so that the last state of
   a behaviour carries the whole script (the sequence of steps with the outcome the model predicts for each).
   Used exhaustively with a small MaxSteps (every short script) and in simulation mode (long scripts). *)
EXTENDS Streaming, Json
CONSTANT MaxSteps
VARIABLE hist
ScriptInit == Init /\ hist = <<>>
ScriptNext == Len(hist) < MaxSteps /\ Next /\ hist' = Append(hist, last')
ScriptSpec == ScriptInit /\ [][ScriptNext]_<<vars, hist>>
Emit == (Len(hist) = MaxSteps \/ ~ENABLED Next) =>
          PrintT(<<"VEC", ToJson([m |-> cfg, steps |-> hist])>>)
=============================================================================
