------------------------------ MODULE MC_Formats ------------------------------
EXTENDS Formats, Json
\* predictions under each single known deviation that changes the verdicts (usually none)
AltSeq == SelectSeq([i \in 1..Len(KnownDeviations) |->
                        [dev |-> KnownDeviations[i], pred |-> Verdicts(fmt, inst, corr, toks, {KnownDeviations[i]})]],
                    LAMBDA r : r.pred # Verdicts(fmt, inst, corr, toks, {}))
Emit == Done => PrintT(<<"VEC", ToJson([fmt |-> fmt, inst |-> inst, corr |-> corr, toks |-> toks,
                                        wf |-> WF(fmt, inst), pred |-> verdict, alt |-> AltSeq])>>)
===============================================================================
