----------------------------- MODULE MC_Mux -----------------------------
EXTENDS Mux, Json
\* what the driver needs of one registration step (the pattern as the text given to Handle)
OpOut(o) == [op |-> o.op, id |-> o.id, probe |-> o.probe, method |-> o.method, segs |-> o.segs,
             pattern |-> IF o.op = "handle" THEN PatString(GoaPat(o.segs)) ELSE ""]
PlanOut == [i \in 1..Len(plan) |-> OpOut(plan[i])]
Pred == [obs |-> obs, useres |-> useres, url |-> url]
\* Gen mode: print every terminal state once (case + predicted observation)
Emit == pc = "done" => PrintT(<<"VEC", ToJson([plan |-> PlanOut, req |-> req, pred |-> Pred])>>)

\* cases given in a file (replay, classification of mismatching cases under a deviation, cases rebuilt from traces)
CaseFile == JsonDeserialize("cases.json")
OpIn(o) == IF o.op = "use" THEN UseOp(o.id, o.probe) ELSE HandleOp(o.id, o.method, o.segs)
PlanIn(c) == [i \in 1..Len(c.plan) |-> OpIn(c.plan[i])]
\* the request carries the index of its case (an extra field of `src` the specification never reads)
ReqIn(c, i) == [method |-> c.req.method, wire |-> c.req.wire, accept |-> c.req.accept,
                src |-> [hid |-> c.req.src.hid, vals |-> c.req.src.vals, enc |-> c.req.src.enc, ci |-> i]]
FileInit == /\ \E i \in 1..Len(CaseFile) : plan = PlanIn(CaseFile[i]) /\ req = ReqIn(CaseFile[i], i)
            /\ MachineInit
FileSpec == FileInit /\ [][Next]_vars
EmitFile == pc = "done" =>
  PrintT(<<"VEC", ToJson([ci |-> req.src.ci, pred |-> Pred])>>)
===========================================================================
