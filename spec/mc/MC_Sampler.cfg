SPECIFICATION Spec
CONSTANTS
  N = 3
  Calls = 3
  SampleSize = 2
  Deviations = {}
INVARIANTS BlockIsCritical NoRaceOnStart RateNeverZero
PROPERTIES Termination
CHECK_DEADLOCK FALSE
