SPECIFICATION CasesSpec
CONSTANTS
  Deviations = {}
  NPA = 2
  NRA = 1
  Family = "req"
INVARIANTS Emit LocationPartition DeliveredIntact InvokedIffValid RejectedIs4xxNamingRule ResultIntact StatusAsDesigned ResponsePartition ClientRejectsInvalidResult
CHECK_DEADLOCK FALSE
