SPECIFICATION Spec
CONSTANTS
  Procs = {1, 2, 3}
  Patterns = {6, 43}
  Values = {2, 8}
  Deviations = {}
INVARIANTS LockOK NoConflict LockDiscipline CacheSound VerdictIsMatch
PROPERTIES Termination CacheGrows
CHECK_DEADLOCK FALSE
