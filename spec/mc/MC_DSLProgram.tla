--------------------------- MODULE MC_DSLProgram ---------------------------
EXTENDS DSLProgram, Json
\* Gen mode: every finished program is printed once, with what the specification says about it:
\* the dangling references it contains (evaluation must then reject it) and the crash classes it falls in.
SetToSeq(S) == LET RECURSIVE go(_)
                   go(T) == IF T = {} THEN <<>> ELSE LET x == CHOOSE y \in T : TRUE IN <<x>> \o go(T \ {x})
               IN go(S)
Emit == pc = "ready" =>
  PrintT(<<"VEC", ToJson([nodes |-> nodes, dangling |-> SetToSeq(DanglingKinds(nodes)),
                          triggers |-> SetToSeq(TriggeredCrashes(nodes)), misplaced |-> nmis, grpc |-> HasGRPC(nodes)])>>)
=============================================================================
