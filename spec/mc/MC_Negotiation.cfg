SPECIFICATION Spec
CONSTANTS
  Rich = FALSE
  Deviations = {}
  Tolerated = {}
INVARIANTS TypeOK EncoderNeverNil FormatAgrees RoundTrip FallbackJSON Unsupported415 FactsComplete
CHECK_DEADLOCK FALSE
