SPECIFICATION Spec
CONSTANTS
  Mode = "rid"
  MaxHops = 4
  MaxReq = 1
  LimitMax = 3
  MaxDiscards = 2
  MaxScript = 3
  Deviations = {}
INVARIANTS TypeOK RequestIDNonEmpty TrustAndTruncate MetadataCarriesRequestID KeepsInboundTrace ParentIsCallerSpan FreshSpan OneTracePerChain UntracedIsClean Sampling0And100Exact AdaptiveWarmup ForwardMatchesContext CaptureMatchesWritten LogCarriesRequestID
CHECK_DEADLOCK FALSE
