SPECIFICATION Spec
CONSTANTS
  Mode = "rid"
  MaxHops = 4
  MaxReq = 1
  LimitMax = 3
  MaxDiscards = 3
  Layouts = {"plain", "rev", "dup"}
  OptHops = 2
  MaxScript = 3
  Deviations = {}
INVARIANTS TypeOK RequestIDNonEmpty TrustAndTruncate MetadataCarriesRequestID KeepsInboundTrace ParentIsCallerSpan FreshSpan OneTracePerChain UntracedIsClean Sampling0And100Exact DiscardAnyPattern AdaptiveWarmup ForwardMatchesContext CaptureMatchesWritten LogCarriesRequestID
CHECK_DEADLOCK FALSE
