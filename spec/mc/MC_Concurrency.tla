---------------------------- MODULE MC_Concurrency ----------------------------
EXTENDS Concurrency, Json
\* one vector per complete schedule (request triples, replay mode, order of the gate passes).  The arrivals are
\* not part of a schedule: in the serial mode they are determined by the passes, in the free mode the harness
\* cannot see them.  Without a deviation the final state is a function of (req, serial, hist): one vector each.
Emit == AllDone =>
  PrintT(<<"VEC", ToJson([kinds |-> kind, codecs |-> [p \in Procs |-> req[p].codec], bodies |-> [p \in Procs |-> req[p].body],
                           serial |-> serial, order |-> hist])>>)
\* safety does not depend on the order in which the state was reached: the larger runs look at states without the schedule
NoHist == <<req, serial, pos, at, lastErr, pool, ref, seen, resp>>
\* the codec family: every content type class x body kind, answered with an echo wherever the body can be decoded
CodecFamily == \A p \in Procs : (req[p].kind = "invalid") <=> DecodeFails(req[p].codec, req[p].body)
===============================================================================
