---------------------------- MODULE MC_Concurrency ----------------------------
EXTENDS Concurrency, Json
\* passes only (Finish steps are not scheduled): emit once per complete schedule
Emit == (AllDone /\ \A p \in Procs : pos[p] = Len(Gates(kind[p]))) =>
  PrintT(<<"VEC", ToJson([kinds |-> kind, order |-> hist])>>)
\* different Finish orders reach the same final state: one vector per schedule
===============================================================================
