SPECIFICATION OSpec
CONSTANTS
  Deviations = {}
  NPA = 1
  NRA = 1
  Family = "req"
  OFamily = "paths"
  NSvc = 1
  NMeth = 1
INVARIANTS MountEqualsExpected Doc3EqualsMount Doc2EqualsMount JsonEqualsYaml DocsValid FoldIsExpected
CHECK_DEADLOCK FALSE
