SPECIFICATION Spec
CONSTANTS
  N = 3
  Rich = TRUE
  Deviations = {}
INVARIANTS Associative NilIdentity MessagesInOrder FlagsConjunction FirstSpecificName HistoryExactlyOnceUnchanged CausesReachable StatusTotal
CHECK_DEADLOCK FALSE
