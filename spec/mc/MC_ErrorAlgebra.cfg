SPECIFICATION Spec
CONSTANTS
  N = 3
  Rich = TRUE
  Family = "all"
  Deviations = {}
INVARIANTS Associative NilIdentity MessagesInOrder FlagsConjunction FirstSpecificName HistoryExactlyOnceUnchanged CausesReachable TopDecides StatusTotal
CHECK_DEADLOCK FALSE
