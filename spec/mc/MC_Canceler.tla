---------------------------- MODULE MC_Canceler ----------------------------
EXTENDS Canceler
\* model values would do; strings keep the cfg simple
StreamSet == {"s1", "s2", "s3"}
PatientSet == {"s1", "s2"}
=============================================================================
