----------------------------- MODULE MC_Security -----------------------------
EXTENDS Security, Json
SetSeq(S) == LET RECURSIVE go(_) go(T) == IF T = {} THEN <<>> ELSE LET x == CHOOSE y \in T : TRUE IN <<x>> \o go(T \ {x}) IN go(S)
\* one vector per finished run: the configuration, the model's run and - for the judge - the oracle's terms
\* (allowed: the credentials Reading admits per used scheme; refuse: MustRefuse; wire: what the sender puts on the wire)
Emit == pc = "done" =>
  PrintT(<<"VEC", ToJson([cfg |-> cfg, eff |-> Eff, outcome |-> outcome,
                          pred |-> [invoked |-> invoked, calls |-> calls, err |-> err, used |-> SetSeq(Used), rejected |-> rejected,
                                    refuse |-> MustRefuse, wire |-> wire,
                                    allowed |-> [s \in Schemes |-> IF s \in Used THEN SetSeq(Reading(s)) ELSE <<>>]]])>>)
\* keep the level product small: API level takes few values in the exhaustive runs
Small == cfg.api.idx \in {0, 1, 6} /\ cfg.svc.idx \in {0, 2, 7}
=============================================================================
