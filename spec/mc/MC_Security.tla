----------------------------- MODULE MC_Security -----------------------------
EXTENDS Security, Json
SetSeq(S) == LET RECURSIVE go(_) go(T) == IF T = {} THEN <<>> ELSE LET x == CHOOSE y \in T : TRUE IN <<x>> \o go(T \ {x}) IN go(S)
Emit == pc = "done" =>
  PrintT(<<"VEC", ToJson([cfg |-> cfg, eff |-> Eff, outcome |-> outcome,
                          pred |-> [invoked |-> invoked, calls |-> calls, err |-> err, used |-> SetSeq(UsedSchemes(Eff))]])>>)
\* keep the level product small: API level takes few values in the exhaustive runs
Small == cfg.api.idx \in {0, 1, 6} /\ cfg.svc.idx \in {0, 2, 7}
=============================================================================
