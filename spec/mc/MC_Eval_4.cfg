SPECIFICATION Spec
CONSTANTS
  Roots = {"a", "b", "c", "d"}
  MaxExprs = 1
  MaxLate = 0
  Space = "plain"
  Canonical = FALSE
  Deviations = {}
INVARIANTS  TypeOK PhaseBarrier DepOrder SetOrder CycleReported NoFinalizeAfterError AllPhasesForAll CompleteBeforeError ErrorsTogether OkMeansNoErrors LateRootsRun

CHECK_DEADLOCK FALSE
