SPECIFICATION ClassifySpec
CONSTANTS
  Deviations = {}
  Fns <- AllFns
  Pools = "full"
  MaxCalls = 1000
  MinCalls = 1
  MaxDepth = 1000
  MaxMisplaced = 1000
  MaxTop = 1000
  MinKids = 0
  Once = {}
  SpineDeep = FALSE
INVARIANTS EmitClass
CHECK_DEADLOCK FALSE
