--------------------------- MODULE MC_PatternCache ---------------------------
(* Exhaustive model checking of PatternCache (no history variable: see
   MC_PatternCacheSched for schedule generation). *)
EXTENDS PatternCache
==============================================================================
