SPECIFICATION Spec
CONSTANTS
  Roots = {"a", "b", "c"}
  MaxExprs = 2
  MaxLate = 2
  Space = "late"
  Canonical = FALSE
  Deviations = {}
INVARIANTS  TypeOK RunReturns PhaseBarrier DepOrder SetOrder CycleReported NoFinalizeAfterError AllPhasesForAll CompleteBeforeError ErrorsTogether OkMeansNoErrors LateRootsRun
PROPERTY Terminates
CHECK_DEADLOCK FALSE
