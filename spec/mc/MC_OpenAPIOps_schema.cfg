SPECIFICATION XSpec
CONSTANTS
  Deviations = {}
  NPA = 1
  NRA = 1
  Family = "req"
  OFamily = "paths"
  NSvc = 1
  NMeth = 1
INVARIANTS SchemaAgreesWithServer SchemaAgreesWithDesign ProducedResponseConforms
CHECK_DEADLOCK FALSE
