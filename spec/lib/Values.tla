------------------------------- MODULE Values -------------------------------
(* Abstract values, attribute shapes and validation rules shared by the transport
   specifications (C02, C03, C04, C14).  A value is a record [cls, n, s, cn]:
     cls  value class = the attribute's leaf kind, or "absent"
     n    the number / rune length the rules look at
     s    a shape: for strings what matters on the wire (plain, empty, slash, pcthex, space, uni),
          for ints "plain" | "neg" | "big", for floats "plain" | "half"
     cn   container size when the leaf sits in an array / map (nest # direct): the container
          holds cn entries, all valid, the last one being the leaf described by (n, s)
   TLC never needs concrete bytes: the harness concretises a class deterministically and abstracts
   what it observes with the same function. *)
EXTENDS Integers, Sequences, FiniteSets

Lo == 2
Hi == 5

Kinds == {"int", "uint", "float", "bool", "string", "bytes"}
\* sized numbers (HTTP transport envelope; the gRPC specification has its own width dimension)
WideKinds == {"int32", "int64", "uint32", "uint64", "float32"}
\* an untyped attribute (Any): travels in a JSON body; its value is a number, a string or a boolean
AllKinds == Kinds \cup WideKinds \cup {"any"}
Locs == {"path", "query", "header", "cookie", "body"}
Modes == {"required", "optional", "default"}
\* HTTP transport envelope only: "treq" = optional in the payload / result type (a pointer field), made Required inside the
\* HTTP mapping alone (Params(func(){ Required(..) }) / Headers(func(){ Required(..) })): the transport demands what the type
\* leaves open.  (Modes itself is shared with the gRPC envelope and stays as it is.)
\* ... and where a Default is DECLARED when the attribute's type is an alias (Type("Score", Int, func(){ Default(10) })): on the
\* attribute ("default"), on the alias type only ("tdefault"), on both ("bdefault": the attribute's default wins).  The three
\* are one promise - an unset attribute arrives as the declared default (DefaultOf) - and must behave alike.
DefModes == {"default", "tdefault", "bdefault"}
HasDefault(a) == a.mode \in DefModes
HModes == Modes \cup {"treq", "tdefault", "bdefault"}
MustBePresent(a) == a.mode \in {"required", "treq"}
Rules == {"none", "min", "max", "xmin", "xmax", "minlen", "maxlen", "enum", "pattern", "format", "cminlen", "cmaxlen",
          \* two rules on one attribute: both inclusive / both exclusive bounds, both lengths
          "range", "xrange", "lenrange"}
Nests == {"direct", "elem", "mapkey", "mapval", "alias", "nested",
          \* two levels: a user type holding a map / list whose keys / elements carry the rule, and a list / map of user types
          "nested_mapkey", "nested_elem", "elem_nested", "mapval_nested",
          \* a map whose key type is a user type (alias) that appears nowhere else
          "mapkey_alias",
          \* the payload / result IS the value (Payload(Int), Payload(ArrayOf(String)), Result(MapOf(String, Int)) ...)
          "whole", "whole_elem", "whole_mapval",
          \* a map of lists (query string only: qa1[k]=v1&qa1[k]=v2)
          "mapval_elem",
          \* a map attribute whose entries ARE the query string (MapParams("a1")): k1=v1&k2=v2
          "mapparams",
          \* a NAMED collection: the attribute's type is a user type that IS a list / a map (Type("M1A1List", ArrayOf(K))) - it must
          \* behave exactly like the inline ArrayOf / MapOf wherever that is allowed
          "alias_elem", "alias_mapval",
          \* a user type holding an attribute of alias type that carries a default (the mode says where it is declared)
          "nested_alias"}
NamedCollNests == {"alias_elem", "alias_mapval"}
Whole == {"whole", "whole_elem", "whole_mapval"}
Deep == {"nested_mapkey", "nested_elem", "elem_nested", "mapval_nested", "mapkey_alias"}
StrShapes == {"plain", "slash", "pcthex", "space", "uni", "plus"}

V(c, k, sh, sz) == [cls |-> c, n |-> k, s |-> sh, cn |-> sz]
Absent == V("absent", 0, "plain", 0)

\* ---------------------------------------------------------------- attribute shapes
Attr(k, l, m, r, ns) == [kind |-> k, loc |-> l, mode |-> m, rule |-> r, nest |-> ns]

NumKinds == {"int", "uint", "float"} \cup WideKinds
DefaultedContainerNests == {"elem", "mapkey", "mapval", "alias_elem", "alias_mapval"}
QueryMapNests == {"mapkey", "mapval", "mapval_elem", "whole_mapval", "mapparams", "alias_mapval"}
FloatKinds == {"float", "float32"}
WFAttr(a) ==
  \* (the payload attribute behind a path parameter may be optional or carry a default: the generated decoder still hands a
  \*  plain value to the payload constructor, the payload field is a pointer)
  /\ (a.loc = "path" => a.mode \in Modes /\ a.kind \in {"int", "uint", "float", "bool", "string", "bytes"} \cup WideKinds /\ a.nest \in {"direct", "alias", "whole"})
  /\ (a.kind \in WideKinds => a.nest \in {"direct", "alias", "elem", "mapval", "whole"} /\ a.rule \in {"none", "min", "xmax"})
  \* (Bytes outside a body: the raw bytes are the text of the parameter / header / cookie - base64 only in JSON bodies)
  /\ (a.loc = "cookie" => a.nest \in {"direct", "alias"})
  /\ (a.loc \in {"query", "header"} => a.nest \in {"direct", "alias", "elem", "alias_elem", "whole", "whole_elem"} \cup QueryMapNests)
  \* (named collections: where the inline form goes - lists in body / query / header, maps in body / query; a few rules only)
  /\ (a.nest \in NamedCollNests => a.loc \in {"body", "query", "header"} /\ a.kind \notin WideKinds \cup {"any", "bytes"} /\ a.rule \in {"none", "min", "pattern", "cminlen"}
                                    \* NOT with a Default yet: on the unchanged tree a Default on an attribute of a named list / map type is a
                                    \* finding of its own (body: an explicitly empty value is left out and comes back as the default, MinLength
                                    \* is applied to the unset value before the default is filled in; query / header: the default is never filled
                                    \* in) - reported, to be modelled as a named deviation before the mode is enumerated
                                    /\ a.mode \in {"required", "optional"})
  \* map-valued query parameters: qa1[key]=value; the whole payload as the query string (MapParams()): key=value
  /\ (a.nest \in QueryMapNests => a.loc \in {"query", "body"} /\ (a.nest \in {"mapval_elem", "mapparams"} => a.loc = "query" /\ a.kind \notin WideKinds \cup {"any"}))
  /\ (a.nest \in {"nested", "nested_alias"} \cup Deep => a.loc = "body")
  /\ (a.nest = "nested_alias" => a.mode \in DefModes /\ a.kind \notin WideKinds /\ a.rule \in {"none", "min", "pattern"})
  \* (a default declared on the alias type: alias nestings only; a few rules - with and without a validation on the alias)
  /\ (a.mode \in {"tdefault", "bdefault"} => a.nest \in {"alias", "nested_alias"} /\ a.rule \in {"none", "min", "minlen", "pattern", "enum"})
  /\ (a.mode = "treq" => a.loc \in {"query", "header"} /\ a.nest \in {"direct", "alias"})
  /\ (a.nest \in {"mapkey", "nested_mapkey", "mapkey_alias"} => a.kind \in {"string", "int"})
  /\ (a.kind = "bytes" => a.nest \in {"direct", "whole"} /\ (a.nest = "whole" => a.loc = "body") /\ a.rule \in {"none", "minlen", "maxlen", "lenrange"})
  /\ (a.kind = "bool" => a.rule = "none")
  /\ (a.kind = "any" => a.loc = "body" /\ a.nest \in {"direct", "elem", "mapval", "nested"} /\ a.rule = "none" /\ ~HasDefault(a))
  /\ (a.rule \in {"min", "max", "xmin", "xmax", "range", "xrange"} => a.kind \in NumKinds)
  /\ (a.rule \in {"minlen", "maxlen", "lenrange"} => a.kind \in {"string", "bytes"})
  /\ (a.rule \in {"pattern", "format"} => a.kind = "string")
  /\ (a.rule = "enum" => a.kind \in {"int", "string"})
  /\ (a.rule \in {"cminlen", "cmaxlen"} => a.nest \in {"elem", "mapval", "whole_elem", "whole_mapval"} \cup NamedCollNests)
  \* a Default on a list / map attribute (DefaultedContainerNests): in bodies only
  /\ (HasDefault(a) => (a.nest \in {"direct", "alias", "nested_alias"} \/ (a.nest \in DefaultedContainerNests /\ a.loc = "body")
                            \/ (a.nest \in {"elem", "alias_elem"} /\ a.loc \in {"query", "header"})) /\ a.kind # "bytes")       \* (a Default on a list parameter / header)
  /\ (a.nest \in Whole => a.mode = "required" /\ a.kind \notin {"any"} /\ a.loc \in {"body", "query", "header", "path"})
  /\ (a.nest \in {"whole_elem", "whole_mapval"} /\ a.loc # "body" => (a.nest = "whole_elem" /\ a.loc \in {"query", "header"}) \/ (a.nest = "whole_mapval" /\ a.loc = "query"))
  \* a required non-pointer field cannot be told from its zero value on the Go side; nothing to exclude,
  \* the value space below only offers "absent" where Go can express it
AttrSpace == {a \in [kind: AllKinds, loc: Locs, mode: HModes, rule: Rules, nest: Nests] : WFAttr(a)}

\* ---------------------------------------------------------------- value space
\* numeric reading of a value for the range rules, doubled so that halves stay integers
Num2(v) == CASE v.cls \in FloatKinds /\ v.s = "half" -> 2 * v.n + 1
             [] v.s = "neg" -> 0 - 2 * v.n
             [] v.s = "big" -> 2000000
             [] OTHER -> 2 * v.n

LeafVals(kind) ==
  CASE kind = "int"    -> {V("int", k, "plain", 1) : k \in {0, Lo - 1, Lo, Lo + 1, Hi - 1, Hi, Hi + 1}}
                          \cup {V("int", 3, "neg", 1), V("int", 9, "big", 1)}
    [] kind = "uint"   -> {V("uint", k, "plain", 1) : k \in {0, Lo - 1, Lo, Lo + 1, Hi, Hi + 1}} \cup {V("uint", 9, "big", 1)}
    [] kind = "float"  -> {V("float", k, sh, 1) : k \in {0, Lo - 1, Lo, Hi - 1, Hi}, sh \in {"plain", "half"}}
    [] kind \in {"int32", "int64"} -> {V(kind, k, "plain", 1) : k \in {0, Lo - 1, Lo, Hi, Hi + 1}} \cup {V(kind, 3, "neg", 1)}
                                        \cup (IF kind = "int64" THEN {V(kind, 9, "big", 1)} ELSE {})
    [] kind \in {"uint32", "uint64"} -> {V(kind, k, "plain", 1) : k \in {0, Lo - 1, Lo, Hi, Hi + 1}}
                                        \cup (IF kind = "uint64" THEN {V(kind, 9, "big", 1)} ELSE {})
    [] kind = "float32" -> {V(kind, k, sh, 1) : k \in {0, Lo - 1, Lo, Hi}, sh \in {"plain", "half"}}
    [] kind = "any"    -> {V("any", 3, "half", 1), V("any", 9, "big", 1), V("any", 3, "plain", 1), V("any", 1, "bool", 1)}   \* 3.5, 2^53+1, "abc", true
    [] kind = "bool"   -> {V("bool", k, "plain", 1) : k \in {0, 1}}
    [] kind = "string" -> {V("string", k, sh, 1) : k \in {Lo - 1, Lo, 3, Hi, Hi + 1}, sh \in StrShapes}
                          \cup {V("string", 0, "empty", 1), V("string", 9, "huge", 1)}        \* huge: 70 000 letters (body only)
    [] kind = "bytes"  -> {V("bytes", k, "plain", 1) : k \in {0, Lo - 1, Lo, Hi, Hi + 1}} \cup {V("bytes", 9, "huge", 1)}

\* a string shape needs room for its special characters (pcthex needs 3 runes; a space sits in the middle
\* because HTTP itself strips leading and trailing blanks of header values)
ShapeFits(v) == v.cls # "string" \/ ((v.s \in {"pcthex", "space"} => v.n >= 3) /\ (v.s \in {"slash", "uni", "plus"} => v.n >= 1))

\* one unremarkable element value for the container-length rules (3 where the kind has it, else Lo; both booleans)
ElemPick(leaf) == (IF \E w \in leaf : w.n = 3 /\ w.s = "plain" THEN {w \in leaf : w.n = 3 /\ w.s = "plain"} ELSE {w \in leaf : w.n = Lo /\ w.s = "plain"})
                  \cup {w \in leaf : w.cls = "bool"}
\* values an attribute can take: the leaf values, with a container size where the leaf is nested
ValsOf(a) ==
  LET leaf == {v \in LeafVals(a.kind) : ShapeFits(v)} IN
  IF a.nest \in {"direct", "alias", "nested", "nested_alias", "whole"} THEN leaf
  ELSE IF a.nest \in Deep THEN {[v EXCEPT !.cn = c] : v \in leaf, c \in (IF a.nest \in {"nested_mapkey", "mapkey_alias"} THEN {1} ELSE {1, 2})}
  ELSE IF a.rule \in {"cminlen", "cmaxlen"}
       THEN {[v EXCEPT !.cn = c] : v \in ElemPick(leaf), c \in {0, Lo - 1, Lo, Hi, Hi + 1}}
       ELSE {[v EXCEPT !.cn = c] : v \in leaf, c \in (IF a.nest = "mapkey" THEN {1} ELSE {1, 2})}

\* can the caller leave the attribute unset?  (Go: pointer field, nil slice or nil map)
CanBeAbsent(a) == a.mode \in {"optional", "treq"} \/ (a.mode = "required" /\ a.nest \in {"elem", "mapkey", "mapval", "mapval_elem", "mapparams", "nested"} \cup Deep \cup NamedCollNests) \/ (a.mode = "required" /\ a.kind = "bytes")
                  \/ (HasDefault(a) /\ a.nest \in DefaultedContainerNests)       \* (a nil slice / map: the default stands in)
\* an empty string cannot be a path segment, and neither can "nothing": the envelope does not send one (the caller of a
\* method with a path parameter supplies it, whatever the payload type says)
ParamBytesVals(a) == IF a.kind = "bytes" /\ a.loc # "body"
                      THEN {w \in {V("bytes", k, sh, 1) : k \in {Lo - 1, Lo, 3, Hi, Hi + 1}, sh \in StrShapes \ {"plain"}} :
                              (w.s \in {"pcthex", "space"} => w.n >= 3) /\ (w.s = "uni" => w.n >= 2)}          \* (n counts BYTES here: e-acute is two)
                      ELSE {}
PayloadVals(a) == {v \in ValsOf(a) \cup ParamBytesVals(a) : ~(a.loc = "path" /\ (v.s = "empty" \/ (v.cls = "bytes" /\ v.n = 0))) /\ (v.s = "huge" => a.loc = "body")} \cup (IF CanBeAbsent(a) /\ a.nest \notin Whole /\ a.loc # "path" THEN {Absent} ELSE {})
                  \* a defaulted list / map that the caller sets to EMPTY on purpose (not nil): whatever the rule
                  \cup (IF HasDefault(a) /\ a.nest \in DefaultedContainerNests THEN {V(a.kind, 3, "plain", 0)} ELSE {})
\* what no generated encoder writes but any peer can send: the (last) object of a nested user type lacks its required inner
\* attribute (s = "nofield"; cn entries, the last one broken).  HTTPTransport enumerates these on top of PayloadVals.
NoFieldNests == {"nested", "elem_nested", "mapval_nested"}
NoFieldVals(a) == IF a.nest \in NoFieldNests /\ a.loc = "body" /\ a.kind # "any" THEN {V(a.kind, 0, "nofield", IF a.nest = "nested" THEN 1 ELSE 2)} ELSE {}

LeafDefault(a) == CASE a.kind = "int" -> V("int", 3, "plain", 1)
                  [] a.kind = "uint" -> V("uint", 3, "plain", 1)
                  [] a.kind = "float" -> V("float", 3, "half", 1)
                  [] a.kind \in {"int32", "int64", "uint32", "uint64"} -> V(a.kind, 3, "plain", 1)
                  [] a.kind = "float32" -> V("float32", 3, "half", 1)
                  [] a.kind = "bool" -> V("bool", 1, "plain", 1)
                  [] a.kind = "string" -> V("string", 3, "plain", 1)
                  [] OTHER -> Absent
\* the default of a list / map of values is two unremarkable entries, the last one the kind's usual default leaf (two, so that it
\* satisfies a MinLength(Lo) on the collection); of a map keyed by the leaf: one entry
DefaultOf(a) == IF a.nest \in {"elem", "mapval"} \cup NamedCollNests /\ LeafDefault(a) # Absent THEN [LeafDefault(a) EXCEPT !.cn = 2] ELSE LeafDefault(a)
IsZero(v) == v # Absent /\ v.n = 0 /\ v.s \in {"plain", "empty"} /\ v.cls # "bytes"

\* ---------------------------------------------------------------- the rules (the oracle of C04)
PatOK(v) == v.s \in {"plain", "huge"}                      \* the pattern is ^[a-z]+$ ; every other shape contains a non-letter
FmtOK(v) == v.s = "plain" /\ v.n = 3           \* the format is "ipv4"-like: only the canonical 3-rune plain token renders as a valid instance
EnumOK(v) == v.s = "plain" /\ v.n \in {Lo, 3, Hi}
RuleOK(a, v) ==
  CASE a.rule = "min"     -> Num2(v) >= 2 * Lo
    [] a.rule = "max"     -> Num2(v) <= 2 * Hi
    [] a.rule = "xmin"    -> Num2(v) > 2 * Lo
    [] a.rule = "xmax"    -> Num2(v) < 2 * Hi
    [] a.rule = "range"   -> Num2(v) >= 2 * Lo /\ Num2(v) <= 2 * Hi
    [] a.rule = "xrange"  -> Num2(v) > 2 * Lo /\ Num2(v) < 2 * Hi
    [] a.rule = "lenrange" -> v.n >= Lo /\ v.n <= Hi
    [] a.rule = "minlen"  -> v.n >= Lo
    [] a.rule = "maxlen"  -> v.n <= Hi
    [] a.rule = "enum"    -> EnumOK(v)
    [] a.rule = "pattern" -> PatOK(v)
    [] a.rule = "format"  -> FmtOK(v)
    [] a.rule = "cminlen" -> v.cn >= Lo
    [] a.rule = "cmaxlen" -> v.cn <= Hi
    [] OTHER -> TRUE
\* the error name a violation of the rule is reported under
RuleErr(a) ==
  CASE a.rule \in {"min", "max", "xmin", "xmax", "range", "xrange"} -> "invalid_range"
    [] a.rule \in {"minlen", "maxlen", "cminlen", "cmaxlen", "lenrange"} -> "invalid_length"
    [] a.rule = "enum" -> "invalid_enum_value"
    [] a.rule = "pattern" -> "invalid_pattern"
    [] a.rule = "format" -> "invalid_format"
    [] OTHER -> "none"

\* does a value satisfy the attribute?  Constraints apply to present values; required means present.
\* A container with no entries has no leaf to check (cn = 0).
LeafChecked(a, v) == a.rule \in {"cminlen", "cmaxlen"} \/ a.nest \in {"direct", "alias", "nested", "nested_alias", "whole"} \/ v.cn >= 1
ValidAttr(a, v) == IF v = Absent THEN ~MustBePresent(a) ELSE IF v.s = "nofield" THEN FALSE ELSE (LeafChecked(a, v) => RuleOK(a, v))
ViolationOf(a, v) == IF v = Absent \/ v.s = "nofield" THEN "missing_field" ELSE RuleErr(a)
\* every attribute shape of the envelope has at least one present value (a shape that could only be left unset would
\* be enumerated, generated, compiled - and never exercised)
ASSUME NoVacuousShape == \A a \in AttrSpace : PayloadVals(a) \ {Absent} # {}
=========================================================================
