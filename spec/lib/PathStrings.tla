---------------------------- MODULE PathStrings ----------------------------
(* Strings of the C16 router model: abstract characters, percent-escaping on the
   client side, what Go's net/url derives from a request target (Path, RawPath),
   and url.PathUnescape.

   A *value* is a sequence of abstract characters.  A *wire path* is a sequence of
   tokens: Lit(c) = the character sent as is, Esc(c) = the character sent as its
   %XX escape (upper-case hex of its UTF-8 bytes).  Every token is a tagged pair
   (TLC cannot compare a string with a tuple). *)
EXTENDS Integers, Sequences, FiniteSets

\* "x","z": letters that are not hex digits; "4","1": hex digits (so "%","4","1" spells the
\* escape of 'A'); "U": a non-ASCII rune (e-acute); ";" is escaped by url.PathEscape but not by
\* Go's canonical path escaping; "/" likewise.
Sigma == {"x", "z", "4", "1", "/", "%", " ", "+", "U", ";"}
Hex == {"4", "1"}
Lit(c) == <<"l", c>>
Esc(c) == <<"e", c>>

MustEscape == {"%", " ", "U"}                 \* cannot travel literally in a request target
PathEscaped == MustEscape \cup {"/", ";"}     \* what url.PathEscape escapes (it keeps "+")

Values(n) == UNION {[1..k -> Sigma] : k \in 0..n}

\* client-side escaping of one value:
\*   "min" = url.PathEscape;  "all" = every character escaped (legal over-escaping);
\*   "seg" = like "min" but "/" is sent as a real separator (only meaningful for catch-alls)
Escape(v, enc) == [i \in 1..Len(v) |->
    IF enc = "all" THEN Esc(v[i])
    ELSE IF enc = "seg" THEN (IF v[i] \in MustEscape \cup {";"} THEN Esc(v[i]) ELSE Lit(v[i]))
    ELSE IF v[i] \in PathEscaped THEN Esc(v[i]) ELSE Lit(v[i])]

\* net/url: URL.Path is the decoded target; RawPath is kept only when the received
\* escaping differs from the canonical escaping of the decoded path (url.setPath)
Decode(w) == [i \in 1..Len(w) |-> w[i][2]]
Canon(p) == [i \in 1..Len(p) |-> IF p[i] \in MustEscape THEN Esc(p[i]) ELSE Lit(p[i])]
RawKept(w) == Canon(Decode(w)) # w
AllLit(p) == [i \in 1..Len(p) |-> Lit(p[i])]

\* url.PathUnescape on an already decoded string: "%" + two hex digits is read as an escape
\* (the decoded byte is the token "#<h1><h2>"), any other "%" is an error
RECURSIVE Unesc(_)
Unesc(s) ==
  IF s = <<>> THEN <<>>
  ELSE IF Head(s) = "%"
       THEN IF Len(s) >= 3 /\ s[2] \in Hex /\ s[3] \in Hex
            THEN <<"#" \o s[2] \o s[3]>> \o Unesc(SubSeq(s, 4, Len(s)))
            ELSE <<"ERR">>
       ELSE <<Head(s)>> \o Unesc(Tail(s))
\* goa's unescape helper: the input is returned unchanged when PathUnescape fails
GoaUnescape(s) == LET u == Unesc(s) IN IF \E i \in 1..Len(u) : u[i] = "ERR" THEN s ELSE u

\* segments of a token string that starts with a literal slash; only *literal* slashes separate
Indices(s) == [i \in 1..Len(s) |-> i]
SlashIdx(ts) == SelectSeq(Indices(ts), LAMBDA i : ts[i] = Lit("/"))
Split(ts) == LET P == SlashIdx(ts) IN
  [k \in 1..Len(P) |-> SubSeq(ts, P[k] + 1, (IF k < Len(P) THEN P[k + 1] ELSE Len(ts) + 1) - 1)]
RECURSIVE JoinFrom(_, _)
JoinFrom(S, n) == IF n > Len(S) THEN <<>>
                  ELSE IF n = Len(S) THEN S[n]
                  ELSE S[n] \o <<Lit("/")>> \o JoinFrom(S, n + 1)

RECURSIVE CatS(_)
CatS(s) == IF s = <<>> THEN "" ELSE Head(s) \o CatS(Tail(s))
=============================================================================
