--------------------------- MODULE PatternCache ---------------------------
(* goa.ValidatePattern (pkg/validation.go): a process-wide map from pattern
   text to compiled regexp behind an RWMutex, filled by a double-checked
   read / compile / write sequence.  Property C17, second half.

   Two layers:
   1. Regular expressions.  A small grammar (literals, classes, '.', * + ?,
      concatenation, alternation, anchors) as abstract syntax trees with their
      text (PatText) and their meaning (Search: does the pattern match somewhere
      in a value), written from the definition of regular languages.  Patterns
      and values are referred to by their index in PatternDefs / ValueDefs;
      the trees themselves never enter the state.
   2. The cache algorithm (PlusCal).  One process = one call of
      ValidatePattern(p, v).  Labels are the steps of the Go function; the
      labels RLock / RUnlock / Compile / WLock..WriteEnd / WUnlock / Match are
      where the `verif` hook points sit.  `acc` says which kind of access to
      the map a process is in the middle of, so a data race is a state
      predicate (NoConflict).

   Deviations (none is present in the code as found):
     cache.write_without_lock     map written without taking the write lock
     cache.read_without_lock      map read without taking the read lock
     cache.last_compiled_reused   the compiled regexp travels through a shared
                                  variable between Compile and Write (cache
                                  poisoning under interleaving) *)
EXTENDS Integers, Sequences, FiniteSets, TLC
CONSTANTS Procs,        \* set of positive integers: one per call
          Patterns,     \* set of indices into PatternDefs
          Values,       \* set of indices into ValueDefs
          Deviations

---------------------------------------------------------------------------
\* Layer 1: regular expressions
Alphabet == <<"a", "b", "c">>

Atoms == << <<"lit", "a">>, <<"lit", "b">>, <<"cls", <<"a", "b">>, FALSE>>, <<"cls", <<"a">>, TRUE>>, <<"any">> >>
NA == Len(Atoms)
UnOps == <<"id", "star", "plus", "opt">>
Unary == [i \in 1..(4 * NA) |->
            LET a == Atoms[((i - 1) % NA) + 1]
                k == UnOps[((i - 1) \div NA) + 1]
            IN IF k = "id" THEN a ELSE <<k, a>>]
\* operands of concatenations: a b [ab] . a* b+ [^a]* [ab]? .*
SubU == <<Unary[1], Unary[2], Unary[3], Unary[5], Unary[6], Unary[12], Unary[9], Unary[18], Unary[10]>>
NU == Len(SubU)
Cats == Unary \o [i \in 1..(NU * NU) |-> <<"cat", SubU[((i - 1) \div NU) + 1], SubU[((i - 1) % NU) + 1]>>]
\* operands of alternations: a  b  a*  ab  ba  a+b  [^a]  b?
SubC == <<Cats[1], Cats[2], Cats[6], Cats[4 * NA + 2], Cats[4 * NA + NU + 1], Cats[16], Cats[4], Cats[17]>>
NC == Len(SubC)
Alts == [i \in 1..(NC * NC) |-> <<"alt", SubC[((i - 1) \div NC) + 1], SubC[((i - 1) % NC) + 1]>>]
Bodies == Cats \o Alts
NB == Len(Bodies)
\* pattern i: anchors by i mod 4, body by i div 4
PatternDefs == [i \in 1..(4 * NB) |->
                  [s |-> ((i - 1) % 4) \in {1, 3}, e |-> ((i - 1) % 4) \in {2, 3}, body |-> Bodies[((i - 1) \div 4) + 1]]]
NPatterns == 4 * NB

\* values: every string over the alphabet up to length 3, as sequences of characters
ValueDefs ==
  <<<<>>>> \o [i \in 1..3 |-> <<Alphabet[i]>>]
  \o [i \in 1..9 |-> <<Alphabet[((i - 1) \div 3) + 1], Alphabet[((i - 1) % 3) + 1]>>]
  \o [i \in 1..27 |-> <<Alphabet[((i - 1) \div 9) + 1], Alphabet[(((i - 1) \div 3) % 3) + 1], Alphabet[((i - 1) % 3) + 1]>>]
NValues == Len(ValueDefs)

InSeq(x, sq) == \E i \in 1..Len(sq) : sq[i] = x
RECURSIVE Cat(_)
Cat(sq) == IF sq = <<>> THEN "" ELSE sq[1] \o Cat(Tail(sq))

\* text of a tree (concrete RE2 syntax)
RECURSIVE Txt(_)
Txt(r) ==
  CASE r[1] = "lit"  -> r[2]
    [] r[1] = "cls"  -> "[" \o (IF r[3] THEN "^" ELSE "") \o Cat(r[2]) \o "]"
    [] r[1] = "any"  -> "."
    [] r[1] = "star" -> Txt(r[2]) \o "*"
    [] r[1] = "plus" -> Txt(r[2]) \o "+"
    [] r[1] = "opt"  -> Txt(r[2]) \o "?"
    [] r[1] = "cat"  -> Txt(r[2]) \o Txt(r[3])
    [] r[1] = "alt"  -> "(?:" \o Txt(r[2]) \o "|" \o Txt(r[3]) \o ")"
PatText(i) == LET d == PatternDefs[i] IN (IF d.s THEN "^" ELSE "") \o Txt(d.body) \o (IF d.e THEN "$" ELSE "")

\* meaning: r matches the whole of s
RECURSIVE FM(_, _)
FM(r, s) ==
  LET n == Len(s) IN
  CASE r[1] = "lit"  -> n = 1 /\ s[1] = r[2]
    [] r[1] = "cls"  -> n = 1 /\ (InSeq(s[1], r[2]) # r[3])
    [] r[1] = "any"  -> n = 1
    [] r[1] = "opt"  -> n = 0 \/ FM(r[2], s)
    [] r[1] = "star" -> n = 0 \/ \E k \in 1..n : FM(r[2], SubSeq(s, 1, k)) /\ FM(r, SubSeq(s, k + 1, n))
    [] r[1] = "plus" -> \E k \in 1..n : FM(r[2], SubSeq(s, 1, k)) /\ (k = n \/ FM(r, SubSeq(s, k + 1, n)))
    [] r[1] = "cat"  -> \E k \in 0..n : FM(r[2], SubSeq(s, 1, k)) /\ FM(r[3], SubSeq(s, k + 1, n))
    [] r[1] = "alt"  -> FM(r[2], s) \/ FM(r[3], s)
\* unanchored search, as regexp.MatchString does: some substring matches (anchors pin its ends)
Search(d, s) ==
  \E i \in 1..(Len(s) + 1) : \E j \in (i - 1)..Len(s) :
     /\ d.s => i = 1
     /\ d.e => j = Len(s)
     /\ FM(d.body, SubSeq(s, i, j))
Matches(pi, vi) == Search(PatternDefs[pi], ValueDefs[vi])

---------------------------------------------------------------------------
\* Layer 2: the cache

(* --algorithm PatternCache
variables cache = [k \in {} |-> 0],          \* pattern -> the pattern its regexp was compiled from
          readers = {}, writer = 0,          \* RWMutex state (0 = no writer)
          acc = [q \in Procs |-> "none"],    \* map access in progress: "r" | "w" | "none"
          last = 0,                          \* only used by cache.last_compiled_reused
          verdict = [q \in Procs |-> "none"];

define
  LockOK == /\ writer # 0 => readers = {}
            /\ writer \in Procs \cup {0} /\ readers \subseteq Procs
  \* a data race on the map: two processes inside an access at once, one of them writing
  NoConflict == \A x, y \in Procs : x # y /\ acc[x] # "none" /\ acc[y] # "none" => (acc[x] = "r" /\ acc[y] = "r")
  \* the map is written only under the write lock and read only under a lock
  LockDiscipline == \A x \in Procs : /\ acc[x] = "w" => writer = x
                                     /\ acc[x] = "r" => (x \in readers \/ writer = x)
  CacheSound == \A k \in DOMAIN cache : cache[k] = k
end define;

fair process g \in Procs
variables p \in Patterns, v \in Values, r = 0, hit = FALSE;
begin
  RLock:   if "cache.read_without_lock" \notin Deviations then
             await writer = 0; readers := readers \cup {self};
           end if;
  Read:    acc[self] := "r";
  ReadEnd: r := IF p \in DOMAIN cache THEN cache[p] ELSE 0;
           hit := p \in DOMAIN cache;
           acc[self] := "none";
  RUnlock: readers := readers \ {self};
  Miss:    if ~hit then
  Compile:   r := p; last := p;
  WLock:     if "cache.write_without_lock" \notin Deviations then
               await writer = 0 /\ readers = {}; writer := self;
             end if;
  Write:     acc[self] := "w";
  WriteEnd:  cache := [x \in DOMAIN cache \cup {p} |->
                         IF x = p THEN (IF "cache.last_compiled_reused" \in Deviations THEN last ELSE r) ELSE cache[x]];
             acc[self] := "none";
  WUnlock:   if writer = self then writer := 0; end if;
           end if;
  Match:   verdict[self] := IF Matches(r, v) THEN "ok" ELSE "err";
end process;
end algorithm; *)
\* BEGIN TRANSLATION
VARIABLES pc, cache, readers, writer, acc, last, verdict

(* define statement *)
LockOK == /\ writer # 0 => readers = {}
          /\ writer \in Procs \cup {0} /\ readers \subseteq Procs

NoConflict == \A x, y \in Procs : x # y /\ acc[x] # "none" /\ acc[y] # "none" => (acc[x] = "r" /\ acc[y] = "r")

LockDiscipline == \A x \in Procs : /\ acc[x] = "w" => writer = x
                                   /\ acc[x] = "r" => (x \in readers \/ writer = x)
CacheSound == \A k \in DOMAIN cache : cache[k] = k

VARIABLES p, v, r, hit

vars == << pc, cache, readers, writer, acc, last, verdict, p, v, r, hit >>

ProcSet == (Procs)

Init == (* Global variables *)
        /\ cache = [k \in {} |-> 0]
        /\ readers = {}
        /\ writer = 0
        /\ acc = [q \in Procs |-> "none"]
        /\ last = 0
        /\ verdict = [q \in Procs |-> "none"]
        (* Process g *)
        /\ p \in [Procs -> Patterns]
        /\ v \in [Procs -> Values]
        /\ r = [self \in Procs |-> 0]
        /\ hit = [self \in Procs |-> FALSE]
        /\ pc = [self \in ProcSet |-> "RLock"]

RLock(self) == /\ pc[self] = "RLock"
               /\ IF "cache.read_without_lock" \notin Deviations
                     THEN /\ writer = 0
                          /\ readers' = (readers \cup {self})
                     ELSE /\ TRUE
                          /\ UNCHANGED readers
               /\ pc' = [pc EXCEPT ![self] = "Read"]
               /\ UNCHANGED << cache, writer, acc, last, verdict, p, v, r, hit >>

Read(self) == /\ pc[self] = "Read"
              /\ acc' = [acc EXCEPT ![self] = "r"]
              /\ pc' = [pc EXCEPT ![self] = "ReadEnd"]
              /\ UNCHANGED << cache, readers, writer, last, verdict, p, v, r, 
                              hit >>

ReadEnd(self) == /\ pc[self] = "ReadEnd"
                 /\ r' = [r EXCEPT ![self] = IF p[self] \in DOMAIN cache THEN cache[p[self]] ELSE 0]
                 /\ hit' = [hit EXCEPT ![self] = p[self] \in DOMAIN cache]
                 /\ acc' = [acc EXCEPT ![self] = "none"]
                 /\ pc' = [pc EXCEPT ![self] = "RUnlock"]
                 /\ UNCHANGED << cache, readers, writer, last, verdict, p, v >>

RUnlock(self) == /\ pc[self] = "RUnlock"
                 /\ readers' = readers \ {self}
                 /\ pc' = [pc EXCEPT ![self] = "Miss"]
                 /\ UNCHANGED << cache, writer, acc, last, verdict, p, v, r, 
                                 hit >>

Miss(self) == /\ pc[self] = "Miss"
              /\ IF ~hit[self]
                    THEN /\ pc' = [pc EXCEPT ![self] = "Compile"]
                    ELSE /\ pc' = [pc EXCEPT ![self] = "Match"]
              /\ UNCHANGED << cache, readers, writer, acc, last, verdict, p, v, 
                              r, hit >>

Compile(self) == /\ pc[self] = "Compile"
                 /\ r' = [r EXCEPT ![self] = p[self]]
                 /\ last' = p[self]
                 /\ pc' = [pc EXCEPT ![self] = "WLock"]
                 /\ UNCHANGED << cache, readers, writer, acc, verdict, p, v, 
                                 hit >>

WLock(self) == /\ pc[self] = "WLock"
               /\ IF "cache.write_without_lock" \notin Deviations
                     THEN /\ writer = 0 /\ readers = {}
                          /\ writer' = self
                     ELSE /\ TRUE
                          /\ UNCHANGED writer
               /\ pc' = [pc EXCEPT ![self] = "Write"]
               /\ UNCHANGED << cache, readers, acc, last, verdict, p, v, r, 
                               hit >>

Write(self) == /\ pc[self] = "Write"
               /\ acc' = [acc EXCEPT ![self] = "w"]
               /\ pc' = [pc EXCEPT ![self] = "WriteEnd"]
               /\ UNCHANGED << cache, readers, writer, last, verdict, p, v, r, 
                               hit >>

WriteEnd(self) == /\ pc[self] = "WriteEnd"
                  /\ cache' = [x \in DOMAIN cache \cup {p[self]} |->
                                 IF x = p[self] THEN (IF "cache.last_compiled_reused" \in Deviations THEN last ELSE r[self]) ELSE cache[x]]
                  /\ acc' = [acc EXCEPT ![self] = "none"]
                  /\ pc' = [pc EXCEPT ![self] = "WUnlock"]
                  /\ UNCHANGED << readers, writer, last, verdict, p, v, r, hit >>

WUnlock(self) == /\ pc[self] = "WUnlock"
                 /\ IF writer = self
                       THEN /\ writer' = 0
                       ELSE /\ TRUE
                            /\ UNCHANGED writer
                 /\ pc' = [pc EXCEPT ![self] = "Match"]
                 /\ UNCHANGED << cache, readers, acc, last, verdict, p, v, r, 
                                 hit >>

Match(self) == /\ pc[self] = "Match"
               /\ verdict' = [verdict EXCEPT ![self] = IF Matches(r[self], v[self]) THEN "ok" ELSE "err"]
               /\ pc' = [pc EXCEPT ![self] = "Done"]
               /\ UNCHANGED << cache, readers, writer, acc, last, p, v, r, hit >>

g(self) == RLock(self) \/ Read(self) \/ ReadEnd(self) \/ RUnlock(self)
              \/ Miss(self) \/ Compile(self) \/ WLock(self) \/ Write(self)
              \/ WriteEnd(self) \/ WUnlock(self) \/ Match(self)

(* Allow infinite stuttering to prevent deadlock on termination. *)
Terminating == /\ \A self \in ProcSet: pc[self] = "Done"
               /\ UNCHANGED vars

Next == (\E self \in Procs: g(self))
           \/ Terminating

Spec == /\ Init /\ [][Next]_vars
        /\ \A self \in Procs : WF_vars(g(self))

Termination == <>(\A self \in ProcSet: pc[self] = "Done")

\* END TRANSLATION

\* the verdict of every call is the meaning of its own pattern on its own value, whatever happened before or meanwhile
VerdictIsMatch == \A q \in Procs : pc[q] = "Done" => (verdict[q] = "ok" <=> Matches(p[q], v[q]))
\* a call that found its pattern in the cache does not compile; entries are never removed or replaced by another pattern's regexp
CacheGrows == [][DOMAIN cache \subseteq DOMAIN cache' /\ \A k \in DOMAIN cache : cache'[k] = cache[k] \/ "cache.last_compiled_reused" \in Deviations]_vars
AllDone == \A q \in Procs : pc[q] = "Done"
=============================================================================
