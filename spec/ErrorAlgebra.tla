--------------------------- MODULE ErrorAlgebra ---------------------------
(* goa.MergeErrors as an algebra over abstract errors, plus the default mappings
   error flags -> HTTP status (http.ErrorResponse.StatusCode) and -> gRPC code
   (grpc.EncodeError), plus the gRPC encode/decode round trip.  Property C18.

   A *leaf* is an error as the caller built it:
     svc      goa.PermanentError(name, msg) & friends (a *ServiceError, no cause)
     svcf     a ServiceError carrying a Field (MissingFieldError ...)
     nsvc     goa.NewServiceError(cause, name, flags): a ServiceError with a cause
     plain    an error that is not a ServiceError (converted on merge: name "error", fault)
     wrapped  fmt.Errorf("w: %w", svc|nsvc)   (errors.As finds the inner ServiceError)
     nil
   Leaf i carries message i (a number standing for the text of its message).

   The CAUSE dimension: what an nsvc (or the ServiceError inside a wrapped leaf) wraps, and what a
   plain leaf is:
     none     no cause (svc, svcf)
     plain    errors.New(msg)
     gst      status.Error(code, msg)                       a gRPC status error
     gstw     fmt.Errorf("w: %w", status.Error(code, msg))  gRPC status reachable through Unwrap
     gsti     a caller's own error type with a GRPCStatus() method
     gstn     the same type whose GRPCStatus() returns nil (not a gRPC status error for grpc-go)
     gstd     a gRPC status error that already carries a detail of its own (a goa ErrorResponse
              written by a downstream service: name "down", message 1000+i)
     svc      another ServiceError (name "inner")            - nsvc only
     svcg     another ServiceError whose cause is a gst      - nsvc only
   The rule (the property: "an error encoded into a gRPC status and decoded back has the same name,
   identifier, message and flags"; NewErrorResponse documents the same for HTTP): the ServiceError
   closest to the top decides name, id, message and flags, whatever it wraps; an error that holds no
   ServiceError travels as a fault named "fault" with its own text and a new id.
   As built (the statement leaves it open, the model follows the code): a gRPC status reachable by
   unwrapping keeps its *code* (status.FromError), the first one in unwrapping order = merge order
   when there are several; only without one the flags table applies.

   Pointer aliasing is modelled without a heap: a history entry SELF stands for
   "a pointer to the receiver", resolved when the value is observed.  The design
   (documentation of MergeErrors/History) snapshots the original instead; the
   named deviation "merge.history_aliases_receiver" is what the code did before
   the fix commit.

   Named deviation "grpc.detail_after_inherited": EncodeError appends the error response after the
   details the wrapped gRPC status already carries, DecodeError reads the first detail - the round
   trip of a ServiceError whose cause is a gstd gives back the downstream error. *)
EXTENDS Integers, Sequences, FiniteSets, TLC

CONSTANTS Deviations

Names == {"n1", "n2"}
FlagRec == [t: BOOLEAN, tmp: BOOLEAN, f: BOOLEAN]
F3(a, b, c) == [t |-> a, tmp |-> b, f |-> c]
PlainFlags == F3(FALSE, FALSE, TRUE)
NoFlags == F3(FALSE, FALSE, FALSE)
AllFlags == F3(TRUE, TRUE, TRUE)

\* causes.  gRPC codes: Unknown 2, DeadlineExceeded 4, NotFound 5, Internal 13, Unavailable 14
Cause(ck, code) == [ck |-> ck, code |-> code]
NoCause == Cause("none", 0)
PlainCause == Cause("plain", 0)
GstCodes == {2, 4, 5, 13, 14}                       \* the four codes of the flags table and one outside it
IsGst(c) == c.ck \in {"gst", "gstw", "gsti", "gstd", "svcg"}   \* status.FromError finds a status
\* what a ServiceError may wrap
CauseSpace == {NoCause, PlainCause} \cup {Cause("gst", c) : c \in GstCodes}
              \cup {Cause(k, 5) : k \in {"gstw", "gsti", "gstd"}}
              \cup {Cause("gstn", 0), Cause("svc", 0), Cause("svcg", 14)}
\* what an error that is not a ServiceError may be (a bare gstd is left out: nothing says whose detail
\* comes back when the error itself is no ServiceError)
BareSpace == {PlainCause} \cup {Cause("gst", c) : c \in GstCodes} \cup {Cause("gstw", 5), Cause("gsti", 5), Cause("gstn", 0)}

Leaf(k, n, fl, c) == [kind |-> k, name |-> n, flags |-> fl, cause |-> c]
NilLeaf == Leaf("nil", "-", NoFlags, NoCause)
PlainLeaf == Leaf("plain", "error", PlainFlags, PlainCause)

\* the leaf space explored exhaustively; "all" = every flag combination on plain service errors
LeafSpace(rich) ==
  {Leaf("svc", n, fl, NoCause) : n \in Names, fl \in (IF rich THEN FlagRec ELSE {NoFlags, AllFlags, F3(FALSE, TRUE, FALSE)})}
  \cup {Leaf("svcf", "n1", fl, NoCause) : fl \in {NoFlags, AllFlags}}
  \cup {Leaf("nsvc", "n2", fl, PlainCause) : fl \in {NoFlags, F3(FALSE, TRUE, FALSE)}}
  \cup {Leaf("wrapped", "n2", fl, NoCause) : fl \in {NoFlags, F3(TRUE, FALSE, TRUE)}}
  \cup {PlainLeaf, NilLeaf}
\* the second family: leaves that differ in their cause
CauseLeaves(rich) ==
  {Leaf("nsvc", "n1", NoFlags, c) :
      c \in {Cause("gst", 5), Cause("gstd", 5), Cause("svcg", 14)}
            \cup (IF rich THEN {Cause("gst", 14), Cause("gstw", 5), Cause("gsti", 5), Cause("svc", 0)} ELSE {})}
  \cup {Leaf("nsvc", "n2", F3(FALSE, TRUE, FALSE), Cause("gst", 4))}
  \cup {Leaf("plain", "error", PlainFlags, c) : c \in {Cause("gst", 5)} \cup (IF rich THEN {Cause("gst", 13), Cause("gstw", 5)} ELSE {})}
  \cup {Leaf("wrapped", "n2", NoFlags, Cause("gst", 5))}
  \cup {Leaf("svc", "n1", NoFlags, NoCause), PlainLeaf, NilLeaf}

RECURSIVE Trees(_, _)
Trees(i, j) == IF i = j THEN {<<"leaf", i>>}
               ELSE UNION {{<<"node", l, r>> : l \in Trees(i, k), r \in Trees(k + 1, j)} : k \in i..(j - 1)}

---------------------------------------------------------------------------
\* values
Nil == [nil |-> TRUE]
Entry(n, fld, m) == [name |-> n, field |-> fld, msgs |-> m]
SELF == Entry("SELF", 0, <<>>)
HasCause(lf) == lf.cause.ck # "none"
FieldOf(lf, i) == IF lf.kind = "svcf" THEN i ELSE 0          \* field "f<i>" or none

\* the value of leaf i before any merge; `same` = it is still the caller's own error value;
\* `svc` = errors.As finds a ServiceError in it; `gsts` = the gRPC statuses status.FromError can reach, in
\* unwrapping order (det # 0: the status carries its own first detail, the one of leaf det)
Val(leaves, i) ==
  LET lf == leaves[i] IN
  IF lf.kind = "nil" THEN Nil
  ELSE [nil |-> FALSE, same |-> i, svc |-> lf.kind # "plain",
        name |-> lf.name, msgs |-> <<i>>, flags |-> lf.flags,
        hist |-> <<>>, self |-> Entry(lf.name, FieldOf(lf, i), <<i>>),
        field |-> FieldOf(lf, i),
        causes |-> IF HasCause(lf) THEN {i} ELSE {},
        gsts |-> IF IsGst(lf.cause) THEN <<[code |-> lf.cause.code, det |-> IF lf.cause.ck = "gstd" THEN i ELSE 0]>> ELSE <<>>]

Hist(e) == IF e.hist # <<>> THEN e.hist ELSE <<SELF>>
Resolve(h, e) == [k \in 1..Len(h) |-> IF h[k] = SELF THEN Entry(e.name, e.field, e.msgs) ELSE h[k]]
Snapshot(h, e) == [k \in 1..Len(h) |-> IF h[k] = SELF THEN e.self ELSE h[k]]

\* goa.MergeErrors (D = the deviations in force)
MergeD(D, e, o) ==
  IF e = Nil THEN o ELSE IF o = Nil THEN e ELSE
  LET alias == "merge.history_aliases_receiver" \in D
      eh == IF alias THEN Hist(e) ELSE Snapshot(Hist(e), e)
      oh == IF alias THEN Resolve(Hist(o), o) ELSE Snapshot(Hist(o), o)
  IN [nil |-> FALSE, same |-> 0, svc |-> TRUE,                         \* asError: the result is a ServiceError
      name |-> IF e.name = "error" THEN o.name ELSE e.name,
      msgs |-> e.msgs \o o.msgs,
      flags |-> F3(e.flags.t /\ o.flags.t, e.flags.tmp /\ o.flags.tmp, e.flags.f /\ o.flags.f),
      hist |-> eh \o oh, self |-> e.self, field |-> e.field,
      causes |-> e.causes \cup o.causes,
      gsts |-> e.gsts \o o.gsts]                                       \* errors.Join(e.err, o.err)
Merge(e, o) == MergeD(Deviations, e, o)

RECURSIVE EvalD(_, _, _)
EvalD(D, leaves, t) == IF t[1] = "leaf" THEN Val(leaves, t[2]) ELSE MergeD(D, EvalD(D, leaves, t[2]), EvalD(D, leaves, t[3]))

---------------------------------------------------------------------------
\* default status mappings (transcribed from ErrorResponse.StatusCode and grpc.EncodeError)
HTTPStatus(name, fl) ==
  IF name = "unsupported_media_type" THEN 415
  ELSE IF fl.f THEN 500
  ELSE IF fl.t THEN (IF fl.tmp THEN 504 ELSE 408)
  ELSE IF fl.tmp THEN 503
  ELSE 400
GRPCCode(fl) == IF fl.tmp THEN 14 ELSE IF fl.t THEN 4 ELSE IF fl.f THEN 13 ELSE 2

\* the error on the wire.  An error response is [name, msgs, flags, id]; id is relative to the error
\* given: "same" = the id of its top ServiceError, "fresh" = a new one, "foreign" = the downstream detail's.
\* http.NewErrorResponse / grpc.NewErrorResponse: errors.As, else goa.Fault(err.Error())
Resp(v) == IF v.svc THEN [name |-> v.name, msgs |-> v.msgs, flags |-> v.flags, id |-> "same"]
           ELSE [name |-> "fault", msgs |-> v.msgs, flags |-> PlainFlags, id |-> "fresh"]
Foreign(i) == [name |-> "down", msgs |-> <<1000 + i>>, flags |-> AllFlags, id |-> "foreign"]
\* grpc.EncodeError: a status [code, details]
EncodeErrorD(D, v) ==
  LET r == Resp(v) IN
  IF v.gsts # <<>>
  THEN \* status.FromError(err) ok: code and details of the status found are kept
       LET g == v.gsts[1]
           inherited == IF g.det # 0 THEN <<Foreign(g.det)>> ELSE <<>>
       IN [code |-> g.code,
           details |-> IF "grpc.detail_after_inherited" \in D THEN inherited \o <<r>> ELSE <<r>> \o inherited]
  ELSE IF v.svc THEN [code |-> GRPCCode(v.flags), details |-> <<r>>]
  ELSE [code |-> 2, details |-> <<r>>]
\* grpc.DecodeError (first detail) then grpc.NewServiceError (field by field)
DecodeError(st) == st.details[1]
WireD(D, v) ==
  LET st == EncodeErrorD(D, v)
      h == Resp(v)
  IN [http |-> HTTPStatus(h.name, h.flags), hresp |-> h, grpc |-> st.code, gresp |-> DecodeError(st)]

\* what a caller can observe of the merged error
SetToSeq(S, n) == LET RECURSIVE go(_) go(i) == IF i > n THEN <<>> ELSE (IF i \in S THEN <<i>> ELSE <<>>) \o go(i + 1) IN go(1)
ObsD(D, leaves, t) ==
  LET e == EvalD(D, leaves, t) IN
  IF e = Nil THEN [kind |-> "nil"]
  ELSE IF e.same # 0 THEN [kind |-> "same", leaf |-> e.same, wire |-> WireD(D, e)]
  ELSE [kind |-> "merged", name |-> e.name, msgs |-> e.msgs, flags |-> e.flags,
        causes |-> SetToSeq(e.causes, Len(leaves)),
        hist |-> Resolve(e.hist, e),
        wire |-> WireD(D, e)]
Obs(leaves, t) == ObsD(Deviations, leaves, t)

\* status cases: one error alone
StatusKinds == {"svc", "plain", "wrapped"}
StatusNames == {"n1", "unsupported_media_type", "error", ""}
StatusCaseSpace == [kind: {"svc", "wrapped"}, name: StatusNames, flags: FlagRec, cause: CauseSpace]
                   \cup {[kind |-> "plain", name |-> "error", flags |-> PlainFlags, cause |-> c] : c \in BareSpace}
SLeaf(c) == Leaf(IF c.kind = "svc" THEN (IF c.cause = NoCause THEN "svc" ELSE "nsvc") ELSE c.kind, c.name, c.flags, c.cause)
StatusObsD(D, c) == WireD(D, Val(<<SLeaf(c)>>, 1))
StatusObs(c) == StatusObsD(Deviations, c)

---------------------------------------------------------------------------
\* state machine: pick a case, compute, done
\* Family splits the case space between runs: "base" = merge trees over LeafSpace, "cause" = merge trees over
\* CauseLeaves and the status cases, "all" = everything
CONSTANTS N, Rich, Family
VARIABLES mode, leaves, tree, scase, pc, obs
vars == <<mode, leaves, tree, scase, pc, obs>>

NoCase == [kind |-> "svc", name |-> "n1", flags |-> NoFlags, cause |-> NoCause]
Init == /\ pc = "start" /\ obs = [kind |-> "none"]
        /\ \/ /\ mode = "merge"
              /\ leaves \in (IF Family # "cause" THEN [1..N -> LeafSpace(Rich)] ELSE {})
                            \cup (IF Family # "base" THEN [1..N -> CauseLeaves(Rich)] ELSE {})
              /\ tree \in Trees(1, N)
              /\ scase = NoCase
           \/ /\ mode = "status" /\ Family # "base"
              /\ scase \in StatusCaseSpace
              /\ leaves = [i \in 1..N |-> NilLeaf] /\ tree = <<"leaf", 1>>
DoMerge  == /\ pc = "start" /\ mode = "merge" /\ obs' = Obs(leaves, tree) /\ pc' = "done"
            /\ UNCHANGED <<mode, leaves, tree, scase>>
DoStatus == /\ pc = "start" /\ mode = "status" /\ obs' = StatusObs(scase) /\ pc' = "done"
            /\ UNCHANGED <<mode, leaves, tree, scase>>
Next == DoMerge \/ DoStatus
Spec == Init /\ [][Next]_vars

\* the prediction for the case of the current state under other deviations (finding keys, trace validation)
PredD(D) == IF mode = "merge" THEN ObsD(D, leaves, tree) ELSE StatusObsD(D, scase)

---------------------------------------------------------------------------
\* properties
NonNil == {i \in 1..N : leaves[i].kind # "nil"}
Order == SetToSeq(NonNil, N)
MinOf(S) == CHOOSE i \in S : \A j \in S : i <= j
MergedDone == pc = "done" /\ mode = "merge"
Associative == MergedDone => \A t2 \in Trees(1, N) : Obs(leaves, t2) = obs
NilIdentity == MergedDone =>
   /\ (obs.kind = "nil" <=> NonNil = {})
   /\ (obs.kind = "same" <=> Cardinality(NonNil) = 1)
   /\ (obs.kind = "same" => obs.leaf \in NonNil)
MessagesInOrder == MergedDone /\ obs.kind = "merged" => obs.msgs = Order
FlagsConjunction == MergedDone /\ obs.kind = "merged" =>
    /\ obs.flags.t = (\A i \in NonNil : leaves[i].flags.t)
    /\ obs.flags.tmp = (\A i \in NonNil : leaves[i].flags.tmp)
    /\ obs.flags.f = (\A i \in NonNil : leaves[i].flags.f)
FirstSpecificName == MergedDone /\ obs.kind = "merged" =>
    LET sp == {i \in NonNil : leaves[i].name # "error"} IN
    IF sp = {} THEN obs.name = "error" ELSE obs.name = leaves[CHOOSE i \in sp : \A j \in sp : i <= j].name
HistoryExactlyOnceUnchanged == MergedDone /\ obs.kind = "merged" =>
    obs.hist = [k \in 1..Len(Order) |-> Entry(leaves[Order[k]].name, FieldOf(leaves[Order[k]], Order[k]), <<Order[k]>>)]
CausesReachable == MergedDone /\ obs.kind = "merged" =>
    obs.causes = SetToSeq({i \in NonNil : HasCause(leaves[i])}, N)

\* The ServiceError closest to the top decides what travels, over HTTP and through the gRPC round trip,
\* whatever it wraps; the status codes follow the tables (a reachable gRPC status keeps its code).
\* Stated on the leaves, not through Resp/EncodeErrorD.
TopOfLeaf(lf, i) == IF lf.kind = "plain"
                    THEN [name |-> "fault", msgs |-> <<i>>, flags |-> PlainFlags, id |-> "fresh"]
                    ELSE [name |-> lf.name, msgs |-> <<i>>, flags |-> lf.flags, id |-> "same"]
WireOK(w, top, isSvc, gstCauses) ==
    /\ w.hresp = top
    /\ w.gresp = top                                                       \* the gRPC round trip
    /\ w.http = HTTPStatus(top.name, top.flags)
    /\ w.http \in {400, 408, 415, 500, 503, 504}
    /\ IF gstCauses # <<>> THEN w.grpc = gstCauses[1]
       ELSE IF isSvc THEN w.grpc = GRPCCode(top.flags) /\ w.grpc \in {2, 4, 13, 14}
       ELSE w.grpc = 2
TopDecides == MergedDone /\ obs.kind # "nil" =>
    LET gl == SetToSeq({i \in NonNil : IsGst(leaves[i].cause)}, N)
        codes == [k \in 1..Len(gl) |-> leaves[gl[k]].cause.code]
    IN IF obs.kind = "merged"
       THEN WireOK(obs.wire, [name |-> obs.name, msgs |-> obs.msgs, flags |-> obs.flags, id |-> "same"], TRUE, codes)
       ELSE WireOK(obs.wire, TopOfLeaf(leaves[obs.leaf], obs.leaf), leaves[obs.leaf].kind # "plain", codes)
\* status mapping is total and lands in the documented classes; round trip of one error alone
StatusTotal == pc = "done" /\ mode = "status" =>
    LET lf == SLeaf(scase) IN
    /\ WireOK(obs, TopOfLeaf(lf, 1), lf.kind # "plain", IF IsGst(lf.cause) THEN <<lf.cause.code>> ELSE <<>>)
    /\ (scase.kind = "plain" => obs.http = 500 /\ obs.gresp.flags.f)
===========================================================================
