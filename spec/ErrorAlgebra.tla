--------------------------- MODULE ErrorAlgebra ---------------------------
(* goa.MergeErrors as an algebra over abstract errors, plus the default mappings
   error flags -> HTTP status (http.ErrorResponse.StatusCode) and -> gRPC code
   (grpc.EncodeError), plus the gRPC encode/decode round trip.  Property C18.

   A *leaf* is an error as the caller built it:
     svc      goa.PermanentError(name, msg) & friends (a *ServiceError, no cause)
     svcf     a ServiceError carrying a Field (MissingFieldError ...)
     nsvc     goa.NewServiceError(cause, name, flags): a ServiceError with a cause
     plain    errors.New(msg)            (converted on merge: name "error", fault)
     wrapped  fmt.Errorf("w: %w", svc)   (errors.As finds the inner ServiceError)
     nil
   Leaf i carries message i (a number standing for the text "m<i>").

   Pointer aliasing is modelled without a heap: a history entry SELF stands for
   "a pointer to the receiver", resolved when the value is observed.  The design
   (documentation of MergeErrors/History) snapshots the original instead; the
   named deviation "merge.history_aliases_receiver" is what the code did before
   the fix commit. *)
EXTENDS Integers, Sequences, FiniteSets, TLC

CONSTANTS Deviations

Names == {"n1", "n2"}
FlagRec == [t: BOOLEAN, tmp: BOOLEAN, f: BOOLEAN]
F3(a, b, c) == [t |-> a, tmp |-> b, f |-> c]
PlainFlags == F3(FALSE, FALSE, TRUE)
NoFlags == F3(FALSE, FALSE, FALSE)

Leaf(k, n, fl) == [kind |-> k, name |-> n, flags |-> fl]
NilLeaf == Leaf("nil", "-", NoFlags)
PlainLeaf == Leaf("plain", "error", PlainFlags)

\* the leaf space explored exhaustively; "all" = every flag combination on plain service errors
LeafSpace(rich) ==
  {Leaf("svc", n, fl) : n \in Names, fl \in (IF rich THEN FlagRec ELSE {NoFlags, F3(TRUE, TRUE, TRUE), F3(FALSE, TRUE, FALSE)})}
  \cup {Leaf("svcf", "n1", fl) : fl \in {NoFlags, F3(TRUE, TRUE, TRUE)}}
  \cup {Leaf("nsvc", "n2", fl) : fl \in {NoFlags, F3(FALSE, TRUE, FALSE)}}
  \cup {Leaf("wrapped", "n2", fl) : fl \in {NoFlags, F3(TRUE, FALSE, TRUE)}}
  \cup {PlainLeaf, NilLeaf}

RECURSIVE Trees(_, _)
Trees(i, j) == IF i = j THEN {<<"leaf", i>>}
               ELSE UNION {{<<"node", l, r>> : l \in Trees(i, k), r \in Trees(k + 1, j)} : k \in i..(j - 1)}

---------------------------------------------------------------------------
\* values
Nil == [nil |-> TRUE]
Entry(n, fld, m) == [name |-> n, field |-> fld, msgs |-> m]
SELF == Entry("SELF", 0, <<>>)
HasCause(lf) == lf.kind \in {"plain", "nsvc"}
FieldOf(lf, i) == IF lf.kind = "svcf" THEN i ELSE 0          \* field "f<i>" or none

\* the value of leaf i before any merge; `same` = it is still the caller's own error value
Val(leaves, i) ==
  LET lf == leaves[i] IN
  IF lf.kind = "nil" THEN Nil
  ELSE [nil |-> FALSE, same |-> i, name |-> lf.name, msgs |-> <<i>>, flags |-> lf.flags,
        hist |-> <<>>, self |-> Entry(lf.name, FieldOf(lf, i), <<i>>),
        field |-> FieldOf(lf, i),
        causes |-> IF HasCause(lf) THEN {i} ELSE {}]

Hist(e) == IF e.hist # <<>> THEN e.hist ELSE <<SELF>>
Resolve(h, e) == [k \in 1..Len(h) |-> IF h[k] = SELF THEN Entry(e.name, e.field, e.msgs) ELSE h[k]]
Snapshot(h, e) == [k \in 1..Len(h) |-> IF h[k] = SELF THEN e.self ELSE h[k]]

Merge(e, o) ==
  IF e = Nil THEN o ELSE IF o = Nil THEN e ELSE
  LET alias == "merge.history_aliases_receiver" \in Deviations
      eh == IF alias THEN Hist(e) ELSE Snapshot(Hist(e), e)
      oh == IF alias THEN Resolve(Hist(o), o) ELSE Snapshot(Hist(o), o)
  IN [nil |-> FALSE, same |-> 0,
      name |-> IF e.name = "error" THEN o.name ELSE e.name,
      msgs |-> e.msgs \o o.msgs,
      flags |-> F3(e.flags.t /\ o.flags.t, e.flags.tmp /\ o.flags.tmp, e.flags.f /\ o.flags.f),
      hist |-> eh \o oh, self |-> e.self, field |-> e.field,
      causes |-> e.causes \cup o.causes]

RECURSIVE Eval(_, _)
Eval(leaves, t) == IF t[1] = "leaf" THEN Val(leaves, t[2]) ELSE Merge(Eval(leaves, t[2]), Eval(leaves, t[3]))

\* what a caller can observe of the merged error
SetToSeq(S, n) == LET RECURSIVE go(_) go(i) == IF i > n THEN <<>> ELSE (IF i \in S THEN <<i>> ELSE <<>>) \o go(i + 1) IN go(1)
Obs(leaves, t) ==
  LET e == Eval(leaves, t) IN
  IF e = Nil THEN [kind |-> "nil"]
  ELSE IF e.same # 0 THEN [kind |-> "same", leaf |-> e.same]
  ELSE [kind |-> "merged", name |-> e.name, msgs |-> e.msgs, flags |-> e.flags,
        causes |-> SetToSeq(e.causes, Len(leaves)),
        hist |-> Resolve(e.hist, e)]

---------------------------------------------------------------------------
\* default status mappings (transcribed from ErrorResponse.StatusCode and grpc.EncodeError)
HTTPStatus(name, fl) ==
  IF name = "unsupported_media_type" THEN 415
  ELSE IF fl.f THEN 500
  ELSE IF fl.t THEN (IF fl.tmp THEN 504 ELSE 408)
  ELSE IF fl.tmp THEN 503
  ELSE 400
\* gRPC codes: Unknown 2, DeadlineExceeded 4, Internal 13, Unavailable 14
GRPCCode(fl) == IF fl.tmp THEN 14 ELSE IF fl.t THEN 4 ELSE IF fl.f THEN 13 ELSE 2

StatusKinds == {"svc", "plain", "wrapped"}
StatusNames == {"n1", "unsupported_media_type", "error", ""}
StatusCaseSpace == [kind: StatusKinds, name: StatusNames, flags: FlagRec]
\* what goes on the wire for a given error (plain errors become a fault named "fault")
WireErr(c) == IF c.kind = "plain" THEN [name |-> "fault", flags |-> PlainFlags]
              ELSE [name |-> c.name, flags |-> c.flags]
StatusObs(c) ==
  LET w == WireErr(c) IN
  [http |-> HTTPStatus(w.name, w.flags),
   grpc |-> IF c.kind = "plain" THEN 2 ELSE GRPCCode(w.flags),
   rtname |-> w.name, rtflags |-> w.flags, rtsame |-> TRUE]

---------------------------------------------------------------------------
\* state machine: pick a case, compute, done
CONSTANTS N, Rich
VARIABLES mode, leaves, tree, scase, pc, obs
vars == <<mode, leaves, tree, scase, pc, obs>>

Init == /\ pc = "start" /\ obs = [kind |-> "none"]
        /\ \/ /\ mode = "merge"
              /\ leaves \in [1..N -> LeafSpace(Rich)]
              /\ tree \in Trees(1, N)
              /\ scase = [kind |-> "svc", name |-> "n1", flags |-> NoFlags]
           \/ /\ mode = "status"
              /\ scase \in StatusCaseSpace
              /\ leaves = [i \in 1..N |-> NilLeaf] /\ tree = <<"leaf", 1>>
DoMerge  == /\ pc = "start" /\ mode = "merge" /\ obs' = Obs(leaves, tree) /\ pc' = "done"
            /\ UNCHANGED <<mode, leaves, tree, scase>>
DoStatus == /\ pc = "start" /\ mode = "status" /\ obs' = StatusObs(scase) /\ pc' = "done"
            /\ UNCHANGED <<mode, leaves, tree, scase>>
Next == DoMerge \/ DoStatus
Spec == Init /\ [][Next]_vars

---------------------------------------------------------------------------
\* properties
NonNil == {i \in 1..N : leaves[i].kind # "nil"}
Order == SetToSeq(NonNil, N)
MergedDone == pc = "done" /\ mode = "merge"
Associative == MergedDone => \A t2 \in Trees(1, N) : Obs(leaves, t2) = obs
NilIdentity == MergedDone =>
   /\ (obs.kind = "nil" <=> NonNil = {})
   /\ (obs.kind = "same" <=> Cardinality(NonNil) = 1)
   /\ (obs.kind = "same" => obs.leaf \in NonNil)
MessagesInOrder == MergedDone /\ obs.kind = "merged" => obs.msgs = Order
FlagsConjunction == MergedDone /\ obs.kind = "merged" =>
    /\ obs.flags.t = (\A i \in NonNil : leaves[i].flags.t)
    /\ obs.flags.tmp = (\A i \in NonNil : leaves[i].flags.tmp)
    /\ obs.flags.f = (\A i \in NonNil : leaves[i].flags.f)
FirstSpecificName == MergedDone /\ obs.kind = "merged" =>
    LET sp == {i \in NonNil : leaves[i].name # "error"} IN
    IF sp = {} THEN obs.name = "error" ELSE obs.name = leaves[CHOOSE i \in sp : \A j \in sp : i <= j].name
HistoryExactlyOnceUnchanged == MergedDone /\ obs.kind = "merged" =>
    obs.hist = [k \in 1..Len(Order) |-> Entry(leaves[Order[k]].name, FieldOf(leaves[Order[k]], Order[k]), <<Order[k]>>)]
CausesReachable == MergedDone /\ obs.kind = "merged" =>
    obs.causes = SetToSeq({i \in NonNil : HasCause(leaves[i])}, N)
\* status mapping is total and lands in the documented classes
StatusTotal == pc = "done" /\ mode = "status" =>
    /\ obs.http \in {400, 408, 415, 500, 503, 504}
    /\ obs.grpc \in {2, 4, 13, 14}
    /\ (scase.kind = "plain" => obs.http = 500 /\ obs.rtflags.f)
    /\ obs.rtsame
===========================================================================
