------------------------------ MODULE Formats ------------------------------
(* goa.ValidateFormat (pkg/validation.go).  Property C17, first half.

   Every format has a CONSTRUCTIVE instance space: an instance is a record of
   fields (numbers, group lists, grammar choices) taken from boundary sets; a
   well-formedness predicate over the fields is written from the RFC that the
   format names; the text is obtained by a purely syntactic rendering (Toks:
   fields -> sequence of tokens, concatenated by the driver).  A corruption is
   a single syntactic damage applied to the rendering of a well-formed
   instance that makes it malformed by construction (separator dropped or
   replaced, illegal character inserted at start / middle / end, a fixed-width
   field written short, a delimiter replaced, ...).  Field-level damage
   (value out of range, group count +-1, day 30 in February) is part of the
   instance space itself.

   State machine, shaped like ValidateFormat: Pick (Init) -> Render ->
   Validate (one branch per format family) -> done.  `verdict` maps every
   format that is asked about the rendered text to accept/reject.

   Instance classes on which the RFC and the Go parsers used by goa
   legitimately differ, or where "well-formed" is a matter of opinion, are NOT
   generated (see checks/c17.py, `assumptions`): leap second :60, zone offsets
   +24:00 / :60, lower-case 't'/'z', ',' as fraction separator, IPv4 octets with
   leading zeros, IPv6 zones, CIDR prefix with leading zeros, 20-octet
   InfiniBand MAC, the nil UUID,
   host names with a trailing dot or an all-numeric last label, RFC 822 zones
   "UT" / military / numeric and 1-digit days, weekday not matching the date,
   URI references without scheme, characters such as space or '<' in URI
   path/query.

   Deviations (how the code is known to depart from the above):
     format.hostname_unanchored   hostnameRegex is `^A|B$`: accepted iff the text
                                  STARTS with two-or-more label characters
                                  (alnum, alnum/hyphen..., alnum) OR ENDS with a letter
     format.uuid_brace_unchecked  a 38-character text is accepted when its inner
                                  36 characters are a UUID, whatever the first and
                                  last characters are
     format.time_hour_one_digit   the hour of date-time / rfc1123 may be written
                                  with one digit *)
EXTENDS Integers, Sequences, FiniteSets, TLC
CONSTANTS Deviations,
          Formats,       \* the families explored in this run (subset of AllFamilies)
          Rich           \* TRUE: larger boundary sets

AllFamilies == {"date", "date-time", "rfc1123", "ipv4", "ipv6", "cidr", "mac", "uuid",
                "hostname", "email", "uri", "regexp", "json"}
KnownDeviations == <<"format.hostname_unanchored", "format.uuid_brace_unchecked", "format.time_hour_one_digit">>

---------------------------------------------------------------------------
\* helpers
RECURSIVE Rep(_, _)
Rep(s, n) == IF n <= 0 THEN "" ELSE s \o Rep(s, n - 1)
RECURSIVE RepSeq(_, _)
RepSeq(x, n) == IF n <= 0 THEN <<>> ELSE <<x>> \o RepSeq(x, n - 1)
NDigits(n) == IF n < 10 THEN 1 ELSE IF n < 100 THEN 2 ELSE IF n < 1000 THEN 3 ELSE IF n < 10000 THEN 4 ELSE IF n < 100000 THEN 5 ELSE 6
Dec(n) == ToString(n)
Pad(n, w) == Rep("0", w - NDigits(n)) \o ToString(n)
RECURSIVE Join(_, _)
\* Join(<<s1, s2, s3>>, sep) = <<s1, sep, s2, sep, s3>>
Join(sq, sep) == IF Len(sq) <= 1 THEN sq ELSE <<sq[1], sep>> \o Join(Tail(sq), sep)
RECURSIVE Flat(_)
Flat(sqs) == IF sqs = <<>> THEN <<>> ELSE sqs[1] \o Flat(Tail(sqs))
Remove(sq, i) == SubSeq(sq, 1, i - 1) \o SubSeq(sq, i + 1, Len(sq))
Replace(sq, i, x) == [sq EXCEPT ![i] = x]
InsertAt(sq, i, x) == SubSeq(sq, 1, i) \o <<x>> \o SubSeq(sq, i + 1, Len(sq))      \* after position i (0 = at the start)
Min2(a, b) == IF a < b THEN a ELSE b

Corr(k, i) == [k |-> k, i |-> i]
NoCorr == Corr("none", 0)

\* generic token-level corruptions of a rendering `t` whose separator tokens are the members of `seps`
SepIdx(t, seps) == {i \in 1..Len(t) : t[i] \in seps}
GenericCorrs(t, dropseps, badseps) ==
  {Corr("dropsep", i) : i \in SepIdx(t, dropseps)} \cup {Corr("badsep", i) : i \in SepIdx(t, badseps)}
  \cup {Corr("insert", i) : i \in {0, Len(t) \div 2, Len(t)}}
ApplyGeneric(t, c, ill) ==
  CASE c.k = "dropsep" -> Remove(t, c.i)
    [] c.k = "badsep"  -> Replace(t, c.i, "_")
    [] c.k = "insert"  -> InsertAt(t, c.i, ill)
    [] OTHER -> t

---------------------------------------------------------------------------
\* calendar (RFC 3339 section 5.7 and appendix C)
Leap(y) == (y % 4 = 0) /\ ((y % 100 # 0) \/ (y % 400 = 0))
DaysIn(y, m) == IF m = 2 THEN (IF Leap(y) THEN 29 ELSE 28) ELSE IF m \in {4, 6, 9, 11} THEN 30 ELSE 31
DateOK(y, m, d) == y \in 0..9999 /\ m \in 1..12 /\ d >= 1 /\ d <= DaysIn(y, m)
\* day of the week, 0 = Sunday (Sakamoto)
DowT == <<0, 3, 2, 5, 0, 3, 5, 1, 4, 6, 2, 4>>
Dow(y, m, d) == LET yy == IF m < 3 THEN y - 1 ELSE y IN (yy + yy \div 4 - yy \div 100 + yy \div 400 + DowT[m] + d) % 7
DayNames == <<"Sun", "Mon", "Tue", "Wed", "Thu", "Fri", "Sat">>
MonNames == <<"Jan", "Feb", "Mar", "Apr", "May", "Jun", "Jul", "Aug", "Sep", "Oct", "Nov", "Dec">>
TimeOK(h, mi, s) == h \in 0..23 /\ mi \in 0..59 /\ s \in 0..59
OneDigitHour == "format.time_hour_one_digit"

\* ---- date: RFC 3339 full-date ------------------------------------------------------------
DateSpace == [y : IF Rich THEN {0, 1, 1900, 2000, 2023, 2024, 2100, 9999} ELSE {0, 1900, 2000, 2023, 2024},
              m : {0, 1, 2, 4, 12, 13}, d : {0, 1, 28, 29, 30, 31, 32}]
DateToks(x, c) == <<Pad(x.y, 4), "-", IF c = Corr("short", 3) THEN Dec(x.m) ELSE Pad(x.m, 2), "-",
                    IF c = Corr("short", 5) THEN Dec(x.d) ELSE Pad(x.d, 2)>>
DateWF(x) == DateOK(x.y, x.m, x.d)
DateCorrs(x) == GenericCorrs(DateToks(x, NoCorr), {"-"}, {"-"})
                \cup (IF x.m < 10 THEN {Corr("short", 3)} ELSE {}) \cup (IF x.d < 10 THEN {Corr("short", 5)} ELSE {})

\* ---- date-time: RFC 3339 date-time ---------------------------------------------------------
\* zone: z = TRUE -> "Z"; else sign, zh, zm
Zones == {[z |-> TRUE, sg |-> "+", zh |-> 0, zm |-> 0], [z |-> FALSE, sg |-> "+", zh |-> 0, zm |-> 0],
          [z |-> FALSE, sg |-> "-", zh |-> 0, zm |-> 0], [z |-> FALSE, sg |-> "-", zh |-> 23, zm |-> 59],
          [z |-> FALSE, sg |-> "+", zh |-> 25, zm |-> 0], [z |-> FALSE, sg |-> "+", zh |-> 1, zm |-> 61]}
         \cup (IF Rich THEN {[z |-> FALSE, sg |-> "+", zh |-> 14, zm |-> 30]} ELSE {})
DTDates == {[y |-> 2024, m |-> 2, d |-> 29], [y |-> 2023, m |-> 2, d |-> 29], [y |-> 1999, m |-> 12, d |-> 31], [y |-> 0, m |-> 1, d |-> 1]}
           \cup (IF Rich THEN {[y |-> 2024, m |-> 4, d |-> 31], [y |-> 2024, m |-> 13, d |-> 1], [y |-> 2100, m |-> 2, d |-> 28]} ELSE {})
DTSpace == [date : DTDates, h : {0, 9, 23, 24}, mi : {0, 59, 60}, s : {0, 59, 61}, frac : {"", "5"} \cup (IF Rich THEN {"123456789"} ELSE {}), zone : Zones]
ZoneToks(zn) == IF zn.z THEN <<"Z">> ELSE <<zn.sg, Pad(zn.zh, 2), ":", Pad(zn.zm, 2)>>
DTToks(x, c) == <<Pad(x.date.y, 4), "-", Pad(x.date.m, 2), "-", Pad(x.date.d, 2), "T",
                  IF c = Corr("short", 7) THEN Dec(x.h) ELSE Pad(x.h, 2), ":",
                  IF c = Corr("short", 9) THEN Dec(x.mi) ELSE Pad(x.mi, 2), ":",
                  IF c = Corr("short", 11) THEN Dec(x.s) ELSE Pad(x.s, 2)>>
                \o (IF x.frac = "" THEN <<>> ELSE <<".", x.frac>>)
                \o (IF c.k = "nozone" THEN <<>> ELSE ZoneToks(x.zone))
DTWF(x) == DateWF(x.date) /\ TimeOK(x.h, x.mi, x.s) /\ (x.zone.z \/ (x.zone.zh \in 0..23 /\ x.zone.zm \in 0..59))
DTCorrs(x) == GenericCorrs(DTToks(x, NoCorr), {"-", "T", ":", "."}, {"-", "T", ":", "."})
              \cup (IF x.h < 10 THEN {Corr("short", 7)} ELSE {}) \cup (IF x.mi < 10 THEN {Corr("short", 9)} ELSE {})
              \cup (IF x.s < 10 THEN {Corr("short", 11)} ELSE {}) \cup {Corr("nozone", 0)}

\* ---- rfc1123: RFC 822 section 5 as amended by RFC 1123 section 5.2.14 (weekday, 2-digit day, 4-digit year, seconds, named zone)
RDates == {[y |-> 2006, m |-> 1, d |-> 2], [y |-> 2024, m |-> 2, d |-> 29], [y |-> 2023, m |-> 2, d |-> 29], [y |-> 1999, m |-> 12, d |-> 31]}
          \cup (IF Rich THEN {[y |-> 2024, m |-> 4, d |-> 31], [y |-> 2024, m |-> 1, d |-> 0], [y |-> 2024, m |-> 13, d |-> 5], [y |-> 2000, m |-> 2, d |-> 29]} ELSE {})
RSpace == [date : RDates, h : {0, 9, 23, 24}, mi : {0, 59, 60}, s : {0, 59, 61}, zone : {"GMT", "EST"} \cup (IF Rich THEN {"PDT", "MST", "CDT"} ELSE {})]
RWeekday(dt) == IF DateWF(dt) THEN DayNames[Dow(dt.y, dt.m, dt.d) + 1] ELSE "Mon"
RMonth(m) == IF m \in 1..12 THEN MonNames[m] ELSE "Xyz"
RToks(x, c) == <<IF c.k = "badwd" THEN "Xyz" ELSE RWeekday(x.date), ", ", IF c = Corr("short", 3) THEN Dec(x.date.d) ELSE Pad(x.date.d, 2), " ",
                 RMonth(x.date.m), " ", Pad(x.date.y, 4), " ",
                 IF c = Corr("short", 9) THEN Dec(x.h) ELSE Pad(x.h, 2), ":",
                 IF c = Corr("short", 11) THEN Dec(x.mi) ELSE Pad(x.mi, 2), ":",
                 IF c = Corr("short", 13) THEN Dec(x.s) ELSE Pad(x.s, 2)>>
               \o (IF c.k = "nozone" THEN <<>> ELSE <<" ", x.zone>>)
RWF(x) == DateWF(x.date) /\ TimeOK(x.h, x.mi, x.s)
\* (a short day "2 Jan" is legal RFC 822 but not the fixed-width form goa documents: not generated)
RCorrs(x) == GenericCorrs(RToks(x, NoCorr), {", ", " ", ":"}, {", ", " ", ":"})
             \cup (IF x.h < 10 THEN {Corr("short", 9)} ELSE {}) \cup (IF x.mi < 10 THEN {Corr("short", 11)} ELSE {})
             \cup (IF x.s < 10 THEN {Corr("short", 13)} ELSE {}) \cup {Corr("nozone", 0), Corr("badwd", 0)}

\* ---- ipv4: dotted decimal, four octets 0..255 (RFC 791 / RFC 3986 dec-octet; leading zeros not generated) ---
OctB == IF Rich THEN {0, 1, 9, 10, 99, 100, 199, 200, 249, 250, 255, 256, 260, 300, 999}
        ELSE {0, 9, 10, 99, 100, 199, 249, 255, 256, 300, 999}
V4Base == IF Rich THEN {1, 17, 255} ELSE {1, 255}
\* oct: sequence of octets; -1 renders as an empty octet
V4Space == {[oct |-> <<a, b, c, d>>] : a \in OctB, b \in V4Base, c \in V4Base, d \in V4Base}
           \cup {[oct |-> <<a, b, c, d>>] : a \in V4Base, b \in OctB, c \in V4Base, d \in V4Base}
           \cup {[oct |-> <<a, b, c, d>>] : a \in V4Base, b \in V4Base, c \in OctB, d \in V4Base}
           \cup {[oct |-> <<a, b, c, d>>] : a \in V4Base, b \in V4Base, c \in V4Base, d \in OctB}
           \cup {[oct |-> <<1, 2, 3>>], [oct |-> <<1, 2, 3, 4, 5>>], [oct |-> <<1>>], [oct |-> <<1, -1, 3, 4>>],
                 [oct |-> <<-1, 2, 3, 4>>], [oct |-> <<1, 2, 3, -1>>], [oct |-> <<0, 0, 0, 0>>]}
OctTok(o) == IF o < 0 THEN "" ELSE Dec(o)
V4Toks(x) == Join([i \in 1..Len(x.oct) |-> OctTok(x.oct[i])], ".")
V4WF(x) == Len(x.oct) = 4 /\ \A i \in 1..4 : x.oct[i] \in 0..255
V4Corrs(x) == GenericCorrs(V4Toks(x), {"."}, {"."})

\* ---- ipv6: RFC 4291 section 2.2 -------------------------------------------------------------
\* a: groups before "::", e: "::" present, b: groups after it, t: embedded IPv4 tail (octets) or <<>>
HexGroups == <<"0", "1", "ffff", "FFFF", "0db8", "abcd", "a", "00ab">>
GroupsFrom(k, n) == [i \in 1..n |-> HexGroups[((i + k) % 8) + 1]]
V6Tails == {<<>>, <<1, 2, 3, 4>>, <<255, 255, 255, 255>>, <<1, 2, 3, 256>>, <<1, 2, 3>>}
V6Rot == IF Rich THEN {0, 3, 5} ELSE {0, 3}
V6Lens == {0, 1, 3, 6, 7}
\* bg = 0: no bad group; otherwise group number bg (counted over a then b) is replaced by bad value bv
V6Plain == {[a |-> GroupsFrom(k, la), e |-> FALSE, b |-> <<>>, t |-> t, bg |-> 0, bv |-> ""] :
               k \in V6Rot, la \in {1, 5, 6, 7, 8, 9}, t \in V6Tails}
V6Ell == {[a |-> GroupsFrom(k, n[1]), e |-> TRUE, b |-> GroupsFrom(k + 2, n[2]), t |-> t, bg |-> 0, bv |-> ""] :
               k \in V6Rot, n \in {m \in V6Lens \X V6Lens : m[1] + m[2] <= 8}, t \in V6Tails}
V6Bad == {[x EXCEPT !.bg = g, !.bv = w] :
               x \in {y \in V6Plain \cup V6Ell : y.t \in {<<>>, <<1, 2, 3, 4>>} /\ Len(y.a) + Len(y.b) \in {2, 6, 8} /\ y.a # <<>>},
               g \in {1, 2}, w \in {"12345", "g", "-1"}}
V6Space == V6Plain \cup V6Ell \cup V6Bad
V6Groups(x) == [i \in 1..(Len(x.a) + Len(x.b)) |->
                  IF i = x.bg THEN x.bv ELSE IF i <= Len(x.a) THEN x.a[i] ELSE x.b[i - Len(x.a)]]
V6Toks(x, c) ==
  LET gs == V6Groups(x)
      ga == SubSeq(gs, 1, Len(x.a))
      gb == SubSeq(gs, Len(x.a) + 1, Len(gs))
      tail == IF x.t = <<>> THEN <<>> ELSE Join([i \in 1..Len(x.t) |-> OctTok(x.t[i])], ".")
      ell == IF c.k = "colon3" THEN <<":::">> ELSE <<"::">>
      ja == IF c.k = "ell2" /\ Len(ga) >= 2 THEN <<ga[1], "::">> \o Join(Tail(ga), ":") ELSE Join(ga, ":")
      jb == IF c.k = "ell2" /\ Len(ga) < 2 THEN <<gb[1], "::">> \o Join(Tail(gb), ":") ELSE Join(gb, ":")
      body == IF x.e THEN ja \o ell \o jb \o (IF tail = <<>> THEN <<>> ELSE (IF gb = <<>> THEN <<>> ELSE <<":">>) \o tail)
              ELSE ja \o (IF tail = <<>> THEN <<>> ELSE <<":">> \o tail)
  IN (IF c.k = "lcolon" THEN <<":">> ELSE <<>>) \o body \o (IF c.k = "tcolon" THEN <<":">> ELSE <<>>)
HexDigitsOK(s) == s \in {HexGroups[i] : i \in 1..8}      \* the good groups are hexadecimal, 1-4 digits, by construction
V6WF(x) ==
  LET n == Len(x.a) + Len(x.b) + (IF x.t = <<>> THEN 0 ELSE 2) IN
  /\ x.bg = 0
  /\ x.t = <<>> \/ (Len(x.t) = 4 /\ \A i \in 1..4 : x.t[i] \in 0..255)
  /\ IF x.e THEN n <= 7 ELSE (n = 8 /\ x.b = <<>>)
V6Corrs(x) ==
  LET t == V6Toks(x, NoCorr) IN
  {Corr("insert", i) : i \in {0, Len(t) \div 2, Len(t)}} \cup {Corr("badsep", i) : i \in SepIdx(t, {":"})}
  \cup (IF x.e THEN {Corr("colon3", 0)} ELSE {Corr("dropsep", i) : i \in SepIdx(t, {":"})})
  \cup (IF x.e /\ (Len(x.a) >= 2 \/ (Len(x.a) < 2 /\ Len(x.b) >= 2)) THEN {Corr("ell2", 0)} ELSE {})
  \cup (IF x.a # <<>> THEN {Corr("lcolon", 0)} ELSE {})
  \cup (IF ~x.e \/ x.b # <<>> \/ x.t # <<>> THEN {Corr("tcolon", 0)} ELSE {})

\* ---- cidr: RFC 4632 / RFC 4291 section 2.3: address "/" decimal prefix length -----------------------
V4Addrs == {[oct |-> <<10, 0, 0, 0>>], [oct |-> <<192, 168, 1, 7>>], [oct |-> <<255, 255, 255, 255>>], [oct |-> <<10, 0, 0, 256>>], [oct |-> <<10, 0, 0>>]}
V6A(a, e, b, t) == [a |-> a, e |-> e, b |-> b, t |-> t, bg |-> 0, bv |-> ""]
V6Addrs == {V6A(<<>>, TRUE, <<>>, <<>>), V6A(<<"2001", "db8">>, TRUE, <<>>, <<>>), V6A(<<>>, TRUE, <<"ffff">>, <<1, 2, 3, 4>>),
            V6A(GroupsFrom(0, 8), FALSE, <<>>, <<>>), V6A(GroupsFrom(0, 7), FALSE, <<>>, <<>>), V6A(<<"1">>, TRUE, <<"2", "3">>, <<>>)}
CidrSpace == {[fam |-> "v4", ip |-> a, len |-> n] : a \in V4Addrs, n \in {0, 1, 8, 24, 31, 32, 33, 128, 999}}
             \cup {[fam |-> "v6", ip |-> a, len |-> n] : a \in V6Addrs, n \in {0, 1, 32, 64, 127, 128, 129, 999}}
CidrToks(x, c) == (IF x.fam = "v4" THEN V4Toks(x.ip) ELSE V6Toks(x.ip, NoCorr))
                  \o (IF c.k = "noprefix" THEN <<>> ELSE
                      (IF c.k = "twoslash" THEN <<"/", "/">> ELSE <<"/">>)
                      \o (IF c.k = "nolen" THEN <<>> ELSE IF c.k = "neglen" THEN <<"-", Dec(x.len)>> ELSE <<Dec(x.len)>>))
CidrWF(x) == IF x.fam = "v4" THEN V4WF(x.ip) /\ x.len \in 0..32 ELSE V6WF(x.ip) /\ x.len \in 0..128
CidrCorrs(x) == LET t == CidrToks(x, NoCorr) IN
                {Corr("insert", i) : i \in {0, Len(t) \div 2, Len(t)}} \cup {Corr("dropsep", i) : i \in SepIdx(t, {"/"})}
                \cup {Corr("badsep", i) : i \in SepIdx(t, {"/", "."})} \cup {Corr("twoslash", 0), Corr("nolen", 0), Corr("neglen", 0), Corr("noprefix", 0)}

\* ---- mac: IEEE 802 MAC-48 / EUI-48 / EUI-64 in the three notations of net.ParseMAC's documentation ------
MacBytes == <<"00", "5e", "ff", "a0", "01", "53", "10", "9c", "de", "7b">>
MacSpace == {[n |-> n, sep |-> s, up |-> u, k |-> k] : n \in {5, 6, 7, 8, 9}, s \in {":", "-"}, u \in BOOLEAN, k \in {0, 3}}
            \cup {[n |-> n, sep |-> ".", up |-> u, k |-> k] : n \in {4, 6, 8, 10}, u \in BOOLEAN, k \in {0, 3}}
UpHex(s) == CASE s = "5e" -> "5E" [] s = "ff" -> "FF" [] s = "a0" -> "A0" [] s = "9c" -> "9C" [] s = "de" -> "DE" [] s = "7b" -> "7B" [] OTHER -> s
MacByte(x, i, c) == LET b == MacBytes[((i + x.k) % 10) + 1]
                        bb == IF x.up THEN UpHex(b) ELSE b IN
                    IF c.i = i THEN (CASE c.k = "shortbyte" -> "5" [] c.k = "longbyte" -> bb \o "0" [] c.k = "nonhex" -> "0g" [] OTHER -> bb) ELSE bb
MacToks(x, c) ==
  LET bs == [i \in 1..x.n |-> MacByte(x, i, c)]
      t == IF x.sep = "." THEN Join([j \in 1..(x.n \div 2) |-> bs[2 * j - 1] \o bs[2 * j]], ".") ELSE Join(bs, x.sep)
  IN IF c.k = "mixsep" THEN Replace(t, 2, IF x.sep = ":" THEN "-" ELSE ":") ELSE t
MacWF(x) == x.n \in {6, 8}
MacCorrs(x) == GenericCorrs(MacToks(x, NoCorr), {x.sep}, {x.sep})
               \cup {Corr(k, i) : k \in {"shortbyte", "longbyte", "nonhex"}, i \in {1, x.n}} \cup {Corr("mixsep", 0)}

\* ---- uuid: RFC 4122 section 3 (8-4-4-4-12 hexadecimal, variant 10x), its URN form, and the braced and
\*      bare forms that goa documents on validateUUID -----------------------------------------------
HexRun == <<"6", "b", "a", "7", "b", "8", "1", "0", "9", "d", "a", "d", "1", "1", "d", "1", "8", "0", "b", "4", "0", "0", "c", "0", "4", "f", "d", "4", "3", "0", "c", "8", "e", "2", "5", "f">>
UpDigit(s) == CASE s = "a" -> "A" [] s = "b" -> "B" [] s = "c" -> "C" [] s = "d" -> "D" [] s = "e" -> "E" [] s = "f" -> "F" [] OTHER -> s
UuidSpace == [form : {"plain", "urn", "brace", "bare"}, ver : IF Rich THEN {"1", "4", "5", "7"} ELSE {"1", "4"},
              var : IF Rich THEN {"8", "9", "a", "b"} ELSE {"8", "b"}, up : BOOLEAN, k : {0, 7}]
UuidGroup(x, gi, c) ==
  LET off == <<0, 8, 12, 16, 20>>[gi]
      len == <<8, 4, 4, 4, 12>>[gi] + (IF c.i = gi THEN (CASE c.k = "shortgrp" -> -1 [] c.k = "longgrp" -> 1 [] OTHER -> 0) ELSE 0)
               + (IF c.k = "shift" THEN (IF gi = 1 THEN 1 ELSE IF gi = 2 THEN -1 ELSE 0) ELSE 0)
      \* ("variant" corruption: the variant nibble outside 10x - NCS 0/7, Microsoft c, future e/f - is not an RFC 4122 UUID)
      dig(j) == LET d == IF gi = 3 /\ j = 1 THEN x.ver
                         ELSE IF gi = 4 /\ j = 1 THEN (IF c.k = "variant" THEN <<"0", "7", "c", "e", "f">>[c.i] ELSE x.var)
                         ELSE HexRun[((off + j + x.k) % 36) + 1]
                IN IF c.k = "nonhex" /\ c.i = gi /\ j = 2 THEN "g" ELSE IF x.up THEN UpDigit(d) ELSE d
      RECURSIVE cat(_)
      cat(j) == IF j > len THEN "" ELSE dig(j) \o cat(j + 1)
  IN cat(1)
UuidToks(x, c) ==
  LET gs == [gi \in 1..5 |-> UuidGroup(x, gi, c)]
      core == IF x.form = "bare" THEN gs ELSE Join(gs, "-")
  IN CASE x.form = "urn"   -> <<IF c.k = "urnbad" THEN "urn:uuix:" ELSE "urn:uuid:">> \o core
       [] x.form = "brace" -> <<IF c.k = "bracel" THEN "[" ELSE "{">> \o core \o <<IF c.k = "bracer" THEN "]" ELSE "}">>
       [] OTHER -> core
UuidWF(x) == TRUE      \* every member of UuidSpace is well-formed; malformed ones are corruptions
UuidCorrs(x) == LET t == UuidToks(x, NoCorr) IN
                {Corr("insert", i) : i \in {0, Len(t) \div 2, Len(t)}}
                \cup (IF x.form = "bare" THEN {} ELSE {Corr(k, i) : k \in {"dropsep", "badsep"}, i \in SepIdx(t, {"-"})} \cup {Corr("shift", 0)})
                \cup {Corr(k, i) : k \in {"shortgrp", "longgrp", "nonhex"}, i \in {1, 3, 5}}
                \cup (IF x.form = "urn" THEN {Corr("urnbad", 0)} ELSE {})
                \cup (IF x.form = "brace" THEN {Corr("bracel", 0), Corr("bracer", 0)} ELSE {})
                \cup {Corr("variant", i) : i \in 1..5}

\* ---- hostname: RFC 952 / RFC 1123 section 2.1: labels of letters, digits and hyphens, no hyphen at either
\*      end, 1..63 characters each, joined by dots, at most 253 characters in all ---------------------------
\* a label shape: n characters; kind of the first/last characters; hyphens
\*   k = "alpha": a b..b c     "digit1": 7 b..b c     "mixed": x 7 - y 2 pattern     "digits": 4 2 4 2 ...
\*   hy = "none" | "mid" (hyphen in the middle, n >= 3) | "lead" | "trail" | "mid2" (two adjacent hyphens, n >= 4)
Lab(n, k, hy) == [n |-> n, k |-> k, hy |-> hy]
LabChars(lb) ==
  LET base == [i \in 1..lb.n |->
                 CASE lb.k = "digits" -> (IF i % 2 = 1 THEN "4" ELSE "2")
                   [] lb.k = "digit1" /\ i = 1 -> "7"
                   [] lb.k = "mixed" -> <<"x", "7", "y", "2">>[((i - 1) % 4) + 1]
                   [] OTHER -> (IF i = 1 THEN "a" ELSE IF i = lb.n THEN "c" ELSE "b")]
      mid == (lb.n + 1) \div 2
  IN CASE lb.hy = "mid"   -> [base EXCEPT ![mid] = "-"]
       [] lb.hy = "mid2"  -> [base EXCEPT ![mid] = "-", ![mid + 1] = "-"]
       [] lb.hy = "lead"  -> [base EXCEPT ![1] = "-"]
       [] lb.hy = "trail" -> [base EXCEPT ![lb.n] = "-"]
       [] OTHER -> base
LabWF(lb) == lb.n \in 1..63 /\ lb.hy \notin {"lead", "trail"}
HasLetter(lb) == lb.k \in {"alpha", "mixed"} \/ (lb.k = "digit1" /\ lb.n >= 2)
GoodLabs == {Lab(1, "alpha", "none"), Lab(1, "digit1", "none"), Lab(2, "alpha", "none"), Lab(3, "alpha", "mid"), Lab(5, "mixed", "mid"),
             Lab(2, "digits", "none"), Lab(4, "mixed", "none"), Lab(6, "digit1", "mid2"), Lab(63, "alpha", "none"), Lab(63, "mixed", "mid")}
BadLabs == {Lab(64, "alpha", "none"), Lab(3, "alpha", "lead"), Lab(3, "alpha", "trail"), Lab(1, "alpha", "lead"), Lab(64, "mixed", "mid")}
L63 == Lab(63, "alpha", "none")
\* abs: the absolute form, with the trailing dot of the DNS root (RFC 1034 section 3.1); the dot is not one of the 253 characters
HostSpace0 ==
  LET labs == GoodLabs \cup BadLabs
      last == {lb \in labs : HasLetter(lb)}          \* an all-numeric last label is not generated
  IN {[labels |-> <<a>>] : a \in last} \cup {[labels |-> <<a, b>>] : a \in labs, b \in last}
     \cup (IF Rich THEN {[labels |-> <<a, b, c>>] : a \in labs, b \in {Lab(2, "digits", "none"), Lab(1, "alpha", "none"), Lab(3, "alpha", "trail")}, c \in {Lab(2, "alpha", "none"), Lab(5, "mixed", "mid")}} ELSE {})
     \cup {[labels |-> <<L63, L63, L63, Lab(n, "alpha", "none")>>] : n \in {60, 61, 62}}     \* 252, 253, 254 characters
HostSpace == {[labels |-> h.labels, abs |-> b] : h \in HostSpace0, b \in BOOLEAN}
HostRel(x) == Flat(Join([i \in 1..Len(x.labels) |-> LabChars(x.labels[i])], <<".">>))
HostToks(x) == HostRel(x) \o (IF x.abs THEN <<".">> ELSE <<>>)
HostWF(x) == /\ \A i \in 1..Len(x.labels) : LabWF(x.labels[i])
             /\ Len(HostRel(x)) <= 253
HostIll == <<"!", " ", "_">>
\* insert/j: illegal character number (i % 3) + 1 inserted after position i \div 3
HostCorrs(x) == LET t == HostToks(x) IN
                {Corr("insert", 3 * pos + j) : pos \in {0, Len(t) \div 2, Len(t)}, j \in 0..2}
                \cup {Corr("badsep", i) : i \in SepIdx(t, {"."})} \cup {Corr("leaddot", 0)}
                \cup (IF Len(x.labels) > 1 THEN {Corr("twodots", 0)} ELSE {})
HostApply(t, c) ==
  CASE c.k = "insert"  -> InsertAt(t, c.i \div 3, HostIll[(c.i % 3) + 1])
    [] c.k = "badsep"  -> Replace(t, c.i, "_")
    [] c.k = "leaddot" -> <<".">> \o t
    [] c.k = "twodots" -> LET i == CHOOSE j \in SepIdx(t, {"."}) : \A m \in SepIdx(t, {"."}) : j <= m IN InsertAt(t, i, ".")
    [] OTHER -> t
\* what the regular expression `^[[:alnum:]][[:alnum:]\-]{0,61}[[:alnum:]]|[[:alpha:]]$` accepts (characters as 1-character tokens)
HAlpha == {"a", "b", "c", "x", "y"}
HAlnum == HAlpha \cup {"7", "2", "4"}
UnanchoredAccepts(t) ==
  \/ /\ Len(t) >= 2 /\ t[1] \in HAlnum
     /\ \E k \in 2..Min2(63, Len(t)) : t[k] \in HAlnum /\ \A j \in 2..(k - 1) : t[j] \in HAlnum \cup {"-"}
  \/ Len(t) >= 1 /\ t[Len(t)] \in HAlpha

\* ---- email: RFC 5322 section 3.4: mailbox = addr-spec | [display-name] "<" addr-spec ">" ; dot-atom local part and domain
EmailSpace == [loc : {<<"a">>, <<"bob", "x1">>, <<"a+b">>, <<"a_b", "c", "d">>, <<"\"a b\"">>}, dom : {<<"b">>, <<"example", "com">>, <<"a-b", "c", "d">>},
               form : {"addr", "angle", "named"}]
EmailToks(x, c) ==
  LET loc == CASE c.k = "emptyloc" -> <<>> [] c.k = "leaddotloc" -> <<".">> \o Join(x.loc, ".") [] c.k = "traildotloc" -> Join(x.loc, ".") \o <<".">>
               [] c.k = "twodotloc" -> <<x.loc[1], ".", ".">> \o Join(Tail(x.loc), ".") [] OTHER -> Join(x.loc, ".")
      dom == CASE c.k = "emptydom" -> <<>> [] c.k = "traildotdom" -> Join(x.dom, ".") \o <<".">>
               [] c.k = "twodotdom" -> <<x.dom[1], ".", ".">> \o Join(Tail(x.dom), ".") [] OTHER -> Join(x.dom, ".")
      at == IF c.k = "twoat" THEN <<"@", "@">> ELSE <<"@">>
      core == loc \o at \o dom
  IN CASE x.form = "angle" -> <<"<">> \o core \o (IF c.k = "noclose" THEN <<>> ELSE <<">">>)
       [] x.form = "named" -> <<"Bob", " ", "<">> \o core \o (IF c.k = "noclose" THEN <<>> ELSE <<">">>)
       [] OTHER -> core
EmailWF(x) == TRUE
EmailCorrs(x) == LET t == EmailToks(x, NoCorr) IN
                 {Corr("insert", i) : i \in {0, Len(t) \div 2, Len(t)}} \cup {Corr(k, i) : k \in {"dropsep", "badsep"}, i \in SepIdx(t, {"@"})}
                 \cup {Corr(k, 0) : k \in {"emptyloc", "emptydom", "leaddotloc", "traildotloc", "traildotdom", "twoat"}}
                 \cup (IF Len(x.loc) > 1 THEN {Corr("twodotloc", 0)} ELSE {}) \cup (IF Len(x.dom) > 1 THEN {Corr("twodotdom", 0)} ELSE {})
                 \cup (IF x.form # "addr" THEN {Corr("noclose", 0)} ELSE {})

\* ---- uri: RFC 3986 section 3: scheme ":" hier-part [ "?" query ] ----------------------------------------
UriSpace == {[kind |-> "hier", scheme |-> sc, host |-> h, port |-> po, path |-> pa, query |-> q] :
               sc \in {"http", "https", "x-a.b+c"}, h \in {"example.com", "a", "127.0.0.1", "[::1]"}, po \in {"", "80", "65535"},
               pa \in {"", "/", "/a/b", "/a%20b", "/~x_y-z.t"}, q \in {"", "q=1&r=%41"}}
            \cup {[kind |-> "opaque", scheme |-> sc, host |-> "", port |-> "", path |-> pa, query |-> ""] :
               sc \in {"mailto", "urn"}, pa \in {"a@b.c", "isbn:123"}}
UriToks(x, c) ==
  LET sc == CASE c.k = "noscheme" -> "" [] c.k = "digitscheme" -> "1" \o x.scheme [] c.k = "badschemechar" -> "ht!" \o x.scheme [] OTHER -> x.scheme
      colon == IF c.k = "nocolon" THEN <<>> ELSE <<":">>
  IN IF x.kind = "opaque" THEN <<sc>> \o colon \o <<x.path>>
     ELSE <<sc>> \o colon \o <<"//", IF c.k = "spacehost" THEN "exa mple" ELSE IF c.k = "pcthost" THEN "a%zzb" ELSE x.host>>
          \o (IF c.k = "badport" THEN <<":", "8x">> ELSE IF x.port = "" THEN <<>> ELSE <<":", x.port>>)
          \o <<IF c.k = "badpct" THEN "/a%zz" ELSE IF c.k = "shortpct" THEN "/a%4" ELSE x.path>>
          \o (IF x.query = "" THEN <<>> ELSE <<"?", x.query>>)
UriWF(x) == TRUE
UriCorrs(x) == LET t == UriToks(x, NoCorr) IN
               {Corr("ctl", i) : i \in {0, Len(t) \div 2, Len(t)}} \cup {Corr(k, 0) : k \in {"noscheme", "digitscheme", "badschemechar", "empty"}}
               \cup (IF x.kind = "hier" THEN {Corr(k, 0) : k \in {"nocolon", "spacehost", "pcthost", "badport", "badpct"}} \cup (IF x.query = "" THEN {Corr("shortpct", 0)} ELSE {}) ELSE {})
UriApply(t, c) == CASE c.k = "ctl" -> InsertAt(t, c.i, 127) [] c.k = "empty" -> <<>> [] OTHER -> t

\* ---- regexp: RE2 syntax; derivations  ["^"] piece [piece] ["|" piece] ["$"],  piece = atom [repetition] -------
ReAtoms == IF Rich THEN {"a", "[ab]", "[^a-c]", ".", "\\d", "(a|b)", "(?:ab)"} ELSE {"a", "[^a-c]", "\\d", "(a|b)"}
ReReps == IF Rich THEN {"", "*", "+", "?", "{2}", "{1,3}", "*?"} ELSE {"", "+", "{1,3}", "*?"}
ReSpace == [s : BOOLEAN, a1 : ReAtoms, r1 : ReReps, a2 : {"", "[ab]"} \cup (IF Rich THEN {"b"} ELSE {}), r2 : {""} \cup (IF Rich THEN {"+"} ELSE {}),
            alt : {"", "(?:ab)*"} \cup (IF Rich THEN {"c"} ELSE {}), e : BOOLEAN]
ReToks(x, c) ==
  (IF x.s THEN <<"^">> ELSE <<>>)
  \o (CASE c.k = "leadrep" -> <<"*">> [] c.k = "unmatchedclose" -> <<")">> [] OTHER -> <<>>)
  \o <<CASE c.k = "unclosedgroup" -> "(a" [] c.k = "unclosedclass" -> "[ab" [] c.k = "revrange" -> "[b-a]" [] OTHER -> x.a1,
       IF c.k = "revrep" THEN "{3,1}" ELSE x.r1>>
  \o (IF x.a2 = "" THEN <<>> ELSE <<x.a2, x.r2>>)
  \o (IF x.alt = "" THEN <<>> ELSE <<"|", x.alt>>)
  \o (IF x.e THEN <<"$">> ELSE <<>>)
  \o (IF c.k = "trailbackslash" THEN <<"\\">> ELSE <<>>)
ReWF(x) == TRUE
ReCorrs(x) == {Corr(k, 0) : k \in {"unmatchedclose", "unclosedgroup", "revrange", "revrep", "trailbackslash"}}
              \cup (IF x.a2 # "[ab]" THEN {Corr("unclosedclass", 0)} ELSE {})      \* no later "]" that would close the class
              \cup (IF ~x.s THEN {Corr("leadrep", 0)} ELSE {})

\* ---- json: RFC 8259 ---------------------------------------------------------------------------------------
JGood == {"null", "true", "false", "0", "-1", "1.5", "1e3", "-0.0E-2", "\"\"", "\"a\"", "\"\\n\\u00e9\""}
JBad == {"01", "1.", ".5", "+1", "1e", "-", "nul", "True", "NaN", "'a'", "\"a", "\"\\x\"", "\"\\u12\""}
JShapes == {"scalar", "arr0", "arr1", "arr2", "obj0", "obj1", "obj2", "nest"}
JsonSpace == [shape : JShapes, s1 : JGood \cup JBad, s2 : {"true", "-1", "\"a\""}, ws : BOOLEAN]
JUses1(sh) == sh \in {"scalar", "arr1", "arr2", "obj1", "obj2", "nest"}
JsonToks(x, c) ==
  LET sp == IF x.ws THEN <<" ">> ELSE <<>>
      key(k) == IF c.k = "barekey" THEN k ELSE "\"" \o k \o "\""
      trail == IF c.k = "trailcomma" THEN <<",">> ELSE <<>>
      lead == IF c.k = "leadcomma" THEN <<",">> ELSE <<>>
      body == CASE x.shape = "scalar" -> <<x.s1>>
                [] x.shape = "arr0"   -> <<"[">> \o sp \o <<"]">>
                [] x.shape = "arr1"   -> <<"[">> \o lead \o sp \o <<x.s1>> \o trail \o <<"]">>
                [] x.shape = "arr2"   -> <<"[">> \o lead \o <<x.s1, ",">> \o sp \o <<x.s2>> \o trail \o <<"]">>
                [] x.shape = "obj0"   -> <<"{">> \o sp \o <<"}">>
                [] x.shape = "obj1"   -> <<"{">> \o lead \o <<key("k"), ":">> \o sp \o <<x.s1>> \o trail \o <<"}">>
                [] x.shape = "obj2"   -> <<"{">> \o lead \o <<key("k"), ":", x.s1, ",">> \o sp \o <<key("l"), ":", "[", x.s2, "]">> \o trail \o <<"}">>
                [] x.shape = "nest"   -> <<"[">> \o lead \o <<"[", x.s1, "]", ",">> \o sp \o <<"{", key("k"), ":", x.s2, "}">> \o trail \o <<"]">>
      t == sp \o body \o sp
  IN CASE c.k = "unclosed" -> SubSeq(t, 1, Len(t) - Len(sp) - 1)
       [] c.k = "unopened" -> SubSeq(t, Len(sp) + 2, Len(t))
       [] c.k = "twovalues" -> t \o <<" ">> \o body
       [] c.k = "empty" -> sp
       [] OTHER -> t
JsonWF(x) == JUses1(x.shape) => x.s1 \in JGood
JsonCorrs(x) == LET t == JsonToks(x, NoCorr) IN
                {Corr("insert", i) : i \in {0, Len(t) \div 2, Len(t)}} \cup {Corr("badsep", i) : i \in SepIdx(t, {",", ":"})} \cup {Corr("twovalues", 0), Corr("empty", 0)}
                \cup (IF x.shape # "scalar" THEN {Corr("unclosed", 0), Corr("unopened", 0)} ELSE {})
                \cup (IF x.shape \notin {"scalar", "arr0", "obj0"} THEN {Corr("trailcomma", 0), Corr("leadcomma", 0)} ELSE {})
                \cup (IF x.shape \in {"obj1", "obj2", "nest"} THEN {Corr("barekey", 0)} ELSE {})

---------------------------------------------------------------------------
\* dispatch per family
Space(f) == CASE f = "date" -> DateSpace [] f = "date-time" -> DTSpace [] f = "rfc1123" -> RSpace [] f = "ipv4" -> V4Space
              [] f = "ipv6" -> V6Space [] f = "cidr" -> CidrSpace [] f = "mac" -> MacSpace [] f = "uuid" -> UuidSpace
              [] f = "hostname" -> HostSpace [] f = "email" -> EmailSpace [] f = "uri" -> UriSpace [] f = "regexp" -> ReSpace [] f = "json" -> JsonSpace
WF(f, x) == CASE f = "date" -> DateWF(x) [] f = "date-time" -> DTWF(x) [] f = "rfc1123" -> RWF(x) [] f = "ipv4" -> V4WF(x)
              [] f = "ipv6" -> V6WF(x) [] f = "cidr" -> CidrWF(x) [] f = "mac" -> MacWF(x) [] f = "uuid" -> UuidWF(x)
              [] f = "hostname" -> HostWF(x) [] f = "email" -> EmailWF(x) [] f = "uri" -> UriWF(x) [] f = "regexp" -> ReWF(x) [] f = "json" -> JsonWF(x)
Corrs(f, x) == CASE f = "date" -> DateCorrs(x) [] f = "date-time" -> DTCorrs(x) [] f = "rfc1123" -> RCorrs(x) [] f = "ipv4" -> V4Corrs(x)
              [] f = "ipv6" -> V6Corrs(x) [] f = "cidr" -> CidrCorrs(x) [] f = "mac" -> MacCorrs(x) [] f = "uuid" -> UuidCorrs(x)
              [] f = "hostname" -> HostCorrs(x) [] f = "email" -> EmailCorrs(x) [] f = "uri" -> UriCorrs(x) [] f = "regexp" -> ReCorrs(x) [] f = "json" -> JsonCorrs(x)
\* the character that is illegal everywhere in the format
Ill(f) == IF f = "email" THEN "," ELSE "!"
Render(f, x, c) ==
  CASE f = "date" -> ApplyGeneric(DateToks(x, c), c, Ill(f)) [] f = "date-time" -> ApplyGeneric(DTToks(x, c), c, Ill(f))
    [] f = "rfc1123" -> ApplyGeneric(RToks(x, c), c, Ill(f)) [] f = "ipv4" -> ApplyGeneric(V4Toks(x), c, Ill(f))
    [] f = "ipv6" -> ApplyGeneric(V6Toks(x, c), c, Ill(f)) [] f = "cidr" -> ApplyGeneric(CidrToks(x, c), c, Ill(f))
    [] f = "mac" -> ApplyGeneric(MacToks(x, c), c, Ill(f)) [] f = "uuid" -> ApplyGeneric(UuidToks(x, c), c, Ill(f))
    [] f = "hostname" -> HostApply(HostToks(x), c) [] f = "email" -> ApplyGeneric(EmailToks(x, c), c, Ill(f))
    [] f = "uri" -> UriApply(UriToks(x, c), c) [] f = "regexp" -> ReToks(x, c) [] f = "json" -> ApplyGeneric(JsonToks(x, c), c, Ill(f))
\* which formats are asked about the text of an instance of family f
Asked(f) == IF f \in {"ipv4", "ipv6"} THEN {"ipv4", "ipv6", "ip"} ELSE {f}

\* THE DESIGN: well-formed and undamaged
Intended(f, x, c) == WF(f, x) /\ c.k = "none"
\* what ValidateFormat(text, a) answers for the text of (f, x, c), under the deviations `devs`
Accepts(a, f, x, c, t, devs) ==
  CASE a = "ip" -> Intended(f, x, c)
    [] a = "ipv4" -> f = "ipv4" /\ Intended(f, x, c)
    [] a = "ipv6" -> f = "ipv6" /\ Intended(f, x, c)
    [] a = "hostname" /\ "format.hostname_unanchored" \in devs -> UnanchoredAccepts(t)
    [] a = "uuid" /\ "format.uuid_brace_unchecked" \in devs -> Intended(f, x, c) \/ (WF(f, x) /\ c.k \in {"bracel", "bracer"})
    [] a = "date-time" /\ OneDigitHour \in devs -> Intended(f, x, c) \/ (WF(f, x) /\ c = Corr("short", 7))
    [] a = "rfc1123" /\ OneDigitHour \in devs -> Intended(f, x, c) \/ (WF(f, x) /\ c = Corr("short", 9))
    [] OTHER -> Intended(f, x, c)
Verdicts(f, x, c, t, devs) == [a \in Asked(f) |-> Accepts(a, f, x, c, t, devs)]

---------------------------------------------------------------------------
VARIABLES fmt, inst, corr, toks, verdict, pc
vars == <<fmt, inst, corr, toks, verdict, pc>>
Init == /\ fmt \in Formats
        /\ inst \in Space(fmt)
        /\ corr \in (IF WF(fmt, inst) THEN Corrs(fmt, inst) \cup {NoCorr} ELSE {NoCorr})
        /\ toks = <<>> /\ verdict = [a \in {} |-> FALSE] /\ pc = "render"
DoRender == /\ pc = "render" /\ toks' = Render(fmt, inst, corr) /\ pc' = "validate"
            /\ UNCHANGED <<fmt, inst, corr, verdict>>
\* ValidateFormat: one branch per family (the ip family answers three formats from one parse)
Validate(f) == /\ pc = "validate" /\ fmt = f
               /\ verdict' = Verdicts(fmt, inst, corr, toks, Deviations) /\ pc' = "done"
               /\ UNCHANGED <<fmt, inst, corr, toks>>
Next == DoRender \/ \E f \in AllFamilies : Validate(f)
Spec == Init /\ [][Next]_vars

---------------------------------------------------------------------------
Done == pc = "done"
\* accept exactly the well-formed instances of the named format
VerdictIsIntended == Done => verdict[IF fmt \in {"ipv4", "ipv6"} THEN fmt ELSE fmt] = Intended(fmt, inst, corr)
\* every single-point corruption and every out-of-range field is rejected
MalformedRejected == Done /\ (corr.k # "none" \/ ~WF(fmt, inst)) => \A a \in DOMAIN verdict : ~verdict[a]
\* an IP is an IPv4 or an IPv6 address and never both
IPRelation == Done /\ fmt \in {"ipv4", "ipv6"} =>
                 /\ verdict["ip"] <=> (verdict["ipv4"] \/ verdict["ipv6"])
                 /\ ~(verdict["ipv4"] /\ verdict["ipv6"])
\* the text changes whenever a corruption is applied (no vacuous corruption)
CorruptionBites == Done /\ corr.k # "none" => toks # Render(fmt, inst, NoCorr)
=============================================================================
